#!/usr/bin/env python3
"""Generates /verif/MANIFEST.json from the table below. A property is claimed
only when its check program exists under harness/cmd/<id>."""
import json, os, subprocess
ROOT = os.path.dirname(os.path.dirname(os.path.abspath(__file__)))

META = {
 "C01": ("online grammar automaton in a recording observer over generated hostile scripts; dropped-notification hook conservation",
         "Held on the executions produced: every catalogue operator under every producer script (illegal suffixes included) in a small exhaustive scope, random chains, and concurrent producers into safe observables/subjects.",
         "the recording observer is a hand-written ro.Observer (no status word of its own); unsafe observables are never driven concurrently", "§5 C01"),
 "C02": ("enter/exit overlap counter inside every recorder callback under concurrent sequential sources with seeded yields at the library's lock boundaries",
         "Held on the schedules produced by 2-8 concurrently emitting sources, 16 cores and seeded yields; evidence reports contention actually observed.",
         "each harness source is sequential; a dwell never calls back into the library", "§5 C02"),
 "C03": ("per-teardown counters, source live gauges and goroutine-stack scan after quiescence",
         "Held on every operator × ending × cut position explored and on the racing subscription scenarios.",
         "goroutines about to exit are waited for; only stable presence is reported", "§5 C03"),
 "C04": ("trace of the real operator compared with an executable reference model; snapshot-at-delivery vs end-of-run re-fingerprint",
         "Exhaustive within the stated small scope (all legal scripts up to the bound × endings × modes for every modelled entry), sampled beyond it (chains, long scripts).",
         "reference models follow doc comments and pinned examples/tests (DESIGN §7.3)", "§5 C04"),
 "C05": ("stepwise trace vs small-step reference model over all interleavings of puppet sources; linearization search for free-running runs",
         "Exhaustive over interleavings of short source scripts; concurrent runs are accepted iff some interleaving explains them.",
         "small-step models follow the property statement and pinned tests", "§5 C05"),
 "C06": ("logical clock shared by harness call/return events and recorder events",
         "Held on every operator × cut position × caller placement explored.", "only emissions that began after Unsubscribe returned are judged", "§5 C06"),
 "C07": ("fault injection at every user-callback position × invocation index; recover at the harness boundary; unhandled-error hook capture",
         "Every (callback position, invocation index, fault kind) of every catalogue entry in scope is enumerated.",
         "expected prefix = reference model truncated at the fault", "§5 C07"),
 "C08": ("delivery count and goroutine id sampled when each producer-side Next returns; gated consumer for hand-off operators",
         "Held on every synchronous operator × script and hand-off capacity × gate schedule explored.", "logical (clock-free) measurement", "§5 C08"),
 "C09": ("context probes between stages and in the recorder; instrumented sources record the subscription ctx",
         "Held on every operator × ending × notification kind explored.", "storing operators may carry the ctx of any contributing notification", "§5 C09"),
 "C10": ("sequential reference model after each operation; recorded concurrent histories checked for linearizability (porcupine)",
         "Exhaustive over operation sequences up to the bound per subject kind; thousands of short concurrent histories.",
         "history recorded at the public methods; unique values", "§5 C10"),
 "C11": ("instrumented source asserting live<=1 at subscription; share/connect reference model",
         "Exhaustive over event sequences up to the bound per configuration; concurrent runs check invariants.", "model from ShareConfig/ConnectableConfig docs", "§5 C11"),
 "C12": ("differential: n-th / concurrent subscription vs fresh pipeline; operator value applied to several sources vs fresh operator",
         "Held on every operator and random chains explored.", "deterministic cold sources; hot constructs exempt", "§5 C12"),
 "C13": ("Go race detector over synchronisation-free concurrent scenarios; reports attributed to /repo files",
         "No report on the scenarios × seeds executed; a race detector only sees executions that happen.", "harness observers contain no synchronisation in these runs", "§5 C13"),
 "C14": ("never-ending controllable source: teardown counter after downstream termination and quiescence; hang decided by blocked-goroutine proof / re-subscription budget",
         "Held on every operator × early-terminating downstream × cut position explored.", "watchdog expiry alone is inconclusive", "§5 C14"),
 "C15": ("scripted attempts source with live gauge asserted at subscription; attempt-count reference model",
         "Exhaustive over outcome sequences up to the bound × configurations.", "model from the operators' doc comments", "§5 C15"),
 "C16": ("monotonic timestamps at emission and delivery; lower bounds and order/count relations only",
         "Held on the seeded timelines explored; load can only delay, which lower bounds tolerate.", "no upper bounds on time are asserted", "§5 C16"),
 "C17": ("gated channel reader, closed-state probe, recover around channel operations, reference model of materialised trace",
         "Held on scripts × capacities × reader schedules × cut positions explored.", "a caught send-on-closed is permitted by the statement", "§5 C17"),
 "C18": ("item-by-item differential against the wrapped standard-library function, sibling flavour and round trip; input/output snapshots",
         "Held on boundary corpora and seeded random inputs.", "the standard library is the oracle", "§5 C18"),
 "C19": ("differential plain vs instrumented pipeline; counters scraped from the returned collector compared with harness-side event counts",
         "Held on generated PipeN call sites × scripts × subscriptions, licence on/off.", "licence bypass via verif-only setter", "§5 C19"),
 "C20": ("per-key bookkeeping from timestamps at emission and delivery; alignment-independent quota bound; long-window determinism",
         "Held on seeded timelines × quotas × windows explored.", "bound q*(floor(L/w)+2) as stated by the property", "§5 C20"),
}

def level_of(d):
    """the level the check itself writes into its evidence (driver.Property.Level in its main.go)"""
    import re
    m = re.search(r'Level:\s*"(\w+)"', open(os.path.join(d, "main.go")).read())
    return m.group(1) if m else "exploration"


def main():
    props = [json.loads(l) for l in open(os.path.join(ROOT, "properties.jsonl"))]
    checks, na = [], []
    for p in props:
        pid = p["id"]
        d = os.path.join(ROOT, "harness", "cmd", pid.lower())
        tech, text, note, ref = META[pid]
        if os.path.isdir(d):
            checks.append({
                "property_id": pid,
                "quick_cmd": f"scripts/check.sh {pid} quick",
                "thorough_cmd": f"scripts/check.sh {pid} thorough",
                "evidence_file": f"/verif/evidence/{pid}.json",
                "replay_cmd_template": f"bin/{pid.lower()} --replay {{path}}",
                "engine": "verifharness",
                "level_claimed": {"category": level_of(d), "text": text, "design_ref": "DESIGN.md " + ref},
                "level_note": note,
                "technique": "runtime monitoring: " + tech,
            })
        else:
            na.append({"property_id": pid, "reason": "check not built yet in this round (runtime-monitoring design in DESIGN.md " + ref + "); not claimed until its monitor exists"})
    commits = subprocess.run(["git", "-C", "/repo", "log", "--format=%H %s"], capture_output=True, text=True).stdout.splitlines()
    hook_commits = [c.split()[0] for c in commits if c.split(" ", 1)[1].startswith("verif:")]
    man = {
        "version": 1,
        "setup_cmd": "scripts/setup.sh",
        "hooks": {
            "guard": "verif",
            "enable": "go build -tags verif (harness module /verif/harness with replace directives to /repo)",
            "baseline_off_cmd": "scripts/baseline_off.sh",
            "source_commits": hook_commits,
            "add_only": True,
        },
        "engines": [{"name": "verifharness", "path": "/verif/harness", "serves_properties": [c["property_id"] for c in checks],
                     "kind_free_text": "Go harness: recording observers, instrumented sources, operator catalogue with reference models, hook-point scheduler, quiescence detector, race detector, porcupine"}],
        "checks": checks,
        "not_applicable": na,
        "notes": "All checks are runtime monitors over executions of the real library built from /repo's working tree with -tags verif. Known findings: /verif/known_findings.json.",
    }
    json.dump(man, open(os.path.join(ROOT, "MANIFEST.json"), "w"), indent=1)
    print("claimed:", [c["property_id"] for c in checks])

main()
