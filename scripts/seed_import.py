#!/usr/bin/env python3
"""Stores a confirmed seeded change under /verif/seeded/<id>/.

usage: seed_import.py <worker dir with patch.diff, demo/, meta.json> <id> <module dir of the demo>
                      --confirm "<mutconfirm output>" [--caught C01,C10] [--missed C02] [--note "..."]

meta.json keeps: property, what the change is, what it needs to manifest, what was run to confirm it
(by the worker and by us), and which checks of /verif catch it (caught_by) / were run and stay silent.
"""
import argparse, json, os, shutil, sys

ap = argparse.ArgumentParser()
ap.add_argument("src"); ap.add_argument("id"); ap.add_argument("module", nargs="?", default=".")
ap.add_argument("--confirm", default=""); ap.add_argument("--caught", default=""); ap.add_argument("--missed", default="")
ap.add_argument("--keys", default=""); ap.add_argument("--note", default="")
a = ap.parse_args()
root = os.path.dirname(os.path.dirname(os.path.abspath(__file__)))
dst = os.path.join(root, "seeded", a.id)
os.makedirs(os.path.join(dst, "demo"), exist_ok=True)
shutil.copy(os.path.join(a.src, "patch.diff"), os.path.join(dst, "patch.diff"))
for f in os.listdir(os.path.join(a.src, "demo")):
    if f.endswith(".go"):
        shutil.copy(os.path.join(a.src, "demo", f), os.path.join(dst, "demo", f))
w = json.load(open(os.path.join(a.src, "meta.json")))
old = {}
if os.path.exists(os.path.join(dst, "meta.json")):
    old = json.load(open(os.path.join(dst, "meta.json")))
meta = {
    "id": a.id,
    "property": w.get("property"),
    "summary": w.get("summary"),
    "needs_to_manifest": w.get("needs_to_manifest"),
    "files_changed": w.get("files_changed"),
    "demo": {"module_dir": a.module, "files": sorted(f for f in os.listdir(os.path.join(dst, "demo"))),
             "run": "copy demo/*.go into <repo>/%s and run `go test -count=1 -vet=off -run '<TestZZ…>' .` there" % a.module},
    "worker_ran": {k: w.get(k) for k in ("demo_run_command", "suite_command", "demo_fails_with_change", "demo_passes_without_change", "suite_passes_with_change") if k in w},
    "confirmed_by_us": {
        "how": "scripts/mutconfirm.sh <dir> %s — scratch worktree of /repo HEAD: patch applied, demonstration run (must fail), unedited suite of the module run (must pass; timing tests that flake under load rerun alone), patch reverted, demonstration run again (must pass)" % a.module,
        "result": a.confirm.strip().split("\n") if a.confirm else old.get("confirmed_by_us", {}).get("result"),
    },
    "checks_run": "scripts/mutrun.sh seeded/%s/patch.diff quick <checks> (scratch worktree + alternate go.mod; /repo untouched)" % a.id,
    "caught_by": [x for x in a.caught.split(",") if x] or old.get("caught_by", []),
    "silent": [x for x in a.missed.split(",") if x] or old.get("silent", []),
    "violation_keys": [x for x in a.keys.split(";") if x] or old.get("violation_keys", []),
}
if a.note or old.get("note"):
    meta["note"] = a.note or old.get("note")
json.dump(meta, open(os.path.join(dst, "meta.json"), "w"), indent=1, ensure_ascii=False)
print("stored", dst)
