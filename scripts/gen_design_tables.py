#!/usr/bin/env python3
"""Rewrites the generated part of DESIGN.md (between the AUTOGEN markers) from
known_findings.json, /repo's git log and seeded/*/meta.json."""
import json, os, subprocess, glob, re
ROOT = os.path.dirname(os.path.dirname(os.path.abspath(__file__)))
kf = json.load(open(os.path.join(ROOT, "known_findings.json")))
log = subprocess.run(["git", "-C", "/repo", "log", "--reverse", "--format=%h %s"], capture_output=True, text=True).stdout.splitlines()
out = []
out.append("### 10.3 Commits made to /repo\n")
out.append("| commit | kind | subject |\n|---|---|---|")
for l in log:
    h, s = l.split(" ", 1)
    if s.startswith("verif:"):
        out.append(f"| {h} | hook (guard `verif`) | {s[6:].strip()} |")
    elif s.startswith("fix:"):
        out.append(f"| {h} | fix | {s[4:].strip()} |")
out.append("\n### 10.4 Genuine defects repaired (`fixed:` entries of known_findings.json)\n")
out.append("| property | finding key that exposed it | commit | what failed |\n|---|---|---|---|")
for k in kf:
    if k["status"] == "fixed":
        out.append(f"| {k['property']} | `{k['key']}` | {k.get('commit','')} | {k['what'].replace('|','/')} |")
out.append("\n### 10.5 Genuine defects recorded, not repaired (`known` entries)\n")
out.append("| property | finding key | what fails and why it is not repaired |\n|---|---|---|")
for k in kf:
    if k["status"] == "known":
        out.append(f"| {k['property']} | `{k['key']}` | {k['what'].replace('|','/')} |")
metas = sorted(glob.glob(os.path.join(ROOT, "seeded", "*", "meta.json")))
if metas:
    out.append("\n### 10.6 Seeded changes (independent sub-agents) and the checks that catch them\n")
    out.append("Each change was produced by a sub-agent that saw only the text of one property and a scratch worktree; each was "
               "confirmed by us (scripts/mutconfirm.sh: applies, demonstration fails with it and passes without it, the unedited "
               "suite passes) and run through the checks with scripts/mutrun.sh / scripts/mutmatrix.py on a scratch copy. "
               "'silent' lists the checks that were run against the change and did not fire (they guard other properties). "
               "The note says where a check had to be strengthened because the change was missed at first.\n")
    out.append("| seeded change | breaks | what it changes | needs to manifest | caught by (quick tier) | run, silent | note |\n|---|---|---|---|---|---|---|")
    def cut(x, n=280):
        x = str(x).replace("|", "/").replace("\n", " ")
        return x if len(x) <= n else x[:n] + "…"
    for m in metas:
        d = json.load(open(m))
        out.append(f"| {os.path.basename(os.path.dirname(m))} | {d.get('property','')} | {cut(d.get('summary',''))} | {cut(d.get('needs_to_manifest',''))} | {' '.join(d.get('caught_by',[]))} | {' '.join(d.get('silent',[]))} | {cut(d.get('note',''), 400)} |")
text = "\n".join(out) + "\n"
p = os.path.join(ROOT, "DESIGN.md")
s = open(p).read()
a, b = "<!-- AUTOGEN:BEGIN -->", "<!-- AUTOGEN:END -->"
if a in s:
    s = s[:s.index(a) + len(a)] + "\n" + text + s[s.index(b):]
else:
    s += "\n" + a + "\n" + text + b + "\n"
open(p, "w").write(s)
print("DESIGN.md tables regenerated")
