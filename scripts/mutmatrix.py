#!/usr/bin/env python3
"""Runs checks against seeded changes (scratch worktrees via mutrun.sh; /repo is never touched) and
records in seeded/<id>/meta.json which checks catch each one.

usage: mutmatrix.py [--tier quick] [--checks C01,C02|own|all] <seeded id> ...   (no ids: all)
"""
import argparse, json, os, re, subprocess, sys
root = os.path.dirname(os.path.dirname(os.path.abspath(__file__)))
ap = argparse.ArgumentParser()
ap.add_argument("--tier", default="quick"); ap.add_argument("--checks", default="own"); ap.add_argument("ids", nargs="*")
a = ap.parse_args()
allchecks = sorted(d.upper() for d in os.listdir(os.path.join(root, "harness", "cmd")) if re.fullmatch(r"c\d\d", d))
ids = a.ids or sorted(os.listdir(os.path.join(root, "seeded")))
for mid in ids:
    mdir = os.path.join(root, "seeded", mid)
    meta = json.load(open(os.path.join(mdir, "meta.json")))
    if a.checks == "all":
        checks = allchecks
    elif a.checks == "own":
        checks = [meta["property"]]
    elif a.checks == "family":  # core changes against the 17 core checks, plugin changes against the plugin checks
        core = [c for c in allchecks if c <= "C17"]
        checks = core if meta["property"] <= "C17" else [c for c in allchecks if c > "C17"]
    else:
        checks = a.checks.split(",")
    out = subprocess.run([os.path.join(root, "scripts", "mutrun.sh"), os.path.join(mdir, "patch.diff"), a.tier] + checks,
                         capture_output=True, text=True).stdout
    caught, silent, keys = set(meta.get("caught_by", [])), set(meta.get("silent", [])), set(meta.get("violation_keys", []))
    for line in out.splitlines():
        m = re.match(r"MUT (C\d\d) exit=(\d+) violations=(\d+) .*?keys: (.*)$", line)
        if not m:
            if line.strip():
                print("   ", line[:300])
            continue
        cid, code, nv, ks = m.group(1), int(m.group(2)), int(m.group(3)), m.group(4)
        if code == 1 and nv > 0:
            caught.add(cid); silent.discard(cid)
            for k in ks.split(";"):
                k = re.sub(r"\(\d+\)$", "", k.strip())
                if k:
                    keys.add(k)
        elif code == 0:
            if cid not in caught:
                silent.add(cid)
        else:
            print("   ", line[:300])
        print(f"{mid:8s} {cid} exit={code} violations={nv} {ks[:200]}")
    meta["caught_by"], meta["silent"], meta["violation_keys"] = sorted(caught), sorted(silent - caught), sorted(keys)[:12]
    json.dump(meta, open(os.path.join(mdir, "meta.json"), "w"), indent=1, ensure_ascii=False)
