#!/bin/bash
# Runs checks against a patched COPY of the repository (never touches /repo):
#   scripts/mutrun.sh <patch.diff> <tier> <Cxx> [<Cyy> ...]
# A scratch worktree of /repo HEAD is created under /tmp, the patch applied, the
# harness built with an alternate go.mod whose replace directives point to it,
# and the checks run with a scratch VERIF_ROOT. Everything is removed afterwards.
set -u
PATCH="$1"; TIER="$2"; shift 2
HERE="$(cd "$(dirname "$0")/.." && pwd)"
export GOFLAGS=-mod=mod GOPROXY=off GOSUMDB=off GOTOOLCHAIN=local
TAG="mut$$"
# the copy lives in a directory named "repo": stack and race-report attribution looks for "/repo/" in file paths
WT="/tmp/$TAG-wt/repo"; VR="/tmp/$TAG-verif"; BIN="/tmp/$TAG-bin"
cleanup() { git -C /repo worktree remove --force "$WT" >/dev/null 2>&1; rm -rf "$WT" "/tmp/$TAG-wt" "$VR" "$BIN" "/tmp/$TAG.mod" "/tmp/$TAG.sum"; }
trap cleanup EXIT
mkdir -p "/tmp/$TAG-wt"; git -C /repo worktree add --detach "$WT" HEAD >/dev/null 2>&1 || { echo "worktree failed"; exit 2; }
# patches are taken against the tree the worker saw; later fix commits may have moved the context: fall back to a 3-way merge
if ! git -C "$WT" apply "$PATCH" 2>/tmp/$TAG.err && ! git -C "$WT" apply --3way "$PATCH" 2>>/tmp/$TAG.err; then echo "PATCH-DOES-NOT-APPLY $(head -2 /tmp/$TAG.err)"; rm -f /tmp/$TAG.err; exit 3; fi
rm -f /tmp/$TAG.err
sed "s#=> /repo#=> $WT#" "$HERE/harness/go.mod" > "/tmp/$TAG.mod"; cp "$HERE/harness/go.sum" "/tmp/$TAG.sum"
mkdir -p "$VR/evidence" "$BIN"; cp "$HERE/known_findings.json" "$VR/"
rc=0
for ID in "$@"; do
  id=$(echo "$ID" | tr 'A-Z' 'a-z')
  ( cd "$HERE/harness" && go build -modfile="/tmp/$TAG.mod" -tags verif -o "$BIN/$id" "./cmd/$id" ) 2>"$BIN/$id.log" || { echo "MUT $ID BUILD-FAILED: $(head -3 $BIN/$id.log | tr '\n' ' ')"; rc=4; continue; }
  RACE=""
  if [ -f "$HERE/harness/cmd/$id/.race" ] || [ "$TIER" = thorough -a -f "$HERE/harness/cmd/$id/.race-thorough" ]; then
    ( cd "$HERE/harness" && go build -modfile="/tmp/$TAG.mod" -race -tags verif -o "$BIN/$id.race" "./cmd/$id" ) 2>>"$BIN/$id.log" && RACE="--race-bin $BIN/$id.race"
  fi
  VERIF_ROOT="$VR" "$BIN/$id" --tier "$TIER" --seed "${VERIF_SEED:-1}" $RACE > "$BIN/$id.out" 2>&1
  code=$?
  nv=$(grep -c '^VIOLATION' "$BIN/$id.out")
  keys=$(grep '^VIOLATION' "$BIN/$id.out" | sed -E 's/.* key=(.*) case=.*/\1/' | sort | uniq -c | sort -rn | head -6 | sed -E 's/^ *([0-9]+) (.*)$/\2(\1)/' | tr '\n' ';')
  sum=$(grep '^SUMMARY' "$BIN/$id.out" | sed -E 's/.*(new_violations=[0-9]+ wall=[0-9.]+s)/\1/')
  echo "MUT $ID exit=$code violations=$nv $sum keys: $keys"
  grep -E '^BROKEN' "$BIN/$id.out" | head -2
done
exit $rc
