#!/bin/bash
# Confirms a seeded change delivered by a mutation worker, in a scratch worktree (never /repo):
#   scripts/mutconfirm.sh <dir with patch.diff, demo/, meta.json> [module dir relative to repo root, default .]
# Prints: APPLY ok|fail, DEMO-WITH fail|pass (want fail), SUITE pass|fail (want pass: only the
# always-failing ExampleFuture_ok tolerated), DEMO-WITHOUT pass|fail (want pass).
set -u
D="$(cd "$1" && pwd)"; MOD="${2:-.}"
export GOPROXY=off GOSUMDB=off GOTOOLCHAIN=local GOFLAGS=
WT="/tmp/mc$$-repo"
cleanup() { git -C /repo worktree remove --force "$WT" >/dev/null 2>&1; rm -rf "$WT"; }
trap cleanup EXIT
git -C /repo worktree add --detach "$WT" HEAD >/dev/null 2>&1 || { echo "worktree failed"; exit 2; }
if git -C "$WT" apply "$D/patch.diff" 2>/dev/null || git -C "$WT" apply --3way "$D/patch.diff" 2>/dev/null; then echo "APPLY ok"; else echo "APPLY fail"; exit 3; fi
cp "$D"/demo/*.go "$WT/$MOD/" 2>/dev/null
tests=$(grep -hoE '^func (Test[A-Za-z0-9_]+)' "$D"/demo/*.go | awk '{print $2}' | grep -v '^TestMain$' | paste -sd'|')
rundemo() { ( cd "$WT/$MOD" && go test ${DEMO_FLAGS:-} -count=1 -vet=off -timeout 5m -run "^($tests)\$" . > "$1" 2>&1 ); }
rundemo /tmp/mc$$.with; w=$?
[ $w -ne 0 ] && echo "DEMO-WITH fail (as wanted)" || echo "DEMO-WITH pass (NOT wanted)"
rm -f "$WT/$MOD"/zz_* ; for f in "$D"/demo/*.go; do rm -f "$WT/$MOD/$(basename $f)"; done
( cd "$WT/$MOD" && go test -count=1 -vet=off -timeout 8m ./... 2>&1 | grep -E '^(--- FAIL|FAIL|ok|panic)' > /tmp/mc$$.suite )
bad=$(grep -E '^--- FAIL' /tmp/mc$$.suite | grep -v 'ExampleFuture_ok' | awk '{print $3}' | paste -sd' ')
if [ -n "$bad" ]; then
  # timing tests flake under load: rerun the failing ones alone
  re=$(echo "$bad" | tr ' ' '|')
  if ( cd "$WT/$MOD" && go test -count=2 -vet=off -timeout 5m -run "^($re)\$" . >/tmp/mc$$.rerun 2>&1 ); then echo "SUITE pass (after rerun alone of: $bad)"; else echo "SUITE fail: $bad"; fi
else
  grep -q '^panic' /tmp/mc$$.suite && echo "SUITE panic" || echo "SUITE pass"
fi
if [ "${ALSO_ROOT:-0}" = 1 ] && [ "$MOD" != . ]; then
  ( cd "$WT" && go test -count=1 -vet=off -timeout 8m ./... 2>&1 | grep -E '^--- FAIL' | grep -v ExampleFuture_ok | awk '{print $3}' | paste -sd' ' > /tmp/mc$$.root )
  rb=$(cat /tmp/mc$$.root)
  if [ -n "$rb" ]; then re=$(echo "$rb" | tr ' ' '|'); ( cd "$WT" && go test -count=2 -vet=off -timeout 5m -run "^($re)\$" . >/dev/null 2>&1 ) && echo "ROOT-SUITE pass (after rerun alone of: $rb)" || echo "ROOT-SUITE fail: $rb"; else echo "ROOT-SUITE pass"; fi
fi
git -C "$WT" reset -q --hard HEAD ; cp "$D"/demo/*.go "$WT/$MOD/"
rundemo /tmp/mc$$.without; wo=$?
[ $wo -eq 0 ] && echo "DEMO-WITHOUT pass (as wanted)" || { echo "DEMO-WITHOUT fail (NOT wanted)"; tail -5 /tmp/mc$$.without; }
rm -f /tmp/mc$$.*
