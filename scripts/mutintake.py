#!/usr/bin/env python3
"""Intake of a mutation worker's deliverables: confirm every change (scripts/mutconfirm.sh), store the
confirmed ones under seeded/<id>/ (scripts/seed_import.py) and run the check of the targeted property
against them (scripts/mutmatrix.py --checks own).

usage: mutintake.py <deliverables dir, e.g. /tmp/mutwt2/C07-out> <id prefix, e.g. C07-w2>
"""
import json, os, re, subprocess, sys
root = os.path.dirname(os.path.dirname(os.path.abspath(__file__)))
out, prefix = sys.argv[1], sys.argv[2]
for m in sorted(os.listdir(out)):
    d = os.path.join(out, m)
    if not (os.path.isdir(d) and os.path.exists(os.path.join(d, "patch.diff")) and os.path.isdir(os.path.join(d, "demo"))):
        continue
    demos = [f for f in os.listdir(os.path.join(d, "demo")) if f.endswith(".go")]
    if not demos:
        print(m, "NO DEMO"); continue
    mod = "."
    head = open(os.path.join(d, "demo", demos[0])).read(600)
    mm = re.search(r"[Cc]op(?:y|ied) (?:it )?(?:in)?to (?:<repo(?: root)?>/)?([\w./-]+?)/?[\w.-]*\.go", head)
    if mm and mm.group(1) not in ("", ".") and not mm.group(1).startswith("/tmp") and "repo root" not in mm.group(1):
        cand = mm.group(1).strip("/")
        if os.path.exists(os.path.join("/repo", cand, "go.mod")):
            mod = cand
    if mod == ".":
        # a change inside a plugin / ee module: the demonstration lives there
        files = re.findall(r"^diff --git a/(\S+)", open(os.path.join(d, "patch.diff")).read(), re.M)
        pkg = open(os.path.join(d, "demo", demos[0])).read(2000)
        pm = re.search(r"^package (\w+)", pkg, re.M)
        if pm and pm.group(1) not in ("ro", "ro_test"):
            for f in files:
                p = os.path.dirname(f)
                while p and not os.path.exists(os.path.join("/repo", p, "go.mod")):
                    p = os.path.dirname(p)
                if p:
                    mod = p
                    break
    env = dict(os.environ)
    flags = open(os.path.join(d, "demo", demos[0])).read(800)
    if "-race" in flags:
        env["DEMO_FLAGS"] = "-race"
    if mod != ".":
        env["ALSO_ROOT"] = "1"
    r = subprocess.run([os.path.join(root, "scripts", "mutconfirm.sh"), d, mod], capture_output=True, text=True, env=env).stdout
    lines = [l for l in r.strip().split("\n") if l]
    ok = any("DEMO-WITH fail" in l for l in lines) and any(l.startswith("SUITE pass") for l in lines) and any("DEMO-WITHOUT pass" in l for l in lines) and not any(l.startswith("ROOT-SUITE fail") for l in lines)
    mid = f"{prefix}-{m}"
    print(mid, "module", mod, "CONFIRMED" if ok else "NOT-CONFIRMED", lines)
    if not ok:
        continue
    subprocess.run(["python3", os.path.join(root, "scripts", "seed_import.py"), d, mid, mod, "--confirm", "\n".join(lines)])
    print(subprocess.run(["python3", os.path.join(root, "scripts", "mutmatrix.py"), "--checks", "own", mid], capture_output=True, text=True).stdout.strip()[:600])
