#!/bin/bash
# Builds every check binary once (warms the Go build cache). Offline.
set -u
HERE="$(cd "$(dirname "$0")/.." && pwd)"
export GOFLAGS=-mod=mod GOPROXY=off GOSUMDB=off GOTOOLCHAIN=local
mkdir -p "$HERE/bin" "$HERE/evidence"
cd "$HERE/harness" || exit 1
rc=0
# every exported operator of package ro must have a catalogue entry or a reasoned exclusion
go run -tags verif ./cmd/catcov || rc=1
for d in cmd/c[0-9]*/; do
  id=$(basename "$d")
  go build -tags verif -o "$HERE/bin/$id" "./$d" || rc=1
  if [ -f "$d/.race" ]; then go build -race -tags verif -o "$HERE/bin/$id.race" "./$d" || rc=1; fi
done
exit $rc
