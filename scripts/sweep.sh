#!/bin/bash
# Usage: scripts/sweep.sh <tier> <first-seed> <last-seed> [Cxx ...]   — runs checks over several seeds, prints only problems
TIER="$1"; A="$2"; B="$3"; shift 3
HERE="$(cd "$(dirname "$0")/.." && pwd)"
IDS="$@"; [ -z "$IDS" ] && IDS=$(ls "$HERE/harness/cmd" | grep -E '^c[0-9]+$' | tr 'a-z' 'A-Z')
for id in $IDS; do
  for s in $(seq "$A" "$B"); do
    out=$(VERIF_SEED=$s "$HERE/scripts/check.sh" "$id" "$TIER" 2>&1); code=$?
    sum=$(echo "$out" | grep '^SUMMARY' | sed -E 's/.*(inconclusive=[0-9]+ known=[0-9]+ new_violations=[0-9]+ wall=[0-9.]+s)/\1/')
    echo "SWEEP $id seed=$s exit=$code $sum"
    if [ $code -ne 0 ]; then echo "$out" | grep -E '^(VIOLATION|BROKEN)' | cut -c1-400 | head -5; fi
  done
done
