#!/bin/bash
# Runs the repository's own test suite with the `verif` guard OFF (no build tag)
# and checks that every test listed as stable_pass in BASELINE.json passes.
# Usage: scripts/baseline_off.sh [outfile.json]
set -u
HERE="$(cd "$(dirname "$0")" && pwd)"
OUT="${1:-/tmp/verif-baseline-$$.json}"
export GOPROXY=off GOSUMDB=off GOTOOLCHAIN=local
: > "$OUT"
for m in $(cat "$HERE/gomods.txt"); do
  (
    cd "/repo/$m" || exit 0
    gw=$(go env GOWORK 2>/dev/null)
    MF=""
    if [ -z "$gw" ] || [ "$gw" = off ]; then MF="-mod=mod"; fi
    go test $MF -json -vet=off -count=1 -timeout 25m ./... >> "$OUT" 2>/dev/null
  )
done
# restore files the go tool may have rewritten in workspace mode
git -C /repo checkout -- go.work.sum 2>/dev/null
python3 - "$OUT" <<'PY'
import json,sys
res={}
for l in open(sys.argv[1], errors='replace'):
    try: e=json.loads(l)
    except Exception: continue
    if e.get('Test') and e.get('Action') in ('pass','fail','skip'):
        res[e['Package']+'::'+e['Test']]=e['Action']
base=json.load(open('/root/.vp/BASELINE.json'))
bad=[t for t in base['stable_pass'] if res.get(t)!='pass']
print('stable_pass=%d passed=%d not-passing=%d'%(len(base['stable_pass']), len(base['stable_pass'])-len(bad), len(bad)))
for t in bad[:50]: print('NOT-PASSING',t,res.get(t))
sys.exit(1 if bad else 0)
PY
