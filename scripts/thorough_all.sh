#!/bin/bash
# Runs the thorough tier of every check once, printing one line per check (and any alarm).
HERE="$(cd "$(dirname "$0")/.." && pwd)"
for id in $(ls "$HERE/harness/cmd" | grep -E '^c[0-9]+$' | tr 'a-z' 'A-Z'); do
  t0=$(date +%s)
  out=$("$HERE/scripts/check.sh" "$id" thorough 2>&1); code=$?
  echo "THOROUGH $id exit=$code $(( $(date +%s) - t0 ))s $(echo "$out" | grep '^SUMMARY' | sed -E 's/.*(cases=[0-9]+).*(inconclusive=[0-9]+ known=[0-9]+ new_violations=[0-9]+).*/\1 \2/')"
  if [ $code -ne 0 ]; then echo "$out" | grep -E '^(VIOLATION|BROKEN)' | cut -c1-500 | head -5; fi
done
