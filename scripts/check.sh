#!/bin/bash
# Usage: scripts/check.sh <Cxx> <quick|thorough>
# Rebuilds the harness against /repo's current working tree (build tag verif)
# and runs the check. Exit 0 = held, 1 = VIOLATION, 2 = broken check.
set -u
ID="$1"; TIER="${2:-quick}"
HERE="$(cd "$(dirname "$0")/.." && pwd)"
export GOFLAGS=-mod=mod GOPROXY=off GOSUMDB=off GOTOOLCHAIN=local
export VERIF_ROOT="$HERE"
id=$(echo "$ID" | tr 'A-Z' 'a-z')
mkdir -p "$HERE/bin" "$HERE/evidence"
cd "$HERE/harness" || exit 2
if ! go build -tags verif -o "$HERE/bin/$id" "./cmd/$id" 2> "$HERE/bin/$id.build.log"; then
  cat "$HERE/bin/$id.build.log"
  # A tree that no longer compiles with the hooks on cannot be checked.
  echo "BROKEN-CHECK property=$ID build failed"
  exit 2
fi
RACE=""
if [ -f "$HERE/harness/cmd/$id/.race" ] || [ "$TIER" = thorough -a -f "$HERE/harness/cmd/$id/.race-thorough" ]; then
  if go build -race -tags verif -o "$HERE/bin/$id.race" "./cmd/$id" 2>> "$HERE/bin/$id.build.log"; then
    RACE="--race-bin $HERE/bin/$id.race"
  else
    cat "$HERE/bin/$id.build.log"; echo "BROKEN-CHECK property=$ID race build failed"; exit 2
  fi
fi
cd "$HERE" || exit 2
exec "$HERE/bin/$id" --tier "$TIER" --seed "${VERIF_SEED:-1}" $RACE
