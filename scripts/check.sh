#!/bin/bash
# Usage: scripts/check.sh <Cxx> <quick|thorough>
# Rebuilds the harness against /repo's current working tree (build tag verif)
# and runs the check. Exit 0 = held, 1 = VIOLATION, 2 = broken check.
set -u
ID="$1"; TIER="${2:-quick}"
HERE="$(cd "$(dirname "$0")/.." && pwd)"
export GOFLAGS=-mod=mod GOPROXY=off GOSUMDB=off GOTOOLCHAIN=local
export VERIF_ROOT="$HERE"
id=$(echo "$ID" | tr 'A-Z' 'a-z')
mkdir -p "$HERE/bin" "$HERE/evidence"
cd "$HERE/harness" || exit 2
if ! go build -tags verif -o "$HERE/bin/$id" "./cmd/$id" 2> "$HERE/bin/$id.build.log"; then
  cat "$HERE/bin/$id.build.log"
  # A tree that no longer compiles with the hooks on cannot be checked.
  echo "BROKEN-CHECK property=$ID build failed"
  exit 2
fi
RACE=""
if [ -f "$HERE/harness/cmd/$id/.race" ] || [ "$TIER" = thorough -a -f "$HERE/harness/cmd/$id/.race-thorough" ]; then
  if go build -race -tags verif -o "$HERE/bin/$id.race" "./cmd/$id" 2>> "$HERE/bin/$id.build.log"; then
    RACE="--race-bin $HERE/bin/$id.race"
  else
    cat "$HERE/bin/$id.build.log"; echo "BROKEN-CHECK property=$ID race build failed"; exit 2
  fi
fi
cd "$HERE" || exit 2
# thorough: the plans of several consecutive seeds are united (exhaustive parts run once, seeded parts
# once per seed); the numbers keep each thorough run within a few minutes (C11: eleven) on 16 idle cores
SEEDS=1
if [ "$TIER" = thorough ]; then
  case "$ID" in
    C01) SEEDS=6;; C02) SEEDS=2;; C03) SEEDS=4;; C04) SEEDS=4;; C05) SEEDS=6;; C06) SEEDS=4;; C07) SEEDS=20;;
    C08) SEEDS=20;; C09) SEEDS=20;; C10) SEEDS=2;; C11) SEEDS=1;; C12) SEEDS=10;; C13) SEEDS=4;; C14) SEEDS=8;;
    C15) SEEDS=3;; C16) SEEDS=3;; C17) SEEDS=6;; C18) SEEDS=4;; C19) SEEDS=4;; C20) SEEDS=8;;
  esac
fi
exec "$HERE/bin/$id" --tier "$TIER" --seed "${VERIF_SEED:-1}" --seeds "${VERIF_SEEDS:-$SEEDS}" $RACE
