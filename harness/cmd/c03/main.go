// C03 — teardown runs exactly once; closed subscriptions hold nothing upstream.
package main

import (
	"context"
	"fmt"
	"math/rand"
	"runtime"
	"strings"
	"sync"
	"sync/atomic"
	"time"

	"github.com/samber/ro"
	"verifharness/internal/catalog"
	"verifharness/internal/driver"
	"verifharness/internal/quiesce"
	"verifharness/internal/rec"
	"verifharness/internal/sched"
	"verifharness/internal/src"
)

func plan(tier string, seed int64) []driver.Case {
	nRace := 60
	maxVals := 2
	if tier == "thorough" {
		nRace = 1500
		maxVals = 4
	}
	rng := rand.New(rand.NewSource(seed))
	var cases []driver.Case
	// (a) subscription level
	for n := 0; n <= 4; n++ {
		for mask := 0; mask < 1<<n; mask++ { // which teardowns panic
			for _, via := range []string{"unsubscribe", "complete", "error"} {
				cases = append(cases, driver.Case{ID: fmt.Sprintf("sub/panics/n%d/m%d/%s", n, mask, via),
					P: map[string]string{"kind": "subpanic", "n": fmt.Sprint(n), "mask": fmt.Sprint(mask), "via": via}})
			}
		}
	}
	for i := 0; i < nRace; i++ {
		for _, what := range []string{"subscription", "subscriber"} {
			cases = append(cases, driver.Case{ID: fmt.Sprintf("sub/race/%s/%d", what, i), Race: tier == "thorough" && i%2 == 0,
				P: map[string]string{"kind": "subrace", "what": what, "seed": fmt.Sprint(rng.Int63()), "k": fmt.Sprint(2 + rng.Intn(7)), "n": fmt.Sprint(1 + rng.Intn(6)), "yield": fmt.Sprint(rng.Intn(3)), "concurrent": "1"}})
		}
	}
	// spin-barrier rounds: Add against the disposal, aligned to within nanoseconds
	nSpin, spinRounds := 2, 20000
	spinRng := rand.New(rand.NewSource(seed ^ 0x5bd1e995))
	if tier == "thorough" {
		nSpin, spinRounds = 12, 100000
	}
	for i := 0; i < nSpin; i++ {
		for _, via := range []string{"unsubscribe", "complete", "error"} {
			for adders := 1; adders <= 3; adders += 2 {
				cases = append(cases, driver.Case{ID: fmt.Sprintf("sub/spin/%s/a%d/%d", via, adders, i), Solo: true,
					P: map[string]string{"kind": "subspin", "via": via, "adders": fmt.Sprint(adders), "rounds": fmt.Sprint(spinRounds), "seed": fmt.Sprint(spinRng.Int63())}})
			}
		}
	}
	// time-driven operators with SHORT durations over a source whose teardown panics: after the
	// (failed) release nothing may happen any more - no timer of the closed subscription fires
	for _, t := range timedOps {
		for _, how := range []string{"unsubscribe", "complete", "error"} {
			for _, tdp := range []string{"0", "1"} {
				cases = append(cases, driver.Case{ID: fmt.Sprintf("after-close/%s/%s/tdpanic=%s", t.name, how, tdp), P: map[string]string{"kind": "afterclose", "op": t.name, "how": how, "tdpanic": tdp}})
			}
		}
	}
	cases = append(cases, shareGenerationCases()...)
	// (b) operator level, puppet-driven
	for _, e := range catalog.All() {
		if e.Flags.Has(catalog.Creation) {
			for _, end := range []string{"self", "unsub"} {
				cases = append(cases, driver.Case{ID: fmt.Sprintf("op/%s/%s", e.Name, end), P: map[string]string{"kind": "creation", "entry": e.Name, "end": end}})
			}
			continue
		}
		for nv := 0; nv <= maxVals; nv++ {
			for _, end := range []string{"complete", "error", "unsub-harness", "unsub-other", "unsub-inside"} {
				if e.Flags.Has(catalog.Blocks) && strings.HasPrefix(end, "unsub") {
					continue // Subscribe does not return before the sources end: no subscription to cut (C14's subject)
				}
				if end == "unsub-inside" && nv == 0 {
					continue
				}
				cases = append(cases, driver.Case{ID: fmt.Sprintf("op/%s/v%d/%s", e.Name, nv, end),
					P: map[string]string{"kind": "op", "entry": e.Name, "nv": fmt.Sprint(nv), "end": end}})
				// several sources: the same with the main source speaking first (the one that wins a race,
				// opens a combination, ... is then source 0 and not a secondary one)
				if e.NSrc >= 2 && nv >= 1 {
					cases = append(cases, driver.Case{ID: fmt.Sprintf("op/%s/v%d/%s/main-first", e.Name, nv, end),
						P: map[string]string{"kind": "op", "entry": e.Name, "nv": fmt.Sprint(nv), "end": end, "order": "main-first"}})
				}
			}
		}
		// multi-source operators: every non-empty subset of the sources has a teardown that panics;
		// the other sources (and the panicking ones) are released exactly once all the same
		if e.NSrc >= 1 && !e.Flags.Has(catalog.Blocks) {
			for mask := 1; mask < 1<<e.NSrc; mask++ {
				for _, end := range []string{"complete", "error", "unsub-harness"} {
					for _, nv := range []int{0, 1} {
						cases = append(cases, driver.Case{ID: fmt.Sprintf("op/%s/v%d/%s/tdpanic%d", e.Name, nv, end, mask),
							P: map[string]string{"kind": "op", "entry": e.Name, "nv": fmt.Sprint(nv), "end": end, "tdpanic": fmt.Sprint(mask)}})
					}
				}
			}
		}
		// burst of values into the operator followed by an early-completing downstream
		if e.Op != nil && e.NSrc == 1 && !e.Flags.Has(catalog.Blocks) {
			for _, down := range []string{"Take(1)", "ElementAt(1)", "TakeWhile"} {
				cases = append(cases, driver.Case{ID: fmt.Sprintf("burst/%s/%s", e.Name, down),
					P: map[string]string{"kind": "op", "chain": e.Name + ">" + down, "nv": "4", "end": "none", "fam": e.Family}})
			}
		}
		// synchronous cold sources: the stream may end inside Subscribe, teardowns are added afterwards
		for _, sc := range []string{"C", "E", "1 C", "1 2 E", "1 2", "-"} {
			if e.Flags.Has(catalog.Blocks) && !strings.ContainsAny(sc, "CE") {
				continue
			}
			cases = append(cases, driver.Case{ID: fmt.Sprintf("sync/%s/%s", e.Name, sc), P: map[string]string{"kind": "sync", "entry": e.Name, "script": sc}})
			// the same, the teardown of every source panicking: for a source that ended inside Subscribe the
			// teardown is added to a subscription that is closed already and runs (and fails) right there
			if e.NSrc >= 1 && strings.ContainsAny(sc, "CE") {
				cases = append(cases, driver.Case{ID: fmt.Sprintf("sync/%s/%s/tdpanic", e.Name, sc), P: map[string]string{"kind": "sync", "entry": e.Name, "script": sc, "tdpanic": "1"}})
			}
		}
	}
	// random chains, puppet-driven
	ch := catalog.Chainable()
	var usable []*catalog.Entry
	for _, e := range ch {
		if !e.Flags.Has(catalog.Blocks) {
			usable = append(usable, e)
		}
	}
	nChains := 150
	if tier == "thorough" {
		nChains = 3000
	}
	for i := 0; i < nChains; i++ {
		n := 2 + rng.Intn(3)
		names := make([]string, n)
		for j := range names {
			names[j] = usable[rng.Intn(len(usable))].Name
		}
		end := []string{"complete", "error", "unsub-harness", "unsub-other", "unsub-inside"}[rng.Intn(5)]
		cases = append(cases, driver.Case{ID: fmt.Sprintf("chain/%d/%s/%s", i, strings.Join(names, ">"), end),
			P: map[string]string{"kind": "op", "chain": strings.Join(names, ">"), "nv": fmt.Sprint(1 + rng.Intn(3)), "end": end}})
	}
	return cases
}

// ---------------------------------------------------------------- (a) subscription level

func runSubPanic(c driver.Case) driver.Result {
	n, mask, via := c.Int("n"), c.Int("mask"), c.Get("via")
	counts := make([]atomic.Int64, n+1)
	mk := func(i int) func() {
		return func() {
			counts[i].Add(1)
			if mask&(1<<i) != 0 {
				panic(fmt.Sprintf("teardown-%d", i))
			}
		}
	}
	res := driver.Result{Verdict: driver.Held, Events: int64(n), Nontrivial: n > 0}
	var sub ro.Subscription
	var obs ro.Subscriber[int]
	r := rec.New("subpanic")
	if via == "unsubscribe" {
		sub = ro.NewSubscription(nil)
	} else {
		obs = ro.NewSubscriber[int](rec.Raw[int](r))
		sub = obs
	}
	for i := 0; i < n; i++ {
		sub.Add(mk(i))
	}
	var recovered any
	countsAtRecovery := make([]int64, n)
	func() {
		defer func() {
			recovered = recover()
			for i := 0; i < n; i++ {
				countsAtRecovery[i] = counts[i].Load()
			}
		}()
		switch via {
		case "unsubscribe":
			sub.Unsubscribe()
		case "complete":
			obs.Complete()
		case "error":
			obs.Error(src.ErrSrc)
		}
	}()
	for i := 0; i < n; i++ {
		if countsAtRecovery[i] != 1 {
			res.Verdict, res.Key = driver.Violated, "C03/subscription/"+via+"/teardown-not-run-exactly-once-with-panicking-teardowns"
			res.Msg = fmt.Sprintf("%d teardowns, panicking set %b, closed via %s: teardown %d had run %d times when control came back to the caller", n, mask, via, i, countsAtRecovery[i])
			return res
		}
	}
	if via == "unsubscribe" && mask != 0 && recovered == nil {
		res.Verdict, res.Key = driver.Violated, "C03/subscription/panic-not-re-raised-to-unsubscribe-caller"
		res.Msg = fmt.Sprintf("%d teardowns, panicking set %b: Unsubscribe returned normally", n, mask)
		return res
	}
	if mask == 0 && recovered != nil {
		res.Verdict, res.Key = driver.Violated, "C03/subscription/spurious-panic"
		res.Msg = fmt.Sprintf("no teardown panics but %s panicked: %v", via, recovered)
		return res
	}
	if !sub.IsClosed() {
		res.Verdict, res.Key = driver.Violated, "C03/subscription/not-closed-after-"+via
		res.Msg = "subscription reports open after " + via
		return res
	}
	// Add after disposal runs at once, exactly once
	var late atomic.Int64
	func() { defer func() { recover() }(); sub.Add(func() { late.Add(1) }) }()
	if late.Load() != 1 {
		res.Verdict, res.Key = driver.Violated, "C03/subscription/add-after-disposal-not-run-at-once"
		res.Msg = fmt.Sprintf("teardown added after disposal had run %d times when Add returned", late.Load())
		return res
	}
	// a teardown added after disposal that PANICS (its panic is the caller's): the subscription stays usable -
	// a further Add runs its teardown at once, IsClosed / Wait / Unsubscribe return
	var late2 atomic.Int64
	st, dump, _ := quiesce.Call(func() {
		func() { defer func() { recover() }(); sub.Add(func() { panic("late-teardown-panics") }) }()
		func() { defer func() { recover() }(); sub.Add(func() { late2.Add(1) }) }()
		sub.IsClosed()
		sub.Wait()
	}, 10*time.Second)
	if st == quiesce.Hung {
		res.Verdict, res.Key, res.Dirty = driver.Violated, "C03/hang/"+quiesce.BlockedSite(dump), true
		res.Msg = fmt.Sprintf("subscription closed via %s: after a teardown added to the closed subscription panicked, Add / IsClosed / Wait never return; every goroutine of the process is blocked", via)
		res.Witness = dump
		return res
	}
	if st == quiesce.Returned && late2.Load() != 1 {
		res.Verdict, res.Key = driver.Violated, "C03/subscription/add-after-disposal-not-run-at-once"
		res.Msg = fmt.Sprintf("after a teardown added to the closed subscription panicked, the next teardown added had run %d times when Add returned", late2.Load())
		return res
	}
	// a second Unsubscribe must not run anything again
	func() { defer func() { recover() }(); sub.Unsubscribe() }()
	for i := 0; i < n; i++ {
		if counts[i].Load() != 1 {
			res.Verdict, res.Key = driver.Violated, "C03/subscription/teardown-ran-again-on-second-unsubscribe"
			res.Msg = fmt.Sprintf("teardown %d ran %d times after a second Unsubscribe", i, counts[i].Load())
			return res
		}
	}
	res.Sample = map[string]any{"teardowns": n, "panicking_mask": mask, "via": via, "recovered": fmt.Sprint(recovered)}
	res.Sig = fmt.Sprintf("%d/%b/%s/%v", n, mask, via, recovered != nil)
	return res
}

func runSubRace(c driver.Case) driver.Result {
	var sd int64
	fmt.Sscan(c.Get("seed"), &sd)
	rng := rand.New(rand.NewSource(sd))
	k, n := c.Int("k"), c.Int("n")
	switch c.Int("yield") {
	case 1:
		sched.Set(sched.Yield, 50)
	case 2:
		sched.Set(sched.Jitter, 20)
	default:
		sched.Set(sched.Off, 0)
	}
	defer sched.Set(sched.Off, 0)
	res := driver.Result{Verdict: driver.Held}
	var sub ro.Subscription
	var obs ro.Subscriber[int]
	r := rec.New("subrace")
	if c.Get("what") == "subscription" {
		sub = ro.NewSubscription(nil)
	} else {
		obs = ro.NewSubscriber[int](rec.Raw[int](r))
		sub = obs
	}
	counts := make([]atomic.Int64, n+k)
	for i := 0; i < n; i++ {
		i := i
		sub.Add(func() { counts[i].Add(1) })
	}
	start := make(chan struct{})
	var wg sync.WaitGroup
	var ops []string
	for g := 0; g < k; g++ {
		g := g
		op := rng.Intn(5)
		if obs == nil && (op == 1 || op == 2) {
			op = 0
		}
		ops = append(ops, []string{"Unsubscribe", "Complete", "Error", "Add", "Wait"}[op])
		wg.Add(1)
		go func() {
			defer wg.Done()
			defer func() { recover() }()
			<-start
			switch op {
			case 0:
				sub.Unsubscribe()
			case 1:
				obs.Complete()
			case 2:
				obs.Error(src.ErrSrc)
			case 3:
				sub.Add(func() { counts[n+g].Add(1) })
			case 4:
				sub.Wait()
			}
		}()
	}
	close(start)
	// make sure the subscription ends even if the random ops were all Add/Wait
	time.Sleep(200 * time.Microsecond)
	func() { defer func() { recover() }(); sub.Unsubscribe() }()
	done := make(chan struct{})
	go func() { wg.Wait(); close(done) }()
	select {
	case <-done:
	case <-time.After(5 * time.Second):
		res.Verdict, res.Key = driver.Inconclusive, "goroutines-not-finished"
		res.Msg = "racing callers did not finish within 5s: " + strings.Join(ops, ",")
		res.Dirty = true
		return res
	}
	for i := range counts {
		want := int64(1)
		if i >= n && ops[i-n] != "Add" {
			want = 0
		}
		if counts[i].Load() != want {
			res.Verdict, res.Key = driver.Violated, "C03/"+c.Get("what")+"/teardown-count-under-race"
			res.Msg = fmt.Sprintf("racing %v on a %s with %d teardowns: teardown %d ran %d times (want %d)", ops, c.Get("what"), n, i, counts[i].Load(), want)
			return res
		}
	}
	if !sub.IsClosed() {
		res.Verdict, res.Key = driver.Violated, "C03/"+c.Get("what")+"/not-closed-after-race"
		res.Msg = "subscription open after racing " + strings.Join(ops, ",")
		return res
	}
	res.Events = int64(len(counts))
	res.Nontrivial = true
	res.Sig = c.Get("what") + strings.Join(ops, ",")
	res.Sample = map[string]any{"racing_ops": ops, "teardowns": n}
	return res
}

// runSubSpin races Add against the call that disposes the subscription, thousands of times, with
// the callers released by a spin barrier (a channel wake-up is far too coarse to land Add inside
// the few instructions in which a disposal is in progress) and a swept offset between them. Once
// every caller has returned, each added teardown must have run exactly once - whether Add came
// before, during or after the disposal.
func runSubSpin(c driver.Case) driver.Result {
	var sd int64
	fmt.Sscan(c.Get("seed"), &sd)
	rng := rand.New(rand.NewSource(sd))
	via, adders, rounds := c.Get("via"), c.Int("adders"), c.Int("rounds")
	res := driver.Result{Verdict: driver.Held}
	type slot struct {
		sub    ro.Subscription
		obs    ro.Subscriber[int]
		counts []atomic.Int64
		delay  []int // spin iterations before each caller acts
	}
	var cur atomic.Pointer[slot]
	var gate, doneCnt atomic.Int64
	gate.Store(-1)
	k := adders + 1
	var stop atomic.Bool
	var wg sync.WaitGroup
	spin := func(n int) {
		for i := 0; i < n; i++ {
			_ = stop.Load()
		}
	}
	for g := 0; g < k; g++ {
		g := g
		wg.Add(1)
		go func() {
			defer wg.Done()
			for round := int64(0); round < int64(rounds); round++ {
				for i := 0; gate.Load() < round; i++ {
					if stop.Load() {
						return
					}
					if i%256 == 255 {
						runtime.Gosched()
					}
				}
				s := cur.Load()
				spin(s.delay[g])
				func() {
					defer func() { recover() }()
					if g == 0 {
						switch via {
						case "unsubscribe":
							s.sub.Unsubscribe()
						case "complete":
							s.obs.Complete()
						case "error":
							s.obs.Error(src.ErrSrc)
						}
					} else {
						s.sub.Add(func() { s.counts[g-1].Add(1) })
					}
				}()
				doneCnt.Add(1)
			}
		}()
	}
	defer func() { stop.Store(true); wg.Wait() }()
	lost, dup := 0, 0
	first := ""
	r := rec.New("subspin")
	r.Silent = true
	deadline := time.Now().Add(120 * time.Second) // watchdog only: firing is inconclusive
	for round := 0; round < rounds; round++ {
		s := &slot{counts: make([]atomic.Int64, adders), delay: make([]int, k)}
		if via == "unsubscribe" {
			s.sub = ro.NewSubscription(nil)
		} else {
			s.obs = ro.NewSubscriber[int](rec.Raw[int](r))
			s.sub = s.obs
		}
		for g := range s.delay {
			s.delay[g] = rng.Intn(40)
		}
		cur.Store(s)
		doneCnt.Store(0)
		gate.Store(int64(round))
		for i := 0; doneCnt.Load() < int64(k); i++ {
			if i%256 == 255 {
				runtime.Gosched()
				if time.Now().After(deadline) {
					res.Verdict, res.Key, res.Dirty = driver.Inconclusive, "spin-rounds-not-finished", true
					res.Msg = fmt.Sprintf("round %d of %d not finished within the watchdog", round, rounds)
					return res
				}
			}
		}
		for a := 0; a < adders; a++ {
			switch n := s.counts[a].Load(); {
			case n == 0:
				lost++
				if first == "" {
					first = fmt.Sprintf("round %d: the teardown given to Add by caller %d never ran although Add and the %s call have both returned and IsClosed()=%v", round, a, via, s.sub.IsClosed())
				}
			case n > 1:
				dup++
				if first == "" {
					first = fmt.Sprintf("round %d: the teardown given to Add by caller %d ran %d times", round, a, n)
				}
			}
		}
		if !s.sub.IsClosed() {
			res.Verdict, res.Key = driver.Violated, "C03/subscription/not-closed-after-"+via
			res.Msg = fmt.Sprintf("round %d: subscription reports open after %s returned", round, via)
			return res
		}
	}
	res.Events = int64(rounds * adders)
	res.Nontrivial = true
	res.Sig = fmt.Sprintf("spin/%s/a%d", via, adders)
	res.Sample = map[string]any{"rounds": rounds, "adders_per_round": adders, "disposed_via": via, "teardowns_lost": lost, "teardowns_duplicated": dup}
	if lost+dup > 0 {
		res.Verdict, res.Key = driver.Violated, "C03/subscription/teardown-count-when-add-races-"+via
		res.Msg = fmt.Sprintf("%d rounds of %d Add call(s) racing %s: %d teardowns never ran, %d ran more than once; first: %s", rounds, adders, via, lost, dup, first)
	}
	return res
}

// timedOps: time-driven operators with durations of a few milliseconds (the catalogue uses 1 ms or
// 1 h; here the timers must be able to fire shortly AFTER the subscription was closed).
var timedOps = []struct {
	name string
	mk   func(o ro.Observable[int]) catalog.Pipeline
}{
	{"Timeout(4ms)", func(o ro.Observable[int]) catalog.Pipeline {
		return catalog.P(ro.Timeout[int](4 * time.Millisecond)(o))
	}},
	{"Delay(4ms)", func(o ro.Observable[int]) catalog.Pipeline { return catalog.P(ro.Delay[int](4 * time.Millisecond)(o)) }},
	{"DelayEach(4ms)", func(o ro.Observable[int]) catalog.Pipeline {
		return catalog.P(ro.DelayEach[int](4 * time.Millisecond)(o))
	}},
	{"BufferWithTime(4ms)", func(o ro.Observable[int]) catalog.Pipeline {
		return catalog.P(ro.BufferWithTime[int](4 * time.Millisecond)(o))
	}},
	{"BufferWithTimeOrCount(3,4ms)", func(o ro.Observable[int]) catalog.Pipeline {
		return catalog.P(ro.BufferWithTimeOrCount[int](3, 4*time.Millisecond)(o))
	}},
	{"SampleTime(4ms)", func(o ro.Observable[int]) catalog.Pipeline {
		return catalog.P(ro.SampleTime[int](4 * time.Millisecond)(o))
	}},
	{"ThrottleTime(4ms)", func(o ro.Observable[int]) catalog.Pipeline {
		return catalog.P(ro.ThrottleTime[int](4 * time.Millisecond)(o))
	}},
	{"TimeInterval", func(o ro.Observable[int]) catalog.Pipeline { return catalog.P(ro.TimeInterval[int]()(o)) }},
	{"Timestamp", func(o ro.Observable[int]) catalog.Pipeline { return catalog.P(ro.Timestamp[int]()(o)) }},
}

// runAfterClose: one value, then the subscription ends (Unsubscribe, or the source's completion /
// error); the source's teardown may panic. From the moment the closing call has returned, neither
// the observer nor the dropped-notification / unhandled-error hooks may see anything that stems
// from this subscription, and no library goroutine may remain - for longer than every timer of the
// operator would need to fire.
func runAfterClose(c driver.Case) driver.Result {
	rec.ResetHooks()
	before := snapshotIDs()
	res := driver.Result{Verdict: driver.Held, Nontrivial: true, Sig: "afterclose/" + c.Get("op") + "/" + c.Get("how") + "/" + c.Get("tdpanic")}
	var mk func(o ro.Observable[int]) catalog.Pipeline
	for _, t := range timedOps {
		if t.name == c.Get("op") {
			mk = t.mk
		}
	}
	s := src.New("s0")
	if c.Get("tdpanic") == "1" {
		s.PanicInTeardown = "teardown of the source panics"
	}
	r := rec.New(c.Get("op"))
	sub := mk(s.Observable()).Subscribe(context.Background(), r, false)
	what := fmt.Sprintf("%s over a source (teardown panics: %s), one value then %s", c.Get("op"), c.Get("tdpanic"), c.Get("how"))
	call := func(f func()) bool {
		st, _, _ := quiesce.Call(func() { defer func() { recover() }(); f() }, 10*time.Second)
		return st == quiesce.Returned
	}
	ok := call(func() { s.Next(1) })
	switch c.Get("how") {
	case "unsubscribe":
		ok = ok && call(func() { sub.Unsubscribe() })
	case "complete":
		ok = ok && call(func() { s.Complete() })
	default:
		ok = ok && call(func() { s.Error() })
	}
	if !ok {
		return driver.Result{Verdict: driver.Inconclusive, Key: "call-did-not-return", Dirty: true}
	}
	// operators that deliver late (Delay, the buffers) finish their own business first
	deadline := time.Now().Add(3 * time.Second)
	// (until the observer has returned from its terminal callback: IsClosed() already reports true
	// when the subscriber has only marked itself terminated)
	terminalDone := func() bool {
		ev := r.Events()
		return len(ev) > 0 && ev[len(ev)-1].Kind != rec.Next
	}
	for c.Get("how") != "unsubscribe" && !terminalDone() && time.Now().Before(deadline) {
		time.Sleep(500 * time.Microsecond)
	}
	func() { defer func() { recover() }(); sub.Unsubscribe() }()
	// Phase 1, until the process is quiescent: goroutines of the operator are on their way out; a
	// completion they still try to deliver on that way is dropped and tolerated, a VALUE or an ERROR is
	// not (nothing may still be produced). Phase 2, from quiescence on for five times the longest
	// timer: no goroutine was left running, so anything that happens now comes from a timer that was
	// not stopped.
	n0, nd0, u0 := r.Len(), len(rec.DroppedEvents()), rec.UnhandN.Load()
	_, settled := quiesce.Settle(10 * time.Second)
	nd1 := len(rec.DroppedEvents())
	time.Sleep(20 * time.Millisecond)
	quiesce.Settle(10 * time.Second)
	var activity []string
	for i, e := range rec.DroppedEvents()[nd0:] {
		if nd0+i >= nd1 {
			activity = append(activity, "dropped after quiescence: "+e.What)
		} else if !strings.HasPrefix(e.What, "Complete") {
			activity = append(activity, "dropped: "+e.What)
		}
	}
	for _, e := range rec.UnhandledEvents() {
		activity = append(activity, "unhandled error: "+e.What)
	}
	if int64(len(rec.UnhandledEvents())) <= u0 && rec.UnhandN.Load() == u0 {
		// (the unhandled errors listed above were reported before the close: not counted)
		var keep []string
		for _, a := range activity {
			if !strings.HasPrefix(a, "unhandled error") {
				keep = append(keep, a)
			}
		}
		activity = keep
	}
	res.Events = int64(r.Len()) + 2
	res.Sample = map[string]any{"pipeline": c.Get("op"), "ending": c.Get("how"), "source_teardown_panics": c.Get("tdpanic") == "1", "trace": r.TraceString(), "source": s.Summary()}
	if n := r.Len() - n0; n != 0 {
		res.Verdict, res.Key = driver.Violated, "C03/"+c.Get("op")+"/delivery-after-close"
		res.Msg = fmt.Sprintf("%s: %d notification(s) reached the observer after the subscription was closed; trace [%s]", what, n, r.TraceString())
		return res
	}
	if len(activity) > 0 {
		res.Verdict, res.Key = driver.Violated, "C03/"+c.Get("op")+"/activity-after-close"
		res.Msg = fmt.Sprintf("%s: after the subscription was closed something of it was still at work: %v - a timer or goroutine was not released", what, activity)
		return res
	}
	if !checkSources([]*src.Source{s}, what, c.Get("op"), &res) {
		return res
	}
	if leaked := libGoroutinesSince(before); settled && len(leaked) > 0 {
		res.Verdict, res.Key, res.Dirty = driver.Violated, "C03/"+c.Get("op")+"/goroutine-left-blocked-after-close", true
		res.Msg = fmt.Sprintf("%s: %d goroutine(s) with library frames remain; first: [%s] %s", what, len(leaked), leaked[0].State, topLibFrame(leaked[0].Stack))
		res.Witness = leaked[0].Stack
	}
	return res
}

// ---------------------------------------------------------------- (b) operator level

func libGoroutinesSince(before map[string]bool) []quiesce.G {
	gs, _ := quiesce.Settle(10 * time.Second)
	var out []quiesce.G
	for _, g := range gs {
		if before[g.ID] {
			continue
		}
		if strings.Contains(g.Stack, "/repo/") {
			out = append(out, g)
		}
	}
	return out
}

func snapshotIDs() map[string]bool {
	m := map[string]bool{}
	for _, g := range quiesce.Dump() {
		m[g.ID] = true
	}
	return m
}

func checkSources(srcs []*src.Source, what string, fam string, res *driver.Result) bool {
	for _, e := range catalog.All() {
		if e.Family == fam && e.Flags.Has(catalog.KeepsSource) {
			return true // documented: the shared upstream subscription outlives its subscribers
		}
	}
	for _, s := range srcs {
		for idx, n := range s.TeardownCounts() {
			if n == 0 {
				res.Verdict, res.Key = driver.Violated, "C03/"+fam+"/source-not-released-after-close"
				res.Msg = fmt.Sprintf("%s: subscription #%d of source %s was never released (%s)", what, idx, s.Name, s.Summary())
				return false
			}
			if n > 1 {
				res.Verdict, res.Key = driver.Violated, "C03/"+fam+"/source-teardown-ran-more-than-once"
				res.Msg = fmt.Sprintf("%s: teardown of subscription #%d of source %s ran %d times", what, idx, s.Name, n)
				return false
			}
		}
	}
	return true
}

func build(c driver.Case) (*catalog.Entry, []*catalog.Entry, string, string) {
	if ch := c.Get("chain"); ch != "" {
		var chain []*catalog.Entry
		for _, n := range strings.Split(ch, ">") {
			chain = append(chain, catalog.Get(n))
		}
		if f := c.Get("fam"); f != "" {
			return chain[0], chain[1:], ch, f
		}
		return chain[0], chain[1:], ch, "chain"
	}
	e := catalog.Get(c.Get("entry"))
	return e, nil, e.Name, e.Family
}

func runOp(c driver.Case) driver.Result {
	rec.ResetHooks()
	before := snapshotIDs()
	e, chain, name, fam := build(c)
	nv, end := c.Int("nv"), c.Get("end")
	res := driver.Result{Verdict: driver.Held}
	b := &catalog.B{}
	var srcs []*src.Source
	for i := 0; i < e.NSrc; i++ {
		s := src.New(fmt.Sprintf("s%d", i))
		if c.Get("tdpanic") != "" && c.Int("tdpanic")&(1<<i) != 0 {
			s.PanicInTeardown = fmt.Sprintf("teardown of source %d panics", i)
		}
		srcs = append(srcs, s)
		b.Srcs = append(b.Srcs, s.Observable())
	}
	var fin atomic.Int64
	var p catalog.Pipeline
	if e.Op != nil {
		obs := e.Op(b)(b.S(0))
		for _, x := range chain {
			obs = x.Op(b)(obs)
		}
		obs = ro.TapOnFinalize[int](func() { fin.Add(1) })(obs)
		p = catalog.P(obs)
	} else {
		p = e.Pipeline(b)
		fin.Store(-1)
	}
	r := rec.New(name)
	var sub ro.Subscription
	var subMu sync.Mutex
	subDone := make(chan struct{})
	var subPanic any
	unsubInsideAt := -1
	if end == "unsub-inside" {
		unsubInsideAt = nv - 1
	}
	var insidePanic any
	_ = &insidePanic
	r.OnEvent = func(ev *rec.Event) {
		if unsubInsideAt >= 0 && ev.Kind == rec.Next {
			subMu.Lock()
			s := sub
			subMu.Unlock()
			if s != nil {
				unsubInsideAt = -1
				func() { defer func() { insidePanic = recover() }(); s.Unsubscribe() }()
			}
		}
	}
	go func() {
		defer close(subDone)
		defer func() { subPanic = recover() }()
		s := p.Subscribe(context.Background(), r, false)
		subMu.Lock()
		sub = s
		subMu.Unlock()
	}()
	returned := func(d time.Duration) bool {
		select {
		case <-subDone:
			return true
		case <-time.After(d):
			return false
		}
	}
	if !e.Flags.Has(catalog.Blocks) {
		if !returned(3 * time.Second) {
			res.Verdict, res.Key = driver.Inconclusive, "subscribe-did-not-return"
			res.Msg = name + ": Subscribe with silent sources did not return"
			res.Dirty = true
			return res
		}
	} else {
		quiesce.Settle(time.Second)
	}
	var hung string
	guarded := func(what string, f func()) {
		if hung != "" {
			return
		}
		st, dump, _ := quiesce.Call(f, 15*time.Second)
		switch st {
		case quiesce.Hung:
			hung = what
			res.Verdict, res.Key = driver.Violated, "C03/hang/"+quiesce.BlockedSite(dump)
			res.Msg = fmt.Sprintf("%s (%d values, ending %s): %s never returned; every goroutine of the process is blocked", name, nv, end, what)
			res.Witness = dump
			res.Dirty = true
		case quiesce.TimedOut:
			hung = what
			res.Verdict, res.Key = driver.Inconclusive, "call-did-not-return"
			res.Msg = fmt.Sprintf("%s: %s did not return within the watchdog budget (no hang proof)", name, what)
			res.Dirty = true
		}
	}
	inject := func(s *src.Source, n src.Notif) {
		if s.IsSubscribed() && s.Live.Load() > 0 {
			guarded(fmt.Sprintf("emitting %s into source %s", n, s.Name), func() { defer func() { recover() }(); s.Send(n) })
		}
	}
	// every secondary source contributes one value first (or, "main-first", after the main source's values)
	secondaries := func() {
		for i := 1; i < len(srcs); i++ {
			inject(srcs[i], src.Notif{K: rec.Next, V: 1})
		}
	}
	if c.Get("order") != "main-first" {
		secondaries()
	}
	for v := 0; v < nv; v++ {
		inject(srcs[0], src.Notif{K: rec.Next, V: 1 + v%2})
		if e.Flags.Has(catalog.Blocks) {
			quiesce.Settle(500 * time.Millisecond)
		}
	}
	if c.Get("order") == "main-first" {
		secondaries()
	}
	closedBy := end
	switch end {
	case "complete", "error":
		k := rec.Complete
		if end == "error" {
			k = rec.Error
		}
		// end every source, main one first; blocking operators subscribe later sources as earlier ones end
		for round := 0; round < 4; round++ {
			for _, s := range srcs {
				inject(s, src.Notif{K: k})
				if e.Flags.Has(catalog.Blocks) {
					quiesce.Settle(500 * time.Millisecond)
				}
			}
		}
	case "none":
		// the downstream operator is expected to have completed by itself; give timers a chance
		time.Sleep(5 * time.Millisecond)
	case "unsub-harness", "unsub-other":
		guarded("Unsubscribe", func() { defer func() { recover() }(); sub.Unsubscribe() })
	case "unsub-inside":
		if unsubInsideAt >= 0 { // the operator did not deliver a value: fall back to an external cut
			func() { defer func() { recover() }(); sub.Unsubscribe() }()
			closedBy = "unsub-harness(fallback)"
		}
	}
	if hung != "" {
		return res
	}
	if !returned(3 * time.Second) {
		// every source has ended (or the subscription was cut): a Subscribe call that still waits is either slow
		// (inconclusive) or provably stuck - every goroutine of the process blocked
		if st, dump, _ := quiesce.Call(func() { <-subDone }, 10*time.Second); st == quiesce.Hung {
			res.Verdict, res.Key = driver.Violated, "C03/hang/"+quiesce.BlockedSite(dump)
			res.Msg = fmt.Sprintf("%s (%s after %d values): every source has ended but the Subscribe call never returns; every goroutine of the process is blocked", name, end, nv)
			res.Witness = dump
			res.Dirty = true
			return res
		} else if st != quiesce.Returned {
			res.Verdict, res.Key = driver.Inconclusive, "subscribe-did-not-return"
			res.Msg = fmt.Sprintf("%s (%s after %d values): Subscribe had not returned after every source ended (no hang proof)", name, end, nv)
			res.Dirty = true
			return res
		}
	}
	// asynchronous operators (Delay, ObserveOn…) deliver the terminal later
	waitClosed := time.Now().Add(3 * time.Second)
	grace := time.Now().Add(30 * time.Millisecond)
	for sub != nil && !sub.IsClosed() && time.Now().Before(waitClosed) {
		if _, ok := quiesce.Settle(5 * time.Millisecond); ok && time.Now().After(grace) {
			break // nothing is running and no short timer is pending: it will not close by itself
		}
		time.Sleep(200 * time.Microsecond)
	}
	_, settled := quiesce.Settle(15 * time.Second)
	res.Dirty = !settled
	if !settled && !libRunning(before) {
		// only harness goroutines are still runnable (loaded machine): nothing can be said about the library
		return driver.Result{Verdict: driver.Inconclusive, Key: "process-not-quiescent", Dirty: true}
	}
	what := fmt.Sprintf("%s, %d values then %s", name, nv, closedBy)
	res.Events = int64(r.Len()) + int64(len(srcs))
	res.Nontrivial = true
	res.Sig = name + "/" + end + "→" + r.TraceString()
	res.Sample = map[string]any{"pipeline": name, "values": nv, "ending": closedBy, "trace": r.TraceString(), "sources": summarize(srcs), "finalize_calls": fin.Load()}
	if subPanic != nil {
		res.Verdict, res.Key = driver.Violated, "C03/"+fam+"/panic-escaped-subscribe"
		res.Msg = fmt.Sprintf("%s: Subscribe panicked: %v", what, subPanic)
		return res
	}
	if sub == nil || !sub.IsClosed() {
		if strings.HasPrefix(end, "unsub") {
			res.Verdict, res.Key = driver.Violated, "C03/"+fam+"/subscription-open-after-unsubscribe"
			res.Msg = what + ": subscription still open"
			return res
		}
		// the operator legitimately waits for something else (e.g. no terminal reached the end): only judge closed subscriptions
		res.Extra = map[string]int64{"not_closed_by_source_endings": 1}
		func() { defer func() { recover() }(); sub.Unsubscribe() }()
		quiesce.Settle(time.Second)
	}
	// a library goroutine deadlocked on a mutex explains whatever was not released: name the deadlock
	// (hand-off operators run the release on their own goroutine, where the harness call does not hang)
	if leaked := libGoroutinesSince(before); settled && len(leaked) > 0 {
		var b strings.Builder
		for _, g := range leaked {
			b.WriteString(g.Stack + "\n\n")
		}
		if site := quiesce.BlockedSite(b.String()); strings.HasSuffix(site, "(mutex)") {
			res.Verdict, res.Key, res.Dirty = driver.Violated, "C03/hang/"+site, true
			res.Msg = fmt.Sprintf("%s: a goroutine of the pipeline is deadlocked while releasing it (%s); %d goroutine(s) remain", what, site, len(leaked))
			res.Witness = b.String()
			return res
		}
	}
	if !checkSources(srcs, what, fam, &res) {
		return res
	}
	if f := fin.Load(); f != -1 && f != 1 {
		res.Verdict, res.Key = driver.Violated, "C03/"+fam+"/finalize-callback-not-run-exactly-once"
		res.Msg = fmt.Sprintf("%s: TapOnFinalize below the pipeline ran %d times", what, f)
		return res
	}
	if !settled {
		res.Verdict, res.Key = driver.Violated, "C03/"+fam+"/goroutines-still-running-after-close"
		res.Msg = what + ": process did not become quiescent within 2s after the subscription closed"
		var stacks []string
		for _, g := range quiesce.Dump() {
			if !before[g.ID] && strings.Contains(g.Stack, "/repo/") {
				stacks = append(stacks, g.Stack)
			}
		}
		res.Witness = stacks
		return res
	}
	if leaked := libGoroutinesSince(before); len(leaked) > 0 {
		res.Verdict, res.Key = driver.Violated, "C03/"+fam+"/goroutine-left-blocked-after-close"
		res.Msg = fmt.Sprintf("%s: %d goroutine(s) with library frames remain after close; first: [%s] %s", what, len(leaked), leaked[0].State, topLibFrame(leaked[0].Stack))
		var stacks []string
		for _, g := range leaked {
			stacks = append(stacks, g.Stack)
		}
		res.Witness = stacks
		res.Dirty = true
		return res
	}
	return res
}

// libRunning: a goroutine created since `before` that has a library frame is not blocked.
func libRunning(before map[string]bool) bool {
	for _, g := range quiesce.Dump() {
		if before[g.ID] || !strings.Contains(g.Stack, "/repo/") {
			continue
		}
		st := g.State
		if strings.HasPrefix(st, "running") || strings.HasPrefix(st, "runnable") || strings.HasPrefix(st, "sleep") {
			return true
		}
	}
	return false
}

func topLibFrame(stack string) string {
	lines := strings.Split(stack, "\n")
	for i, l := range lines {
		if strings.Contains(l, "/repo/") && i > 0 {
			return strings.TrimSpace(lines[i-1]) + " @ " + strings.TrimSpace(l)
		}
	}
	return ""
}

func summarize(srcs []*src.Source) []string {
	var out []string
	for _, s := range srcs {
		out = append(out, s.Summary())
	}
	return out
}

func runSync(c driver.Case) driver.Result {
	rec.ResetHooks()
	before := snapshotIDs()
	e := catalog.Get(c.Get("entry"))
	res := driver.Result{Verdict: driver.Held}
	b := &catalog.B{}
	var srcs []*src.Source
	for i := 0; i < e.NSrc; i++ {
		sc := src.Parse(c.Get("script"))
		s := src.New(fmt.Sprintf("s%d", i), sc)
		if c.Get("tdpanic") != "" {
			s.PanicInTeardown = fmt.Sprintf("teardown of source %d panics", i)
		}
		srcs = append(srcs, s)
		b.Srcs = append(b.Srcs, s.Observable())
	}
	r := rec.New(e.Name)
	var sub ro.Subscription
	var pan any
	what := fmt.Sprintf("%s over synchronous sources [%s]", e.Name, c.Get("script"))
	if c.Get("tdpanic") != "" {
		what += ", every source teardown panicking"
	}
	st, dump, _ := quiesce.Call(func() {
		defer func() { pan = recover() }()
		sub = e.Pipeline(b).Subscribe(context.Background(), r, false)
	}, 15*time.Second)
	if st == quiesce.Hung {
		res.Verdict, res.Key, res.Dirty = driver.Violated, "C03/hang/"+quiesce.BlockedSite(dump), true
		res.Msg = what + ": Subscribe never returns; every goroutine of the process is blocked"
		res.Witness = dump
		return res
	}
	if st != quiesce.Returned {
		return driver.Result{Verdict: driver.Inconclusive, Key: "subscribe-did-not-return", Msg: what + ": Subscribe did not return within the watchdog budget (no hang proof)", Dirty: true}
	}
	if pan != nil {
		res.Verdict, res.Key = driver.Violated, "C03/"+e.Family+"/panic-escaped-subscribe"
		res.Msg = fmt.Sprintf("%s: Subscribe panicked: %v", what, pan)
		return res
	}
	deadline := time.Now().Add(2 * time.Second)
	for (e.Flags.Has(catalog.Async) || e.Flags.Has(catalog.HandOff) || e.Flags.Has(catalog.TimeDriven)) && !sub.IsClosed() && time.Now().Before(deadline) && strings.ContainsAny(c.Get("script"), "CE") {
		time.Sleep(200 * time.Microsecond)
	}
	if !sub.IsClosed() {
		func() { defer func() { recover() }(); sub.Unsubscribe() }()
		what += " then Unsubscribe"
	}
	_, settled := quiesce.Settle(15 * time.Second)
	res.Dirty = !settled
	if !settled && !libRunning(before) {
		return driver.Result{Verdict: driver.Inconclusive, Key: "process-not-quiescent", Dirty: true}
	}
	res.Events = int64(r.Len()) + int64(len(srcs))
	res.Nontrivial = true
	res.Sig = e.Name + "/sync/" + c.Get("script") + "→" + r.TraceString()
	res.Sample = map[string]any{"pipeline": e.Name, "script": c.Get("script"), "trace": r.TraceString(), "sources": summarize(srcs)}
	if !checkSources(srcs, what, e.Family, &res) {
		return res
	}
	if !settled {
		res.Verdict, res.Key = driver.Violated, "C03/"+e.Family+"/goroutines-still-running-after-close"
		res.Msg = what + ": process did not become quiescent within 2s after the subscription closed"
		return res
	}
	if leaked := libGoroutinesSince(before); len(leaked) > 0 {
		res.Verdict, res.Key = driver.Violated, "C03/"+e.Family+"/goroutine-left-blocked-after-close"
		res.Msg = fmt.Sprintf("%s: %d goroutine(s) with library frames remain after close; first: [%s] %s", what, len(leaked), leaked[0].State, topLibFrame(leaked[0].Stack))
		res.Witness = leaked[0].Stack
		res.Dirty = true
		return res
	}
	return res
}

func runCreation(c driver.Case) driver.Result {
	before := snapshotIDs()
	e := catalog.Get(c.Get("entry"))
	res := driver.Result{Verdict: driver.Held}
	r := rec.New(e.Name)
	var sub ro.Subscription
	done := make(chan struct{})
	go func() {
		defer close(done)
		defer func() { recover() }()
		sub = e.Pipeline(&catalog.B{}).Subscribe(context.Background(), r, false)
	}()
	select {
	case <-done:
	case <-time.After(3 * time.Second):
		res.Verdict, res.Key, res.Dirty = driver.Inconclusive, "subscribe-did-not-return", true
		return res
	}
	if c.Get("end") == "unsub" {
		func() { defer func() { recover() }(); sub.Unsubscribe() }()
	} else {
		deadline := time.Now().Add(3 * time.Second)
		for !sub.IsClosed() && time.Now().Before(deadline) {
			time.Sleep(200 * time.Microsecond)
		}
	}
	_, settled := quiesce.Settle(2 * time.Second)
	res.Dirty = !settled
	res.Events = int64(r.Len()) + 1
	res.Nontrivial = true
	res.Sig = e.Name + "/" + c.Get("end") + "→" + r.TraceString()
	what := fmt.Sprintf("%s ended by %s", e.Name, c.Get("end"))
	if leaked := libGoroutinesSince(before); len(leaked) > 0 && sub.IsClosed() {
		res.Verdict, res.Key = driver.Violated, "C03/"+e.Family+"/goroutine-left-blocked-after-close"
		res.Msg = fmt.Sprintf("%s: %d goroutine(s) with library frames remain after close; first: [%s] %s", what, len(leaked), leaked[0].State, topLibFrame(leaked[0].Stack))
		res.Witness = leaked[0].Stack
		res.Dirty = true
	}
	return res
}

func runCase(c driver.Case) driver.Result {
	switch c.Get("kind") {
	case "subpanic":
		return runSubPanic(c)
	case "subrace":
		return runSubRace(c)
	case "subspin":
		return runSubSpin(c)
	case "afterclose":
		return runAfterClose(c)
	case "sharegen":
		return runShareGenerations(c)
	case "sync":
		return runSync(c)
	case "creation":
		return runCreation(c)
	}
	return runOp(c)
}

func main() {
	driver.Main(driver.Property{
		ID:        "C03",
		Level:     "exploration",
		Rule:      "(a) subscriptions/subscribers with n ≤ 4 counting teardowns and every subset of them panicking, closed via Unsubscribe / Complete / Error; Add after disposal; races of Unsubscribe/Complete/Error/Add/Wait from 2-8 goroutines with yields at the unlock-then-finalize hook points. (b) every catalogue entry (and random chains) over puppet sources at every input: k values then ending ∈ {complete, error, Unsubscribe from the harness / another goroutine / inside the observer}, plus synchronous cold sources that end inside Subscribe. Oracle: every teardown counter == 1 (sources, added teardowns, TapOnFinalize) once the subscription is closed and Subscribe returned; panics re-raised only after all ran; no goroutine with a library frame remains after quiescence (goroutine ids snapshotted before the case). Non-trivial: teardown counters were read; distinct = (pipeline, ending, trace). Also: spin-barrier rounds (20 000 per case, swept offset) of Add racing Unsubscribe/Complete/Error - every added teardown runs exactly once whichever side wins; multi-source entries with every non-empty subset of their sources having a panicking teardown (all sources still released exactly once).",
		Assume:    []string{"operators that wait inside Subscribe are only driven to a terminal here (cutting them is C14's subject)", "a goroutine about to exit is waited for (quiescence) before its presence is reported"},
		Plan:      plan,
		Run:       runCase,
		CaseWatch: 30 * time.Second,
		Setup: func() {
			rec.Install()
			sched.Install()
		},
	})
}
