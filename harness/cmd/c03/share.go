package main

import (
	"fmt"
	"time"

	"github.com/samber/ro"

	"verifharness/internal/driver"
	"verifharness/internal/quiesce"
	"verifharness/internal/rec"
	"verifharness/internal/src"
)

// Share over two generations: k subscribers of the first execution, which the SOURCE ends (completion or
// error, both reset the sharing); j subscribers of a second execution, who leave one after the other.
// When the last one has left, nobody listens any more: the second upstream subscription is released,
// exactly once, and the first one was released exactly once when it ended.
func shareGenerationCases() []driver.Case {
	var cases []driver.Case
	for _, form := range []string{"Share", "ShareWithConfig"} {
		for k := 1; k <= 3; k++ {
			for _, end := range []string{"complete", "error"} {
				for j := 1; j <= 3; j++ {
					for _, order := range []string{"fifo", "lifo"} {
						cases = append(cases, driver.Case{ID: fmt.Sprintf("share-generations/%s/k%d/%s/j%d/%s", form, k, end, j, order),
							P: map[string]string{"kind": "sharegen", "form": form, "k": fmt.Sprint(k), "end": end, "j": fmt.Sprint(j), "order": order}})
					}
				}
			}
		}
	}
	return cases
}

func runShareGenerations(c driver.Case) driver.Result {
	rec.ResetHooks()
	res := driver.Result{Verdict: driver.Held}
	s := src.New("s")
	var o ro.Observable[int]
	if c.Get("form") == "Share" {
		o = ro.Share[int]()(s.Observable())
	} else {
		o = ro.ShareWithConfig(ro.ShareConfig[int]{Connector: func() ro.Subject[int] { return ro.NewPublishSubject[int]() }, ResetOnError: true, ResetOnComplete: true, ResetOnRefCountZero: true})(s.Observable())
	}
	k, j := c.Int("k"), c.Int("j")
	what := fmt.Sprintf("%s: %d subscribers, the source ends with %s, %d new subscribers who then leave (%s)", c.Get("form"), k, c.Get("end"), j, c.Get("order"))
	fail := func(key, msg string) driver.Result {
		res.Verdict, res.Key = driver.Violated, "C03/Share/"+key
		res.Msg = what + ": " + msg + " (" + s.Summary() + ")"
		return res
	}
	var hung string
	call := func(name string, f func()) {
		if hung != "" {
			return
		}
		if st, dump, _ := quiesce.Call(func() { defer func() { recover() }(); f() }, 10*time.Second); st != quiesce.Returned {
			hung = name
			res.Witness = dump
		}
	}
	var recs []*rec.Rec
	subscribe := func(n int) []ro.Subscription {
		var subs []ro.Subscription
		for i := 0; i < n; i++ {
			r := rec.New(fmt.Sprintf("sub%d", len(recs)))
			recs = append(recs, r)
			call("Subscribe", func() { subs = append(subs, o.Subscribe(rec.Raw[int](r))) })
		}
		return subs
	}
	subscribe(k)
	call("Next", func() { s.Next(1) })
	if c.Get("end") == "complete" {
		call("Complete", func() { s.Complete() })
	} else {
		call("Error", func() { s.Error() })
	}
	gen2 := subscribe(j)
	call("Next", func() { s.Next(2) })
	if c.Get("order") == "lifo" {
		for a, b := 0, len(gen2)-1; a < b; a, b = a+1, b-1 {
			gen2[a], gen2[b] = gen2[b], gen2[a]
		}
	}
	early := ""
	for i, sub := range gen2 {
		sub := sub
		call("Unsubscribe", func() { sub.Unsubscribe() })
		if i < len(gen2)-1 && hung == "" && early == "" && s.Live.Load() != 1 {
			early = fmt.Sprintf("after %d of the %d subscribers of the second execution had left, the source has %d live subscriptions (1 expected: the others still listen)", i+1, len(gen2), s.Live.Load())
		}
	}
	if hung != "" {
		res.Verdict, res.Key, res.Dirty = driver.Inconclusive, "call-did-not-return", true
		res.Msg = what + ": " + hung + " did not return"
		return res
	}
	quiesce.Settle(time.Second)
	for _, r := range recs {
		res.Events += int64(r.Len())
	}
	res.Nontrivial = true
	res.Sig = "share-generations/" + c.ID
	res.Sample = map[string]any{"scenario": what, "source": s.Summary(), "first_generation_trace": recs[0].TraceString(), "second_generation_trace": recs[k].TraceString()}
	if early != "" {
		return fail("source-released-while-subscribers-remain", early)
	}
	if n := s.Subscribed.Load(); n != 2 {
		return fail("upstream-subscription-count", fmt.Sprintf("the source was subscribed %d times, two executions were started", n))
	}
	for idx, n := range s.TeardownCounts() {
		if n == 0 {
			return fail("source-not-released-after-close", fmt.Sprintf("upstream subscription #%d was never released although no subscriber is left", idx))
		}
		if n > 1 {
			return fail("source-teardown-ran-more-than-once", fmt.Sprintf("the teardown of upstream subscription #%d ran %d times", idx, n))
		}
	}
	return res
}
