package main

import (
	"context"
	"fmt"
	"runtime"
	"sync"
	"sync/atomic"

	"github.com/samber/ro"

	"verifharness/internal/driver"
	"verifharness/internal/rec"
	"verifharness/internal/src"
)

// Higher-order merging operators whose outer observable and inner observable end at the same instant on two
// goroutines (released by a spin barrier, swept offset, thousands of rounds on fresh pipelines): whichever of
// the two turns out to be the last one completes the output - with a context, and with one that carries the
// value attached at subscription.
var spinOps = map[string]func(outer ro.Observable[int], inner func(int) ro.Observable[int]) ro.Observable[int]{
	"MergeAll": func(o ro.Observable[int], f func(int) ro.Observable[int]) ro.Observable[int] {
		return ro.MergeAll[int]()(ro.Map(f)(o))
	},
	"MergeMap": func(o ro.Observable[int], f func(int) ro.Observable[int]) ro.Observable[int] {
		return ro.MergeMap(f)(o)
	},
	"MergeMapI": func(o ro.Observable[int], f func(int) ro.Observable[int]) ro.Observable[int] {
		return ro.MergeMapI(func(v int, _ int64) ro.Observable[int] { return f(v) })(o)
	},
}

func spinCases(tier string) []driver.Case {
	rounds := 3000
	if tier == "thorough" {
		rounds = 30000
	}
	var cases []driver.Case
	for _, name := range []string{"MergeAll", "MergeMap", "MergeMapI"} {
		for _, end := range []string{"complete", "error-vs-complete"} {
			cases = append(cases, driver.Case{ID: fmt.Sprintf("spin-terminal/%s/%s", name, end), Solo: true, P: map[string]string{"kind": "spin-terminal", "op": name, "end": end, "rounds": fmt.Sprint(rounds), "concurrent": "1"}})
		}
	}
	return cases
}

var spinSink atomic.Int64

func runSpinTerminal(c driver.Case) driver.Result {
	name, rounds := c.Get("op"), c.Int("rounds")
	res := driver.Result{Verdict: driver.Held, Nontrivial: true}
	lastWas := map[string]int64{}
	for round := 0; round < rounds; round++ {
		outer, inner := src.New("outer"), src.New("inner")
		p := spinOps[name](outer.Observable(), func(int) ro.Observable[int] { return inner.Observable() })
		r := rec.New(name)
		sub := p.SubscribeWithContext(context.WithValue(context.Background(), rec.SubKey, "sub"), rec.Raw[int](r))
		outer.Next(1) // subscribes the inner observable
		inner.Next(2)
		var ready atomic.Int32
		var release atomic.Bool
		var wg sync.WaitGroup
		ends := []func(){func() { outer.Complete() }, func() { inner.Complete() }}
		if c.Get("end") == "error-vs-complete" && round%2 == 1 {
			ends[1] = func() { inner.Error() }
		}
		for i, f := range ends {
			i, f := i, f
			wg.Add(1)
			go func() {
				defer wg.Done()
				defer func() { recover() }()
				ready.Add(1)
				for !release.Load() {
				}
				for k := (round + 3*i) % 7 * 4; k > 0; k-- {
					spinSink.Add(1)
				}
				f()
			}()
		}
		for ready.Load() < 2 {
			runtime.Gosched()
		}
		release.Store(true)
		wg.Wait()
		sub.Unsubscribe()
		ev := r.Events()
		res.Events += int64(len(ev))
		for i, x := range ev {
			bad := ""
			switch {
			case x.CtxNil:
				res.Key, bad = "C09/"+name+"/nil-context", "was invoked with a nil context"
			case x.Sub != "sub":
				res.Key, bad = "C09/"+name+"/subscription-value-missing-in-"+[]string{"Next", "Error", "Complete"}[x.Kind], "does not see the value attached to the subscription context"
			}
			if bad != "" {
				res.Verdict = driver.Violated
				res.Msg = fmt.Sprintf("%s, outer and inner observable ending at the same instant on two goroutines (round %d): callback #%d (%s) %s; trace [%s]", name, round, i, x.String(), bad, r.TraceString())
				res.Witness = map[string]any{"round": round, "trace": r.Trace()}
				return res
			}
			if x.Kind != rec.Next {
				lastWas[x.Item]++ // which notification's context the terminal travels with: both orders must show up
			}
		}
	}
	res.Sig = c.ID
	res.Extra = map[string]int64{"spin_rounds": int64(rounds)}
	res.Sample = map[string]any{"operator": name, "rounds": rounds, "terminal_context_came_from": lastWas}
	return res
}
