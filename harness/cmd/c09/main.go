// C09 — context flows from Subscribe through every callback and is never nil.
package main

import (
	"context"
	"fmt"
	"math/rand"
	"strings"
	"time"

	"github.com/samber/ro"
	"verifharness/internal/catalog"
	"verifharness/internal/driver"
	"verifharness/internal/quiesce"
	"verifharness/internal/rec"
	"verifharness/internal/sched"
	"verifharness/internal/src"
)

var scripts = []string{"C", "E", "1 C", "1 E", "1 2 0 C", "2 1 2 E", "0 1", "-", "1 2 0 2 1 C"}

func plan(tier string, seed int64) []driver.Case {
	nChains := 300
	if tier == "thorough" {
		nChains = 6000
	}
	rng := rand.New(rand.NewSource(seed))
	var cases []driver.Case
	for _, e := range catalog.All() {
		if e.Flags.Has(catalog.Creation) {
			cases = append(cases, driver.Case{ID: "creation/" + e.Name, P: map[string]string{"kind": "creation", "entry": e.Name}})
			continue
		}
		scs := scripts
		if tier == "thorough" {
			for _, s := range src.LegalScripts([]int{0, 1, 2}, 3) {
				scs = append(scs, s.String())
			}
		}
		seen := map[string]bool{}
		for _, sc := range scs {
			if seen[sc] {
				continue
			}
			seen[sc] = true
			if e.Flags.Has(catalog.Blocks) && !strings.ContainsAny(sc, "CE") {
				continue
			}
			for _, drive := range []string{"sync", "puppet"} {
				if e.Flags.Has(catalog.Blocks) && drive == "puppet" {
					continue
				}
				cases = append(cases, driver.Case{ID: fmt.Sprintf("op/%s/%s/%s", e.Name, sc, drive), P: map[string]string{"kind": "op", "entry": e.Name, "script": sc, "drive": drive}})
				// the same with the operator's first user callback panicking: the Error that reports the panic
				// travels with a context like any other notification
				if drive == "sync" && strings.Contains(sc, " ") {
					cases = append(cases, driver.Case{ID: fmt.Sprintf("op/%s/%s/%s/callback-panics", e.Name, sc, drive), P: map[string]string{"kind": "op", "entry": e.Name, "script": sc, "drive": drive, "panic": "1"}})
				}
				// the same with sources whose notifications carry a context unrelated to the subscription's
				cases = append(cases, driver.Case{ID: fmt.Sprintf("op/%s/%s/%s-foreign", e.Name, sc, drive), P: map[string]string{"kind": "op", "entry": e.Name, "script": sc, "drive": drive, "foreign": "1"}})
			}
		}
	}
	var usable []*catalog.Entry
	for _, e := range catalog.Chainable() {
		if !e.Flags.Has(catalog.Blocks) {
			usable = append(usable, e)
		}
	}
	for i := 0; i < nChains; i++ {
		n := 2 + rng.Intn(4)
		names := make([]string, n)
		for j := range names {
			names[j] = usable[rng.Intn(len(usable))].Name
		}
		sc := scripts[rng.Intn(len(scripts))]
		cases = append(cases, driver.Case{ID: fmt.Sprintf("chain/%d/%s/%s", i, strings.Join(names, ">"), sc), P: map[string]string{"kind": "op", "chain": strings.Join(names, ">"), "script": sc, "drive": []string{"sync", "puppet"}[rng.Intn(2)]}})
	}
	// one pipeline value, two subscriptions with different subscription contexts: each subscriber
	// sees its own context in every callback, never the other one's (state kept across or between
	// subscriptions must not carry a context along)
	for _, e := range catalog.All() {
		if e.Flags.Has(catalog.Creation) || e.Flags.Has(catalog.Hot) || e.Flags.Has(catalog.CtxExempt) {
			continue
		}
		for _, sc := range []string{"C", "1 C", "2 1 E", "1 2 0 2 C"} {
			for _, drive := range []string{"sync", "puppet"} {
				if e.Flags.Has(catalog.Blocks) && drive == "puppet" {
					continue
				}
				cases = append(cases, driver.Case{ID: fmt.Sprintf("twosubs/%s/%s/%s", e.Name, sc, drive), P: map[string]string{"kind": "twosubs", "entry": e.Name, "script": sc, "drive": drive}})
			}
		}
	}
	for _, d := range []string{"Timeout(3ms)"} {
		cases = append(cases, driver.Case{ID: "twosubs/" + d + "/silent", P: map[string]string{"kind": "twosubs", "adhoc": d}})
	}
	cases = append(cases, spinCases(tier)...)
	// hot sources: the producer's context must be delivered
	for _, k := range []string{"publish", "behavior", "replay", "async", "unicast"} {
		cases = append(cases, driver.Case{ID: "subject/" + k, P: map[string]string{"kind": "subject", "subject": k}})
	}
	return cases
}

// runTwoSubs: see the plan. Both subscriptions are alive at the same time when the sources are
// puppets; with synchronous sources the first one has ended when the second one starts.
func runTwoSubs(c driver.Case) driver.Result {
	rec.ResetHooks()
	res := driver.Result{Verdict: driver.Held}
	sc := src.Parse(c.Get("script"))
	var p catalog.Pipeline
	var srcs []*src.Source
	name, fam := "", ""
	asyncish := false
	if ad := c.Get("adhoc"); ad != "" {
		name, fam = ad, "Timeout"
		s := src.New("s0")
		srcs = []*src.Source{s}
		p = catalog.P(ro.Timeout[int](3 * time.Millisecond)(s.Observable()))
		asyncish = true
	} else {
		e := catalog.Get(c.Get("entry"))
		name, fam = e.Name, e.Family
		asyncish = e.Flags.Has(catalog.Async) || e.Flags.Has(catalog.HandOff) || e.Flags.Has(catalog.TimeDriven)
		b := &catalog.B{}
		for i := 0; i < e.NSrc; i++ {
			var s *src.Source
			if c.Get("drive") == "sync" {
				s = src.New(fmt.Sprintf("s%d", i), sc)
			} else {
				s = src.New(fmt.Sprintf("s%d", i))
			}
			srcs = append(srcs, s)
			b.Srcs = append(b.Srcs, s.Observable())
		}
		p = e.Pipeline(b)
	}
	markers := []string{"sub-A", "sub-B"}
	recs := []*rec.Rec{rec.New(name + "/A"), rec.New(name + "/B")}
	var subs []ro.Subscription
	for k := range markers {
		k := k
		ctx := context.WithValue(context.Background(), rec.SubKey, markers[k])
		var sub ro.Subscription
		st, _, pan := quiesce.Call(func() { sub = p.Subscribe(ctx, recs[k], false) }, 10*time.Second)
		if st != quiesce.Returned {
			return driver.Result{Verdict: driver.Inconclusive, Key: "subscribe-blocked", Dirty: true}
		}
		if pan != nil {
			res.Verdict, res.Key = driver.Violated, "C09/"+fam+"/panic-escaped-subscribe"
			res.Msg = fmt.Sprintf("%s: %v", name, pan)
			return res
		}
		subs = append(subs, sub)
	}
	defer func() {
		for _, s := range subs {
			func() { defer func() { recover() }(); s.Unsubscribe() }()
		}
	}()
	if c.Get("drive") == "puppet" {
		// notification k of the script goes to subscription A of every source, then to subscription B
		for round := 0; round < len(sc); round++ {
			for _, s := range srcs {
				for idx := 0; idx < int(s.Subscribed.Load()) && idx < 2; idx++ {
					n, idx := sc[round], idx
					if st, _, _ := quiesce.Call(func() { defer func() { recover() }(); s.SendTo(idx, n) }, 8*time.Second); st != quiesce.Returned {
						return driver.Result{Verdict: driver.Inconclusive, Key: "producer-blocked-in-library", Dirty: true}
					}
				}
			}
		}
	}
	if asyncish {
		time.Sleep(12 * time.Millisecond)
		quiesce.Settle(2 * time.Second)
	}
	for k, r := range recs {
		for i, x := range r.Events() {
			res.Events++
			if x.CtxNil {
				res.Verdict, res.Key = driver.Violated, "C09/"+fam+"/nil-context"
				res.Msg = fmt.Sprintf("%s, subscription %s: callback #%d (%s) was invoked with a nil context", name, markers[k], i, x.String())
				return res
			}
			if x.Sub != "" && x.Sub != markers[k] {
				res.Verdict, res.Key = driver.Violated, "C09/"+fam+"/context-of-another-subscription"
				res.Msg = fmt.Sprintf("%s, one pipeline value subscribed twice (contexts sub-A and sub-B, %s sources playing [%s]): callback #%d (%s) of subscription %s carries the subscription context of %s; traces A=[%s] B=[%s]", name, c.Get("drive"), sc, i, x.String(), markers[k], x.Sub, recs[0].TraceString(), recs[1].TraceString())
				return res
			}
		}
	}
	res.Nontrivial = res.Events > 0
	res.Sig = "twosubs/" + name + "/" + c.Get("script") + "/" + c.Get("drive")
	res.Sample = map[string]any{"pipeline": name, "script": c.Get("script"), "drive": c.Get("drive"), "trace_A": recs[0].TraceString(), "trace_B": recs[1].TraceString()}
	return res
}

func runOp(c driver.Case) driver.Result {
	rec.ResetHooks()
	catalog.MidApplied()
	var e *catalog.Entry
	var chain []*catalog.Entry
	name, fam := "", "chain"
	if ch := c.Get("chain"); ch != "" {
		for _, n := range strings.Split(ch, ">") {
			chain = append(chain, catalog.Get(n))
		}
		e, chain, name = chain[0], chain[1:], ch
	} else {
		e = catalog.Get(c.Get("entry"))
		name, fam = e.Name, e.Family
	}
	flags := e.Flags
	for _, x := range chain {
		flags |= x.Flags
	}
	sc := src.Parse(c.Get("script"))
	res := driver.Result{Verdict: driver.Held}
	b := &catalog.B{}
	if c.Get("panic") == "1" {
		fired := false
		b.Hit = func(pos string) error {
			if !fired {
				fired = true
				panic("callback " + pos + " panics")
			}
			return nil
		}
	}
	var srcs []*src.Source
	for i := 0; i < e.NSrc; i++ {
		var s *src.Source
		if c.Get("drive") == "sync" {
			s = src.New(fmt.Sprintf("s%d", i), sc)
		} else {
			s = src.New(fmt.Sprintf("s%d", i))
		}
		s.Foreign = c.Get("foreign") == "1"
		srcs = append(srcs, s)
		// a context operator upstream of the operator under test attaches the "up" marker to every notification
		b.Srcs = append(b.Srcs, ro.ContextWithValue[int](rec.UpKey, "up")(s.Observable()))
	}
	var p catalog.Pipeline
	if e.Op != nil {
		o := e.Op(b)(b.S(0))
		for _, x := range chain {
			o = x.Op(b)(o)
		}
		p = catalog.P(o)
	} else {
		p = e.Pipeline(b)
	}
	r := rec.New(name)
	ctx := context.WithValue(context.Background(), rec.SubKey, "sub")
	var sub ro.Subscription
	st, _, pan := quiesce.Call(func() { sub = p.Subscribe(ctx, r, false) }, 10*time.Second)
	if st != quiesce.Returned {
		return driver.Result{Verdict: driver.Inconclusive, Key: "subscribe-blocked", Dirty: true}
	}
	if pan != nil {
		res.Verdict, res.Key = driver.Violated, "C09/"+fam+"/panic-escaped-subscribe"
		res.Msg = fmt.Sprintf("%s: %v", name, pan)
		return res
	}
	defer func() { defer func() { recover() }(); sub.Unsubscribe() }()
	if c.Get("drive") == "puppet" {
		for round := 0; round < len(sc); round++ {
			for _, s := range srcs {
				if s.IsSubscribed() && s.Live.Load() > 0 {
					n := sc[round]
					if st, _, _ := quiesce.Call(func() { defer func() { recover() }(); s.Send(n) }, 8*time.Second); st != quiesce.Returned {
						return driver.Result{Verdict: driver.Inconclusive, Key: "producer-blocked-in-library", Dirty: true}
					}
				}
			}
		}
	}
	asyncish := flags.Has(catalog.Async) || flags.Has(catalog.HandOff) || flags.Has(catalog.TimeDriven)
	if asyncish {
		deadline := time.Now().Add(2 * time.Second)
		grace := time.Now().Add(25 * time.Millisecond)
		for r.Terminal() == rec.Next && time.Now().Before(deadline) {
			if _, ok := quiesce.Settle(3 * time.Millisecond); ok && time.Now().After(grace) {
				break
			}
			time.Sleep(300 * time.Microsecond)
		}
	}
	// unsubscribe now so that teardown-time notifications (e.g. groups completed by GroupBy's teardown) are observed too
	func() { defer func() { recover() }(); sub.Unsubscribe() }()
	ev := r.Events()
	res.Events = int64(len(ev)) + int64(len(srcs))
	res.Nontrivial = len(ev) > 0
	res.Sig = name + "|" + c.Get("script") + "|" + c.Get("drive") + "→" + r.TraceString()
	what := fmt.Sprintf("%s over %s sources playing [%s]", name, c.Get("drive"), sc)
	fail := func(key, msg string) driver.Result {
		res.Verdict, res.Key = driver.Violated, "C09/"+fam+"/"+key
		res.Msg = what + ": " + msg + "; trace: [" + r.TraceString() + "]"
		return res
	}
	// R3: every source subscription saw the subscription context
	for _, s := range srcs {
		if s.CtxNil > 0 {
			return fail("source-subscribed-with-nil-context", "source "+s.Name+" was subscribed with a nil context")
		}
		for idx, m := range s.SubCtxSub {
			if idx > 0 && c.Get("foreign") == "1" {
				// re-subscribing operators thread the context of the previous round's terminal (or the one a
				// WithContext callback returned) into the next subscription: with a source whose
				// notifications do not descend from the subscription context that chain is broken by the
				// source, not by the operator
				continue
			}
			if m != "sub" {
				return fail("subscription-context-not-passed-to-source", fmt.Sprintf("subscription #%d of source %s does not carry the value attached to the context given to SubscribeWithContext", idx, s.Name))
			}
		}
	}
	emitted := map[string]src.Emission{}
	var all []src.Emission
	for _, s := range srcs {
		for _, em := range s.Emissions() {
			emitted[em.Tag] = em
			all = append(all, em)
		}
	}
	mids := catalog.MidApplied()
	exempt := flags.Has(catalog.CtxExempt)
	strict := !(flags.Has(catalog.Stores) || flags.Has(catalog.AggCtx) || flags.Has(catalog.MultiFeed) || flags.Has(catalog.Resub) || asyncish || len(srcs) > 1)
	// operators that store each value and deliver it later, one for one and in order (the delays
	// and the hand-offs): the i-th delivered value is the i-th value of the source and must carry
	// the context that value arrived with, however many values are waiting inside the operator
	if len(chain) == 0 && len(srcs) == 1 && !exempt && (fam == "Delay" || fam == "ObserveOn" || fam == "SubscribeOn") {
		var nexts []src.Emission
		for _, em := range all {
			if em.N.K == rec.Next {
				nexts = append(nexts, em)
			}
		}
		k := 0
		for i, x := range ev {
			if x.Kind != rec.Next {
				continue
			}
			if k < len(nexts) && x.Item != nexts[k].Tag {
				return fail("per-item-value-of-another-item", fmt.Sprintf("callback #%d (%s) is the %d. value of the source (%s) but carries the context of %q", i, x.String(), k+1, nexts[k].Tag, x.Item))
			}
			k++
		}
	}
	// operators that put values of their own into the stream (not derived from a source item)
	injects := false
	for _, x := range append([]*catalog.Entry{e}, chain...) {
		switch x.Family {
		case "StartWith", "EndWith", "DefaultIfEmpty", "DefaultIfEmptyWithContext", "Catch", "OnErrorReturn", "OnErrorResumeNextWith", "ElementAtOrDefault", "FirstOrDefault", "LastOrDefault", "RepeatWith":
			injects = len(chain) > 0
		}
	}
	var samples []string
	for i, x := range ev {
		if x.CtxNil {
			return fail("nil-context", fmt.Sprintf("callback #%d (%s) was invoked with a nil context", i, x.String()))
		}
		if len(samples) < 4 {
			samples = append(samples, fmt.Sprintf("%s{sub=%q item=%q up=%q mid=%q}", x.String(), x.Sub, x.Item, x.Up, x.Mid))
		}
		if exempt {
			continue
		}
		kind := []string{"Next", "Error", "Complete"}[x.Kind]
		hot := flags.Has(catalog.Hot) && x.Item == "" // value replayed by a hot connector (e.g. a behavior subject's initial value)
		if x.Sub != "sub" && !hot && c.Get("foreign") != "1" {
			return fail("subscription-value-missing-in-"+kind, fmt.Sprintf("callback #%d (%s) does not see the value attached to the subscription context", i, x.String()))
		}
		// which emission was in progress?
		var cur *src.Emission
		for k := range all {
			if all[k].Begin < x.Seq && (all[k].End == 0 || x.Seq < all[k].End) {
				cur = &all[k]
			}
		}
		if cur != nil && !asyncish && (x.Kind == rec.Next || strict) {
			if x.Item == "" && injects {
				// a value made up by an operator of the chain (StartWith's prefix, a default, a fallback…)
				// and released later by a storing operator downstream: it never had a per-item context
				continue
			}
			if x.Item == "" {
				return fail("per-item-value-missing-in-"+kind, fmt.Sprintf("callback #%d (%s), delivered while source notification %s was being processed, carries no per-item context value", i, x.String(), cur.Tag))
			}
			if _, ok := emitted[x.Item]; !ok {
				return fail("per-item-value-unknown", fmt.Sprintf("callback #%d carries item value %q which no source attached", i, x.Item))
			}
			if strict && x.Kind == rec.Next && x.Item != cur.Tag {
				return fail("per-item-value-of-another-item", fmt.Sprintf("callback #%d (%s) carries the context of %s but was caused by %s", i, x.String(), x.Item, cur.Tag))
			}
		}
		if x.Item != "" {
			if x.Up != "up" {
				return fail("upstream-operator-value-missing-in-"+kind, fmt.Sprintf("callback #%d (%s) carries the context of source notification %s but lost the value attached by ContextWithValue upstream", i, x.String(), x.Item))
			}
			if x.Kind == rec.Next && mids[x.Item] && x.Mid == "" && len(chain) == 0 {
				return fail("callback-returned-context-dropped", fmt.Sprintf("callback #%d (%s): the user callback returned a derived context for %s, the delivered context does not carry its value", i, x.String(), x.Item))
			}
		}
	}
	res.Sample = map[string]any{"pipeline": name, "script": c.Get("script"), "drive": c.Get("drive"), "callbacks": samples}
	return res
}

func runCreation(c driver.Case) driver.Result {
	e := catalog.Get(c.Get("entry"))
	r := rec.New(e.Name)
	ctx := context.WithValue(context.Background(), rec.SubKey, "sub")
	res := driver.Result{Verdict: driver.Held}
	var sub ro.Subscription
	st, _, _ := quiesce.Call(func() { sub = e.Pipeline(&catalog.B{}).Subscribe(ctx, r, false) }, 10*time.Second)
	if st != quiesce.Returned {
		return driver.Result{Verdict: driver.Inconclusive, Key: "subscribe-blocked", Dirty: true}
	}
	deadline := time.Now().Add(2 * time.Second)
	for r.Terminal() == rec.Next && time.Now().Before(deadline) {
		time.Sleep(300 * time.Microsecond)
	}
	func() { defer func() { recover() }(); sub.Unsubscribe() }()
	ev := r.Events()
	res.Events, res.Nontrivial = int64(len(ev)), len(ev) > 0
	res.Sig = e.Name + "→" + r.TraceString()
	for i, x := range ev {
		if x.CtxNil {
			res.Verdict, res.Key = driver.Violated, "C09/"+e.Family+"/nil-context"
			res.Msg = fmt.Sprintf("%s: callback #%d (%s) invoked with a nil context", e.Name, i, x.String())
			return res
		}
		if x.Sub != "sub" {
			res.Verdict, res.Key = driver.Violated, "C09/"+e.Family+"/subscription-value-missing-in-"+[]string{"Next", "Error", "Complete"}[x.Kind]
			res.Msg = fmt.Sprintf("%s: callback #%d (%s) does not see the value attached to the subscription context", e.Name, i, x.String())
			return res
		}
	}
	return res
}

func runSubject(c driver.Case) driver.Result {
	var s ro.Subject[int]
	switch c.Get("subject") {
	case "publish":
		s = ro.NewPublishSubject[int]()
	case "behavior":
		s = ro.NewBehaviorSubject(0)
	case "replay":
		s = ro.NewReplaySubject[int](2)
	case "async":
		s = ro.NewAsyncSubject[int]()
	default:
		s = ro.NewUnicastSubject[int](4)
	}
	res := driver.Result{Verdict: driver.Held}
	r1, r2 := rec.New("early"), rec.New("late")
	mk := func(tag string) context.Context { return context.WithValue(context.Background(), rec.ItemKey, tag) }
	if c.Get("subject") != "unicast" {
		s.SubscribeWithContext(context.WithValue(context.Background(), rec.SubKey, "sub"), rec.Raw[int](r1))
	}
	s.NextWithContext(mk("p1"), 1)
	s.NextWithContext(mk("p2"), 2)
	s.SubscribeWithContext(context.WithValue(context.Background(), rec.SubKey, "sub"), rec.Raw[int](r2))
	s.NextWithContext(mk("p3"), 3)
	s.CompleteWithContext(mk("pc"))
	for _, r := range []*rec.Rec{r1, r2} {
		for i, x := range r.Events() {
			res.Events++
			if x.CtxNil {
				res.Verdict, res.Key = driver.Violated, "C09/subject-"+c.Get("subject")+"/nil-context"
				res.Msg = fmt.Sprintf("%s subject, subscriber %s: callback #%d (%s) invoked with a nil context", c.Get("subject"), r.Name, i, x.String())
				return res
			}
			// values published with a context must be delivered (also when replayed) with that producer context
			if x.Kind == rec.Next && x.Val != "0" {
				want := "p" + x.Val
				if x.Item != want {
					res.Verdict, res.Key = driver.Violated, "C09/subject-"+c.Get("subject")+"/producer-context-not-delivered"
					res.Msg = fmt.Sprintf("%s subject, subscriber %s: value %s was published with context %s and delivered with item value %q", c.Get("subject"), r.Name, x.Val, want, x.Item)
					return res
				}
			}
		}
	}
	res.Nontrivial = res.Events > 0
	res.Sig = c.Get("subject") + "→" + r1.TraceString() + "/" + r2.TraceString()
	return res
}

func runCase(c driver.Case) driver.Result {
	switch c.Get("kind") {
	case "creation":
		return runCreation(c)
	case "subject":
		return runSubject(c)
	case "twosubs":
		return runTwoSubs(c)
	case "spin-terminal":
		return runSpinTerminal(c)
	}
	return runOp(c)
}

func main() {
	driver.Main(driver.Property{
		ID:        "C09",
		Level:     "exploration",
		Rule:      "every catalogue entry (and random chains) × scripts with the three endings × sources {synchronous inside Subscribe, puppet after Subscribe}: SubscribeWithContext gets a context carrying a subscription value; every source notification carries its own per-item value; a ContextWithValue operator upstream of the operator under test attaches a third value; WithContext callbacks return a derived context (fourth value). Oracle on every callback of the recording observer: context non-nil; subscription value visible in Next, Error and Complete; every source subscription carries the subscription value; a delivery made while a source notification is processed carries a per-item value of a source notification (of exactly that one for 1:1 synchronous operators); the upstream operator's value and the callback-returned value are still attached. Exempt by definition: ContextReset, DefaultIfEmptyWithContext. Non-trivial: ≥1 callback observed. For Delay / ObserveOn / SubscribeOn (one value out per value in, FIFO) the i-th delivered value must carry the per-item context of the i-th source value, however many values wait inside the operator. Also: sources whose notifications carry a context that does NOT descend from the subscription context (foreign) - what context operators and WithContext callbacks attach must still be there on values, errors and completion; and one pipeline value subscribed twice with different subscription contexts (sources synchronous or puppets interleaved through SendTo) - no callback of one subscription carries the context of the other.",
		Assume:    []string{"operators that store or combine notifications may deliver the context of any contributing notification"},
		Plan:      plan,
		Run:       runCase,
		CaseWatch: 60 * time.Second,
		Setup: func() {
			rec.Install()
			sched.Install()
		},
	})
}
