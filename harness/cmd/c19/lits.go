package main

import "github.com/samber/ro"

// Identifiers referenced by the literal call sites of pipes_gen.go (promFixed /
// plainFixed / fixedOps). All operator values here are stateless recipes, so
// sharing them between cases and subscriptions is harmless.

type opf = func(ro.Observable[int]) ro.Observable[int]

func inc(x int) int      { return x + 1 }
func dbl(x int) int      { return x * 2 }
func notMul3(x int) bool { return x%3 != 0 }
func add(acc, x int) int { return acc + x }
func nop(int)            {}
func dec(x int) int      { return x - 1 }

// identOp[int] / identOp2[int, string] are operators written as generic
// function instantiations (ast.IndexExpr / ast.IndexListExpr at the call site).
func identOp[T any](o ro.Observable[T]) ro.Observable[T]     { return o }
func identOp2[A, B any](o ro.Observable[A]) ro.Observable[A] { return o }

var opTable = map[string]opf{"double": ro.Map(dbl)}

var lit = struct{ Dec opf }{Dec: ro.Map(dec)}

var ptrOp = &lit.Dec

var sumOp opf = ro.Sum[int]()
