package main

import (
	"github.com/prometheus/client_golang/prometheus"
	"github.com/samber/ro"
	roprometheus "github.com/samber/ro/ee/plugins/prometheus"
)

// Call sites of roprometheus.PipeN that sit lexically inside an argument of another, multi-line call:
// a closure handed to a helper, a `go func(){…}()` body, a `defer func(){…}()` body. The caller-line
// introspection has to find the PipeN call of that line, not the call that encloses it.

var shapes = []string{"closure-argument", "go-func", "deferred-func"}

func within(_ string, f func(), _ ...int) { f() }

func promPipeShaped(shape string, cfg roprometheus.CollectorConfig, s ro.Observable[int], o []opf) (obs ro.Observable[int], col prometheus.Collector) {
	switch shape + "/" + string(rune('0'+len(o))) {
	case "closure-argument/1":
		within(
			"one operator",
			func() {
				obs, col = roprometheus.Pipe1(cfg, s, o[0])
			},
		)
	case "closure-argument/2":
		within(
			"two operators",
			func() {
				obs, col = roprometheus.Pipe2(cfg, s, o[0], o[1])
			},
			1, 2, 3,
			4,
		)
	case "closure-argument/3":
		within("three operators", func() {
			obs, col = roprometheus.Pipe3(cfg, s, o[0], o[1], o[2])
		},
			1, 2, 3, 4, 5,
		)
	case "go-func/1":
		done := make(chan struct{})
		go func() {
			defer close(done)
			obs, col = roprometheus.Pipe1(cfg, s, o[0])
		}()
		<-done
	case "go-func/2":
		done := make(chan struct{})
		go func() {
			defer close(done)
			obs, col = roprometheus.Pipe2(cfg, s, o[0], o[1])
		}()
		<-done
	case "go-func/3":
		done := make(chan struct{})
		go func(_, _, _, _ int) {
			defer close(done)
			obs, col = roprometheus.Pipe3(cfg, s, o[0], o[1], o[2])
		}(1, 2, 3, 4)
		<-done
	case "deferred-func/1":
		func() {
			defer func() {
				obs, col = roprometheus.Pipe1(cfg, s, o[0])
			}()
		}()
	case "deferred-func/2":
		func() {
			defer func() {
				obs, col = roprometheus.Pipe2(cfg, s, o[0], o[1])
			}()
		}()
	case "deferred-func/3":
		func() {
			defer func(_, _, _, _, _ int) {
				obs, col = roprometheus.Pipe3(cfg, s, o[0], o[1], o[2])
			}(1, 2, 3, 4, 5)
		}()
	default:
		panic("promPipeShaped: unsupported " + shape)
	}
	return obs, col
}
