package main

import (
	"fmt"
	"strings"

	"github.com/samber/ro"
	roprometheus "github.com/samber/ro/ee/plugins/prometheus"
	"verifharness/internal/driver"
	"verifharness/internal/rec"
	"verifharness/internal/src"
)

// The licence can become active (SetLicense) or inactive (expiry) while a pipeline value exists:
// every Subscribe is judged by the state of the licence at that moment. One roprometheus.Pipe2
// value is subscribed in several phases with the licence switched between them; the subscribers of
// every phase see the plain trace, and the counters hold exactly what the "on" phases contributed.

func togglePlan() []driver.Case {
	var cases []driver.Case
	for _, seq := range []string{"off,on", "on,off", "off,on,on", "on,off,on", "off,off,on", "on,on,off"} {
		for _, sc := range []string{"1 2 3 C", "2 1 E", "C"} {
			for _, k := range []int{1, 2} {
				cases = append(cases, driver.Case{ID: fmt.Sprintf("toggle/%s/%s/k%d", seq, sc, k), P: map[string]string{"kind": "toggle", "seq": seq, "script": sc, "k": fmt.Sprint(k)}})
			}
		}
	}
	return cases
}

func runToggle(c driver.Case) driver.Result {
	phases := strings.Split(c.Get("seq"), ",")
	sc := src.Parse(c.Get("script"))
	k := c.Int("k")
	res := driver.Result{Verdict: driver.Held, Extra: map[string]int64{}}
	what := fmt.Sprintf("one Pipe2(Map(inc), Filter(notMul3)) value over [%s], %d subscription(s) per phase, licence %s", sc, k, c.Get("seq"))
	// reference: the plain pipeline
	plain := src.New("plain", sc)
	rp := rec.New("plain")
	ro.Pipe2(plain.Observable(), ro.Map(inc), ro.Filter(notMul3)).Subscribe(rec.Raw[int](rp))
	wantTrace := rp.TraceString()
	var nIn, nOut int64
	for _, n := range sc {
		if n.K == rec.Next {
			nIn++
		}
	}
	for _, e := range rp.Events() {
		if e.Kind == rec.Next {
			nOut++
		}
	}
	roprometheus.VerifSetBypassLicenseCheck(phases[0] == "on")
	s := src.New("s", sc)
	obs, col := roprometheus.Pipe2(roprometheus.CollectorConfig{}, s.Observable(), ro.Map(inc), ro.Filter(notMul3))
	var found []driver.Finding
	var exp expectation
	exp.hidden = -1
	// Map lets every value through, Filter the ones that reach the subscriber; both hand on the context they got
	exp.proc, exp.derived, exp.names = []int64{0, 0}, []int64{0, 0}, []string{"Map(inc)", "Filter(notMul3)"}
	for pi, ph := range phases {
		roprometheus.VerifSetBypassLicenseCheck(ph == "on")
		for j := 0; j < k; j++ {
			r := rec.New(fmt.Sprintf("p%d-%d", pi, j))
			var pan any
			func() {
				defer func() { pan = recover() }()
				obs.Subscribe(rec.Raw[int](r)).Unsubscribe()
			}()
			res.Events += int64(r.Len())
			if pan != nil || r.TraceString() != wantTrace {
				found = append(found, driver.Finding{Key: "C19/licence-toggle/trace-differs-from-plain-pipeline", Msg: fmt.Sprintf("%ssubscription #%d of phase %d (licence %s) observed [%s] (panic %v); the plain pipeline delivers [%s]", "", j, pi, ph, r.TraceString(), pan, wantTrace)})
			}
			if ph == "on" {
				exp.subs++
				exp.in += nIn
				exp.out += nOut
				exp.proc[0], exp.derived[0] = exp.proc[0]+nIn, exp.derived[0]+nIn
				exp.proc[1], exp.derived[1] = exp.proc[1]+nOut, exp.derived[1]+nOut
			}
		}
		// counters after this phase, read with the licence as it is now
		in := instrumented{obs: obs, col: col, n: 2, hidden: -1, ops: 2}
		v := in.view("")
		if ph != "on" {
			if v.metrics != 0 {
				found = append(found, driver.Finding{Key: "C19/licence-toggle/metrics-exposed", Msg: fmt.Sprintf("after phase %d the licence is inactive and the collector exposes %d metric(s)", pi, v.metrics)})
			}
			continue
		}
		for _, a := range counters(v, exp, true) {
			found = append(found, driver.Finding{Key: "C19/licence-toggle/" + a.class, Msg: fmt.Sprintf("after phase %d (licence on; %d subscription(s) made while it was on): %s", pi, exp.subs, a.msg)})
		}
	}
	if s.Live.Load() != 0 {
		found = append(found, driver.Finding{Key: "C19/licence-toggle/source-not-released", Msg: s.Summary()})
	}
	res.Nontrivial = true
	res.Sig = "toggle/" + c.Get("seq") + "/" + c.Get("script")
	res.Sample = map[string]any{"pipeline": "Pipe2(Map(inc), Filter(notMul3))", "licence_phases": phases, "subscriptions_per_phase": k, "plain_trace": wantTrace, "expected_subscriptions_counted": exp.subs}
	return verdict(res, what, found)
}
