// C19 — the Prometheus instrumentation is transparent and its counters are exact.
//
// Technique: runtime monitoring. Every case builds the same chain three times
// over identical scripted sources — with plain ro.PipeN, with ro operators and
// harness probes between them (the measurement of "what actually happened"),
// and with roprometheus.PipeN — and compares (1) what the subscribers observe
// (values, order, terminal, context markers in every callback, release of the
// source) and (2) the metrics scraped from the returned prometheus.Collector
// with the probe counts. Licence bypass on and off. The stand-alone operators
// (IncCounterOn*, ObserveNextLag) are checked the same way.
//
// The call sites of roprometheus.PipeN are generated (pipes_gen.go, gen.py):
// the plugin parses the caller's source line, so each call sits on one line.
package main

import (
	"context"
	"fmt"
	"math/rand"
	"regexp"
	"sort"
	"strconv"
	"strings"
	"sync"
	"sync/atomic"
	"time"

	"github.com/prometheus/client_golang/prometheus"
	dto "github.com/prometheus/client_model/go"
	"github.com/samber/ro"
	roprometheus "github.com/samber/ro/ee/plugins/prometheus"
	"verifharness/internal/catalog"
	"verifharness/internal/driver"
	"verifharness/internal/quiesce"
	"verifharness/internal/rec"
	"verifharness/internal/src"
)

// ------------------------------------------------------------------ operator pool

// usableOps returns the catalogue entries used in random chains: chainable
// int→int single-source operators that deliver synchronously. Time driven,
// hand-off, blocking, non-deterministic and hot entries are left out (their
// traces are not a function of the script), and so are GroupBy→MergeAll (known
// self-deadlock below an early-completing operator, findings C03/C14) and
// ThrowOnContextCancel (completes from a goroutine of its own).
func usableOps() (all []*catalog.Entry, flow []*catalog.Entry) {
	const skip = catalog.TimeDriven | catalog.HandOff | catalog.Blocks | catalog.Async | catalog.NonDet | catalog.Hot | catalog.KeepsSource
	for _, e := range catalog.Chainable() {
		if e.Flags.Has(skip) || strings.HasPrefix(e.Name, "GroupBy") || e.Name == "ThrowOnContextCancel" {
			continue
		}
		all = append(all, e)
		if !reducing(e.Name) {
			flow = append(flow, e)
		}
	}
	return
}

// reducing names the entries that (nearly) always shorten the stream to ≤ 1 value
// and those that double it (FlatMap, MergeMap: x → two values); long random
// chains draw them less often so that something still flows and the number of
// callbacks stays bounded.
func reducing(name string) bool {
	for _, p := range []string{"IgnoreElements", "First", "Last", "Find", "Head", "Tail", "Reduce", "Sum", "Min", "Max", "ElementAt", "Take(0)", "Take(1)", "TakeLast", "While(false)", "RepeatWith(0)", "TakeWhile", "MapTo", "Clamp(0,1)", "SkipLast", "Skip(3)", "Skip(2)", "FlatMap", "MergeMap"} {
		if strings.HasPrefix(name, p) {
			return true
		}
	}
	return false
}

func opsOf(names []string) []opf {
	out := make([]opf, len(names))
	for i, n := range names {
		e := catalog.Get(n)
		if e == nil || e.Op == nil {
			panic("C19: unknown catalogue operator " + n)
		}
		out[i] = e.Op(&catalog.B{})
	}
	return out
}

// ------------------------------------------------------------------ plan

var endings = []string{"C", "E", ""}

func randScript(rng *rand.Rand) string {
	n := rng.Intn(7)
	var t []string
	for i := 0; i < n; i++ {
		t = append(t, strconv.Itoa(rng.Intn(4)))
	}
	if e := endings[rng.Intn(3)]; e != "" {
		t = append(t, e)
	}
	if len(t) == 0 {
		return "-"
	}
	return strings.Join(t, " ")
}

var modes = []string{"seq1", "seq1", "seq2", "seq3", "conc2", "conc3", "conc4", "conc6", "conc8"}

func plan(tier string, seed int64) []driver.Case {
	perArity, fixedScripts, standalone, combos, exhaustVals := 64, 10, 900, 300, 3
	if tier == "thorough" {
		perArity, fixedScripts, standalone, combos, exhaustVals = 1300, 50, 14000, 5000, 4
	}
	rng := rand.New(rand.NewSource(seed))
	all, flow := usableOps()
	pick := func() string {
		if rng.Intn(5) == 0 {
			return all[rng.Intn(len(all))].Name
		}
		return flow[rng.Intn(len(flow))].Name
	}
	var cases []driver.Case
	add := func(id string, p map[string]string) {
		for _, lic := range []string{"on", "off"} {
			q := map[string]string{"lic": lic}
			for k, v := range p {
				q[k] = v
			}
			cases = append(cases, driver.Case{ID: id + "/lic-" + lic, P: q})
		}
	}
	// drive: a quarter of the cases use an asynchronous source; a third of those
	// have the subscriber unsubscribe from inside its 1st..3rd Next callback.
	drive := func() (string, string) {
		if rng.Intn(4) == 0 {
			if rng.Intn(3) == 0 {
				return "async", fmt.Sprint(1 + rng.Intn(3))
			}
			return "async", "0"
		}
		return "sync", "0"
	}
	// (1) random chains of catalogue operators, every arity
	for n := 1; n <= maxArity; n++ {
		for i := 0; i < perArity; i++ {
			names := make([]string, n)
			for j := range names {
				names[j] = pick()
			}
			sc, mode, cfg := randScript(rng), modes[rng.Intn(len(modes))], rng.Intn(3)
			dr, cut := drive()
			add(fmt.Sprintf("pipe/n%02d/%d/%s/[%s]/%s/%s%s", n, i, strings.Join(names, ">"), sc, mode, dr, cutID(cut)),
				map[string]string{"kind": "pipe", "n": fmt.Sprint(n), "chain": strings.Join(names, ">"), "script": sc, "mode": mode, "drive": dr, "cut": cut, "cfg": fmt.Sprint(cfg)})
		}
	}
	// (1b) call sites written inside an argument of another multi-line call (closure argument, go/defer body)
	for _, shape := range shapes {
		for n := 1; n <= 3; n++ {
			for i := 0; i < 2; i++ {
				names := make([]string, n)
				for j := range names {
					names[j] = pick()
				}
				sc := randScript(rng)
				add(fmt.Sprintf("shape/%s/n%02d/%d/%s/[%s]", shape, n, i, strings.Join(names, ">"), sc),
					map[string]string{"kind": "pipe", "shape": shape, "n": fmt.Sprint(n), "chain": strings.Join(names, ">"), "script": sc, "mode": "seq2", "drive": "sync", "cfg": fmt.Sprint(rng.Intn(3))})
			}
		}
	}
	// (2) literal call sites (every expression shape the introspection distinguishes), every arity
	for n := 1; n <= maxArity; n++ {
		for i := 0; i < fixedScripts; i++ {
			sc, mode := randScript(rng), modes[rng.Intn(len(modes))]
			dr, cut := drive()
			add(fmt.Sprintf("fixed/n%02d/%d/[%s]/%s/%s%s", n, i, sc, mode, dr, cutID(cut)),
				map[string]string{"kind": "fixed", "n": fmt.Sprint(n), "script": sc, "mode": mode, "drive": dr, "cut": cut, "cfg": fmt.Sprint(rng.Intn(3))})
		}
	}
	// (3) every input script and ending in a small scope, short chains
	short := [][]string{{"Map"}, {"Take(2)"}, {"Sum"}, {"StartWith"}, {"Filter", "Scan"}, {"Distinct", "EndWith"}, {"Skip(1)", "Map", "Take(2)"}, {"TapOnNext", "Last", "DefaultIfEmpty"}}
	for _, names := range short {
		for _, sc := range src.LegalScripts([]int{1, 2}, exhaustVals) {
			add(fmt.Sprintf("scripts/n%02d/%s/[%s]", len(names), strings.Join(names, ">"), sc),
				map[string]string{"kind": "pipe", "n": fmt.Sprint(len(names)), "chain": strings.Join(names, ">"), "script": sc.String(), "mode": "seq2", "drive": "sync", "cfg": "0"})
		}
	}
	// (4) stand-alone operators: one operator at one position of a random chain
	kinds := []string{"IncCounterOnNext", "IncCounterOnError", "IncCounterOnComplete", "IncCounterOnSubscription", "ObserveNextLag/summary", "ObserveNextLag/histogram"}
	for i := 0; i < standalone; i++ {
		n := rng.Intn(5)
		names := make([]string, n)
		for j := range names {
			names[j] = pick()
		}
		kind := kinds[i%len(kinds)]
		ins := fmt.Sprintf("%s@%d", kind, rng.Intn(n+1))
		sc, mode := randScript(rng), modes[rng.Intn(len(modes))]
		dr, cut := drive()
		add(fmt.Sprintf("standalone/%d/%s/%s/[%s]/%s/%s%s", i, ins, chainID(names), sc, mode, dr, cutID(cut)),
			map[string]string{"kind": "standalone", "chain": strings.Join(names, ">"), "inserts": ins, "script": sc, "mode": mode, "drive": dr, "cut": cut})
	}
	// (5) several stand-alone operators in one chain
	for i := 0; i < combos; i++ {
		n := rng.Intn(5)
		names := make([]string, n)
		for j := range names {
			names[j] = pick()
		}
		k := 2 + rng.Intn(5)
		ins := make([]string, k)
		for j := range ins {
			ins[j] = fmt.Sprintf("%s@%d", kinds[rng.Intn(len(kinds))], rng.Intn(n+1))
		}
		sc, mode := randScript(rng), modes[rng.Intn(len(modes))]
		dr, cut := drive()
		add(fmt.Sprintf("standalone-combo/%d/%s/%s/[%s]/%s/%s%s", i, strings.Join(ins, ","), chainID(names), sc, mode, dr, cutID(cut)),
			map[string]string{"kind": "standalone", "chain": strings.Join(names, ">"), "inserts": strings.Join(ins, ","), "script": sc, "mode": mode, "drive": dr, "cut": cut})
	}
	cases = append(cases, togglePlan()...)
	return cases
}

func cutID(cut string) string {
	if cut != "0" && cut != "" {
		return "/cut" + cut
	}
	return ""
}

func cutText(cut int) string {
	if cut > 0 {
		return fmt.Sprintf(", Unsubscribe from inside Next #%d", cut)
	}
	return ""
}

func chainID(names []string) string {
	if len(names) == 0 {
		return "-"
	}
	return strings.Join(names, ">")
}

// ------------------------------------------------------------------ executing one pipeline

type subOut struct {
	Events    []rec.Event
	Trace     string
	Panic     string
	Grammar   []string
	LiveAfter int64 // live source subscriptions once the outcome was delivered (sequential mode)
	LiveUnsub int64 // … and after Unsubscribe
	norm      []string
}

type runOut struct {
	Subs       []subOut
	Subscribed int64
	Live       int64 // at the very end
	LiveBefore int64 // concurrent mode: after all outcomes, before the Unsubscribe calls
	Tears      []int64
	SubCtx     []string
	CtxNil     int
	NextOut    int64 // Next callbacks of all recorders
	Events     int64
}

func mkSource(sc src.Script, async bool) *src.Source {
	s := src.New("s", sc)
	s.Async, s.Yield = async, async
	return s
}

// execute subscribes obs k times (in sequence, or from k goroutines released
// together; cut > 0: each subscriber unsubscribes inside its cut-th Next), waits for asynchronous sources to finish playing, unsubscribes,
// and collects what every subscriber and the source saw.
func execute(obs ro.Observable[int], s *src.Source, conc bool, k int, cut int) runOut {
	out := runOut{Subs: make([]subOut, k)}
	recs := make([]*rec.Rec, k)
	subs := make([]ro.Subscription, k)
	subscribe := func(j int) {
		defer func() {
			if e := recover(); e != nil {
				out.Subs[j].Panic = fmt.Sprintf("Subscribe panicked: %v", e)
			}
		}()
		ctx := context.WithValue(context.Background(), rec.SubKey, fmt.Sprintf("sub%d", j))
		subs[j] = obs.SubscribeWithContext(ctx, rec.Raw[int](recs[j]))
	}
	unsub := func(j int) {
		defer func() {
			if e := recover(); e != nil && out.Subs[j].Panic == "" {
				out.Subs[j].Panic = fmt.Sprintf("Unsubscribe panicked: %v", e)
			}
		}()
		if subs[j] != nil {
			subs[j].Unsubscribe()
		}
	}
	for j := range recs {
		j := j
		recs[j] = rec.New(fmt.Sprintf("r%d", j))
		if cut > 0 && s.Async {
			// The subscriber unsubscribes from inside its cut-th Next callback. Only
			// with gated asynchronous sources: subs[j] is assigned before the gate
			// opens, the player starts after it.
			nexts := 0
			recs[j].OnEvent = func(e *rec.Event) {
				if e.Kind == rec.Next {
					if nexts++; nexts == cut {
						unsub(j)
					}
				}
			}
		}
	}
	// Asynchronous sources start playing only once Subscribe has returned (every
	// teardown of the chain is registered by then): a player that runs while the
	// chain is still being subscribed makes the number of values delivered
	// before an early completion takes effect depend on the schedule.
	gate := func() func() {
		if !s.Async {
			return func() {}
		}
		ch := make(chan struct{})
		s.Start = ch
		return func() { close(ch) }
	}
	if !conc {
		for j := 0; j < k; j++ {
			open := gate()
			subscribe(j)
			open()
			s.Wait()
			out.Subs[j].LiveAfter = s.Live.Load()
			unsub(j)
			s.Wait()
			out.Subs[j].LiveUnsub = s.Live.Load()
		}
	} else {
		start := make(chan struct{})
		open := gate()
		var wg sync.WaitGroup
		for j := 0; j < k; j++ {
			j := j
			wg.Add(1)
			go func() {
				defer wg.Done()
				<-start
				subscribe(j)
			}()
		}
		close(start)
		wg.Wait()
		open()
		s.Wait()
		out.LiveBefore = s.Live.Load()
		for j := 0; j < k; j++ {
			unsub(j)
		}
		s.Wait()
	}
	// item tags → (source subscription, ordinal inside it): tags are numbered in
	// emission order over all subscriptions, which is schedule dependent under
	// concurrency; the position inside the own subscription is not.
	type pos struct{ sub, ord int }
	where := map[string]pos{}
	per := map[int]int{}
	for _, e := range s.Emissions() {
		where[e.Tag] = pos{e.SubIdx, per[e.SubIdx]}
		per[e.SubIdx]++
	}
	for j, r := range recs {
		so := &out.Subs[j]
		so.Events = r.Events()
		so.Trace = r.TraceString()
		so.Grammar = r.GrammarProblems()
		rank := map[int]int{}
		for _, e := range so.Events {
			out.Events++
			if e.Kind == rec.Next {
				out.NextOut++
			}
			it := e.Item
			if p, ok := where[it]; ok {
				if _, seen := rank[p.sub]; !seen {
					rank[p.sub] = len(rank)
				}
				it = fmt.Sprintf("src-sub%d.item%d", rank[p.sub], p.ord)
			}
			so.norm = append(so.norm, it)
		}
	}
	out.Subscribed = s.Subscribed.Load()
	out.Live = s.Live.Load()
	out.Tears = s.TeardownCounts()
	out.SubCtx, out.CtxNil = sourceCtx(s)
	return out
}

func sourceCtx(s *src.Source) ([]string, int) {
	// SubCtxSub / CtxNil are written under the source's mutex at subscription
	// time; every subscription is over when this is read.
	return append([]string(nil), s.SubCtxSub...), s.CtxNil
}

// guarded runs f with hang detection: cases normally return within
// milliseconds; only one that is still running after 2 s is handed to the
// quiescence detector (logical proof that every goroutine is blocked).
func guarded(f func()) (hung bool, dump string) {
	done := make(chan any, 1)
	go func() {
		defer func() { done <- recover() }()
		f()
	}()
	select {
	case p := <-done:
		if p != nil {
			panic(p)
		}
		return false, ""
	case <-time.After(2 * time.Second):
	}
	st, d, pan := quiesce.Call(func() {
		if p := <-done; p != nil {
			panic(p)
		}
	}, 30*time.Second)
	if pan != nil {
		panic(pan)
	}
	return st != quiesce.Returned, d
}

// ------------------------------------------------------------------ comparing two runs

type anomaly struct{ class, msg string }

func sortedCopy(a []int64) []int64 {
	b := append([]int64(nil), a...)
	sort.Slice(b, func(i, j int) bool { return b[i] < b[j] })
	return b
}

func sortedStr(a []string) []string {
	b := append([]string(nil), a...)
	sort.Strings(b)
	return b
}

// behaviour compares what subscribers and the source saw: want (plain pipeline)
// against got (instrumented). conc: the subscriptions of got ran concurrently,
// want holds the sequential reference (all its traces are equal).
func behaviour(want, got runOut, conc bool) []anomaly {
	var out []anomaly
	addf := func(class, f string, a ...any) { out = append(out, anomaly{class, fmt.Sprintf(f, a...)}) }
	for j := range got.Subs {
		w, g := want.Subs[j], got.Subs[j]
		if w.Panic != g.Panic {
			addf("panic-differs-from-plain-pipeline", "subscription %d: instrumented: %q, plain: %q", j, g.Panic, w.Panic)
			return out
		}
	}
	for j := range got.Subs {
		w, g := want.Subs[j], got.Subs[j]
		if w.Trace != g.Trace {
			addf("trace-differs-from-plain-pipeline", "subscription %d of %d observed [%s]; the plain pipeline delivers [%s]", j, len(got.Subs), g.Trace, w.Trace)
			return out
		}
	}
	ctxDone := false
	for j := range got.Subs {
		if ctxDone {
			break
		}
		w, g := want.Subs[j], got.Subs[j]
		for i := range g.Events {
			we, ge := w.Events[i], g.Events[i]
			type mk struct{ name, w, g string }
			for _, m := range []mk{{"subscription value", we.Sub, ge.Sub}, {"item value", w.norm[i], g.norm[i]}, {"mid-pipeline value", we.Mid, ge.Mid}, {"upstream value", we.Up, ge.Up}, {"nil-context", fmt.Sprint(we.CtxNil), fmt.Sprint(ge.CtxNil)}} {
				if m.w == m.g {
					continue
				}
				class := "context-value-differs"
				if m.g == "" {
					class = "context-value-lost"
				}
				addf(class, "subscription %d, callback #%d (%s): %s seen in the context is %q; the plain pipeline shows %q", j, i, ge.String(), m.name, m.g, m.w)
				ctxDone = true
				break
			}
			if ctxDone {
				break
			}
		}
	}
	if want.Subscribed != got.Subscribed {
		addf("source-subscription-count-differs", "the source was subscribed %d time(s); the plain pipeline subscribes it %d time(s)", got.Subscribed, want.Subscribed)
	}
	if fmt.Sprint(sortedStr(want.SubCtx)) != fmt.Sprint(sortedStr(got.SubCtx)) || want.CtxNil != got.CtxNil {
		addf("context-value-lost", "subscription value seen by the source at Subscribe: %v (nil contexts: %d); plain pipeline: %v (nil contexts: %d)", got.SubCtx, got.CtxNil, want.SubCtx, want.CtxNil)
	}
	rel := false
	if !conc {
		for j := range got.Subs {
			w, g := want.Subs[j], got.Subs[j]
			if w.LiveAfter != g.LiveAfter || w.LiveUnsub != g.LiveUnsub {
				addf("source-release-differs", "subscription %d: live source subscriptions after the outcome / after Unsubscribe: %d / %d; plain pipeline: %d / %d", j, g.LiveAfter, g.LiveUnsub, w.LiveAfter, w.LiveUnsub)
				rel = true
				break
			}
		}
	} else {
		// sequential reference: every subscription leaves the same number of live source subscriptions behind
		wantBefore := want.Subs[0].LiveAfter * int64(len(got.Subs))
		if want.Subs[0].LiveUnsub == 0 && got.LiveBefore != wantBefore {
			addf("source-release-differs", "%d concurrent subscriptions left %d live source subscriptions after their outcomes; %d sequential subscriptions of the plain pipeline leave %d each", len(got.Subs), got.LiveBefore, len(got.Subs), want.Subs[0].LiveAfter)
			rel = true
		}
	}
	if !rel && want.Live != got.Live {
		addf("source-release-differs", "%d source subscription(s) still live at the end; plain pipeline: %d", got.Live, want.Live)
		rel = true
	}
	if !rel && fmt.Sprint(sortedCopy(want.Tears)) != fmt.Sprint(sortedCopy(got.Tears)) {
		addf("source-teardown-count-differs", "teardown runs per source subscription %v; plain pipeline %v", got.Tears, want.Tears)
	}
	return out
}

// ------------------------------------------------------------------ probes (measurement on the plain chain)

type probeKey struct{}

// probe counts what passes one position of the measured chain.
type probe struct {
	tapNext atomic.Int64 // ro.Tap onNext calls: the values leaving the operator above
	tapErr  atomic.Int64
	tapDone atomic.Int64
	tapSub  atomic.Int64
	total   atomic.Int64 // Next notifications seen by the mirror of the library's observer operator
	derived atomic.Int64 // … whose context descends from the Next context handed down by the previous position
}

// ops returns the measuring operators of one position: library Tap operators
// (the authoritative counts) followed by a mirror of the instrumentation's own
// per-position operator, which marks the Next context exactly like
// observeBeforePipe / observeOperatorProcessingTime do. The mirror only serves
// to explain a shortfall (a value emitted with a context that does not descend
// from the upstream Next context carries no start time).
func (p *probe) ops() []opf {
	mirror := func(source ro.Observable[int]) ro.Observable[int] {
		return ro.NewUnsafeObservableWithContext(func(sctx context.Context, dest ro.Observer[int]) ro.Teardown {
			sub := source.SubscribeWithContext(sctx, ro.NewObserverWithContext(
				func(ctx context.Context, v int) {
					p.total.Add(1)
					if ctx != nil && ctx.Value(probeKey{}) != nil {
						p.derived.Add(1)
					}
					if ctx == nil {
						ctx = context.Background()
					}
					dest.NextWithContext(context.WithValue(ctx, probeKey{}, true), v)
				},
				dest.ErrorWithContext,
				dest.CompleteWithContext,
			))
			return sub.Unsubscribe
		})
	}
	return []opf{
		ro.TapOnSubscribe[int](func() { p.tapSub.Add(1) }),
		ro.Tap(func(int) { p.tapNext.Add(1) }, func(error) { p.tapErr.Add(1) }, func() { p.tapDone.Add(1) }),
		mirror,
	}
}

func apply(o ro.Observable[int], ops ...opf) ro.Observable[int] {
	for _, op := range ops {
		o = op(o)
	}
	return o
}

// measuredChain is source → probe[0] → op1 → probe[1] → … → opN → probe[N].
func measuredChain(s ro.Observable[int], ops []opf) (ro.Observable[int], []*probe) {
	probes := make([]*probe, len(ops)+1)
	probes[0] = &probe{}
	o := apply(s, probes[0].ops()...)
	for i, op := range ops {
		probes[i+1] = &probe{}
		o = apply(op(o), probes[i+1].ops()...)
	}
	return o, probes
}

// ------------------------------------------------------------------ scraping

var fqRe = regexp.MustCompile(`fqName: "([^"]*)"`)

type family struct {
	n       int
	counter float64
	samples uint64
	byIndex map[string]uint64 // processing time: operator_index → sample count
	labels  map[string]string // operator_index → operator label
	kinds   map[string]bool
}

type scraped struct {
	metrics  int
	fam      map[string]*family // by metric name without namespace / subsystem
	problems []string
	names    []string
}

func scrape(col prometheus.Collector, prefix string) scraped {
	sc := scraped{fam: map[string]*family{}}
	ch := make(chan prometheus.Metric, 64)
	go func() {
		defer close(ch)
		col.Collect(ch)
	}()
	seen := map[string]bool{}
	for m := range ch {
		sc.metrics++
		name := "?"
		if mm := fqRe.FindStringSubmatch(m.Desc().String()); mm != nil {
			name = mm[1]
		}
		sc.names = append(sc.names, name)
		if prefix != "" && !strings.HasPrefix(name, prefix) {
			sc.problems = append(sc.problems, fmt.Sprintf("metric %s does not carry the configured namespace/subsystem prefix %s", name, prefix))
		}
		short := strings.TrimPrefix(name, prefix)
		var d dto.Metric
		if err := m.Write(&d); err != nil {
			sc.problems = append(sc.problems, fmt.Sprintf("metric %s: Write: %v", name, err))
			continue
		}
		f := sc.fam[short]
		if f == nil {
			f = &family{byIndex: map[string]uint64{}, labels: map[string]string{}, kinds: map[string]bool{}}
			sc.fam[short] = f
		}
		f.n++
		var ls []string
		idx, opName := "", ""
		for _, l := range d.GetLabel() {
			ls = append(ls, l.GetName()+"="+l.GetValue())
			switch l.GetName() {
			case "operator_index":
				idx = l.GetValue()
			case "operator":
				opName = l.GetValue()
			}
		}
		id := short + "{" + strings.Join(ls, ",") + "}"
		if seen[id] {
			sc.problems = append(sc.problems, "metric collected twice: "+id)
		}
		seen[id] = true
		switch {
		case d.Counter != nil:
			f.kinds["counter"] = true
			f.counter += d.GetCounter().GetValue()
		case d.Summary != nil:
			f.kinds["summary"] = true
			f.samples += d.GetSummary().GetSampleCount()
			f.byIndex[idx] += d.GetSummary().GetSampleCount()
			f.labels[idx] = opName
		case d.Histogram != nil:
			f.kinds["histogram"] = true
			f.samples += d.GetHistogram().GetSampleCount()
			f.byIndex[idx] += d.GetHistogram().GetSampleCount()
			f.labels[idx] = opName
		}
	}
	return sc
}

func (s scraped) counter(name string) (float64, bool) {
	if f := s.fam[name]; f != nil && f.kinds["counter"] {
		return f.counter, true
	}
	return 0, false
}

func (s scraped) samples(name string) (uint64, bool) {
	if f := s.fam[name]; f != nil && (f.kinds["summary"] || f.kinds["histogram"]) {
		return f.samples, true
	}
	return 0, false
}

const (
	mSubs = "ro_subscriptions_total"
	mIn   = "ro_notification_in_total"
	mOut  = "ro_notification_out_total"
	mLag  = "ro_notification_lag_seconds"
	mProc = "ro_operator_processing_time_seconds_total"
)

// view is what the property talks about, independent of how the chain was cut into PipeN calls.
type view struct {
	metrics  int
	subs     float64
	in, out  float64
	lag      uint64
	proc     []uint64
	labels   []string
	problems []string
}

func cfgOf(v int, id string) (roprometheus.CollectorConfig, string) {
	switch v {
	case 1:
		return roprometheus.CollectorConfig{Namespace: "verif", Subsystem: "c19"}, "verif_c19_"
	case 2:
		return roprometheus.CollectorConfig{Namespace: "verif", ConstLabels: prometheus.Labels{"case": id}, SummaryObjectives: map[float64]float64{0.5: 0.05}}, "verif_"
	}
	return roprometheus.CollectorConfig{}, ""
}

// ------------------------------------------------------------------ PipeN cases

type instrumented struct {
	obs ro.Observable[int]
	col prometheus.Collector
	n   int // arity of the PipeN call that built obs
	// The alternative build of a chain of N operators (used only to tell an
	// anomaly of one generated arity from one every arity shows) goes through
	// another arity without changing what flows where:
	//   n = N+1, hidden = -1: an identity operator (returns its source) appended;
	//   n = N-1, hidden = h:  operators #h and #h+1 composed into one argument
	//                         (N = 24 only); what leaves operator #h is then not observable.
	hidden int
	ops    int // N
}

func (in instrumented) view(prefix string) view {
	v := view{proc: make([]uint64, in.ops), labels: make([]string, in.ops)}
	sc := scrape(in.col, prefix)
	v.metrics = sc.metrics
	v.problems = append(v.problems, sc.problems...)
	v.subs, _ = sc.counter(mSubs)
	v.in, _ = sc.counter(mIn)
	v.out, _ = sc.counter(mOut)
	v.lag, _ = sc.samples(mLag)
	if f := sc.fam[mProc]; f != nil {
		for i := 0; i < in.ops; i++ {
			k := i
			if in.hidden >= 0 && i == in.hidden {
				continue
			} else if in.hidden >= 0 && i > in.hidden {
				k = i - 1
			}
			idx := strconv.Itoa(k)
			v.proc[i] = f.byIndex[idx]
			v.labels[i] = f.labels[idx]
		}
	}
	// nothing but the five families, and no processing-time series beyond the operators of the call
	for name, f := range sc.fam {
		switch name {
		case mSubs, mIn, mOut, mLag:
			if f.n != 1 {
				v.problems = append(v.problems, fmt.Sprintf("%d series of %s", f.n, name))
			}
		case mProc:
			for idx := range f.byIndex {
				if k, err := strconv.Atoi(idx); err != nil || k < 0 || k >= in.n {
					v.problems = append(v.problems, fmt.Sprintf("processing-time series with operator_index=%q in a chain of %d operators", idx, in.n))
				}
			}
		default:
			v.problems = append(v.problems, "unexpected metric "+name)
		}
	}
	return v
}

type expectation struct {
	subs, in, out int64
	proc          []int64 // values leaving operator i (ro.Tap count)
	derived       []int64 // … of which the context descends from the upstream Next context
	names         []string
	hidden        int // operator whose output is not observable (alternative build), -1 = none
}

// counters compares the scraped view with the measurement.
func counters(v view, e expectation, licOn bool) []anomaly {
	var out []anomaly
	addf := func(class, f string, a ...any) { out = append(out, anomaly{class, fmt.Sprintf(f, a...)}) }
	if !licOn {
		if v.metrics != 0 {
			addf("metrics-exposed", "without an active licence the collector exposes %d metric(s) (subscriptions=%v in=%v out=%v)", v.metrics, v.subs, v.in, v.out)
		}
		return out
	}
	for _, p := range v.problems {
		addf("collector-inconsistent", "%s", p)
	}
	if v.subs != float64(e.subs) {
		addf("subscriptions-counter", "ro_subscriptions_total = %v after %d Subscribe call(s)", v.subs, e.subs)
	}
	if v.in != float64(e.in) {
		addf("notifications-in-counter", "ro_notification_in_total = %v; the source delivered %d value(s) to the chain (ro.Tap below the source on the plain chain)", v.in, e.in)
	}
	if v.out != float64(e.out) {
		addf("notifications-out-counter", "ro_notification_out_total = %v; the subscribers received %d value(s)", v.out, e.out)
	}
	if v.lag != uint64(e.in) {
		addf("lag-observation-count", "ro_notification_lag_seconds holds %d observation(s); the source delivered %d value(s)", v.lag, e.in)
	}
	explained, unexplained := false, false
	for i := range e.proc {
		got := int64(v.proc[i])
		if got == e.proc[i] || i == e.hidden {
			continue
		}
		if got == e.derived[i] && !explained {
			explained = true
			addf("processing-time-observation-missing-when-value-context-not-derived", "operator #%d %s (label %q): %d processing-time observation(s) for %d value(s) leaving it; only %d of these values carry a context that descends from the Next context handed to the operator (the start time travels in the context: values emitted with the subscription context, a terminal's context or a replaced context are not observed)", i, e.names[i], v.labels[i], got, e.proc[i], e.derived[i])
		} else if got != e.derived[i] && !unexplained {
			unexplained = true
			addf("processing-time-observation-count", "operator #%d %s (label %q): %d processing-time observation(s) for %d value(s) leaving it (%d with a context descending from the upstream Next context)", i, e.names[i], v.labels[i], got, e.proc[i], e.derived[i])
		}
	}
	return out
}

func parseMode(m string) (conc bool, k int) {
	if strings.HasPrefix(m, "conc") {
		k, _ = strconv.Atoi(m[4:])
		return true, k
	}
	k, _ = strconv.Atoi(strings.TrimPrefix(m, "seq"))
	return false, k
}

func allSame(r runOut) bool {
	for _, s := range r.Subs[1:] {
		if s.Trace != r.Subs[0].Trace {
			return false
		}
	}
	return true
}

func inconclusive(key, msg string, dirty bool) driver.Result {
	return driver.Result{Verdict: driver.Inconclusive, Key: key, Msg: msg, Dirty: dirty}
}

// verdict folds anomalies into a result.
func verdict(res driver.Result, what string, found []driver.Finding) driver.Result {
	if len(found) == 0 {
		return res
	}
	res.Verdict = driver.Violated
	res.Key, res.Msg, res.Witness = found[0].Key, what+": "+found[0].Msg, found[0].Witness
	for _, f := range found[1:] {
		f.Msg = what + ": " + f.Msg
		res.More = append(res.More, f)
	}
	return res
}

func runPipe(c driver.Case) driver.Result {
	n := c.Int("n")
	fixed := c.Get("kind") == "fixed"
	sc := src.Parse(c.Get("script"))
	licOn := c.Get("lic") == "on"
	conc, k := parseMode(c.Get("mode"))
	async := c.Get("drive") == "async"
	cut := c.Int("cut")
	cfg, prefix := cfgOf(c.Int("cfg"), c.ID)
	var names []string
	mkOps := func() []opf { return fixedOps(n) }
	if fixed {
		names = fixedNames(n)
	} else {
		names = strings.Split(c.Get("chain"), ">")
		mkOps = func() []opf { return opsOf(names) }
	}
	what := fmt.Sprintf("Pipe%d(%s) over %s source [%s], %s%s, licence %s", n, strings.Join(names, ", "), c.Get("drive"), sc, c.Get("mode"), cutText(cut), c.Get("lic"))
	res := driver.Result{Verdict: driver.Held, Extra: map[string]int64{}}

	// The flag is a plain global of the plugin: set once, before anything is built.
	roprometheus.VerifSetBypassLicenseCheck(licOn)

	// --- plain pipeline: k sequential subscriptions (the reference of both modes)
	sP := mkSource(sc, async)
	var oP ro.Observable[int]
	if fixed {
		oP = plainFixed(sP.Observable(), n)
	} else {
		oP = plainPipe(sP.Observable(), mkOps())
	}
	var rP runOut
	if hung, _ := guarded(func() { rP = execute(oP, sP, false, k, cut) }); hung {
		return inconclusive("plain-pipeline-hangs", what+": the plain pipeline does not return", true)
	}
	if conc {
		if !allSame(rP) {
			return inconclusive("plain-pipeline-subscriptions-differ", what+": sequential subscriptions of the plain pipeline differ from one another; no reference for concurrent subscriptions", false)
		}
		sPc := mkSource(sc, async)
		var oPc ro.Observable[int]
		if fixed {
			oPc = plainFixed(sPc.Observable(), n)
		} else {
			oPc = plainPipe(sPc.Observable(), mkOps())
		}
		var rPc runOut
		if hung, _ := guarded(func() { rPc = execute(oPc, sPc, true, k, cut) }); hung {
			return inconclusive("plain-pipeline-hangs", what+": the plain pipeline does not return under concurrent subscriptions", true)
		}
		for _, s := range rPc.Subs {
			if s.Trace != rP.Subs[0].Trace || s.Panic != rP.Subs[0].Panic {
				return inconclusive("plain-pipeline-not-concurrency-independent", what+": concurrent subscriptions of the plain pipeline differ from sequential ones", false)
			}
		}
	}

	// --- measured chain: the same operators with probes in between, k sequential subscriptions
	sM := mkSource(sc, async)
	oM, probes := measuredChain(sM.Observable(), mkOps())
	var rM runOut
	if hung, _ := guarded(func() { rM = execute(oM, sM, false, k, cut) }); hung {
		return inconclusive("measured-chain-hangs", what+": the probed chain does not return", true)
	}
	for j := range rM.Subs {
		if rM.Subs[j].Trace != rP.Subs[j].Trace {
			return inconclusive("measured-chain-differs", fmt.Sprintf("%s: the probed chain delivers [%s], the plain pipeline [%s]", what, rM.Subs[j].Trace, rP.Subs[j].Trace), false)
		}
	}
	exp := expectation{subs: int64(k), in: probes[0].tapNext.Load(), names: names}
	for i, p := range probes {
		if p.tapNext.Load() != p.total.Load() {
			return inconclusive("probes-disagree", fmt.Sprintf("%s: position %d: ro.Tap saw %d values, the mirror operator %d", what, i, p.tapNext.Load(), p.total.Load()), false)
		}
		if i > 0 {
			exp.proc = append(exp.proc, p.tapNext.Load())
			exp.derived = append(exp.derived, p.derived.Load())
		}
	}

	// --- instrumented pipeline(s)
	evaluate := func(build func(s ro.Observable[int]) instrumented) (an []anomaly, rI runOut, v view, dirty bool) {
		sI := mkSource(sc, async)
		var in instrumented
		var bp any
		func() {
			defer func() { bp = recover() }()
			in = build(sI.Observable())
		}()
		if bp != nil {
			return []anomaly{{"construction-panics", fmt.Sprintf("building the instrumented pipeline panicked: %v", bp)}}, rI, v, false
		}
		if in.col == nil {
			r := rec.New("ctor")
			in.obs.Subscribe(rec.Raw[int](r))
			return []anomaly{{"construction-failed", fmt.Sprintf("PipeN returned no collector; the observable delivers [%s]", r.TraceString())}}, rI, v, false
		}
		if sI.Subscribed.Load() != 0 {
			an = append(an, anomaly{"source-subscribed-at-construction", "building the instrumented pipeline subscribed the source"})
		}
		if hung, dump := guarded(func() { rI = execute(in.obs, sI, conc, k, cut) }); hung {
			return append(an, anomaly{"hang", "the instrumented pipeline does not return; the plain one does (" + quiesce.BlockedSite(dump) + ")"}), rI, v, true
		}
		an = append(an, behaviour(rP, rI, conc)...)
		v = in.view(prefix)
		e := exp
		e.out, e.hidden = rI.NextOut, in.hidden
		an = append(an, counters(v, e, licOn)...)
		return an, rI, v, false
	}
	primary := func(s ro.Observable[int]) instrumented {
		in := instrumented{n: n, ops: n, hidden: -1}
		if fixed {
			in.obs, in.col = promFixed(cfg, s, n)
		} else if shape := c.Get("shape"); shape != "" {
			in.obs, in.col = promPipeShaped(shape, cfg, s, mkOps())
		} else {
			in.obs, in.col = promPipe(cfg, s, mkOps())
		}
		return in
	}
	an, rI, v, dirty := evaluate(primary)
	if shape := c.Get("shape"); shape != "" && len(an) == 0 && licOn {
		// the same operator expressions at the flat call site: the labels name the same operators
		_, _, vFlat, d2 := evaluate(func(s ro.Observable[int]) instrumented {
			in := instrumented{n: n, ops: n, hidden: -1}
			in.obs, in.col = promPipe(cfg, s, mkOps())
			return in
		})
		dirty = dirty || d2
		if fmt.Sprint(v.labels) != fmt.Sprint(vFlat.labels) {
			an = append(an, anomaly{"operator-labels-depend-on-the-shape-of-the-call-site", fmt.Sprintf("call written inside a %s: operator labels %q; the same call in a plain statement: %q", shape, v.labels, vFlat.labels)})
		}
	}
	res.Dirty = dirty
	res.Events = rP.Events + rM.Events + rI.Events
	res.Nontrivial = rP.NextOut > 0
	res.Extra[fmt.Sprintf("cases_arity_%02d", n)] = 1
	res.Extra["subscriptions"] = int64(k)
	if licOn {
		res.Extra["metrics_scraped"] = int64(v.metrics)
	}
	res.Sig = fmt.Sprintf("%d|%s|%s|%s", n, c.Get("chain"), sc, rP.Subs[0].Trace)
	res.Sample = map[string]any{"pipeline": what, "plain_trace": rP.Subs[0].Trace, "instrumented_trace": firstTrace(rI), "subscriptions": v.subs, "notifications_in": v.in, "notifications_out": v.out, "lag_observations": v.lag, "processing_time_observations": v.proc, "operator_labels": v.labels, "measured_in": exp.in, "measured_values_leaving_each_operator": exp.proc}
	if len(an) == 0 {
		return res
	}
	// Does every arity show it? Send the same chain through a neighbouring arity
	// (see type instrumented) and look for the same class of anomaly.
	alt := map[string]bool{}
	if !dirty {
		pad := func(s ro.Observable[int]) instrumented {
			in := instrumented{n: n + 1, ops: n, hidden: -1}
			in.obs, in.col = promPipe(cfg, s, append(mkOps(), identOp[int]))
			return in
		}
		compose := func(h int) func(s ro.Observable[int]) instrumented {
			return func(s ro.Observable[int]) instrumented {
				in := instrumented{n: n - 1, ops: n, hidden: h}
				o := mkOps()
				two := func(x ro.Observable[int]) ro.Observable[int] { return o[h+1](o[h](x)) }
				in.obs, in.col = promPipe(cfg, s, append(append(append([]opf{}, o[:h]...), two), o[h+2:]...))
				return in
			}
		}
		builds := []func(s ro.Observable[int]) instrumented{pad}
		if n == maxArity {
			builds = []func(s ro.Observable[int]) instrumented{compose(0), compose(n - 2)}
		}
		for _, b := range builds {
			an2, _, _, d2 := evaluate(b)
			res.Dirty = res.Dirty || d2
			for _, a := range an2 {
				alt[a.class] = true
			}
			if res.Dirty {
				break
			}
		}
	}
	var found []driver.Finding
	for _, a := range an {
		site := "PipeN"
		if !licOn {
			site = "licence-off"
		}
		if !alt[a.class] {
			site = fmt.Sprintf("Pipe%d", n)
		}
		if a.class == "metrics-exposed" {
			site = "licence-off"
		}
		found = append(found, driver.Finding{Key: "C19/" + site + "/" + a.class, Msg: a.msg, Witness: res.Sample})
	}
	return verdict(res, what, found)
}

func firstTrace(r runOut) string {
	if len(r.Subs) == 0 {
		return ""
	}
	return r.Subs[0].Trace
}

// ------------------------------------------------------------------ stand-alone operators

type insert struct {
	kind string // IncCounterOnNext … ObserveNextLag/summary
	pos  int    // number of chain operators above it
	// instrumented side
	counter prometheus.Counter
	obs     prometheus.Metric
	// measured side
	p *probe
}

func (in *insert) name() string { return strings.SplitN(in.kind, "/", 2)[0] }

func (in *insert) promOp() opf {
	switch in.kind {
	case "IncCounterOnNext":
		return roprometheus.IncCounterOnNext[int](in.counter)
	case "IncCounterOnError":
		return roprometheus.IncCounterOnError[int](in.counter)
	case "IncCounterOnComplete":
		return roprometheus.IncCounterOnComplete[int](in.counter)
	case "IncCounterOnSubscription":
		return roprometheus.IncCounterOnSubscription[int](in.counter)
	case "ObserveNextLag/summary":
		s := prometheus.NewSummary(prometheus.SummaryOpts{Name: "c19_lag_summary"})
		in.obs = s
		return roprometheus.ObserveNextLag[int](s)
	case "ObserveNextLag/histogram":
		h := prometheus.NewHistogram(prometheus.HistogramOpts{Name: "c19_lag_histogram"})
		in.obs = h
		return roprometheus.ObserveNextLag[int](h)
	}
	panic("C19: unknown stand-alone operator " + in.kind)
}

// observed returns the exported number, expected the measured one.
func (in *insert) observed() float64 {
	var d dto.Metric
	if in.obs != nil {
		in.obs.Write(&d)
		if d.Summary != nil {
			return float64(d.GetSummary().GetSampleCount())
		}
		return float64(d.GetHistogram().GetSampleCount())
	}
	in.counter.Write(&d)
	return d.GetCounter().GetValue()
}

func (in *insert) expected() (int64, string) {
	switch in.name() {
	case "IncCounterOnError":
		return in.p.tapErr.Load(), "Error notification(s)"
	case "IncCounterOnComplete":
		return in.p.tapDone.Load(), "Complete notification(s)"
	case "IncCounterOnSubscription":
		return in.p.tapSub.Load(), "subscription(s)"
	}
	return in.p.tapNext.Load(), "Next notification(s)"
}

func parseInserts(s string) []*insert {
	var out []*insert
	for _, t := range strings.Split(s, ",") {
		i := strings.LastIndexByte(t, '@')
		pos, _ := strconv.Atoi(t[i+1:])
		out = append(out, &insert{kind: t[:i], pos: pos})
	}
	return out
}

// chainWith builds source → ops with extra(i) operators inserted after i chain operators.
func chainWith(s ro.Observable[int], ops []opf, extra func(pos int) []opf) ro.Observable[int] {
	o := apply(s, extra(0)...)
	for i, op := range ops {
		o = apply(op(o), extra(i+1)...)
	}
	return o
}

func runStandalone(c driver.Case) driver.Result {
	var names []string
	if c.Get("chain") != "" {
		names = strings.Split(c.Get("chain"), ">")
	}
	sc := src.Parse(c.Get("script"))
	licOn := c.Get("lic") == "on"
	conc, k := parseMode(c.Get("mode"))
	async := c.Get("drive") == "async"
	cut := c.Int("cut")
	what := fmt.Sprintf("%s inserted in chain (%s) over %s source [%s], %s%s, licence %s", c.Get("inserts"), chainID(names), c.Get("drive"), sc, c.Get("mode"), cutText(cut), c.Get("lic"))
	res := driver.Result{Verdict: driver.Held, Extra: map[string]int64{}}

	roprometheus.VerifSetBypassLicenseCheck(licOn)

	// bare chain (no stand-alone operator at all): the behavioural reference
	sB := mkSource(sc, async)
	oB := chainWith(sB.Observable(), opsOf(names), func(int) []opf { return nil })
	var rB runOut
	if hung, _ := guarded(func() { rB = execute(oB, sB, false, k, cut) }); hung {
		return inconclusive("plain-pipeline-hangs", what+": the plain chain does not return", true)
	}
	if conc {
		if !allSame(rB) {
			return inconclusive("plain-pipeline-subscriptions-differ", what+": sequential subscriptions of the plain chain differ from one another", false)
		}
		sBc := mkSource(sc, async)
		oBc := chainWith(sBc.Observable(), opsOf(names), func(int) []opf { return nil })
		var rBc runOut
		if hung, _ := guarded(func() { rBc = execute(oBc, sBc, true, k, cut) }); hung {
			return inconclusive("plain-pipeline-hangs", what+": the plain chain does not return under concurrent subscriptions", true)
		}
		for _, s := range rBc.Subs {
			if s.Trace != rB.Subs[0].Trace || s.Panic != rB.Subs[0].Panic {
				return inconclusive("plain-pipeline-not-concurrency-independent", what+": concurrent subscriptions of the plain chain differ from sequential ones", false)
			}
		}
	}

	// run evaluates the chain with the given inserts; returns anomalies per operator name
	type hit struct {
		site string
		anomaly
	}
	run := func(ins []*insert) (hits []hit, rI runOut, dirty bool) {
		// measured chain: probes where the operators will sit
		sM := mkSource(sc, async)
		oM := chainWith(sM.Observable(), opsOf(names), func(pos int) []opf {
			var out []opf
			for _, in := range ins {
				if in.pos == pos {
					in.p = &probe{}
					out = append(out, in.p.ops()[:2]...)
				}
			}
			return out
		})
		var rM runOut
		if hung, _ := guarded(func() { rM = execute(oM, sM, false, k, cut) }); hung {
			return []hit{{"", anomaly{"!measured-chain-hangs", ""}}}, rI, true
		}
		for j := range rM.Subs {
			if rM.Subs[j].Trace != rB.Subs[j].Trace {
				return []hit{{"", anomaly{"!measured-chain-differs", fmt.Sprintf("probed chain [%s], plain chain [%s]", rM.Subs[j].Trace, rB.Subs[j].Trace)}}}, rI, false
			}
		}
		res.Events += rM.Events
		// instrumented chain
		sI := mkSource(sc, async)
		site := "standalone-operators-combined"
		if len(ins) == 1 {
			site = ins[0].name()
		}
		var bp any
		var oI ro.Observable[int]
		func() {
			defer func() { bp = recover() }()
			oI = chainWith(sI.Observable(), opsOf(names), func(pos int) []opf {
				var out []opf
				for _, in := range ins {
					if in.pos == pos {
						in.counter = prometheus.NewCounter(prometheus.CounterOpts{Name: "c19_counter"})
						in.obs = nil
						out = append(out, in.promOp())
					}
				}
				return out
			})
		}()
		if bp != nil {
			return []hit{{site, anomaly{"construction-panics", fmt.Sprintf("building the chain panicked: %v", bp)}}}, rI, false
		}
		if sI.Subscribed.Load() != 0 {
			hits = append(hits, hit{site, anomaly{"source-subscribed-at-construction", "applying the operator subscribed the source"}})
		}
		if hung, dump := guarded(func() { rI = execute(oI, sI, conc, k, cut) }); hung {
			return append(hits, hit{site, anomaly{"hang", "the chain with the operator does not return; the plain one does (" + quiesce.BlockedSite(dump) + ")"}}), rI, true
		}
		for _, a := range behaviour(rB, rI, conc) {
			hits = append(hits, hit{site, a})
		}
		for _, in := range ins {
			got := in.observed()
			want, unit := in.expected()
			class := "counter-differs"
			if in.name() == "ObserveNextLag" {
				class = "observation-count-differs"
			}
			if !licOn {
				if got != 0 {
					hits = append(hits, hit{in.name(), anomaly{"counts-without-licence", fmt.Sprintf("%s at position %d reports %v without an active licence", in.kind, in.pos, got)}})
				}
				continue
			}
			if got != float64(want) {
				hits = append(hits, hit{in.name(), anomaly{class, fmt.Sprintf("%s at position %d reports %v; %d %s passed that position (ro.Tap at the same place of the plain chain)", in.kind, in.pos, got, want, unit)}})
			}
		}
		return hits, rI, false
	}

	ins := parseInserts(c.Get("inserts"))
	hits, rI, dirty := run(ins)
	res.Dirty = dirty
	res.Events += rB.Events + rI.Events
	res.Nontrivial = rB.Events > 0
	res.Extra["standalone_cases"] = 1
	res.Extra["subscriptions"] = int64(k)
	res.Sig = fmt.Sprintf("sa|%s|%s|%s|%s", c.Get("inserts"), c.Get("chain"), sc, rB.Subs[0].Trace)
	var reported []string
	for _, in := range ins {
		if in.counter != nil {
			want, unit := in.expected()
			reported = append(reported, fmt.Sprintf("%s@%d exported=%v measured=%d %s", in.kind, in.pos, in.observed(), want, unit))
		}
	}
	res.Sample = map[string]any{"chain": what, "plain_trace": rB.Subs[0].Trace, "instrumented_trace": firstTrace(rI), "operators": reported}
	if len(hits) == 0 {
		return res
	}
	if strings.HasPrefix(hits[0].class, "!") {
		return inconclusive(hits[0].class[1:], what+": "+hits[0].msg, dirty)
	}
	// attribute behavioural anomalies of a combination to single operators where possible
	var found []driver.Finding
	attributed := map[string]bool{}
	for _, h := range hits {
		if h.site != "standalone-operators-combined" {
			found = append(found, driver.Finding{Key: "C19/" + h.site + "/" + h.class, Msg: h.msg, Witness: res.Sample})
			continue
		}
		any := false
		if !dirty {
			for _, in := range ins {
				id := in.kind + "@" + strconv.Itoa(in.pos) + "/" + h.class
				if attributed[id] {
					any = true
					continue
				}
				single, _, d := run([]*insert{{kind: in.kind, pos: in.pos}})
				dirty = dirty || d
				for _, s := range single {
					if s.class == h.class {
						attributed[id] = true
						any = true
						found = append(found, driver.Finding{Key: "C19/" + in.name() + "/" + h.class, Msg: fmt.Sprintf("(alone, at position %d) %s", in.pos, s.msg), Witness: res.Sample})
						break
					}
				}
			}
		}
		if !any {
			found = append(found, driver.Finding{Key: "C19/" + h.site + "/" + h.class, Msg: h.msg, Witness: res.Sample})
		}
	}
	res.Dirty = dirty
	// one finding per key and case
	seen := map[string]bool{}
	var uniq []driver.Finding
	for _, f := range found {
		if !seen[f.Key] {
			seen[f.Key] = true
			uniq = append(uniq, f)
		}
	}
	return verdict(res, what, uniq)
}

func runCase(c driver.Case) driver.Result {
	rec.ResetHooks()
	switch c.Get("kind") {
	case "standalone":
		return runStandalone(c)
	case "toggle":
		return runToggle(c)
	}
	return runPipe(c)
}

func main() {
	driver.Main(driver.Property{
		ID:    "C19",
		Level: "exploration",
		Rule: "differential + scraped metrics. For every arity 1..24 (generated single-line call sites): random chains of synchronous int→int catalogue operators and chains of literal operator expressions (every expression shape the caller-line introspection distinguishes), random scripts × endings {complete, error, none} (all scripts over {1,2} up to 3 resp. 4 values for 8 short chains), sync and (gated) async sources, 1–3 sequential or 2–8 concurrent subscriptions of ONE pipeline value, subscribers that unsubscribe from inside their 1st–3rd Next callback (async sources), licence bypass on and off. " +
			"Oracle 1: each subscription of roprometheus.PipeN(…) observes the trace of the same subscription of ro.PipeN(…) (values, order, terminal, panics), the same context markers in every callback (subscription value, per-item value by position in the source subscription, mid/upstream values), and the source sees the same number of subscriptions, the same subscription value, the same number of live subscriptions after the outcome / after Unsubscribe and the same teardown counts. " +
			"Oracle 2 (licence on): metrics written out of the returned collector: subscriptions == Subscribe calls; notification_in == lag observations == values counted by ro.Tap directly below the source of the plain chain; notification_out == Next callbacks of the recorders; processing-time observations of operator i == values counted by ro.Tap directly below operator i; exactly the five metric families, one series each plus one per operator. Licence off: Collect yields nothing. " +
			"A shortfall of processing-time observations that equals the number of values whose context does not descend from the upstream Next context gets its own finding class. An anomaly is keyed Pipe<N> when the same chain sent through a neighbouring arity (identity operator appended; first two operators composed for N=24) does not show it, PipeN otherwise. " +
			"Stand-alone IncCounterOnNext/Error/Complete/Subscription and ObserveNextLag (summary and histogram), alone and combined at random positions: trace, contexts and release equal the chain without them; exported value == ro.Tap / ro.TapOnSubscribe count at the same position; 0 without licence. Non-trivial: the plain pipeline delivers at least one value (stand-alone: at least one callback). " +
			"Also toggle: one Pipe2 value subscribed in phases with the licence switched between them (off,on / on,off / …): every phase sees the plain trace, the counters hold exactly what the 'on' phases contributed, nothing is exposed while off.",
		Assume: []string{
			"catalogue operators used in chains are deterministic functions of the script (time-driven, hand-off, blocking, hot entries, GroupBy→MergeAll and ThrowOnContextCancel are left out)",
			"concurrent cases are judged only when sequential and concurrent subscriptions of the PLAIN pipeline agree (else inconclusive)",
			"observation VALUES (lag, processing time) are not asserted, only their number",
		},
		Exhaustive: func(tier string) string {
			n := 3
			if tier == "thorough" {
				n = 4
			}
			return fmt.Sprintf("every script over {1,2} with at most %d values and every ending (complete, error, none) for 8 short chains (Pipe1..Pipe3), two sequential subscriptions, licence on and off; arities 1..24 all covered by generated call sites", n)
		},
		Plan:      plan,
		Run:       runCase,
		CaseWatch: 90 * time.Second,
		Setup: func() {
			rec.Install()
		},
	})
}
