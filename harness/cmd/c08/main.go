// C08 — backpressure: Next returns after downstream is done; queues are bounded FIFO.
package main

import (
	"context"
	"fmt"
	"math/rand"
	"strings"
	"sync"
	"sync/atomic"
	"time"

	"github.com/samber/ro"
	"verifharness/internal/catalog"
	"verifharness/internal/driver"
	"verifharness/internal/quiesce"
	"verifharness/internal/rec"
	"verifharness/internal/sched"
	"verifharness/internal/src"
)

func isSync(e *catalog.Entry) bool {
	f := e.Flags
	return !(f.Has(catalog.Async) || f.Has(catalog.HandOff) || f.Has(catalog.TimeDriven) || f.Has(catalog.Blocks) || f.Has(catalog.Creation) || f.Has(catalog.NonDet))
}

func plan(tier string, seed int64) []driver.Case {
	maxVals, nChains, maxCap := 3, 300, 4
	if tier == "thorough" {
		maxVals, nChains, maxCap = 5, 5000, 8
	}
	rng := rand.New(rand.NewSource(seed))
	var cases []driver.Case
	for _, e := range catalog.All() {
		if !isSync(e) || e.Model == nil {
			continue
		}
		if e.NSrc == 1 {
			for _, sc := range src.LegalScripts([]int{0, 1, 2}, maxVals) {
				if len(sc) < 2 && tier != "thorough" && len(sc) > 0 {
					// keep the quick list small: short scripts are covered as prefixes of longer ones
				}
				cases = append(cases, driver.Case{ID: fmt.Sprintf("sync/%s/%s", e.Name, sc), P: map[string]string{"kind": "sync", "entry": e.Name, "script": sc.String()}})
			}
		} else if e.Step != nil {
			for i := 0; i < 40; i++ {
				cases = append(cases, driver.Case{ID: fmt.Sprintf("syncmulti/%s/%d", e.Name, i), P: map[string]string{"kind": "syncmulti", "entry": e.Name, "seed": fmt.Sprint(rng.Int63())}})
			}
		}
	}
	var usable []*catalog.Entry
	for _, e := range catalog.Chainable() {
		if isSync(e) && e.Model != nil {
			usable = append(usable, e)
		}
	}
	for i := 0; i < nChains; i++ {
		n := 2 + rng.Intn(4)
		names := make([]string, n)
		for j := range names {
			names[j] = usable[rng.Intn(len(usable))].Name
		}
		var sc src.Script
		for k := 0; k < 2+rng.Intn(8); k++ {
			sc = append(sc, src.Notif{K: rec.Next, V: rng.Intn(3)})
		}
		if rng.Intn(2) == 0 {
			sc = append(sc, src.Notif{K: rec.Complete})
		}
		cases = append(cases, driver.Case{ID: fmt.Sprintf("chain/%d/%s/%s", i, strings.Join(names, ">"), sc), P: map[string]string{"kind": "sync", "chain": strings.Join(names, ">"), "script": sc.String()}})
	}
	// operators that play inner observables one after the other: with an inner observable that
	// delivers from a goroutine of its own, the producer's Next still returns only once the output
	// that value gives rise to has been delivered (the inner one has completed)
	for _, op := range hoOps {
		for n := 1; n <= maxVals; n++ {
			for _, gap := range []string{"0", "200"} {
				for _, end := range []string{"C", "E", "-"} {
					cases = append(cases, driver.Case{ID: fmt.Sprintf("ho-async-inner/%s/n%d/gap%s/%s", op, n, gap, end),
						P: map[string]string{"kind": "ho", "op": op, "n": fmt.Sprint(n), "gap": gap, "end": end}})
				}
			}
		}
	}
	for _, op := range []string{"ObserveOn", "SubscribeOn", "ToChannel"} {
		for cp := 1; cp <= maxCap; cp++ {
			if op == "ToChannel" {
				// capacity 0 is legal for ToChannel
				if cp == 1 {
					for _, c := range handoffCases(op, 0, tier) {
						cases = append(cases, c)
					}
				}
			}
			cases = append(cases, handoffCases(op, cp, tier)...)
		}
	}
	return cases
}

func handoffCases(op string, cp int, tier string) []driver.Case {
	var out []driver.Case
	ns := []int{0, 1, cp, cp + 1, cp + 3, 2*cp + 5}
	if tier == "thorough" {
		ns = append(ns, 4*cp+5)
	}
	seen := map[int]bool{}
	for _, n := range ns {
		if seen[n] {
			continue
		}
		seen[n] = true
		for k := 0; k <= n; k++ {
			if tier != "thorough" && k > 3 && k < n-1 {
				continue
			}
			for _, end := range []string{"C", "E"} {
				out = append(out, driver.Case{ID: fmt.Sprintf("handoff/%s/cap%d/n%d/k%d/%s", op, cp, n, k, end),
					P: map[string]string{"kind": "handoff", "op": op, "cap": fmt.Sprint(cp), "n": fmt.Sprint(n), "k": fmt.Sprint(k), "end": end}})
			}
		}
	}
	return out
}

func runSync(c driver.Case) driver.Result {
	var e *catalog.Entry
	var chain []*catalog.Entry
	name, fam := "", "chain"
	if ch := c.Get("chain"); ch != "" {
		for _, n := range strings.Split(ch, ">") {
			chain = append(chain, catalog.Get(n))
		}
		e, chain, name = chain[0], chain[1:], ch
	} else {
		e = catalog.Get(c.Get("entry"))
		name, fam = e.Name, e.Family
	}
	sc := src.Parse(c.Get("script"))
	res := driver.Result{Verdict: driver.Held}
	b := &catalog.B{}
	s := src.New("s0")
	b.Srcs = []ro.Observable[int]{s.Observable()}
	obs := e.Op
	var p catalog.Pipeline
	if obs != nil {
		o := e.Op(b)(b.S(0))
		for _, x := range chain {
			o = x.Op(b)(o)
		}
		p = catalog.P(o)
	} else {
		p = e.Pipeline(b)
	}
	r := rec.New(name)
	sub := p.Subscribe(context.Background(), r, false)
	defer func() { defer func() { recover() }(); sub.Unsubscribe() }()
	initial := r.Len() // StartWith & co deliver inside Subscribe
	expectAfter := func(prefix src.Script) (int, bool) {
		// cumulative output the definition assigns to this prefix
		cur := prefix
		var exp catalog.Expect
		all := append([]*catalog.Entry{e}, chain...)
		for _, x := range all {
			exp = x.Model([]src.Script{cur.Legal()})
			var next src.Script
			for _, v := range exp.Vals {
				var xv int
				if _, err := fmt.Sscanf(v, "%d", &xv); err != nil {
					if x != all[len(all)-1] {
						return 0, false
					}
					next = append(next, src.Notif{K: rec.Next})
					continue
				}
				next = append(next, src.Notif{K: rec.Next, V: xv})
			}
			switch exp.Term.K {
			case rec.Complete:
				next = append(next, src.Notif{K: rec.Complete})
			case rec.Error:
				if exp.Term.Is != src.ErrSrc && x != all[len(all)-1] {
					return 0, false
				}
				next = append(next, src.Notif{K: rec.Error})
			}
			cur = next
		}
		n := len(exp.Vals)
		if exp.Term.K != rec.Next {
			n++
		}
		return n, true
	}
	me := rec.GID()
	checked := 0
	for i, n := range sc {
		if !s.IsSubscribed() {
			break
		}
		if st, _, _ := quiesce.Call(func() { defer func() { recover() }(); s.Send(n) }, 8*time.Second); st != quiesce.Returned {
			return driver.Result{Verdict: driver.Inconclusive, Key: "producer-blocked-in-library", Msg: name + ": the producer's call never returned (hang: see C03/C14 findings)", Dirty: true}
		}
		want, ok := expectAfter(sc[:i+1])
		if !ok {
			res.Extra = map[string]int64{"chains_without_composed_model": 1}
			break
		}
		got := r.Len()
		checked++
		if got != want {
			res.Verdict, res.Key = driver.Violated, "C08/"+fam+"/output-not-delivered-when-next-returned"
			res.Msg = fmt.Sprintf("%s: when the producer's call #%d (%s) of [%s] returned, %d notifications had been delivered downstream, the definition prescribes %d; trace so far: [%s]", name, i, n, sc, got, want, r.TraceString())
			return res
		}
		_ = initial
	}
	ems := s.Emissions()
	for _, ev := range r.Events() {
		want := me // deliveries made inside Subscribe
		for _, em := range ems {
			if em.Begin < ev.Seq && (em.End == 0 || ev.Seq < em.End) {
				want = em.GID
			}
		}
		if ev.GID != want {
			res.Verdict, res.Key = driver.Violated, "C08/"+fam+"/delivered-on-another-goroutine"
			res.Msg = fmt.Sprintf("%s over [%s]: %s was delivered on goroutine %d, the producer call in progress runs on goroutine %d", name, sc, ev.String(), ev.GID, want)
			return res
		}
	}
	res.Events = int64(r.Len()) + int64(checked)
	res.Nontrivial = checked > 0
	res.Sig = name + "|" + sc.String() + "→" + r.TraceString()
	res.Sample = map[string]any{"pipeline": name, "script": sc.String(), "producer_calls_checked": checked, "trace": r.TraceString()}
	return res
}

var hoOps = []string{"ConcatAll", "FlatMap", "FlatMapWithContext", "FlatMapI", "FlatMapIWithContext"}

func runHO(c driver.Case) driver.Result {
	op, n, end := c.Get("op"), c.Int("n"), c.Get("end")
	gap := time.Duration(c.Int("gap")) * time.Microsecond
	res := driver.Result{Verdict: driver.Held}
	outer := src.New("outer")
	var inners []*src.Source
	var imu sync.Mutex
	inner := func(v int) ro.Observable[int] {
		s := src.New(fmt.Sprintf("inner%d", v), src.Script{{K: rec.Next, V: v * 10}, {K: rec.Next, V: v*10 + 1}, {K: rec.Complete}})
		s.Async, s.Gap, s.Yield = true, gap, true
		imu.Lock()
		inners = append(inners, s)
		imu.Unlock()
		return s.Observable()
	}
	var o ro.Observable[int]
	switch op {
	case "ConcatAll":
		o = ro.ConcatAll[int]()(ro.Map(inner)(outer.Observable()))
	case "FlatMap":
		o = ro.FlatMap(inner)(outer.Observable())
	case "FlatMapWithContext":
		o = ro.FlatMapWithContext(func(_ context.Context, v int) ro.Observable[int] { return inner(v) })(outer.Observable())
	case "FlatMapI":
		o = ro.FlatMapI(func(v int, _ int64) ro.Observable[int] { return inner(v) })(outer.Observable())
	case "FlatMapIWithContext":
		o = ro.FlatMapIWithContext(func(_ context.Context, v int, _ int64) ro.Observable[int] { return inner(v) })(outer.Observable())
	}
	name := fmt.Sprintf("%s over inner observables that deliver [v0 v1 C] from their own goroutine (gap %s)", op, gap)
	r := rec.New(op)
	sub := o.Subscribe(rec.Raw[int](r))
	defer func() { defer func() { recover() }(); sub.Unsubscribe() }()
	checked := 0
	var wantTrace []string
	for i := 0; i < n; i++ {
		v := i + 1
		if st, _, _ := quiesce.Call(func() { defer func() { recover() }(); outer.Send(src.Notif{K: rec.Next, V: v}) }, 10*time.Second); st != quiesce.Returned {
			return driver.Result{Verdict: driver.Inconclusive, Key: "producer-blocked-in-library", Msg: name + ": the producer's call never returned", Dirty: true}
		}
		wantTrace = append(wantTrace, fmt.Sprint(v*10), fmt.Sprint(v*10+1))
		checked++
		if got := r.TraceString(); got != strings.Join(wantTrace, " ") {
			res.Verdict, res.Key = driver.Violated, "C08/"+op+"/output-not-delivered-when-next-returned"
			res.Msg = fmt.Sprintf("%s: when the producer's Next(%d) returned the observer had received [%s]; the output of that value is [%s]", name, v, got, strings.Join(wantTrace, " "))
			return res
		}
	}
	switch end {
	case "C":
		quiesce.Call(func() { defer func() { recover() }(); outer.Send(src.Notif{K: rec.Complete}) }, 10*time.Second)
		wantTrace = append(wantTrace, "C")
	case "E":
		quiesce.Call(func() { defer func() { recover() }(); outer.Send(src.Notif{K: rec.Error}) }, 10*time.Second)
		wantTrace = append(wantTrace, "E(src-error)")
	}
	if end != "-" {
		checked++
		if got := r.TraceString(); got != strings.Join(wantTrace, " ") {
			res.Verdict, res.Key = driver.Violated, "C08/"+op+"/output-not-delivered-when-next-returned"
			res.Msg = fmt.Sprintf("%s: when the producer's terminal call returned the observer had received [%s]; expected [%s]", name, got, strings.Join(wantTrace, " "))
			return res
		}
	}
	res.Events = int64(r.Len()) + int64(checked)
	res.Nontrivial = true
	res.Sig = fmt.Sprintf("ho/%s/%d/%s/%s→%s", op, n, c.Get("gap"), end, r.TraceString())
	res.Sample = map[string]any{"pipeline": name, "outer_values": n, "producer_calls_checked": checked, "trace": r.TraceString()}
	return res
}

func runSyncMulti(c driver.Case) driver.Result {
	e := catalog.Get(c.Get("entry"))
	var sd int64
	fmt.Sscan(c.Get("seed"), &sd)
	rng := rand.New(rand.NewSource(sd))
	res := driver.Result{Verdict: driver.Held}
	b := &catalog.B{}
	var srcs []*src.Source
	for i := 0; i < e.NSrc; i++ {
		s := src.New(fmt.Sprintf("s%d", i))
		srcs = append(srcs, s)
		b.Srcs = append(b.Srcs, s.Observable())
	}
	r := rec.New(e.Name)
	sub := e.Pipeline(b).Subscribe(context.Background(), r, false)
	defer func() { defer func() { recover() }(); sub.Unsubscribe() }()
	st := e.Step(e.NSrc)
	me := rec.GID()
	want := 0
	var order []string
	for step := 0; step < 12 && !st.Done(); step++ {
		var live []int
		for i := range srcs {
			if st.Live(i) && srcs[i].IsSubscribed() {
				live = append(live, i)
			}
		}
		if len(live) == 0 {
			break
		}
		i := live[rng.Intn(len(live))]
		n := src.Notif{K: rec.Next, V: 10*(i+1) + step}
		if rng.Intn(7) == 0 {
			n = src.Notif{K: rec.Complete}
		}
		order = append(order, fmt.Sprintf("s%d:%s", i, n))
		func() { defer func() { recover() }(); srcs[i].Send(n) }()
		out, t := st.On(i, n)
		want += len(out)
		if t != nil {
			want++
		}
		if got := r.Len(); got != want {
			res.Verdict, res.Key = driver.Violated, "C08/"+e.Family+"/output-not-delivered-when-next-returned"
			res.Msg = fmt.Sprintf("%s with arrival order %v: after the last call returned %d notifications had been delivered, the definition prescribes %d; trace: [%s]", e.Name, order, got, want, r.TraceString())
			return res
		}
	}
	for _, ev := range r.Events() {
		if ev.GID != me {
			res.Verdict, res.Key = driver.Violated, "C08/"+e.Family+"/delivered-on-another-goroutine"
			res.Msg = fmt.Sprintf("%s: %s delivered on goroutine %d, producer is %d", e.Name, ev.String(), ev.GID, me)
			return res
		}
	}
	res.Events = int64(r.Len()) + int64(len(order))
	res.Nontrivial = len(order) > 0
	res.Sig = e.Name + "|" + strings.Join(order, ",")
	res.Sample = map[string]any{"operator": e.Name, "arrival_order": order, "trace": r.TraceString()}
	return res
}

func runHandoff(c driver.Case) driver.Result {
	op, cp, n, k := c.Get("op"), c.Int("cap"), c.Int("n"), c.Int("k")
	endK := rec.Complete
	if c.Get("end") == "E" {
		endK = rec.Error
	}
	res := driver.Result{Verdict: driver.Held}
	what := fmt.Sprintf("%s(%d) with %d values then %s, consumer stopped after %d items", op, cp, n, c.Get("end"), k)
	var sc src.Script
	for i := 0; i < n; i++ {
		sc = append(sc, src.Notif{K: rec.Next, V: 100 + i})
	}
	sc = append(sc, src.Notif{K: endK})
	var returned atomic.Int64 // producer-side calls that have returned
	tokens := make(chan struct{}, n+4)
	r := rec.New(op)
	var consumed atomic.Int64
	r.OnEvent = func(ev *rec.Event) {
		// the consumer takes one token per item *before* counting it as consumed; without a token it stays inside the callback
		<-tokens
		consumed.Add(1)
	}
	fail := func(key, msg string) driver.Result {
		res.Verdict, res.Key = driver.Violated, "C08/"+op+"/"+key
		res.Msg = what + ": " + msg
		return res
	}
	producer := func(s *src.Source) {
		defer func() { recover() }()
		for _, nt := range sc {
			s.Send(nt)
			returned.Add(1)
		}
	}
	var wg sync.WaitGroup
	var chOut <-chan ro.Notification[int]
	var got []string
	var gotMu sync.Mutex
	readerTokens := tokens
	getReturned := func() int64 { return returned.Load() }
	switch op {
	case "ObserveOn":
		s := src.New("s0")
		sub := ro.ObserveOn[int](cp)(s.Observable()).Subscribe(rec.Raw[int](r))
		defer func() { defer func() { recover() }(); sub.Unsubscribe() }()
		wg.Add(1)
		go func() { defer wg.Done(); producer(s) }()
	case "SubscribeOn":
		// the source plays its script inside the upstream Subscribe, which SubscribeOn runs on its own goroutine;
		// the calling goroutine delivers downstream
		s := src.New("s0", sc)
		obs := ro.SubscribeOn[int](cp)(s.Observable())
		wg.Add(1)
		go func() {
			defer wg.Done()
			defer func() { recover() }()
			obs.Subscribe(rec.Raw[int](r))
		}()
		// returned = emissions whose call has returned (computed on demand)
		getReturned = func() int64 {
			cnt := int64(0)
			for _, em := range s.Emissions() {
				if em.End != 0 {
					cnt++
				}
			}
			return cnt
		}
	case "ToChannel":
		s := src.New("s0")
		hand := rec.New("handout")
		sub := ro.ToChannel[int](cp)(s.Observable()).Subscribe(rec.RawWith[<-chan ro.Notification[int]](hand, func(ch <-chan ro.Notification[int]) string {
			chOut = ch
			return "chan"
		}))
		defer func() { defer func() { recover() }(); sub.Unsubscribe() }()
		// wait for the source to be subscribed (ToChannel subscribes from a goroutine after 1ms)
		deadline := time.Now().Add(2 * time.Second)
		for !s.IsSubscribed() && time.Now().Before(deadline) {
			time.Sleep(200 * time.Microsecond)
		}
		if chOut == nil || !s.IsSubscribed() {
			return fail("channel-not-handed-out", "no channel was delivered / source not subscribed")
		}
		wg.Add(1)
		go func() { defer wg.Done(); producer(s) }()
		wg.Add(1)
		go func() {
			defer wg.Done()
			for {
				<-readerTokens
				v, ok := <-chOut
				if !ok {
					return
				}
				consumed.Add(1)
				gotMu.Lock()
				got = append(got, v.String())
				gotMu.Unlock()
			}
		}()
	}
	// let the consumer take exactly k items
	for i := 0; i < k; i++ {
		tokens <- struct{}{}
	}
	quiesce.Settle(5 * time.Second)
	time.Sleep(2 * time.Millisecond)
	if _, ok := quiesce.Settle(15 * time.Second); !ok {
		// producer / consumer goroutines still runnable on a loaded machine: the lead cannot be read yet
		return driver.Result{Verdict: driver.Inconclusive, Key: "process-not-quiescent", Dirty: true}
	}
	ret, cons := getReturned(), consumed.Load()
	total := int64(n + 1)
	res.Extra = map[string]int64{"max_producer_lead": ret - cons}
	if cons > int64(k) {
		return fail("harness-gate-broken", fmt.Sprintf("consumer took %d items with %d tokens", cons, k))
	}
	if op == "ToChannel" && ret-cons > int64(cp) {
		// the reader is the channel's own receiver: with it stopped, every call that has returned left its
		// value either with the reader or in the channel - nobody else holds one
		return fail("producer-runs-ahead-of-consumer", fmt.Sprintf("with the reader stopped after %d receives, %d producer-side calls have returned: %d values sit in a channel of capacity %d", cons, ret, ret-cons, cp))
	}
	if ret-cons > int64(cp)+2 {
		return fail("producer-runs-ahead-of-consumer", fmt.Sprintf("with the consumer stopped after %d items, %d producer-side calls have returned: lead %d > capacity %d + 2", cons, ret, ret-cons, cp))
	}
	lower := int64(k + cp)
	if lower > total {
		lower = total
	}
	if ret < lower && op != "ToChannel" || (op == "ToChannel" && ret < min64(total, int64(k+cp))) {
		return fail("queue-not-used", fmt.Sprintf("only %d producer-side calls returned although consumer took %d and capacity is %d (expected ≥ %d)", ret, cons, cp, lower))
	}
	// release everything and check FIFO / no loss / terminal last
	for i := 0; i < n+4; i++ {
		select {
		case tokens <- struct{}{}:
		default:
		}
	}
	done := make(chan struct{})
	go func() { wg.Wait(); close(done) }()
	select {
	case <-done:
	case <-time.After(5 * time.Second):
		res.Dirty = true
		return fail("did-not-drain", "producer/consumer did not finish after the consumer was released")
	}
	quiesce.Settle(time.Second)
	var trace []string
	if op == "ToChannel" {
		gotMu.Lock()
		trace = append(trace, got...)
		gotMu.Unlock()
	} else {
		deadline := time.Now().Add(2 * time.Second)
		for r.Terminal() == rec.Next && time.Now().Before(deadline) {
			time.Sleep(200 * time.Microsecond)
		}
		trace = r.Trace()
	}
	var want []string
	for _, nt := range sc {
		switch {
		case op == "ToChannel" && nt.K == rec.Next:
			want = append(want, ro.NewNotificationNext(nt.V).String())
		case op == "ToChannel" && nt.K == rec.Complete:
			want = append(want, ro.NewNotificationComplete[int]().String())
		case op == "ToChannel":
			want = append(want, ro.NewNotificationError[int](src.ErrSrc).String())
		case nt.K == rec.Next:
			want = append(want, fmt.Sprint(nt.V))
		case nt.K == rec.Complete:
			want = append(want, "C")
		default:
			want = append(want, "E(src-error)")
		}
	}
	if strings.Join(trace, " ") != strings.Join(want, " ") {
		return fail("not-fifo-or-lossy", fmt.Sprintf("delivered [%s], emitted [%s]", strings.Join(trace, " "), strings.Join(want, " ")))
	}
	res.Events = int64(len(trace)) + 2
	res.Nontrivial = true
	res.Sig = fmt.Sprintf("%s/%d/%d/%d→lead%d", op, cp, n, k, ret-cons)
	res.Sample = map[string]any{"scenario": what, "producer_calls_returned_while_consumer_stopped": ret, "consumed": cons, "lead": ret - cons}
	return res
}

func min64(a, b int64) int64 {
	if a < b {
		return a
	}
	return b
}

func runCase(c driver.Case) driver.Result {
	rec.ResetHooks()
	switch c.Get("kind") {
	case "syncmulti":
		return runSyncMulti(c)
	case "handoff":
		return runHandoff(c)
	case "ho":
		return runHO(c)
	}
	return runSync(c)
}

func main() {
	driver.Main(driver.Property{
		ID:        "C08",
		Level:     "exploration",
		Rule:      "synchronous part: every synchronous catalogue entry (and random chains, and multi-source entries with random arrival orders) over puppet sources — after EACH producer-side Next/Error/Complete returns, the number of notifications delivered downstream equals the cumulative output of the reference definition, and every delivery ran on the producer's goroutine. Hand-off part: ObserveOn / SubscribeOn / ToChannel × capacity 1..4 (→8; 0 for ToChannel) × input length × a consumer that is allowed exactly k items (gate inside the observer callback / channel reader) — once the process is quiescent, producer-side calls returned − items consumed ≤ capacity + 2 and ≥ min(n, k+capacity) (the queue is really used); then the consumer is released: delivered == emitted in order, terminal last. Non-trivial: at least one producer call was checked. Also: FlatMap*/ConcatAll over inner observables that deliver [v0 v1 C] from their own goroutine: when the producer's Next(v) returns, both values of v have reached the observer.",
		Assume:    []string{"lead is measured logically: consumer tokens + quiescence, no wall-clock thresholds"},
		Plan:      plan,
		Run:       runCase,
		CaseWatch: 60 * time.Second,
		Setup: func() {
			rec.Install()
			sched.Install()
		},
	})
}
