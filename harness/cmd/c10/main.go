// C10 — subjects follow their sequential definition and are linearizable.
package main

import (
	"fmt"
	"math/rand"
	"strings"
	"sync"
	"time"

	"github.com/anishathalye/porcupine"
	"github.com/samber/ro"
	"verifharness/internal/driver"
	"verifharness/internal/quiesce"
	"verifharness/internal/rec"
	"verifharness/internal/sched"
	"verifharness/internal/src"
	sm "verifharness/internal/subjmodel"
)

type config struct {
	kind sm.Kind
	n    int
}

func configs() []config {
	return []config{
		{sm.Publish, 0}, {sm.Behavior, 0},
		{sm.Replay, 1}, {sm.Replay, 2}, {sm.Replay, 3},
		{sm.Async, 0},
		{sm.Unicast, 1}, {sm.Unicast, 2}, {sm.Unicast, 3}, {sm.Unicast, -1}, {sm.Unicast, 0},
	}
}

func (c config) String() string { return fmt.Sprintf("%s(%d)", c.kind, c.n) }

func newSubject(c config) ro.Subject[int] {
	switch c.kind {
	case sm.Publish:
		return ro.NewPublishSubject[int]()
	case sm.Behavior:
		return ro.NewBehaviorSubject(0)
	case sm.Replay:
		return ro.NewReplaySubject[int](c.n)
	case sm.Async:
		return ro.NewAsyncSubject[int]()
	}
	return ro.NewUnicastSubject[int](c.n)
}

// ops: N = Next(fresh value), E, C, S = subscribe a new subscriber, U0..U2 = unsubscribe subscriber i
var alphabet = []string{"N", "E", "C", "S", "U0", "U1", "U2"}

func plan(tier string, seed int64) []driver.Case {
	maxLen, nConc := 6, 600
	if tier == "thorough" {
		maxLen, nConc = 7, 8000
	}
	var cases []driver.Case
	// the sequences of length ≤ maxLen-2 are enumerated as prefixes inside each case: one case per (config, 2-op prefix)
	for _, c := range configs() {
		for _, a := range alphabet {
			for _, b := range alphabet {
				cases = append(cases, driver.Case{ID: fmt.Sprintf("seq/%s/%s-%s", c, a, b), P: map[string]string{"kind": "seq", "subject": string(c.kind), "n": fmt.Sprint(c.n), "prefix": a + " " + b, "len": fmt.Sprint(maxLen)}})
			}
		}
	}
	rng := rand.New(rand.NewSource(seed))
	for i := 0; i < nConc; i++ {
		c := configs()[i%len(configs())]
		cases = append(cases, driver.Case{ID: fmt.Sprintf("conc/%s/%d", c, i), Race: tier == "thorough" && i%2 == 0,
			P: map[string]string{"kind": "conc", "subject": string(c.kind), "n": fmt.Sprint(c.n), "seed": fmt.Sprint(rng.Int63()), "clients": fmt.Sprint(2 + rng.Intn(3)), "yield": fmt.Sprint(rng.Intn(3)), "concurrent": "1"}})
	}
	return cases
}

func renderTrace(r *rec.Rec) []string {
	var out []string
	for _, e := range r.Events() {
		switch e.Kind {
		case rec.Next:
			out = append(out, e.Val)
		case rec.Error:
			if strings.Contains(e.ErrS, "single subscriber") {
				out = append(out, "E(concurrent)")
			} else {
				out = append(out, "E")
			}
		default:
			out = append(out, "C")
		}
	}
	return out
}

type live struct {
	subj ro.Subject[int]
	recs []*rec.Rec
	subs []ro.Subscription
	next int
}

func (l *live) apply(op string) {
	switch {
	case op == "N":
		l.next++
		l.subj.Next(l.next)
	case op == "E":
		l.subj.Error(src.ErrSrc)
	case op == "C":
		l.subj.Complete()
	case op == "S":
		r := rec.New(fmt.Sprintf("sub%d", len(l.recs)))
		l.recs = append(l.recs, r)
		l.subs = append(l.subs, l.subj.Subscribe(rec.Raw[int](r)))
	case strings.HasPrefix(op, "U"):
		i := int(op[1] - '0')
		if i < len(l.subs) {
			l.subs[i].Unsubscribe()
		}
	}
}

func applyModel(m *sm.State, op string, next *int, nsubs *int) {
	switch {
	case op == "N":
		*next++
		m.Next(*next)
	case op == "E":
		m.Error()
	case op == "C":
		m.Complete()
	case op == "S":
		m.Subscribe(*nsubs)
		*nsubs++
	case strings.HasPrefix(op, "U"):
		i := int(op[1] - '0')
		if i < *nsubs {
			m.Unsubscribe(i)
		}
	}
}

func runSeq(c driver.Case) driver.Result {
	cfg := config{sm.Kind(c.Get("subject")), c.Int("n")}
	maxLen := c.Int("len")
	prefix := strings.Fields(c.Get("prefix"))
	res := driver.Result{Verdict: driver.Held}
	var sequences int64
	var check func(seq []string) *driver.Result
	check = func(seq []string) *driver.Result {
		// execute the whole sequence on a fresh subject, comparing after each operation
		l := &live{subj: newSubject(cfg)}
		m := sm.New(cfg.kind, cfg.n, 0)
		next, nsubs := 0, 0
		for step, op := range seq {
			if op == "S" && nsubs >= 3 {
				return nil
			}
			st, dump, pan := quiesce.Call(func() { l.apply(op) }, 10*time.Second)
			if st == quiesce.Hung {
				return &driver.Result{Verdict: driver.Violated, Key: "C10/" + string(cfg.kind) + "/hang/" + quiesce.BlockedSite(dump), Dirty: true, Witness: dump,
					Msg: fmt.Sprintf("%s: operation #%d of [%s] never returns; all goroutines blocked", cfg, step, strings.Join(seq, " "))}
			}
			if pan != nil {
				return &driver.Result{Verdict: driver.Violated, Key: "C10/" + string(cfg.kind) + "/panic", Msg: fmt.Sprintf("%s: operation #%d of [%s] panicked: %v", cfg, step, strings.Join(seq, " "), pan)}
			}
			applyModel(m, op, &next, &nsubs)
			for i, r := range l.recs {
				got, want := strings.Join(renderTrace(r), " "), strings.Join(m.Subs[i].Trace, " ")
				res.Events++
				if got != want {
					return &driver.Result{Verdict: driver.Violated, Key: "C10/" + string(cfg.kind) + "/" + anomaly(cfg, seq[:step+1]),
						Msg: fmt.Sprintf("%s after [%s]: subscriber %d received [%s], the sequential definition gives [%s]", cfg, strings.Join(seq[:step+1], " "), i, got, want)}
				}
			}
			if got, want := l.subj.CountObservers(), m.Count(); got != want {
				return &driver.Result{Verdict: driver.Violated, Key: "C10/" + string(cfg.kind) + "/count-observers", Msg: fmt.Sprintf("%s after [%s]: CountObservers() = %d, definition %d", cfg, strings.Join(seq[:step+1], " "), got, want)}
			}
			if got, want := l.subj.HasObserver(), m.Count() > 0; got != want {
				return &driver.Result{Verdict: driver.Violated, Key: "C10/" + string(cfg.kind) + "/has-observer", Msg: fmt.Sprintf("%s after [%s]: HasObserver() = %v", cfg, strings.Join(seq[:step+1], " "), got)}
			}
			if l.subj.IsClosed() != (m.Status != sm.Open) || l.subj.HasThrown() != (m.Status == sm.Errored) || l.subj.IsCompleted() != (m.Status == sm.Completed) {
				return &driver.Result{Verdict: driver.Violated, Key: "C10/" + string(cfg.kind) + "/status-accessors", Msg: fmt.Sprintf("%s after [%s]: IsClosed/HasThrown/IsCompleted = %v/%v/%v, definition status %d", cfg, strings.Join(seq[:step+1], " "), l.subj.IsClosed(), l.subj.HasThrown(), l.subj.IsCompleted(), m.Status)}
			}
		}
		sequences++
		return nil
	}
	var gen func(seq []string) *driver.Result
	gen = func(seq []string) *driver.Result {
		if len(seq) == maxLen {
			return check(seq)
		}
		for _, a := range alphabet {
			if r := gen(append(append([]string(nil), seq...), a)); r != nil {
				return r
			}
		}
		return nil
	}
	if r := gen(prefix); r != nil {
		return *r
	}
	res.Nontrivial = sequences > 0
	res.Extra = map[string]int64{"operation_sequences": sequences}
	res.Sig = cfg.String() + "/" + c.Get("prefix")
	res.Sample = map[string]any{"subject": cfg.String(), "sequences_with_prefix": c.Get("prefix"), "executed": sequences, "length": maxLen}
	return res
}

// anomaly names the shape of a sequential mismatch (finding key).
func anomaly(cfg config, seq []string) string {
	last := seq[len(seq)-1]
	term := false
	for _, op := range seq[:len(seq)-1] {
		if op == "E" || op == "C" {
			term = true
		}
	}
	switch {
	case last == "S" && term:
		return "subscribe-after-termination"
	case last == "S":
		return "subscribe-while-open"
	case last == "N":
		return "next"
	case last == "E" || last == "C":
		return "terminal"
	}
	return "unsubscribe"
}

// ---------------------------------------------------------------- concurrent histories → porcupine

type opIn struct {
	Op  string // N E C S U R(ead trace) K(count)
	V   int
	Sub int
}

type opOut struct {
	Trace string
	N     int
}

func model(cfg config, dropBacklog bool) porcupine.Model {
	return porcupine.Model{
		Init: func() any { m := sm.New(cfg.kind, cfg.n, 0); m.DropBacklog = dropBacklog; return m },
		Step: func(state, input, output any) (bool, any) {
			s := state.(*sm.State).Clone()
			in, out := input.(opIn), output.(opOut)
			switch in.Op {
			case "N":
				s.Next(in.V)
			case "E":
				s.Error()
			case "C":
				s.Complete()
			case "S":
				s.Subscribe(in.Sub)
			case "U":
				s.Unsubscribe(in.Sub)
			case "K":
				return s.Count() == out.N, s
			case "R":
				sub, ok := s.Subs[in.Sub]
				if !ok {
					return out.Trace == "", s
				}
				return strings.Join(sub.Trace, " ") == out.Trace, s
			}
			return true, s
		},
		Equal: func(a, b any) bool { return a.(*sm.State).Key() == b.(*sm.State).Key() },
		DescribeOperation: func(input, output any) string {
			in, out := input.(opIn), output.(opOut)
			return fmt.Sprintf("%s(v=%d,sub=%d)→%q/%d", in.Op, in.V, in.Sub, out.Trace, out.N)
		},
	}
}

func runConc(c driver.Case) driver.Result {
	cfg := config{sm.Kind(c.Get("subject")), c.Int("n")}
	var sd int64
	fmt.Sscan(c.Get("seed"), &sd)
	rng := rand.New(rand.NewSource(sd))
	switch c.Int("yield") {
	case 1:
		sched.Set(sched.Yield, 50)
	case 2:
		sched.Set(sched.Jitter, 20)
	default:
		sched.Set(sched.Off, 0)
	}
	defer sched.Set(sched.Off, 0)
	clients := c.Int("clients")
	subj := newSubject(cfg)
	type plannedOp struct {
		in opIn
	}
	// plan: each client runs a short sequence; subscriber ids are global and unique
	plans := make([][]opIn, clients)
	subID := 0
	val := 0
	var mySubs [][]int
	mySubs = make([][]int, clients)
	for cl := 0; cl < clients; cl++ {
		n := 2 + rng.Intn(4)
		for k := 0; k < n; k++ {
			switch r := rng.Intn(10); {
			case r < 4:
				val++
				plans[cl] = append(plans[cl], opIn{Op: "N", V: cl*1000 + val})
			case r < 6:
				plans[cl] = append(plans[cl], opIn{Op: "S", Sub: subID})
				mySubs[cl] = append(mySubs[cl], subID)
				subID++
			case r < 8 && len(mySubs[cl]) > 0:
				plans[cl] = append(plans[cl], opIn{Op: "U", Sub: mySubs[cl][rng.Intn(len(mySubs[cl]))]})
			case r < 9:
				// (CountObservers is not part of the concurrent histories: the subjects remove observers after
				// releasing their mutex, so a count read racing a termination is legitimately stale; it is
				// compared after every operation in the sequential part)
				val++
				plans[cl] = append(plans[cl], opIn{Op: "N", V: cl*1000 + val})
			default:
				if rng.Intn(2) == 0 {
					plans[cl] = append(plans[cl], opIn{Op: "C"})
				} else {
					plans[cl] = append(plans[cl], opIn{Op: "E"})
				}
			}
		}
	}
	recs := make([]*rec.Rec, subID)
	subs := make([]ro.Subscription, subID)
	var mu sync.Mutex
	var history []porcupine.Operation
	start := make(chan struct{})
	var wg sync.WaitGroup
	for cl := 0; cl < clients; cl++ {
		cl := cl
		wg.Add(1)
		go func() {
			defer wg.Done()
			<-start
			for _, in := range plans[cl] {
				out := opOut{}
				t0 := rec.Mono()
				switch in.Op {
				case "N":
					subj.Next(in.V)
				case "E":
					subj.Error(src.ErrSrc)
				case "C":
					subj.Complete()
				case "S":
					r := rec.New(fmt.Sprintf("sub%d", in.Sub))
					mu.Lock()
					recs[in.Sub] = r
					mu.Unlock()
					s := subj.Subscribe(rec.Raw[int](r))
					mu.Lock()
					subs[in.Sub] = s
					mu.Unlock()
				case "U":
					mu.Lock()
					s := subs[in.Sub]
					mu.Unlock()
					if s != nil {
						s.Unsubscribe()
					}
				case "K":
					out.N = subj.CountObservers()
				}
				t1 := rec.Mono()
				mu.Lock()
				history = append(history, porcupine.Operation{ClientId: cl, Input: in, Output: out, Call: t0, Return: t1})
				mu.Unlock()
			}
		}()
	}
	close(start)
	st, dump, _ := quiesce.Call(wg.Wait, 15*time.Second)
	res := driver.Result{Verdict: driver.Held}
	if st == quiesce.Hung {
		res.Verdict, res.Key, res.Dirty = driver.Violated, "C10/"+string(cfg.kind)+"/hang/"+quiesce.BlockedSite(dump), true
		res.Msg = fmt.Sprintf("%s: concurrent clients %v never finish; all goroutines blocked", cfg, plans)
		res.Witness = dump
		return res
	}
	quiesce.Settle(2 * time.Second)
	// final reads of every subscriber's trace, after everything else in real time
	tEnd := rec.Mono() + 1
	var events int64
	for id, r := range recs {
		tr := ""
		if r != nil {
			tr = strings.Join(renderTrace(r), " ")
			events += int64(r.Len())
			if gp := r.GrammarProblems(); len(gp) > 0 {
				res.Verdict, res.Key = driver.Violated, "C10/"+string(cfg.kind)+"/delivery-after-terminal"
				res.Msg = fmt.Sprintf("%s concurrent: subscriber %d: %s", cfg, id, strings.Join(gp, "; "))
				return res
			}
		}
		history = append(history, porcupine.Operation{ClientId: clients, Input: opIn{Op: "R", Sub: id}, Output: opOut{Trace: tr}, Call: tEnd, Return: tEnd + 1})
		tEnd += 2
	}
	result := porcupine.CheckOperationsTimeout(model(cfg, false), history, 10*time.Second)
	class := ""
	if result == porcupine.Illegal && cfg.kind == sm.Unicast {
		if porcupine.CheckOperationsTimeout(model(cfg, true), history, 10*time.Second) == porcupine.Ok {
			class = "/explained-by-backlog-dropped-at-termination"
		} else if nextRacesUnsubscribe(history) {
			class = "/next-racing-unsubscribe"
		}
	}
	res.Events = events + int64(len(history))
	res.Nontrivial = len(history) > clients
	res.Sig = fmt.Sprintf("%s|%v", cfg, plans)
	res.Extra = map[string]int64{"history_ops": int64(len(history))}
	var desc []string
	for _, op := range history {
		in, out := op.Input.(opIn), op.Output.(opOut)
		desc = append(desc, fmt.Sprintf("c%d %s(v=%d,sub=%d)→%q/%d [%d,%d]", op.ClientId, in.Op, in.V, in.Sub, out.Trace, out.N, op.Call, op.Return))
	}
	res.Sample = map[string]any{"subject": cfg.String(), "clients": clients, "history": desc}
	switch result {
	case porcupine.Unknown:
		res.Verdict, res.Key = driver.Inconclusive, "linearizability-search-timeout"
	case porcupine.Illegal:
		res.Verdict, res.Key = driver.Violated, "C10/"+string(cfg.kind)+"/history-not-linearizable"+class
		res.Msg = fmt.Sprintf("%s: concurrent history of %d operations from %d clients is not linearizable w.r.t. the sequential definition", cfg, len(history), clients)
		res.Witness = desc
	}
	return res
}

// nextRacesUnsubscribe: some Next overlaps an Unsubscribe in real time (precondition of the
// known "value handed to a subscriber that is leaving is lost" defect of the unicast subject).
func nextRacesUnsubscribe(h []porcupine.Operation) bool {
	for _, a := range h {
		if a.Input.(opIn).Op != "N" {
			continue
		}
		for _, b := range h {
			if b.Input.(opIn).Op == "U" && a.Call < b.Return && b.Call < a.Return {
				return true
			}
		}
	}
	return false
}

func runCase(c driver.Case) driver.Result {
	rec.ResetHooks()
	if c.Get("kind") == "conc" {
		return runConc(c)
	}
	return runSeq(c)
}

func main() {
	driver.Main(driver.Property{
		ID:        "C10",
		Level:     "exploration",
		Rule:      "sequential: for each subject kind and buffer size (publish; behavior; replay 1,2,3; async; unicast 0,1,2,3,unlimited) EVERY sequence over {Next v, Error, Complete, Subscribe (new subscriber, ≤3), Unsubscribe 0..2} up to the bound is executed on a fresh subject; after each operation every subscriber's trace and CountObservers/HasObserver/IsClosed/HasThrown/IsCompleted are compared with the sequential definition. Concurrent: 2-4 clients run seeded short sequences (unique values, unique subscriber ids) against one subject with yields at the post-unlock hook points; the recorded history (call/return from one monotonic clock, plus a final read of every subscriber's trace) is checked for linearizability against the same definition with porcupine. Non-trivial: sequences executed / histories with more operations than clients; distinct = distinct operation plans.",
		Assume:    []string{"the sequential definition is DESIGN Appendix B (from the property statement and the subjects' doc comments)", "porcupine timeout (30 s) is inconclusive"},
		Plan:      plan,
		Run:       runCase,
		CaseWatch: 120 * time.Second,
		Setup: func() {
			rec.Install()
			sched.Install()
		},
		Exhaustive: func(tier string) string {
			if tier == "thorough" {
				return "all operation sequences of length 7 (every prefix checked) over 7 operations for 11 subject configurations"
			}
			return "all operation sequences of length 6 (every prefix checked) over 7 operations for 11 subject configurations"
		},
	})
}
