// C10 — subjects follow their sequential definition and are linearizable.
package main

import (
	"fmt"
	"math/rand"
	"regexp"
	"runtime"
	"strings"
	"sync"
	"sync/atomic"
	"time"

	"github.com/anishathalye/porcupine"
	"github.com/samber/ro"
	"verifharness/internal/driver"
	"verifharness/internal/quiesce"
	"verifharness/internal/rec"
	"verifharness/internal/sched"
	"verifharness/internal/src"
	sm "verifharness/internal/subjmodel"
)

type config struct {
	kind sm.Kind
	n    int
}

func configs() []config {
	return []config{
		{sm.Publish, 0}, {sm.Behavior, 0},
		{sm.Replay, 0}, {sm.Replay, 1}, {sm.Replay, 2}, {sm.Replay, 3},
		{sm.Async, 0},
		{sm.Unicast, 1}, {sm.Unicast, 2}, {sm.Unicast, 3}, {sm.Unicast, -1}, {sm.Unicast, 0},
	}
}

func (c config) String() string { return fmt.Sprintf("%s(%d)", c.kind, c.n) }

func newSubject(c config) ro.Subject[int] {
	switch c.kind {
	case sm.Publish:
		return ro.NewPublishSubject[int]()
	case sm.Behavior:
		return ro.NewBehaviorSubject(0)
	case sm.Replay:
		return ro.NewReplaySubject[int](c.n)
	case sm.Async:
		return ro.NewAsyncSubject[int]()
	}
	return ro.NewUnicastSubject[int](c.n)
}

// ops: N = Next(fresh value), E, C, S = subscribe a new subscriber, U0..U2 = unsubscribe subscriber i
var alphabet = []string{"N", "E", "C", "S", "U0", "U1", "U2"}

// alphabetX: with X = subscribe a subscriber that unsubscribes itself inside its first callback
var alphabetX = []string{"N", "E", "C", "S", "X", "U0", "U1"}

func plan(tier string, seed int64) []driver.Case {
	maxLen, nConc := 6, 600
	if tier == "thorough" {
		maxLen, nConc = 7, 8000
	}
	var cases []driver.Case
	// the sequences of length ≤ maxLen-2 are enumerated as prefixes inside each case: one case per (config, 2-op prefix)
	for _, c := range configs() {
		for _, a := range alphabet {
			for _, b := range alphabet {
				cases = append(cases, driver.Case{ID: fmt.Sprintf("seq/%s/%s-%s", c, a, b), P: map[string]string{"kind": "seq", "subject": string(c.kind), "n": fmt.Sprint(c.n), "prefix": a + " " + b, "len": fmt.Sprint(maxLen)}})
			}
		}
	}
	// sequences with self-unsubscribing subscribers (every sequence of that length that starts with X or
	// has X after one other operation)
	for _, c := range configs() {
		for _, a := range alphabetX {
			for _, b := range alphabetX {
				if a != "X" && b != "X" {
					continue
				}
				cases = append(cases, driver.Case{ID: fmt.Sprintf("seqx/%s/%s-%s", c, a, b), P: map[string]string{"kind": "seq", "subject": string(c.kind), "n": fmt.Sprint(c.n), "prefix": a + " " + b, "len": fmt.Sprint(maxLen - 1), "alphabet": "x"}})
			}
		}
	}
	// two operations released by a spin barrier against a fresh subject, thousands of rounds each
	// (the windows inside Subscribe / Complete are a few instructions wide): every round is a tiny
	// history, judged like the others, with the observer count read at the end
	spinRounds := 2500
	if tier == "thorough" {
		spinRounds = 40000
	}
	for _, k := range []config{{sm.Publish, 0}, {sm.Behavior, 0}, {sm.Replay, 2}, {sm.Async, 0}, {sm.Unicast, -1}, {sm.Unicast, 1}} {
		for _, pair := range []string{"S|C", "S|E", "S|N", "U|N", "U|C", "S|S", "S|U"} {
			cases = append(cases, driver.Case{ID: fmt.Sprintf("spin/%s/%s", k, pair), Solo: true, P: map[string]string{"kind": "spin", "subject": string(k.kind), "n": fmt.Sprint(k.n), "pair": pair, "rounds": fmt.Sprint(spinRounds)}})
		}
	}
	// deterministic schedules: a broadcast is held between two subscribers while both unsubscribe
	for _, k := range []config{{sm.Publish, 0}, {sm.Behavior, 0}, {sm.Replay, 2}, {sm.Async, 0}} {
		for _, what := range []string{"next", "complete", "error"} {
			if k.kind == sm.Async && what == "next" {
				continue // an async subject broadcasts nothing before it completes
			}
			cases = append(cases, driver.Case{ID: fmt.Sprintf("park/%s/%s", k, what), P: map[string]string{"kind": "park", "subject": string(k.kind), "n": fmt.Sprint(k.n), "what": what}})
		}
	}
	rng := rand.New(rand.NewSource(seed))
	for i := 0; i < nConc; i++ {
		c := configs()[i%len(configs())]
		cases = append(cases, driver.Case{ID: fmt.Sprintf("conc/%s/%d", c, i), Race: tier == "thorough" && i%2 == 0,
			P: map[string]string{"kind": "conc", "subject": string(c.kind), "n": fmt.Sprint(c.n), "seed": fmt.Sprint(rng.Int63()), "clients": fmt.Sprint(2 + rng.Intn(3)), "yield": fmt.Sprint(rng.Intn(3)), "concurrent": "1"}})
	}
	return cases
}

func renderTrace(r *rec.Rec) []string {
	var out []string
	for _, e := range r.Events() {
		switch e.Kind {
		case rec.Next:
			out = append(out, e.Val)
		case rec.Error:
			if strings.Contains(e.ErrS, "single subscriber") {
				out = append(out, "E(concurrent)")
			} else {
				out = append(out, "E"+errTag(e.ErrS))
			}
		default:
			out = append(out, "C")
		}
	}
	return out
}

// Every Error call of a check carries an error of its own ("e<k>"), so that a trace tells which of several
// Error calls terminated the subject; errTag is that name as it shows in a delivered error.
func errTag(msg string) string {
	if m := errTagRe.FindString(msg); m != "" {
		return m
	}
	return ""
}

var errTagRe = regexp.MustCompile(`\be\d+\b`)

func taggedErr(k int) error { return fmt.Errorf("e%d: %w", k, src.ErrSrc) }

type live struct {
	errs int
	subj ro.Subject[int]
	recs []*rec.Rec
	subs []ro.Subscription
	next int
}

func (l *live) apply(op string) {
	switch {
	case op == "N":
		l.next++
		l.subj.Next(l.next)
	case op == "E":
		l.errs++
		l.subj.Error(taggedErr(l.errs))
	case op == "C":
		l.subj.Complete()
	case op == "S":
		r := rec.New(fmt.Sprintf("sub%d", len(l.recs)))
		l.recs = append(l.recs, r)
		l.subs = append(l.subs, l.subj.Subscribe(rec.Raw[int](r)))
	case op == "X":
		// a subscriber that unsubscribes itself inside the first callback it gets (the subscription
		// object is handed to it through a pre-built subscriber, as a pipeline stage would have it)
		r := rec.New(fmt.Sprintf("sub%d", len(l.recs)))
		var self ro.Subscriber[int]
		r.OnEvent = func(*rec.Event) {
			if self != nil {
				s := self
				self = nil
				s.Unsubscribe()
			}
		}
		self = ro.NewSubscriber[int](rec.Raw[int](r))
		l.recs = append(l.recs, r)
		l.subs = append(l.subs, l.subj.Subscribe(self))
	case strings.HasPrefix(op, "U"):
		i := int(op[1] - '0')
		if i < len(l.subs) {
			l.subs[i].Unsubscribe()
		}
	}
}

func applyModel(m *sm.State, op string, next *int, nsubs *int, errs *int) {
	switch {
	case op == "N":
		*next++
		m.Next(*next)
	case op == "E":
		*errs++
		m.Error(fmt.Sprintf("e%d", *errs))
	case op == "C":
		m.Complete()
	case op == "S":
		m.Subscribe(*nsubs)
		*nsubs++
	case op == "X":
		m.SubscribeAuto(*nsubs)
		*nsubs++
	case strings.HasPrefix(op, "U"):
		i := int(op[1] - '0')
		if i < *nsubs {
			m.Unsubscribe(i)
		}
	}
}

func runSeq(c driver.Case) driver.Result {
	cfg := config{sm.Kind(c.Get("subject")), c.Int("n")}
	maxLen := c.Int("len")
	prefix := strings.Fields(c.Get("prefix"))
	res := driver.Result{Verdict: driver.Held}
	var sequences int64
	var check func(seq []string) *driver.Result
	check = func(seq []string) *driver.Result {
		// execute the whole sequence on a fresh subject, comparing after each operation
		l := &live{subj: newSubject(cfg)}
		m := sm.New(cfg.kind, cfg.n, 0)
		next, nsubs, errs := 0, 0, 0
		for step, op := range seq {
			if (op == "S" || op == "X") && nsubs >= 3 {
				return nil
			}
			st, dump, pan := quiesce.Call(func() { l.apply(op) }, 10*time.Second)
			if st == quiesce.Hung {
				return &driver.Result{Verdict: driver.Violated, Key: "C10/" + string(cfg.kind) + "/hang/" + quiesce.BlockedSite(dump), Dirty: true, Witness: dump,
					Msg: fmt.Sprintf("%s: operation #%d of [%s] never returns; all goroutines blocked", cfg, step, strings.Join(seq, " "))}
			}
			if pan != nil {
				return &driver.Result{Verdict: driver.Violated, Key: "C10/" + string(cfg.kind) + "/panic", Msg: fmt.Sprintf("%s: operation #%d of [%s] panicked: %v", cfg, step, strings.Join(seq, " "), pan)}
			}
			applyModel(m, op, &next, &nsubs, &errs)
			for i, r := range l.recs {
				got, want := strings.Join(renderTrace(r), " "), strings.Join(m.Subs[i].Trace, " ")
				res.Events++
				if got != want {
					return &driver.Result{Verdict: driver.Violated, Key: "C10/" + string(cfg.kind) + "/" + anomaly(cfg, seq[:step+1]),
						Msg: fmt.Sprintf("%s after [%s]: subscriber %d received [%s], the sequential definition gives [%s]", cfg, strings.Join(seq[:step+1], " "), i, got, want)}
				}
			}
			if got, want := l.subj.CountObservers(), m.Count(); got != want {
				return &driver.Result{Verdict: driver.Violated, Key: "C10/" + string(cfg.kind) + "/count-observers", Msg: fmt.Sprintf("%s after [%s]: CountObservers() = %d, definition %d", cfg, strings.Join(seq[:step+1], " "), got, want)}
			}
			if got, want := l.subj.HasObserver(), m.Count() > 0; got != want {
				return &driver.Result{Verdict: driver.Violated, Key: "C10/" + string(cfg.kind) + "/has-observer", Msg: fmt.Sprintf("%s after [%s]: HasObserver() = %v", cfg, strings.Join(seq[:step+1], " "), got)}
			}
			if l.subj.IsClosed() != (m.Status != sm.Open) || l.subj.HasThrown() != (m.Status == sm.Errored) || l.subj.IsCompleted() != (m.Status == sm.Completed) {
				return &driver.Result{Verdict: driver.Violated, Key: "C10/" + string(cfg.kind) + "/status-accessors", Msg: fmt.Sprintf("%s after [%s]: IsClosed/HasThrown/IsCompleted = %v/%v/%v, definition status %d", cfg, strings.Join(seq[:step+1], " "), l.subj.IsClosed(), l.subj.HasThrown(), l.subj.IsCompleted(), m.Status)}
			}
		}
		sequences++
		return nil
	}
	alpha := alphabet
	if c.Get("alphabet") == "x" {
		alpha = alphabetX
	}
	var gen func(seq []string) *driver.Result
	gen = func(seq []string) *driver.Result {
		if len(seq) == maxLen {
			return check(seq)
		}
		for _, a := range alpha {
			if r := gen(append(append([]string(nil), seq...), a)); r != nil {
				return r
			}
		}
		return nil
	}
	if r := gen(prefix); r != nil {
		return *r
	}
	res.Nontrivial = sequences > 0
	res.Extra = map[string]int64{"operation_sequences": sequences}
	res.Sig = cfg.String() + "/" + c.Get("prefix")
	res.Sample = map[string]any{"subject": cfg.String(), "sequences_with_prefix": c.Get("prefix"), "executed": sequences, "length": maxLen}
	return res
}

// anomaly names the shape of a sequential mismatch (finding key).
func anomaly(cfg config, seq []string) string {
	last := seq[len(seq)-1]
	term := false
	for _, op := range seq[:len(seq)-1] {
		if op == "E" || op == "C" {
			term = true
		}
	}
	switch {
	case last == "S" && term:
		return "subscribe-after-termination"
	case last == "S":
		return "subscribe-while-open"
	case last == "N":
		return "next"
	case last == "E" || last == "C":
		return "terminal"
	}
	return "unsubscribe"
}

// ---------------------------------------------------------------- concurrent histories → porcupine

type opIn struct {
	Op  string // N E C S U R(ead trace) K(count)
	V   int
	Sub int
}

type opOut struct {
	Trace string
	N     int
}

// tolerance lists, for one subscriber, the deliveries that the known "deliver after releasing the
// subject's mutex" defect may lose: the subject picks the current subscriber under its mutex and
// calls it after unlocking; an Unsubscribe of that subscriber that overlaps the publishing call in
// real time can close the subscriber in between, and the notification - although it took effect on
// the subject - reaches nobody.
type tolerance struct {
	vals     map[string]bool // values of Next calls that overlap an Unsubscribe of this subscriber
	terminal bool            // an Error/Complete call overlaps an Unsubscribe of this subscriber
	anyVal   bool            // async subject: the final value is delivered by the Complete call itself
}

// tolerances derives them from the real-time intervals of the history.
func tolerances(cfg config, h []porcupine.Operation, withTerminal bool) map[int]tolerance {
	out := map[int]tolerance{}
	for _, u := range h {
		ui := u.Input.(opIn)
		if ui.Op != "U" {
			continue
		}
		t := out[ui.Sub]
		if t.vals == nil {
			t.vals = map[string]bool{}
		}
		for _, a := range h {
			ai := a.Input.(opIn)
			if !(a.Call < u.Return && u.Call < a.Return) {
				continue
			}
			switch ai.Op {
			case "N":
				t.vals[fmt.Sprint(ai.V)] = true
			case "E", "C":
				if withTerminal {
					t.terminal = true
					t.anyVal = cfg.kind == sm.Async
				}
			}
		}
		out[ui.Sub] = t
	}
	return out
}

// matches: got equals want with some tolerated deliveries removed.
func (t tolerance) matches(want []string, got string) bool {
	g := strings.Fields(got)
	i := 0
	for _, w := range want {
		if i < len(g) && g[i] == w {
			i++
			continue
		}
		isTerm := w == "C" || strings.HasPrefix(w, "E")
		if (isTerm && t.terminal) || (!isTerm && (t.vals[w] || t.anyVal)) {
			continue // lost to the racing Unsubscribe
		}
		return false
	}
	return i == len(g)
}

func model(cfg config, dropBacklog bool) porcupine.Model { return modelTol(cfg, dropBacklog, nil) }

func modelTol(cfg config, dropBacklog bool, tol map[int]tolerance) porcupine.Model {
	return porcupine.Model{
		Init: func() any { m := sm.New(cfg.kind, cfg.n, 0); m.DropBacklog = dropBacklog; return m },
		Step: func(state, input, output any) (bool, any) {
			s := state.(*sm.State).Clone()
			in, out := input.(opIn), output.(opOut)
			switch in.Op {
			case "N":
				s.Next(in.V)
			case "E":
				s.Error(fmt.Sprintf("e%d", in.V))
			case "C":
				s.Complete()
			case "S":
				s.Subscribe(in.Sub)
			case "U":
				s.Unsubscribe(in.Sub)
			case "K":
				return s.Count() == out.N, s
			case "R":
				sub, ok := s.Subs[in.Sub]
				if !ok {
					return out.Trace == "", s
				}
				if strings.Join(sub.Trace, " ") == out.Trace {
					return true, s
				}
				if t, ok := tol[in.Sub]; ok {
					return t.matches(sub.Trace, out.Trace), s
				}
				return false, s
			}
			return true, s
		},
		Equal: func(a, b any) bool { return a.(*sm.State).Key() == b.(*sm.State).Key() },
		DescribeOperation: func(input, output any) string {
			in, out := input.(opIn), output.(opOut)
			return fmt.Sprintf("%s(v=%d,sub=%d)→%q/%d", in.Op, in.V, in.Sub, out.Trace, out.N)
		},
	}
}

func runConc(c driver.Case) driver.Result {
	cfg := config{sm.Kind(c.Get("subject")), c.Int("n")}
	var sd int64
	fmt.Sscan(c.Get("seed"), &sd)
	rng := rand.New(rand.NewSource(sd))
	switch c.Int("yield") {
	case 1:
		sched.Set(sched.Yield, 50)
	case 2:
		sched.Set(sched.Jitter, 20)
	default:
		sched.Set(sched.Off, 0)
	}
	defer sched.Set(sched.Off, 0)
	clients := c.Int("clients")
	subj := newSubject(cfg)
	type plannedOp struct {
		in opIn
	}
	// plan: each client runs a short sequence; subscriber ids are global and unique
	plans := make([][]opIn, clients)
	subID := 0
	val := 0
	var mySubs [][]int
	mySubs = make([][]int, clients)
	for cl := 0; cl < clients; cl++ {
		n := 2 + rng.Intn(4)
		for k := 0; k < n; k++ {
			switch r := rng.Intn(10); {
			case r < 4:
				val++
				plans[cl] = append(plans[cl], opIn{Op: "N", V: cl*1000 + val})
			case r < 6:
				plans[cl] = append(plans[cl], opIn{Op: "S", Sub: subID})
				mySubs[cl] = append(mySubs[cl], subID)
				subID++
			case r < 8 && len(mySubs[cl]) > 0:
				plans[cl] = append(plans[cl], opIn{Op: "U", Sub: mySubs[cl][rng.Intn(len(mySubs[cl]))]})
			case r < 9:
				// (CountObservers is not part of the concurrent histories: the subjects remove observers after
				// releasing their mutex, so a count read racing a termination is legitimately stale; it is
				// compared after every operation in the sequential part)
				val++
				plans[cl] = append(plans[cl], opIn{Op: "N", V: cl*1000 + val})
			default:
				if rng.Intn(2) == 0 {
					plans[cl] = append(plans[cl], opIn{Op: "C"})
				} else {
					val++
					plans[cl] = append(plans[cl], opIn{Op: "E", V: cl*1000 + val})
				}
			}
		}
	}
	recs := make([]*rec.Rec, subID)
	subs := make([]ro.Subscription, subID)
	var mu sync.Mutex
	var history []porcupine.Operation
	start := make(chan struct{})
	var wg sync.WaitGroup
	for cl := 0; cl < clients; cl++ {
		cl := cl
		wg.Add(1)
		go func() {
			defer wg.Done()
			<-start
			for _, in := range plans[cl] {
				out := opOut{}
				t0 := rec.Mono()
				switch in.Op {
				case "N":
					subj.Next(in.V)
				case "E":
					subj.Error(taggedErr(in.V))
				case "C":
					subj.Complete()
				case "S":
					r := rec.New(fmt.Sprintf("sub%d", in.Sub))
					mu.Lock()
					recs[in.Sub] = r
					mu.Unlock()
					s := subj.Subscribe(rec.Raw[int](r))
					mu.Lock()
					subs[in.Sub] = s
					mu.Unlock()
				case "U":
					mu.Lock()
					s := subs[in.Sub]
					mu.Unlock()
					if s != nil {
						s.Unsubscribe()
					}
				case "K":
					out.N = subj.CountObservers()
				}
				t1 := rec.Mono()
				mu.Lock()
				history = append(history, porcupine.Operation{ClientId: cl, Input: in, Output: out, Call: t0, Return: t1})
				mu.Unlock()
			}
		}()
	}
	close(start)
	st, dump, _ := quiesce.Call(wg.Wait, 15*time.Second)
	res := driver.Result{Verdict: driver.Held}
	if st == quiesce.Hung {
		res.Verdict, res.Key, res.Dirty = driver.Violated, "C10/"+string(cfg.kind)+"/hang/"+quiesce.BlockedSite(dump), true
		res.Msg = fmt.Sprintf("%s: concurrent clients %v never finish; all goroutines blocked", cfg, plans)
		res.Witness = dump
		return res
	}
	quiesce.Settle(2 * time.Second)
	// final reads of every subscriber's trace, after everything else in real time
	tEnd := rec.Mono() + 1
	var events int64
	for id, r := range recs {
		tr := ""
		if r != nil {
			tr = strings.Join(renderTrace(r), " ")
			events += int64(r.Len())
			if gp := r.GrammarProblems(); len(gp) > 0 {
				res.Verdict, res.Key = driver.Violated, "C10/"+string(cfg.kind)+"/delivery-after-terminal"
				res.Msg = fmt.Sprintf("%s concurrent: subscriber %d: %s", cfg, id, strings.Join(gp, "; "))
				return res
			}
		}
		history = append(history, porcupine.Operation{ClientId: clients, Input: opIn{Op: "R", Sub: id}, Output: opOut{Trace: tr}, Call: tEnd, Return: tEnd + 1})
		tEnd += 2
	}
	res.Events = events
	return judge(cfg, history, clients, fmt.Sprintf("%s|%v", cfg, plans), res)
}

// judge decides a recorded history: linearizable w.r.t. the sequential definition, or - if not -
// attributed to one of the recorded defects by an executable relaxation of the definition.
func judge(cfg config, history []porcupine.Operation, clients int, sig string, res driver.Result) driver.Result {
	result := porcupine.CheckOperationsTimeout(model(cfg, false), history, 10*time.Second)
	class := ""
	if result == porcupine.Illegal {
		// attribution to the recorded defects, each by an executable relaxation of the definition
		lin := func(drop bool, tol map[int]tolerance) bool {
			return porcupine.CheckOperationsTimeout(modelTol(cfg, drop, tol), history, 10*time.Second) == porcupine.Ok
		}
		uni := cfg.kind == sm.Unicast
		switch {
		case uni && lin(true, nil):
			class = "/explained-by-backlog-dropped-at-termination"
		case lin(false, tolerances(cfg, history, false)):
			class = "/next-racing-unsubscribe"
		case lin(false, tolerances(cfg, history, true)):
			class = "/terminal-racing-unsubscribe"
		case uni && lin(true, tolerances(cfg, history, true)):
			class = "/backlog-dropped-and-notification-racing-unsubscribe"
		}
	}
	res.Events += int64(len(history))
	res.Nontrivial = len(history) > clients
	res.Sig = sig
	res.Extra = map[string]int64{"history_ops": int64(len(history))}
	var desc []string
	for _, op := range history {
		in, out := op.Input.(opIn), op.Output.(opOut)
		desc = append(desc, fmt.Sprintf("c%d %s(v=%d,sub=%d)→%q/%d [%d,%d]", op.ClientId, in.Op, in.V, in.Sub, out.Trace, out.N, op.Call, op.Return))
	}
	res.Sample = map[string]any{"subject": cfg.String(), "clients": clients, "history": desc}
	switch result {
	case porcupine.Unknown:
		res.Verdict, res.Key = driver.Inconclusive, "linearizability-search-timeout"
	case porcupine.Illegal:
		res.Verdict, res.Key = driver.Violated, "C10/"+string(cfg.kind)+"/history-not-linearizable"+class
		res.Msg = fmt.Sprintf("%s: concurrent history of %d operations from %d clients is not linearizable w.r.t. the sequential definition", cfg, len(history), clients)
		res.Witness = desc
	}
	return res
}

// nextRacesUnsubscribe: some Next overlaps an Unsubscribe in real time (precondition of the
// known "value handed to a subscriber that is leaving is lost" defect of the unicast subject).
// runSpin: see the plan. Setup per round: Next(1); a first subscriber (id 0); then the two racing
// operations (a new subscriber has id 1 / 2); then the final reads and the observer count.
func runSpin(c driver.Case) driver.Result {
	cfg := config{sm.Kind(c.Get("subject")), c.Int("n")}
	pair := strings.Split(c.Get("pair"), "|")
	rounds := c.Int("rounds")
	res := driver.Result{Verdict: driver.Held}
	type job struct {
		subj    ro.Subject[int]
		recs    []*rec.Rec
		subs    []ro.Subscription
		ops     [2]porcupine.Operation
		nextSub [2]int
	}
	var cur atomic.Pointer[job]
	var gate, doneCnt atomic.Int64
	gate.Store(-1)
	var stop atomic.Bool
	var wg sync.WaitGroup
	for g := 0; g < 2; g++ {
		g := g
		wg.Add(1)
		go func() {
			defer wg.Done()
			for round := int64(0); round < int64(rounds); round++ {
				for i := 0; gate.Load() < round; i++ {
					if stop.Load() {
						return
					}
					if i%256 == 255 {
						runtime.Gosched()
					}
				}
				j := cur.Load()
				in := opIn{Op: pair[g]}
				t0 := rec.Mono()
				func() {
					defer func() { recover() }()
					switch pair[g] {
					case "S":
						in.Sub = j.nextSub[g]
						j.subs[in.Sub] = j.subj.Subscribe(rec.Raw[int](j.recs[in.Sub]))
					case "U":
						in.Sub = 0
						j.subs[0].Unsubscribe()
					case "N":
						in.V = 100 + g
						j.subj.Next(in.V)
					case "C":
						j.subj.Complete()
					case "E":
						in.V = 100 + g
						j.subj.Error(taggedErr(in.V))
					}
				}()
				j.ops[g] = porcupine.Operation{ClientId: 1 + g, Input: in, Output: opOut{}, Call: t0, Return: rec.Mono()}
				doneCnt.Add(1)
			}
		}()
	}
	defer func() { stop.Store(true); wg.Wait() }()
	watchdog := time.Now().Add(120 * time.Second)
	for round := 0; round < rounds; round++ {
		j := &job{subj: newSubject(cfg), recs: []*rec.Rec{rec.New("s0"), rec.New("s1"), rec.New("s2")}, subs: make([]ro.Subscription, 3), nextSub: [2]int{1, 2}}
		var history []porcupine.Operation
		seqOp := func(in opIn, f func()) {
			t0 := rec.Mono()
			f()
			history = append(history, porcupine.Operation{ClientId: 0, Input: in, Output: opOut{}, Call: t0, Return: rec.Mono()})
		}
		seqOp(opIn{Op: "N", V: 1}, func() { j.subj.Next(1) })
		seqOp(opIn{Op: "S", Sub: 0}, func() { j.subs[0] = j.subj.Subscribe(rec.Raw[int](j.recs[0])) })
		cur.Store(j)
		doneCnt.Store(0)
		gate.Store(int64(round))
		for i := 0; doneCnt.Load() < 2; i++ {
			if i%256 == 255 {
				runtime.Gosched()
				if time.Now().After(watchdog) {
					return driver.Result{Verdict: driver.Inconclusive, Key: "spin-rounds-not-finished", Dirty: true}
				}
			}
		}
		history = append(history, j.ops[0], j.ops[1])
		tEnd := rec.Mono() + 1
		for id, r := range j.recs {
			if id > 0 && j.subs[id] == nil {
				continue
			}
			history = append(history, porcupine.Operation{ClientId: 3, Input: opIn{Op: "R", Sub: id}, Output: opOut{Trace: strings.Join(renderTrace(r), " ")}, Call: tEnd, Return: tEnd + 1})
			tEnd += 2
			res.Events += int64(r.Len())
		}
		history = append(history, porcupine.Operation{ClientId: 3, Input: opIn{Op: "K"}, Output: opOut{N: j.subj.CountObservers()}, Call: tEnd, Return: tEnd + 1})
		if porcupine.CheckOperationsTimeout(model(cfg, false), history, 5*time.Second) == porcupine.Ok {
			for _, s := range j.subs {
				if s != nil {
					s.Unsubscribe()
				}
			}
			continue
		}
		r := judge(cfg, history, 3, fmt.Sprintf("spin/%s/%s", cfg, c.Get("pair")), driver.Result{Verdict: driver.Held, Events: res.Events})
		if r.Verdict != driver.Held {
			r.Msg = fmt.Sprintf("round %d of %s ∥ %s released by a spin barrier: %s", round, pair[0], pair[1], r.Msg)
			return r
		}
	}
	res.Nontrivial = true
	res.Sig = fmt.Sprintf("spin/%s/%s", cfg, c.Get("pair"))
	res.Extra = map[string]int64{"spin_rounds": int64(rounds)}
	res.Sample = map[string]any{"subject": cfg.String(), "racing_operations": c.Get("pair"), "rounds": rounds}
	return res
}

// runPark: two subscribers; a broadcast (Next, Complete or Error) is held after it has reached the
// first of them; that one and then the other unsubscribe; the broadcast goes on. The history - with
// the real call/return times - is judged like the random ones. Under the sequential definition the
// second subscriber was subscribed when the notification was published (the first one got it and
// unsubscribed before the second did), so it must have it too.
func runPark(c driver.Case) driver.Result {
	cfg := config{sm.Kind(c.Get("subject")), c.Int("n")}
	what := c.Get("what")
	res := driver.Result{Verdict: driver.Held}
	subj := newSubject(cfg)
	var history []porcupine.Operation
	op := func(client int, in opIn, f func()) {
		t0 := rec.Mono()
		f()
		history = append(history, porcupine.Operation{ClientId: client, Input: in, Output: opOut{}, Call: t0, Return: rec.Mono()})
	}
	recs := []*rec.Rec{rec.New("s0"), rec.New("s1")}
	subs := make([]ro.Subscription, 2)
	if cfg.kind == sm.Async {
		op(0, opIn{Op: "N", V: 5}, func() { subj.Next(5) })
	}
	for i := range recs {
		i := i
		op(0, opIn{Op: "S", Sub: i}, func() { subs[i] = subj.Subscribe(rec.Raw[int](recs[i])) })
	}
	point, in := "subscriber.next.enter", opIn{Op: "N", V: 7}
	publish := func() { subj.Next(7) }
	switch what {
	case "complete":
		point, in, publish = "subscriber.terminal.unlocked", opIn{Op: "C"}, func() { subj.Complete() }
	case "error":
		point, in, publish = "subscriber.terminal.unlocked", opIn{Op: "E", V: 7}, func() { subj.Error(taggedErr(7)) }
	}
	nth := 2 // Next: the second subscriber is about to be called
	if what != "next" {
		nth = 1 // terminal: the first subscriber has just been served
		if cfg.kind == sm.Async {
			point = "subscriber.terminal.unlocked"
		}
	}
	arrived, release := sched.Park(point, nth)
	defer sched.ClearParks()
	var pubOp porcupine.Operation
	done := make(chan struct{})
	go func() {
		defer close(done)
		t0 := rec.Mono()
		publish()
		pubOp = porcupine.Operation{ClientId: 1, Input: in, Output: opOut{}, Call: t0, Return: rec.Mono()}
	}()
	select {
	case <-arrived:
	case <-done:
		// the hook point was not reached (nothing broadcast): nothing to hold
	case <-time.After(10 * time.Second):
		return driver.Result{Verdict: driver.Inconclusive, Key: "park-not-reached", Dirty: true}
	}
	// who has been served? that one unsubscribes first
	first := 0
	if recs[1].Len() > recs[0].Len() {
		first = 1
	}
	op(2, opIn{Op: "U", Sub: first}, func() { subs[first].Unsubscribe() })
	op(2, opIn{Op: "U", Sub: 1 - first}, func() { subs[1-first].Unsubscribe() })
	release()
	<-done
	history = append(history, pubOp)
	tEnd := rec.Mono() + 1
	var events int64
	for id, r := range recs {
		events += int64(r.Len())
		history = append(history, porcupine.Operation{ClientId: 3, Input: opIn{Op: "R", Sub: id}, Output: opOut{Trace: strings.Join(renderTrace(r), " ")}, Call: tEnd, Return: tEnd + 1})
		tEnd += 2
	}
	res.Events = events
	return judge(cfg, history, 3, "park/"+cfg.String()+"/"+what, res)
}

func runCase(c driver.Case) driver.Result {
	rec.ResetHooks()
	if c.Get("kind") == "conc" {
		return runConc(c)
	}
	if c.Get("kind") == "park" {
		return runPark(c)
	}
	if c.Get("kind") == "spin" {
		return runSpin(c)
	}
	return runSeq(c)
}

func main() {
	driver.Main(driver.Property{
		ID:        "C10",
		Level:     "exploration",
		Rule:      "sequential: for each subject kind and buffer size (publish; behavior; replay 1,2,3; async; unicast 0,1,2,3,unlimited) EVERY sequence over {Next v, Error, Complete, Subscribe (new subscriber, ≤3), Unsubscribe 0..2} up to the bound is executed on a fresh subject; after each operation every subscriber's trace and CountObservers/HasObserver/IsClosed/HasThrown/IsCompleted are compared with the sequential definition. Concurrent: 2-4 clients run seeded short sequences (unique values, unique subscriber ids) against one subject with yields at the post-unlock hook points; the recorded history (call/return from one monotonic clock, plus a final read of every subscriber's trace) is checked for linearizability against the same definition with porcupine. Non-trivial: sequences executed / histories with more operations than clients; distinct = distinct operation plans.",
		Assume:    []string{"the sequential definition is DESIGN Appendix B (from the property statement and the subjects' doc comments)", "porcupine timeout (30 s) is inconclusive"},
		Plan:      plan,
		Run:       runCase,
		CaseWatch: 120 * time.Second,
		Setup: func() {
			rec.Install()
			sched.Install()
		},
		Exhaustive: func(tier string) string {
			if tier == "thorough" {
				return "all operation sequences of length 7 (every prefix checked) over 7 operations for 11 subject configurations"
			}
			return "all operation sequences of length 6 (every prefix checked) over 7 operations for 11 subject configurations"
		},
	})
}
