// C12 — pipelines are reusable recipes: subscriptions and operator values are independent.
package main

import (
	"context"
	"fmt"
	"math/rand"
	"strings"
	"sync"
	"sync/atomic"
	"time"

	"github.com/samber/ro"
	"verifharness/internal/catalog"
	"verifharness/internal/driver"
	"verifharness/internal/quiesce"
	"verifharness/internal/rec"
	"verifharness/internal/run"
	"verifharness/internal/sched"
	"verifharness/internal/src"
)

var scripts = []string{"1 2 0 2 C", "2 1 E", "0 1 2", "C", "1 1 2 2 0 C"}

func plan(tier string, seed int64) []driver.Case {
	nChains, conc := 200, []int{2, 4}
	if tier == "thorough" {
		nChains, conc = 4000, []int{2, 3, 4, 8}
	}
	rng := rand.New(rand.NewSource(seed))
	var cases []driver.Case
	for _, e := range catalog.All() {
		if e.Flags.Has(catalog.Hot) || e.Flags.Has(catalog.NonDet) {
			continue
		}
		scs := scripts
		if e.Flags.Has(catalog.Creation) {
			scs = []string{"-"}
		}
		for _, sc := range scs {
			if e.Flags.Has(catalog.Blocks) && !strings.ContainsAny(sc, "CE") {
				continue
			}
			cases = append(cases, driver.Case{ID: fmt.Sprintf("resub/%s/%s", e.Name, sc), P: map[string]string{"kind": "resub", "entry": e.Name, "script": sc}})
			for _, k := range conc {
				cases = append(cases, driver.Case{ID: fmt.Sprintf("concsub/%s/%s/k%d", e.Name, sc, k), Race: tier == "thorough", P: map[string]string{"kind": "concsub", "entry": e.Name, "script": sc, "k": fmt.Sprint(k), "concurrent": "1"}})
			}
			if e.Op != nil {
				for _, order := range []string{"AB", "BA", "ABA", "ABC"} {
					cases = append(cases, driver.Case{ID: fmt.Sprintf("opvalue/%s/%s/%s", e.Name, sc, order), P: map[string]string{"kind": "opvalue", "entry": e.Name, "script": sc, "order": order}})
				}
			}
		}
	}
	// many items through concurrent subscriptions of one pipeline value: state shared by mistake has
	// thousands of chances to be seen half-written (4 subscribers × 150 items each, on 4 goroutines)
	for _, e := range catalog.All() {
		if e.Flags.Has(catalog.Hot) || e.Flags.Has(catalog.NonDet) || e.Flags.Has(catalog.Creation) || e.Flags.Has(catalog.TimeDriven) || e.Flags.Has(catalog.HandOff) || e.Flags.Has(catalog.Async) {
			continue
		}
		// three rounds with different item lists: whether two subscribers are inside the operator at the same
		// moment is up to the scheduler, and one round of a half-shared scratch value is seen about every other time
		for round := 0; round < 3; round++ {
			var long []string
			for i := 0; i < 150; i++ {
				long = append(long, fmt.Sprint(rng.Intn(3)))
			}
			long = append(long, "C")
			id := fmt.Sprintf("concsub-long/%s", e.Name)
			if round > 0 {
				id = fmt.Sprintf("concsub-long/%s/r%d", e.Name, round)
			}
			cases = append(cases, driver.Case{ID: id, Race: tier == "thorough" && round == 0, P: map[string]string{"kind": "concsub", "entry": e.Name, "script": strings.Join(long, " "), "k": "4", "concurrent": "1"}})
		}
	}
	// curried multi-source operators (xxxWith(others...)): one operator value applied to several main sources
	for _, cu := range curriedOps {
		for _, sc := range []string{"1 2 0 2 C", "2 1 E", "C", "1 1 2 2 0 C"} {
			for _, order := range []string{"AB", "BA", "ABA", "ABC"} {
				cases = append(cases, driver.Case{ID: fmt.Sprintf("opvalue-curried/%s/%s/%s", cu.name, sc, order), P: map[string]string{"kind": "opvalue-curried", "op": cu.name, "script": sc, "order": order}})
			}
		}
	}
	// recipes whose choice is made per subscription: Defer(Iif(cond, a, b)) and Defer(factory) with a condition that
	// reads external state the harness changes between subscriptions - the n-th subscription of an old pipeline
	// value takes the branch a freshly built pipeline would take now
	for _, form := range []string{"Defer(Iif)", "Defer(factory)"} {
		for _, flags := range []string{"TF", "FT", "TTF", "FTFT", "TFFT"} {
			cases = append(cases, driver.Case{ID: fmt.Sprintf("lazy-choice/%s/%s", form, flags), P: map[string]string{"kind": "lazy-choice", "form": form, "flags": flags}})
		}
	}
	// operators configured with a RELATIVE duration: the duration counts from each item of each subscription,
	// not from the moment the operator value or the pipeline was built
	for _, op := range []string{"ContextWithTimeout"} {
		for _, order := range []string{"A", "AA", "AB", "ABA"} {
			cases = append(cases, driver.Case{ID: fmt.Sprintf("relative-duration/%s/%s", op, order), P: map[string]string{"kind": "relative-duration", "op": op, "order": order}})
		}
	}
	var usable []*catalog.Entry
	for _, e := range catalog.Chainable() {
		if !e.Flags.Has(catalog.Blocks) && !e.Flags.Has(catalog.NonDet) && !e.Flags.Has(catalog.Hot) {
			usable = append(usable, e)
		}
	}
	for i := 0; i < nChains; i++ {
		n := 2 + rng.Intn(4)
		names := make([]string, n)
		for j := range names {
			names[j] = usable[rng.Intn(len(usable))].Name
		}
		sc := scripts[rng.Intn(len(scripts))]
		kind := []string{"resub", "concsub"}[rng.Intn(2)]
		cases = append(cases, driver.Case{ID: fmt.Sprintf("%s-chain/%d/%s/%s", kind, i, strings.Join(names, ">"), sc), Race: tier == "thorough" && kind == "concsub",
			P: map[string]string{"kind": kind, "chain": strings.Join(names, ">"), "script": sc, "k": "4", "concurrent": fmt.Sprint(map[string]string{"resub": "", "concsub": "1"}[kind])}})
	}
	return cases
}

type built struct {
	name, fam string
	flags     catalog.Flags
	srcs      []*src.Source
	p         catalog.Pipeline
	e         *catalog.Entry
	chain     []*catalog.Entry
	b         *catalog.B
}

func resolve(c driver.Case) (*catalog.Entry, []*catalog.Entry, string, string) {
	if ch := c.Get("chain"); ch != "" {
		var chain []*catalog.Entry
		for _, n := range strings.Split(ch, ">") {
			chain = append(chain, catalog.Get(n))
		}
		return chain[0], chain[1:], ch, "chain"
	}
	e := catalog.Get(c.Get("entry"))
	return e, nil, e.Name, e.Family
}

func build(c driver.Case, mainScript src.Script) *built {
	e, chain, name, fam := resolve(c)
	bb := &built{name: name, fam: fam, flags: e.Flags, e: e, chain: chain, b: &catalog.B{}}
	for _, x := range chain {
		bb.flags |= x.Flags
	}
	for i := 0; i < e.NSrc; i++ {
		s := src.New(fmt.Sprintf("s%d", i), mainScript)
		bb.srcs = append(bb.srcs, s)
		bb.b.Srcs = append(bb.b.Srcs, s.Observable())
	}
	if e.Op != nil {
		o := e.Op(bb.b)(bb.b.S(0))
		for _, x := range chain {
			o = x.Op(bb.b)(o)
		}
		bb.p = catalog.P(o)
	} else {
		bb.p = e.Pipeline(bb.b)
	}
	scs := make([]src.Script, e.NSrc)
	for i := range scs {
		scs[i] = mainScript
	}
	setRefWant(e, chain, scs)
	return bb
}

// refWant: number of callbacks the catalogue's reference model predicts for the case being run (-1 unknown);
// lets reference runs of asynchronous entries return as soon as everything expected has arrived.
var refWant = -1

func setRefWant(e *catalog.Entry, chain []*catalog.Entry, scripts []src.Script) {
	refWant = -1
	if len(chain) > 0 || e.Model == nil {
		return
	}
	legal := make([]src.Script, len(scripts))
	for i, s := range scripts {
		legal[i] = s.Legal()
	}
	exp := e.Model(legal)
	refWant = len(exp.Vals)
	if exp.Term.K != rec.Next {
		refWant++
	}
	if refWant == 0 {
		refWant = -1
	}
}

func asyncish(f catalog.Flags) bool {
	return f.Has(catalog.Async) || f.Has(catalog.HandOff) || f.Has(catalog.TimeDriven)
}

// subscribeOnce subscribes r and waits for the outcome of asynchronous pipelines.
func subscribeOnce(p catalog.Pipeline, r *rec.Rec, flags catalog.Flags) (ro.Subscription, string) {
	return subscribeWant(p, r, flags, -2)
}

// subscribeWant: want = number of callbacks to wait for on asynchronous pipelines (-2: unknown, reference run).
func subscribeWant(p catalog.Pipeline, r *rec.Rec, flags catalog.Flags, want int) (ro.Subscription, string) {
	var sub ro.Subscription
	st, dump, pan := quiesce.Call(func() { sub = p.Subscribe(context.Background(), r, false) }, 10*time.Second)
	if st == quiesce.Hung {
		return nil, "hang:" + quiesce.BlockedSite(dump)
	}
	if st != quiesce.Returned {
		return nil, "timeout"
	}
	if pan != nil {
		return sub, fmt.Sprintf("panic:%v", pan)
	}
	if asyncish(flags) {
		if want == -2 {
			// reference run: wait for the terminal, or — none coming — for a quiescent process after a long floor
			run.WaitEvents(r, refWant, 3*time.Second, 10*time.Second)
		} else {
			run.WaitEvents(r, want, 3*time.Second, 10*time.Second)
		}
	}
	return sub, ""
}

func unsub(s ro.Subscription) {
	defer func() { recover() }()
	if s != nil {
		s.Unsubscribe()
	}
}

func runResub(c driver.Case) driver.Result {
	sc := src.Parse(c.Get("script"))
	res := driver.Result{Verdict: driver.Held}
	// reference: first subscription of a freshly built pipeline
	ref := build(c, sc)
	fail := func(key, msg string) driver.Result {
		res.Verdict, res.Key = driver.Violated, "C12/"+ref.fam+"/"+key
		res.Msg = fmt.Sprintf("%s over [%s]: %s", ref.name, sc, msg)
		return res
	}
	for _, s := range ref.srcs {
		if s.Subscribed.Load() != 0 {
			return fail("source-subscribed-at-construction", "building the pipeline subscribed source "+s.Name)
		}
	}
	rr := rec.New("fresh")
	rs, problem := subscribeOnce(ref.p, rr, ref.flags)
	if problem != "" {
		return driver.Result{Verdict: driver.Inconclusive, Key: "reference-run-" + strings.SplitN(problem, ":", 2)[0], Msg: ref.name + ": " + problem, Dirty: true}
	}
	want := rr.TraceString()
	perSub := make([]int64, len(ref.srcs))
	for i, s := range ref.srcs {
		perSub[i] = s.Subscribed.Load()
	}
	unsub(rs)
	// the pipeline value under test is subscribed three times in sequence
	pv := build(c, sc)
	var traces []string
	for n := 0; n < 3; n++ {
		r := rec.New(fmt.Sprintf("sub%d", n))
		before := make([]int64, len(pv.srcs))
		for i, s := range pv.srcs {
			before[i] = s.Subscribed.Load()
		}
		s, problem := subscribeWant(pv.p, r, pv.flags, max(rr.Len(), 1))
		if problem != "" {
			res.Dirty = true
			return fail("resubscription-"+strings.SplitN(problem, ":", 2)[0], fmt.Sprintf("subscription #%d: %s", n+1, problem))
		}
		got := r.TraceString()
		traces = append(traces, got)
		res.Events += int64(r.Len())
		if got != want {
			return fail("resubscription-differs-from-fresh-pipeline", fmt.Sprintf("subscription #%d of one pipeline value delivered [%s]; the first subscription of a freshly built pipeline delivers [%s]", n+1, got, want))
		}
		for i, src := range pv.srcs {
			if d := src.Subscribed.Load() - before[i]; d != perSub[i] {
				return fail("source-subscription-count-differs", fmt.Sprintf("subscription #%d subscribed source %d %d time(s), a fresh pipeline subscribes it %d time(s)", n+1, i, d, perSub[i]))
			}
		}
		unsub(s)
	}
	// lazily subscribed: at most once per subscription unless the operator re-subscribes by definition
	if !pv.flags.Has(catalog.Resub) && !pv.flags.Has(catalog.NoSrcOnZero) {
		for i, n := range perSub {
			if n > 1 {
				return fail("source-subscribed-more-than-once-per-subscription", fmt.Sprintf("one subscription of the pipeline subscribed source %d %d times", i, n))
			}
		}
	}
	res.Nontrivial = len(want) > 0
	res.Sig = pv.name + "|" + sc.String() + "→" + want
	res.Sample = map[string]any{"pipeline": pv.name, "script": sc.String(), "fresh_trace": want, "resubscription_traces": traces}
	return res
}

func runConcSub(c driver.Case) driver.Result {
	sc := src.Parse(c.Get("script"))
	k := c.Int("k")
	res := driver.Result{Verdict: driver.Held}
	ref := build(c, sc)
	rr := rec.New("fresh")
	rs, problem := subscribeOnce(ref.p, rr, ref.flags)
	if problem != "" {
		return driver.Result{Verdict: driver.Inconclusive, Key: "reference-run-" + strings.SplitN(problem, ":", 2)[0], Msg: ref.name + ": " + problem, Dirty: true}
	}
	want := rr.TraceString()
	unsub(rs)
	pv := build(c, sc)
	recs := make([]*rec.Rec, k)
	subs := make([]ro.Subscription, k)
	start := make(chan struct{})
	var wg sync.WaitGroup
	for g := 0; g < k; g++ {
		g := g
		recs[g] = rec.New(fmt.Sprintf("g%d", g))
		wg.Add(1)
		go func() {
			defer wg.Done()
			defer func() { recover() }()
			<-start
			subs[g] = pv.p.Subscribe(context.Background(), recs[g], false)
		}()
	}
	close(start)
	if st, dump, _ := quiesce.Call(wg.Wait, 15*time.Second); st != quiesce.Returned {
		res.Verdict, res.Key, res.Dirty = driver.Violated, "C12/"+pv.fam+"/concurrent-subscription-hang", true
		res.Msg = fmt.Sprintf("%s: %d concurrent subscriptions never return (%s)", pv.name, k, quiesce.BlockedSite(dump))
		return res
	}
	if asyncish(pv.flags) {
		for _, r := range recs {
			run.WaitEvents(r, max(rr.Len(), 1), 3*time.Second, 10*time.Second)
		}
	}
	var traces []string
	for g, r := range recs {
		res.Events += int64(r.Len())
		got := r.TraceString()
		traces = append(traces, got)
		if got != want {
			res.Verdict, res.Key = driver.Violated, "C12/"+pv.fam+"/concurrent-subscription-differs-from-fresh-pipeline"
			res.Msg = fmt.Sprintf("%s over [%s]: concurrent subscription %d of %d delivered [%s]; a fresh pipeline delivers [%s]", pv.name, sc, g, k, got, want)
			return res
		}
	}
	for _, s := range subs {
		unsub(s)
	}
	res.Nontrivial = len(want) > 0
	res.Sig = pv.name + "|" + sc.String() + "|" + fmt.Sprint(k) + "→" + want
	res.Sample = map[string]any{"pipeline": pv.name, "script": sc.String(), "concurrent_subscriptions": k, "fresh_trace": want}
	return res
}

// runOpValue applies ONE operator value to several sources before subscribing to any of the results.
// curried multi-source operators: mk builds ONE operator value from the other observables; the
// value is then applied to several main sources.
type curried struct {
	name string
	mk   func(x []ro.Observable[int]) func(ro.Observable[int]) catalog.Pipeline
}

func cp[T any](f func(ro.Observable[int]) ro.Observable[T]) func(ro.Observable[int]) catalog.Pipeline {
	return func(o ro.Observable[int]) catalog.Pipeline { return catalog.P(f(o)) }
}

// roomy copies x into a slice with spare capacity.
func roomy(x []ro.Observable[int]) []ro.Observable[int] {
	out := make([]ro.Observable[int], 0, len(x)+6)
	return append(out, x...)
}

var curriedOps = []curried{
	{"MergeWith", func(x []ro.Observable[int]) func(ro.Observable[int]) catalog.Pipeline {
		return cp(ro.MergeWith(x[0], x[1]))
	}},
	{"MergeWith1", func(x []ro.Observable[int]) func(ro.Observable[int]) catalog.Pipeline { return cp(ro.MergeWith1(x[0])) }},
	{"MergeWith2", func(x []ro.Observable[int]) func(ro.Observable[int]) catalog.Pipeline {
		return cp(ro.MergeWith2(x[0], x[1]))
	}},
	{"MergeWith3", func(x []ro.Observable[int]) func(ro.Observable[int]) catalog.Pipeline {
		return cp(ro.MergeWith3(x[0], x[1], x[0]))
	}},
	{"MergeWith4", func(x []ro.Observable[int]) func(ro.Observable[int]) catalog.Pipeline {
		return cp(ro.MergeWith4(x[0], x[1], x[0], x[1]))
	}},
	{"MergeWith5", func(x []ro.Observable[int]) func(ro.Observable[int]) catalog.Pipeline {
		return cp(ro.MergeWith5(x[0], x[1], x[0], x[1], x[0]))
	}},
	{"ConcatWith", func(x []ro.Observable[int]) func(ro.Observable[int]) catalog.Pipeline {
		return cp(ro.ConcatWith(x[0], x[1]))
	}},
	{"ConcatWith()", func(x []ro.Observable[int]) func(ro.Observable[int]) catalog.Pipeline {
		return cp(ro.ConcatWith[int]())
	}},
	{"RaceWith", func(x []ro.Observable[int]) func(ro.Observable[int]) catalog.Pipeline {
		return cp(ro.RaceWith(x[0], x[1]))
	}},
	// the variadic ones called with a spread slice that has spare capacity (a list grown with append):
	// the operator value must not write into the caller's backing array
	{"ConcatWith(spread)", func(x []ro.Observable[int]) func(ro.Observable[int]) catalog.Pipeline {
		return cp(ro.ConcatWith(roomy(x)...))
	}},
	{"MergeWith(spread)", func(x []ro.Observable[int]) func(ro.Observable[int]) catalog.Pipeline {
		return cp(ro.MergeWith(roomy(x)...))
	}},
	{"RaceWith(spread)", func(x []ro.Observable[int]) func(ro.Observable[int]) catalog.Pipeline {
		return cp(ro.RaceWith(roomy(x)...))
	}},
	{"OnErrorResumeNextWith(spread)", func(x []ro.Observable[int]) func(ro.Observable[int]) catalog.Pipeline {
		return cp(ro.OnErrorResumeNextWith(roomy(x)...))
	}},
	{"OnErrorResumeNextWith", func(x []ro.Observable[int]) func(ro.Observable[int]) catalog.Pipeline {
		return cp(ro.OnErrorResumeNextWith(x[0], x[1]))
	}},
	{"TakeUntil", func(x []ro.Observable[int]) func(ro.Observable[int]) catalog.Pipeline {
		return cp(ro.TakeUntil[int](x[0]))
	}},
	{"SkipUntil", func(x []ro.Observable[int]) func(ro.Observable[int]) catalog.Pipeline {
		return cp(ro.SkipUntil[int](x[0]))
	}},
	{"SampleWhen", func(x []ro.Observable[int]) func(ro.Observable[int]) catalog.Pipeline {
		return cp(ro.SampleWhen[int](x[0]))
	}},
	{"ThrottleWhen", func(x []ro.Observable[int]) func(ro.Observable[int]) catalog.Pipeline {
		return cp(ro.ThrottleWhen[int](x[0]))
	}},
	{"BufferWhen", func(x []ro.Observable[int]) func(ro.Observable[int]) catalog.Pipeline {
		return cp(ro.BufferWhen[int](x[0]))
	}},
	{"WindowWhen+MergeAll", func(x []ro.Observable[int]) func(ro.Observable[int]) catalog.Pipeline {
		return cp(func(o ro.Observable[int]) ro.Observable[int] { return ro.MergeAll[int]()(ro.WindowWhen[int](x[0])(o)) })
	}},
	{"SequenceEqual", func(x []ro.Observable[int]) func(ro.Observable[int]) catalog.Pipeline {
		return cp(ro.SequenceEqual(x[0]))
	}},
	{"CombineLatestWith", func(x []ro.Observable[int]) func(ro.Observable[int]) catalog.Pipeline {
		return cp(ro.CombineLatestWith[int](x[0]))
	}},
	{"CombineLatestWith1", func(x []ro.Observable[int]) func(ro.Observable[int]) catalog.Pipeline {
		return cp(ro.CombineLatestWith1[int](x[0]))
	}},
	{"CombineLatestWith2", func(x []ro.Observable[int]) func(ro.Observable[int]) catalog.Pipeline {
		return cp(ro.CombineLatestWith2[int](x[0], x[1]))
	}},
	{"CombineLatestWith3", func(x []ro.Observable[int]) func(ro.Observable[int]) catalog.Pipeline {
		return cp(ro.CombineLatestWith3[int](x[0], x[1], x[0]))
	}},
	{"CombineLatestWith4", func(x []ro.Observable[int]) func(ro.Observable[int]) catalog.Pipeline {
		return cp(ro.CombineLatestWith4[int](x[0], x[1], x[0], x[1]))
	}},
	{"ZipWith", func(x []ro.Observable[int]) func(ro.Observable[int]) catalog.Pipeline {
		return cp(ro.ZipWith[int](x[0]))
	}},
	{"ZipWith1", func(x []ro.Observable[int]) func(ro.Observable[int]) catalog.Pipeline {
		return cp(ro.ZipWith1[int](x[0]))
	}},
	{"ZipWith2", func(x []ro.Observable[int]) func(ro.Observable[int]) catalog.Pipeline {
		return cp(ro.ZipWith2[int](x[0], x[1]))
	}},
	{"ZipWith3", func(x []ro.Observable[int]) func(ro.Observable[int]) catalog.Pipeline {
		return cp(ro.ZipWith3[int](x[0], x[1], x[0]))
	}},
	{"ZipWith4", func(x []ro.Observable[int]) func(ro.Observable[int]) catalog.Pipeline {
		return cp(ro.ZipWith4[int](x[0], x[1], x[0], x[1]))
	}},
	{"ZipWith5", func(x []ro.Observable[int]) func(ro.Observable[int]) catalog.Pipeline {
		return cp(ro.ZipWith5[int](x[0], x[1], x[0], x[1], x[0]))
	}},
}

// runOpValueCurried: one xxxWith(others) value applied to main sources A, B (, C), all cold and
// synchronous; each resulting pipeline must behave like a fresh xxxWith(others) over that source,
// and must subscribe that source - not the one of another application.
func runOpValueCurried(c driver.Case) driver.Result {
	var cu *curried
	for i := range curriedOps {
		if curriedOps[i].name == c.Get("op") {
			cu = &curriedOps[i]
		}
	}
	order := c.Get("order")
	base := src.Parse(c.Get("script"))
	res := driver.Result{Verdict: driver.Held}
	mainScript := func(letter byte) src.Script {
		var out src.Script
		for _, n := range base {
			if n.K == rec.Next {
				out = append(out, src.Notif{K: rec.Next, V: n.V + 10*int(letter-'A'+1)})
			} else {
				out = append(out, n)
			}
		}
		if letter == 'B' && len(out) > 1 {
			out = out[1:]
		}
		return out
	}
	extras := func() []ro.Observable[int] {
		return []ro.Observable[int]{src.New("x0", src.Script{{K: rec.Next, V: 7}, {K: rec.Complete}}).Observable(), src.New("x1", src.Script{{K: rec.Next, V: 8}, {K: rec.Next, V: 9}, {K: rec.Complete}}).Observable()}
	}
	want := map[byte]string{}
	for _, letter := range []byte("ABC") {
		r := rec.New("ref")
		s, problem := subscribeOnce(cu.mk(extras())(src.New("m", mainScript(letter)).Observable()), r, 0)
		if problem != "" {
			return driver.Result{Verdict: driver.Inconclusive, Key: "reference-run-" + strings.SplitN(problem, ":", 2)[0], Msg: cu.name + ": " + problem, Dirty: true}
		}
		want[letter] = r.TraceString()
		unsub(s)
	}
	opValue := cu.mk(extras())
	type applied struct {
		letter byte
		p      catalog.Pipeline
		main   *src.Source
	}
	var apps []applied
	for i := 0; i < len(order); i++ {
		m := src.New(fmt.Sprintf("main%c%d", order[i], i), mainScript(order[i]))
		apps = append(apps, applied{order[i], opValue(m.Observable()), m})
	}
	for i, a := range apps {
		r := rec.New(fmt.Sprintf("app%d", i))
		s, problem := subscribeOnce(a.p, r, 0)
		if problem != "" {
			res.Verdict, res.Key, res.Dirty = driver.Violated, "C12/"+cu.name+"/operator-value-reuse-"+strings.SplitN(problem, ":", 2)[0], true
			res.Msg = fmt.Sprintf("%s: pipeline #%d (source %c) of one operator value applied in order %s: %s", cu.name, i, a.letter, order, problem)
			return res
		}
		res.Events += int64(r.Len())
		if got := r.TraceString(); got != want[a.letter] {
			res.Verdict, res.Key = driver.Violated, "C12/"+cu.name+"/operator-value-applications-influence-each-other"
			res.Msg = fmt.Sprintf("%s: one operator value applied to main sources %s; the pipeline over source %c (application #%d) delivered [%s], a fresh operator over that source delivers [%s]", cu.name, order, a.letter, i, got, want[a.letter])
			return res
		}
		unsub(s)
		for j, b := range apps {
			wantSubs := int64(0)
			if j <= i {
				wantSubs = 1
			}
			if n := b.main.Subscribed.Load(); n != wantSubs {
				res.Verdict, res.Key = driver.Violated, "C12/"+cu.name+"/operator-value-applications-influence-each-other"
				res.Msg = fmt.Sprintf("%s: one operator value applied to main sources %s; after subscribing the pipelines #0..#%d, the main source of application #%d has been subscribed %d time(s) (expected %d)", cu.name, order, i, j, n, wantSubs)
				return res
			}
		}
	}
	res.Nontrivial = true
	res.Sig = "curried/" + cu.name + "|" + c.Get("script") + "|" + order
	res.Sample = map[string]any{"operator": cu.name, "application_order": order, "fresh_traces": map[string]string{"A": want['A'], "B": want['B'], "C": want['C']}}
	return res
}

// runRelativeDuration: one ContextWithTimeout(d) value applied to the sources named by order (the same letter
// twice = the same pipeline subscribed again). The deadline an item travels with is d after a moment between
// the Subscribe call that produced it and its delivery - whenever the operator value was built. Clock readings
// are compared with each other only (the monotonic order build < subscribe <= item <= delivery), no waiting.
func runRelativeDuration(c driver.Case) driver.Result {
	res := driver.Result{Verdict: driver.Held}
	const d = time.Hour
	opValue := ro.ContextWithTimeout[int](d)
	built := time.Now()
	pipes := map[byte]ro.Observable[int]{}
	for i := 0; i < len(c.Get("order")); i++ {
		l := c.Get("order")[i]
		if pipes[l] == nil {
			pipes[l] = opValue(ro.Just(1, 2, 3))
		}
	}
	for i := 0; i < len(c.Get("order")); i++ {
		l := c.Get("order")[i]
		var problem string
		n := 0
		t0 := time.Now()
		sub := pipes[l].Subscribe(ro.NewObserverWithContext(func(ctx context.Context, v int) {
			t1 := time.Now()
			n++
			dl, ok := ctx.Deadline()
			switch {
			case problem != "":
			case !ok:
				problem = fmt.Sprintf("value %d travels without a deadline", v)
			case dl.Before(t0.Add(d)):
				problem = fmt.Sprintf("value %d of the subscription made %v after the operator value was built travels with a deadline %v before (Subscribe call + %v): the duration was not counted from the item", v, t0.Sub(built), t0.Add(d).Sub(dl), d)
			case dl.After(t1.Add(d)):
				problem = fmt.Sprintf("value %d travels with a deadline %v after (delivery + %v)", v, dl.Sub(t1.Add(d)), d)
			}
		}, func(context.Context, error) {}, func(context.Context) {}))
		unsub(sub)
		res.Events += int64(n)
		if problem == "" && n != 3 {
			problem = fmt.Sprintf("%d values delivered instead of 3", n)
		}
		if problem != "" {
			res.Verdict, res.Key = driver.Violated, "C12/"+c.Get("op")+"/relative-duration-counted-from-construction"
			res.Msg = fmt.Sprintf("%s(%v), one operator value, applications/subscriptions %s, subscription #%d: %s", c.Get("op"), d, c.Get("order"), i, problem)
			return res
		}
	}
	res.Nontrivial = true
	res.Sig = "relative-duration/" + c.Get("op") + "/" + c.Get("order")
	res.Sample = map[string]any{"operator": c.Get("op"), "order": c.Get("order"), "deadline_window": "Subscribe call + d <= deadline <= delivery + d"}
	return res
}

// runLazyChoice: see the plan. The sources are cold and deterministic; only the flag changes.
func runLazyChoice(c driver.Case) driver.Result {
	res := driver.Result{Verdict: driver.Held}
	var flag atomic.Bool
	build := func() (ro.Observable[int], *src.Source, *src.Source) {
		a := src.New("a", src.Script{{K: rec.Next, V: 1}, {K: rec.Next, V: 2}, {K: rec.Complete}})
		b := src.New("b", src.Script{{K: rec.Next, V: 7}, {K: rec.Complete}})
		if c.Get("form") == "Defer(Iif)" {
			return ro.Defer(ro.Iif(func() bool { return flag.Load() }, a.Observable(), b.Observable())), a, b
		}
		return ro.Defer(func() ro.Observable[int] {
			if flag.Load() {
				return a.Observable()
			}
			return b.Observable()
		}), a, b
	}
	flags := c.Get("flags")
	flag.Store(flags[0] == 'T')
	old, oa, ob := build()
	if oa.Subscribed.Load()+ob.Subscribed.Load() != 0 {
		res.Verdict, res.Key = driver.Violated, "C12/"+c.Get("form")+"/source-subscribed-at-construction"
		res.Msg = c.Get("form") + ": building the pipeline subscribed a source"
		return res
	}
	for i := 0; i < len(flags); i++ {
		flag.Store(flags[i] == 'T')
		fresh, _, _ := build()
		rf, ro_ := rec.New("fresh"), rec.New("old")
		s1, p1 := subscribeOnce(catalog.P(fresh), rf, 0)
		s2, p2 := subscribeOnce(catalog.P(old), ro_, 0)
		if p1 != "" || p2 != "" {
			return driver.Result{Verdict: driver.Inconclusive, Key: "subscribe-problem", Msg: p1 + p2, Dirty: true}
		}
		unsub(s1)
		unsub(s2)
		res.Events += int64(rf.Len() + ro_.Len())
		if rf.TraceString() != ro_.TraceString() {
			res.Verdict, res.Key = driver.Violated, "C12/"+c.Get("form")+"/resubscription-differs-from-fresh-pipeline"
			res.Msg = fmt.Sprintf("%s with a condition reading external state, states %s: subscription #%d of the pipeline built at the beginning delivered [%s], the first subscription of a pipeline built now delivers [%s]", c.Get("form"), flags, i+1, ro_.TraceString(), rf.TraceString())
			return res
		}
	}
	res.Nontrivial = true
	res.Sig = "lazy-choice/" + c.Get("form") + "/" + flags
	res.Sample = map[string]any{"recipe": c.Get("form"), "condition_states": flags}
	return res
}

func runOpValue(c driver.Case) driver.Result {
	e := catalog.Get(c.Get("entry"))
	order := c.Get("order")
	res := driver.Result{Verdict: driver.Held}
	base := src.Parse(c.Get("script"))
	// distinct main scripts per source letter
	variant := func(letter byte) src.Script {
		var out src.Script
		for _, n := range base {
			if n.K == rec.Next {
				out = append(out, src.Notif{K: rec.Next, V: (n.V + int(letter-'A')) % 3})
			} else {
				out = append(out, n)
			}
		}
		if letter == 'B' && len(out) > 1 {
			out = out[1:]
		}
		return out
	}
	mk := func(letter byte) (*catalog.B, *src.Source) {
		b := &catalog.B{}
		var main *src.Source
		for i := 0; i < e.NSrc; i++ {
			sc := base
			if i == 0 {
				sc = variant(letter)
			}
			s := src.New(fmt.Sprintf("%c%d", letter, i), sc)
			if i == 0 {
				main = s
			}
			b.Srcs = append(b.Srcs, s.Observable())
		}
		return b, main
	}
	// reference traces: a fresh operator value applied to each source alone
	want := map[byte]string{}
	for _, letter := range []byte("ABC") {
		b, _ := mk(letter)
		r := rec.New("ref")
		s, problem := subscribeOnce(catalog.P(e.Op(b)(b.S(0))), r, e.Flags)
		if problem != "" {
			return driver.Result{Verdict: driver.Inconclusive, Key: "reference-run-" + strings.SplitN(problem, ":", 2)[0], Msg: e.Name + ": " + problem, Dirty: true}
		}
		want[letter] = r.TraceString()
		unsub(s)
	}
	// one operator value (built with the extra sources of the first letter), applied in the given order
	b0, _ := mk(order[0])
	opValue := e.Op(b0)
	type applied struct {
		letter byte
		obs    ro.Observable[int]
		main   *src.Source
	}
	var apps []applied
	for i := 0; i < len(order); i++ {
		bl, main := mk(order[i])
		apps = append(apps, applied{order[i], opValue(bl.S(0)), main})
		if main.Subscribed.Load() != 0 {
			res.Verdict, res.Key = driver.Violated, "C12/"+e.Family+"/source-subscribed-at-construction"
			res.Msg = fmt.Sprintf("%s: applying the operator to source %c subscribed it", e.Name, order[i])
			return res
		}
	}
	for i, a := range apps {
		r := rec.New(fmt.Sprintf("app%d", i))
		wantN := len(strings.Fields(want[a.letter]))
		s, problem := subscribeWant(catalog.P(a.obs), r, e.Flags, max(wantN, 1))
		if problem != "" {
			res.Verdict, res.Key, res.Dirty = driver.Violated, "C12/"+e.Family+"/operator-value-reuse-"+strings.SplitN(problem, ":", 2)[0], true
			res.Msg = fmt.Sprintf("%s: pipeline #%d (source %c) of one operator value applied in order %s: %s", e.Name, i, a.letter, order, problem)
			return res
		}
		res.Events += int64(r.Len())
		if got := r.TraceString(); got != want[a.letter] {
			res.Verdict, res.Key = driver.Violated, "C12/"+e.Family+"/operator-value-applications-influence-each-other"
			res.Msg = fmt.Sprintf("%s: one operator value applied to sources %s (script base [%s]); the pipeline over source %c (application #%d) delivered [%s], a fresh operator over that source delivers [%s]", e.Name, order, base, a.letter, i, got, want[a.letter])
			return res
		}
		unsub(s)
	}
	res.Nontrivial = true
	res.Sig = e.Name + "|" + c.Get("script") + "|" + order
	res.Sample = map[string]any{"operator": e.Name, "application_order": order, "fresh_traces": map[string]string{"A": want['A'], "B": want['B'], "C": want['C']}}
	return res
}

func runCase(c driver.Case) driver.Result {
	rec.ResetHooks()
	switch c.Get("kind") {
	case "concsub":
		return runConcSub(c)
	case "opvalue":
		return runOpValue(c)
	case "opvalue-curried":
		return runOpValueCurried(c)
	case "relative-duration":
		return runRelativeDuration(c)
	case "lazy-choice":
		return runLazyChoice(c)
	}
	return runResub(c)
}

func main() {
	driver.Main(driver.Property{
		ID:        "C12",
		Level:     "exploration",
		Rule:      "pure differential, no model: for every cold catalogue entry (hot constructs and random-valued creators exempt) and random chains over deterministic cold sources — (1) building the pipeline subscribes no source; (2) three sequential subscriptions of ONE pipeline value each deliver the trace of the first subscription of a FRESHLY built pipeline and subscribe each source as often as a fresh one does (≤1 unless the operator re-subscribes by definition); (3) 2-8 concurrent subscriptions of one pipeline value each deliver that trace (under -race in thorough); (4) ONE operator value applied to sources A, B (, C) in orders AB, BA, ABA, ABC before any subscription: each resulting pipeline delivers what a fresh operator value over that source alone delivers. Non-trivial: the fresh trace is not empty. Also 29 curried multi-source operators (MergeWith*, ConcatWith, RaceWith, OnErrorResumeNextWith, TakeUntil, SkipUntil, SampleWhen, ThrottleWhen, BufferWhen, WindowWhen, SequenceEqual, CombineLatestWith*, ZipWith*): one operator value applied to main sources A,B(,C) in orders AB/BA/ABA/ABC; every pipeline equals a fresh operator over its own source and subscribes only that source.",
		Assume:    []string{"user callbacks of the catalogue keep no state outside Defer-built closures"},
		Plan:      plan,
		Run:       runCase,
		CaseWatch: 90 * time.Second,
		Setup: func() {
			rec.Install()
			sched.Install()
		},
	})
}
