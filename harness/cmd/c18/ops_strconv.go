package main

import (
	"fmt"
	"math"
	"math/rand"
	"strconv"

	"github.com/samber/ro"
	rostrconv "github.com/samber/ro/plugins/strconv"
)

type myStr string

var (
	parseBases = []int{0, 2, 8, 10, 16, 36, 1, 37, -1}
	parseBits  = []int{0, 8, 16, 32, 64, 65, -1}
	fmtBases   = []int{2, 3, 7, 8, 10, 16, 32, 35, 36}
	floatFmts  = []byte{'e', 'E', 'f', 'g', 'G', 'b', 'x', 'X', 'z'}
	floatPrecs = []int{-1, 0, 1, 5, 17, 40}
)

func compose[A, B, C any](f func(ro.Observable[A]) ro.Observable[B], g func(ro.Observable[B]) ro.Observable[C]) func(ro.Observable[A]) ro.Observable[C] {
	return func(s ro.Observable[A]) ro.Observable[C] { return ro.Pipe2(s, f, g) }
}

func floatBitsEq(a, b float64) bool {
	return math.Float64bits(a) == math.Float64bits(b) || (a != a && b != b)
}

func init() {
	reg("strconv.Atoi", func(t *T, rng *rand.Rand, boundary bool) {
		in := numStrings(rng, boundary, 10)
		mk(t, "strconv.Atoi", "", rostrconv.Atoi[string](), func(s string) (int, error) { return strconv.Atoi(s) }).run(in)
		var named []myStr
		for _, s := range in {
			named = append(named, myStr(s))
		}
		mk(t, "strconv.Atoi", "[named string type]", rostrconv.Atoi[myStr](), func(s myStr) (int, error) { return strconv.Atoi(string(s)) }).run(named)
	})
	reg("strconv.ParseInt", func(t *T, rng *rand.Rand, boundary bool) {
		for _, base := range parseBases {
			in := numStrings(rng, boundary, base)
			for _, bits := range parseBits {
				base, bits := base, bits
				mk(t, "strconv.ParseInt", fmt.Sprintf("(base %d, bitSize %d)", base, bits), rostrconv.ParseInt[string](base, bits),
					func(s string) (int64, error) { return strconv.ParseInt(s, base, bits) }).run(in)
			}
		}
	})
	reg("strconv.ParseUint", func(t *T, rng *rand.Rand, boundary bool) {
		for _, base := range parseBases {
			in := numStrings(rng, boundary, base)
			for _, bits := range parseBits {
				base, bits := base, bits
				mk(t, "strconv.ParseUint", fmt.Sprintf("(base %d, bitSize %d)", base, bits), rostrconv.ParseUint[string](base, bits),
					func(s string) (uint64, error) { return strconv.ParseUint(s, base, bits) }).run(in)
			}
		}
	})
	reg("strconv.ParseUint64", func(t *T, rng *rand.Rand, boundary bool) {
		for _, base := range parseBases {
			in := numStrings(rng, boundary, base)
			for _, bits := range parseBits {
				base, bits := base, bits
				mk(t, "strconv.ParseUint64", fmt.Sprintf("(base %d, bitSize %d)", base, bits), rostrconv.ParseUint64[string](base, bits),
					func(s string) (uint64, error) { return strconv.ParseUint(s, base, bits) }).run(in)
			}
		}
	})
	reg("strconv.ParseFloat", func(t *T, rng *rand.Rand, boundary bool) {
		in := append([]string{}, floatCorpus...)
		if !boundary {
			in = in[:0]
			for _, f := range floats(rng, false) {
				in = append(in, strconv.FormatFloat(f, floatFmts[rng.Intn(5)], []int{-1, 3, 20}[rng.Intn(3)], 64))
				if rng.Intn(4) == 0 {
					in = append(in, randNumStr(rng, 10)+"."+randNumStr(rng, 10))
				}
			}
		}
		for _, bits := range []int{64, 32, 0, 16, -1} {
			bits := bits
			mk(t, "strconv.ParseFloat", fmt.Sprintf("(bitSize %d)", bits), rostrconv.ParseFloat[string](bits),
				func(s string) (float64, error) { return strconv.ParseFloat(s, bits) }).withEq(floatBitsEq).run(in)
		}
	})
	reg("strconv.ParseBool", func(t *T, rng *rand.Rand, boundary bool) {
		in := append([]string{}, boolCorpus...)
		if !boundary {
			in = in[:0]
			for i := 0; i < 40; i++ {
				if rng.Intn(2) == 0 {
					in = append(in, boolCorpus[rng.Intn(len(boolCorpus))])
				} else {
					in = append(in, randText(rng))
				}
			}
		}
		mk(t, "strconv.ParseBool", "", rostrconv.ParseBool[string](), strconv.ParseBool).run(in)
	})
	reg("strconv.FormatBool", func(t *T, rng *rand.Rand, boundary bool) {
		in := []bool{true, false, true, true, false}
		mk(t, "strconv.FormatBool", "", rostrconv.FormatBool(), func(b bool) (string, error) { return strconv.FormatBool(b), nil }).run(in)
		mk(t, "strconv.FormatBool", "", rostrconv.FormatBool(), func(b bool) (string, error) { return strconv.FormatBool(b), nil }).run(nil)
		mk(t, "strconv.FormatBool+ParseBool", "", compose(rostrconv.FormatBool(), rostrconv.ParseBool[string]()),
			func(b bool) (bool, error) { return b, nil }).as("round-trip-not-identity", "the identity").run(in)
	})
	reg("strconv.FormatFloat", func(t *T, rng *rand.Rand, boundary bool) {
		in := floats(rng, boundary)
		for _, f := range floatFmts {
			for _, prec := range floatPrecs {
				for _, bits := range []int{64, 32} {
					f, prec, bits := f, prec, bits
					mk(t, "strconv.FormatFloat", fmt.Sprintf("(%q, prec %d, bitSize %d)", f, prec, bits), rostrconv.FormatFloat(f, prec, bits),
						func(v float64) (string, error) { return strconv.FormatFloat(v, f, prec, bits), nil }).run(in)
				}
			}
		}
		mk(t, "strconv.FormatFloat+ParseFloat", "('g', -1, 64)", compose(rostrconv.FormatFloat('g', -1, 64), rostrconv.ParseFloat[string](64)),
			func(v float64) (float64, error) { return v, nil }).withEq(floatBitsEq).as("round-trip-not-identity", "the identity").run(in)
		var f32 []float64
		for _, v := range in {
			f32 = append(f32, float64(float32(v)))
		}
		mk(t, "strconv.FormatFloat+ParseFloat", "('e', -1, 32)", compose(rostrconv.FormatFloat('e', -1, 32), rostrconv.ParseFloat[string](32)),
			func(v float64) (float64, error) { return v, nil }).withEq(floatBitsEq).as("round-trip-not-identity", "the identity").run(f32)
	})
	reg("strconv.FormatComplex", func(t *T, rng *rand.Rand, boundary bool) {
		fs := floats(rng, boundary)
		var in []complex128
		for i := range fs {
			in = append(in, complex(fs[i], fs[(i*7+3)%len(fs)]))
		}
		for _, f := range floatFmts {
			for _, prec := range []int{-1, 0, 3} {
				for _, bits := range []int{128, 64} {
					f, prec, bits := f, prec, bits
					mk(t, "strconv.FormatComplex", fmt.Sprintf("(%q, prec %d, bitSize %d)", f, prec, bits), rostrconv.FormatComplex(f, prec, bits),
						func(v complex128) (string, error) { return strconv.FormatComplex(v, f, prec, bits), nil }).run(in)
				}
			}
		}
	})
	reg("strconv.FormatInt", func(t *T, rng *rand.Rand, boundary bool) {
		in := int64s(rng, boundary)
		for base := 2; base <= 36; base++ {
			base := base
			mk(t, "strconv.FormatInt", fmt.Sprintf("(base %d)", base), rostrconv.FormatInt[string](base),
				func(v int64) (string, error) { return strconv.FormatInt(v, base), nil }).run(in)
			mk(t, "strconv.FormatInt+ParseInt", fmt.Sprintf("(base %d)", base), compose(rostrconv.FormatInt[string](base), rostrconv.ParseInt[string](base, 64)),
				func(v int64) (int64, error) { return v, nil }).as("round-trip-not-identity", "the identity").run(in)
		}
	})
	reg("strconv.FormatUint", func(t *T, rng *rand.Rand, boundary bool) {
		in := uint64s(rng, boundary)
		for base := 2; base <= 36; base++ {
			base := base
			mk(t, "strconv.FormatUint", fmt.Sprintf("(base %d)", base), rostrconv.FormatUint[string](base),
				func(v uint64) (string, error) { return strconv.FormatUint(v, base), nil }).run(in)
			mk(t, "strconv.FormatUint+ParseUint", fmt.Sprintf("(base %d)", base), compose(rostrconv.FormatUint[string](base), rostrconv.ParseUint[string](base, 64)),
				func(v uint64) (uint64, error) { return v, nil }).as("round-trip-not-identity", "the identity").run(in)
		}
	})
	reg("strconv.Itoa", func(t *T, rng *rand.Rand, boundary bool) {
		var in []int
		for _, v := range int64s(rng, boundary) {
			in = append(in, int(v))
		}
		mk(t, "strconv.Itoa", "", rostrconv.Itoa(), func(v int) (string, error) { return strconv.Itoa(v), nil }).run(in)
		mk(t, "strconv.Itoa+Atoi", "", compose(rostrconv.Itoa(), rostrconv.Atoi[string]()),
			func(v int) (int, error) { return v, nil }).as("round-trip-not-identity", "the identity").run(in)
	})
	reg("strconv.Quote", func(t *T, rng *rand.Rand, boundary bool) {
		in := texts(rng, boundary, 60)
		mk(t, "strconv.Quote", "", rostrconv.Quote(), func(s string) (string, error) { return strconv.Quote(s), nil }).run(in)
		mk(t, "strconv.Quote+Unquote", "", compose(rostrconv.Quote(), rostrconv.Unquote()),
			func(s string) (string, error) { return s, nil }).as("round-trip-not-identity", "the identity").run(in)
	})
	reg("strconv.QuoteRune", func(t *T, rng *rand.Rand, boundary bool) {
		mk(t, "strconv.QuoteRune", "", rostrconv.QuoteRune(), func(r rune) (string, error) { return strconv.QuoteRune(r), nil }).run(runes(rng, boundary))
	})
	reg("strconv.Unquote", func(t *T, rng *rand.Rand, boundary bool) {
		in := []string{`"abc"`, `'a'`, "`raw`", `"\n"`, `"\xff"`, `"é"`, `"\U0001F600"`, `"unterminated`, `abc`, "", `""`, "``", `''`, `'ab'`, `"a"b"`, `"\q"`, `"\'"`, `'\''`, `'\"'`,
			`"\400"`, `"\07"`, `"\x4"`, `"\ud800"`, "\"a\nb\"", "`a\nb`", "`a`b`", `"日本"`, `'日'`, "'\xff'", "\"\xff\"", `"`, `'`, "`", `"\`, `"\u12"`, ` "a"`, `"a" `}
		if !boundary {
			in = in[:0]
			for _, s := range texts(rng, false, 40) {
				switch rng.Intn(5) {
				case 0:
					in = append(in, strconv.Quote(s))
				case 1:
					in = append(in, strconv.QuoteToASCII(s))
				case 2:
					in = append(in, "`"+s+"`")
				case 3:
					q := strconv.Quote(s)
					in = append(in, q[:len(q)-rng.Intn(len(q))])
				default:
					in = append(in, s)
				}
			}
		}
		mk(t, "strconv.Unquote", "", rostrconv.Unquote(), strconv.Unquote).run(in)
	})
}
