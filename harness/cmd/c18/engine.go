package main

import (
	"context"
	"errors"
	"fmt"
	"reflect"
	"sort"
	"strconv"
	"strings"
	"sync"
	"sync/atomic"
	"time"

	"github.com/samber/ro"
	"verifharness/internal/driver"
	"verifharness/internal/rec"
)

// ---------------------------------------------------------------- per-case bookkeeping

// T collects the findings, counters and one sample of a case.
type T struct {
	c        driver.Case
	findings []driver.Finding
	seen     map[string]bool
	events   int64
	streams  int64
	items    int64
	sample   map[string]any
}

func newT(c driver.Case) *T { return &T{c: c, seen: map[string]bool{}} }

// fail records one violation; only the first message per key is kept in a case.
func (t *T) fail(op, class, msg string) {
	key := "C18/" + op + "/" + class
	if t.seen[key] {
		return
	}
	t.seen[key] = true
	t.findings = append(t.findings, driver.Finding{Key: key, Msg: op + ": " + msg})
}

func (t *T) setSample(m map[string]any) {
	if t.sample == nil {
		t.sample = m
	}
}

func (t *T) result() driver.Result {
	res := driver.Result{Verdict: driver.Held, Events: t.events, Nontrivial: t.events > 0,
		Sig:    t.c.Get("op") + "|" + t.c.Get("class"),
		Extra:  map[string]int64{"streams": t.streams, "items": t.items},
		Sample: t.sample}
	if len(t.findings) > 0 {
		res.Verdict = driver.Violated
		res.Key, res.Msg = t.findings[0].Key, t.findings[0].Msg
		res.More = t.findings[1:]
	}
	return res
}

func short(s string) string {
	if len(s) > 200 {
		return s[:150] + fmt.Sprintf("…(%d bytes in all)", len(s))
	}
	return s
}

// ---------------------------------------------------------------- instrumented source

var errSrc = errors.New("c18-source-error")

// probe counts subscriptions / teardowns of an instrumented source and checks the context it is handed.
type probe struct {
	subs, tears, ctxBad atomic.Int32
}

func instrumented[A any](items []A, end error) (*probe, ro.Observable[A]) {
	p := &probe{}
	return p, ro.NewObservableWithContext(func(ctx context.Context, d ro.Observer[A]) ro.Teardown {
		p.subs.Add(1)
		if ctx == nil || ctx.Value(rec.SubKey) != "sub" {
			p.ctxBad.Add(1)
		}
		for _, it := range items {
			d.NextWithContext(ctx, it)
		}
		if end != nil {
			d.ErrorWithContext(ctx, end)
		} else {
			d.CompleteWithContext(ctx)
		}
		return func() { p.tears.Add(1) }
	})
}

// subscribeRec builds the pipeline and subscribes the recorder, both under recover.
func subscribeRec[B any](build func() ro.Observable[B], r *rec.Rec, capture func(B) string) (panicked any) {
	defer func() {
		if e := recover(); e != nil {
			panicked = e
		}
	}()
	ctx := context.WithValue(context.Background(), rec.SubKey, "sub")
	sub := build().SubscribeWithContext(ctx, rec.RawWith[B](r, capture))
	sub.Unsubscribe()
	return nil
}

// core checks the contract every plugin pipeline has to keep: grammar, context, release of the source.
func (t *T) core(op, what string, r *rec.Rec, probes ...*probe) {
	ev := r.Events()
	t.events += int64(len(ev))
	t.streams++
	if gp := r.GrammarProblems(); len(gp) > 0 {
		t.fail(op, "delivery-after-terminal", what+": "+strings.Join(gp, "; ")+"; trace ["+short(r.TraceString())+"]")
	}
	if r.Terminal() == rec.Next {
		t.fail(op, "no-terminal", what+": the (synchronous) source ended but the subscriber received neither Error nor Complete; trace ["+short(r.TraceString())+"]")
	}
	for i, e := range ev {
		if e.CtxNil {
			t.fail(op, "nil-context", fmt.Sprintf("%s: callback #%d (%s) received a nil context", what, i, short(e.String())))
		} else if e.Sub != "sub" {
			t.fail(op, "subscription-context-lost", fmt.Sprintf("%s: callback #%d (%s) does not see the value attached to the subscription context", what, i, short(e.String())))
		}
	}
	for _, p := range probes {
		if n := p.subs.Load(); n != 1 {
			t.fail(op, "source-subscription-count", fmt.Sprintf("%s: the source was subscribed %d times by one Subscribe", what, n))
		}
		if n := p.tears.Load(); n != 1 {
			t.fail(op, "source-not-released", fmt.Sprintf("%s: the source's teardown ran %d times after the stream had ended", what, n))
		}
		if p.ctxBad.Load() != 0 {
			t.fail(op, "context-not-passed-upstream", what+": the source was subscribed with a context that lacks the subscription value")
		}
	}
}

// ---------------------------------------------------------------- deep rendering / copying

var timeType = reflect.TypeOf(time.Time{})

// deep renders the value within len; deepCap also renders the spare capacity of every slice.
func deep(v any) string {
	var sb strings.Builder
	deepW(&sb, reflect.ValueOf(v), false, 0)
	return sb.String()
}

func deepCap(v any) string {
	var sb strings.Builder
	deepW(&sb, reflect.ValueOf(v), true, 0)
	return sb.String()
}

func renderTime(tm time.Time) string {
	return "time(" + tm.Format("2006-01-02T15:04:05.999999999 -07:00:00 MST") + " y" + strconv.Itoa(tm.Year()) + " loc=" + tm.Location().String() + ")"
}

func deepW(sb *strings.Builder, v reflect.Value, withCap bool, depth int) {
	if depth > 60 {
		sb.WriteString("<depth>")
		return
	}
	if !v.IsValid() {
		sb.WriteString("<nil>")
		return
	}
	switch v.Kind() {
	case reflect.Bool:
		sb.WriteString(strconv.FormatBool(v.Bool()))
	case reflect.Int, reflect.Int8, reflect.Int16, reflect.Int32, reflect.Int64:
		sb.WriteString(strconv.FormatInt(v.Int(), 10))
	case reflect.Uint, reflect.Uint8, reflect.Uint16, reflect.Uint32, reflect.Uint64, reflect.Uintptr:
		sb.WriteString(strconv.FormatUint(v.Uint(), 10))
	case reflect.Float32, reflect.Float64:
		f := v.Float()
		sb.WriteString(strconv.FormatFloat(f, 'g', -1, 64))
	case reflect.Complex64, reflect.Complex128:
		sb.WriteString(strconv.FormatComplex(v.Complex(), 'g', -1, 128))
	case reflect.String:
		sb.WriteString(strconv.Quote(v.String()))
	case reflect.Slice:
		if v.IsNil() {
			sb.WriteString("nil")
			return
		}
		if v.Type().Elem().Kind() == reflect.Uint8 {
			sb.WriteString("b")
			sb.WriteString(strconv.Quote(string(v.Bytes())))
			if withCap && v.Cap() > v.Len() {
				sb.WriteString("+spare")
				sb.WriteString(strconv.Quote(string(v.Slice(0, v.Cap()).Bytes()[v.Len():])))
			}
			return
		}
		sb.WriteByte('[')
		n := v.Len()
		full := v
		if withCap && v.Cap() > n {
			full = v.Slice(0, v.Cap())
		}
		for i := 0; i < full.Len(); i++ {
			if i == n {
				sb.WriteString(" |spare: ")
			} else if i > 0 {
				sb.WriteByte(' ')
			}
			deepW(sb, full.Index(i), withCap, depth+1)
		}
		sb.WriteByte(']')
	case reflect.Array:
		sb.WriteByte('[')
		for i := 0; i < v.Len(); i++ {
			if i > 0 {
				sb.WriteByte(' ')
			}
			deepW(sb, v.Index(i), withCap, depth+1)
		}
		sb.WriteByte(']')
	case reflect.Map:
		if v.IsNil() {
			sb.WriteString("nilmap")
			return
		}
		type kv struct{ k, v string }
		var kvs []kv
		it := v.MapRange()
		for it.Next() {
			var kb, vb strings.Builder
			deepW(&kb, it.Key(), withCap, depth+1)
			deepW(&vb, it.Value(), withCap, depth+1)
			kvs = append(kvs, kv{kb.String(), vb.String()})
		}
		sort.Slice(kvs, func(i, j int) bool { return kvs[i].k < kvs[j].k })
		sb.WriteString("map{")
		for i, e := range kvs {
			if i > 0 {
				sb.WriteByte(' ')
			}
			sb.WriteString(e.k + ":" + e.v)
		}
		sb.WriteByte('}')
	case reflect.Ptr:
		if v.IsNil() {
			sb.WriteString("nilptr")
			return
		}
		sb.WriteByte('&')
		deepW(sb, v.Elem(), withCap, depth+1)
	case reflect.Interface:
		if v.IsNil() {
			sb.WriteString("<nil>")
			return
		}
		sb.WriteString("(" + v.Elem().Type().String() + ")")
		deepW(sb, v.Elem(), withCap, depth+1)
	case reflect.Struct:
		if v.Type() == timeType {
			if v.CanInterface() {
				sb.WriteString(renderTime(v.Interface().(time.Time)))
			} else {
				sb.WriteString("time(?)")
			}
			return
		}
		sb.WriteByte('{')
		for i := 0; i < v.NumField(); i++ {
			if i > 0 {
				sb.WriteByte(' ')
			}
			sb.WriteString(v.Type().Field(i).Name + ":")
			deepW(sb, v.Field(i), withCap, depth+1)
		}
		sb.WriteByte('}')
	default:
		sb.WriteString("<" + v.Kind().String() + ">")
	}
}

func deepCopyV(v reflect.Value, depth int) reflect.Value {
	if depth > 60 {
		return v
	}
	switch v.Kind() {
	case reflect.Slice:
		if v.IsNil() {
			return reflect.Zero(v.Type())
		}
		out := reflect.MakeSlice(v.Type(), v.Cap(), v.Cap())
		full := v.Slice(0, v.Cap())
		for i := 0; i < full.Len(); i++ {
			out.Index(i).Set(deepCopyV(full.Index(i), depth+1))
		}
		return out.Slice(0, v.Len())
	case reflect.Array:
		out := reflect.New(v.Type()).Elem()
		for i := 0; i < v.Len(); i++ {
			out.Index(i).Set(deepCopyV(v.Index(i), depth+1))
		}
		return out
	case reflect.Map:
		if v.IsNil() {
			return reflect.Zero(v.Type())
		}
		out := reflect.MakeMapWithSize(v.Type(), v.Len())
		it := v.MapRange()
		for it.Next() {
			out.SetMapIndex(deepCopyV(it.Key(), depth+1), deepCopyV(it.Value(), depth+1))
		}
		return out
	case reflect.Ptr:
		if v.IsNil() {
			return reflect.Zero(v.Type())
		}
		out := reflect.New(v.Type().Elem())
		out.Elem().Set(deepCopyV(v.Elem(), depth+1))
		return out
	case reflect.Interface:
		if v.IsNil() {
			return reflect.Zero(v.Type())
		}
		out := reflect.New(v.Type()).Elem()
		out.Set(deepCopyV(v.Elem(), depth+1))
		return out
	case reflect.Struct:
		if v.Type() == timeType {
			return v
		}
		out := reflect.New(v.Type()).Elem()
		out.Set(v)
		for i := 0; i < v.NumField(); i++ {
			if out.Field(i).CanSet() {
				out.Field(i).Set(deepCopyV(v.Field(i), depth+1))
			}
		}
		return out
	}
	return v
}

// cp is a deep copy that preserves the spare capacity (and its content) of slices.
func cp[A any](a A) A {
	var out A
	src := reflect.ValueOf(&a).Elem()
	c := deepCopyV(src, 0)
	if c.IsValid() {
		reflect.ValueOf(&out).Elem().Set(c)
	}
	return out
}

// ---------------------------------------------------------------- the lift runner

var (
	errSkip         = errors.New("c18: the wrapped predicate drops this item")
	errOraclePanics = errors.New("c18: the wrapped function panics on this input (outside the statement)")
)

const streamWindow = 16

// lift describes one plugin operator together with the wrapped function it has to agree with.
type lift[A, B any] struct {
	t        *T
	op       string // plugin.Operator
	param    string // rendering of the parameters
	class    string // anomaly class of a value mismatch
	ref      string // what the oracle is, for messages
	apply    func(ro.Observable[A]) ro.Observable[B]
	oracle   func(A) (B, error)
	eq       func(got, want B) bool
	errOK    func(got, want error) bool
	verify   func(in A, got B) string // replaces the comparison with the oracle's value when set
	noErrEnd bool                     // skip the extra stream that ends with a source error
	classOf  func(in A) string        // when set: anomaly class of a value mismatch for this input
}

func mk[A, B any](t *T, op, param string, apply func(ro.Observable[A]) ro.Observable[B], oracle func(A) (B, error)) *lift[A, B] {
	return &lift[A, B]{t: t, op: op, param: param, class: "differs-from-wrapped-function", ref: "the wrapped function", apply: apply, oracle: oracle}
}

func (l *lift[A, B]) as(class, ref string) *lift[A, B]             { l.class, l.ref = class, ref; return l }
func (l *lift[A, B]) withEq(eq func(got, want B) bool) *lift[A, B] { l.eq = eq; return l }
func (l *lift[A, B]) classBy(f func(in A) string) *lift[A, B]      { l.classOf = f; return l }

// cls is the anomaly class of a value mismatch on this input: the findings file separates, e.g.,
// a disagreement on valid text from one that needs bytes which are not UTF-8.
func (l *lift[A, B]) cls(in A) string {
	if l.classOf != nil {
		return l.classOf(in)
	}
	return l.class
}

func (l *lift[A, B]) equal(got, want B) bool {
	if l.eq != nil {
		return l.eq(got, want)
	}
	return deep(got) == deep(want)
}

func errAgrees(got, want error) bool {
	if got == nil {
		return false
	}
	return errors.Is(got, want) || strings.Contains(got.Error(), want.Error())
}

func (l *lift[A, B]) run(inputs []A) {
	// the wrapped function is applied to private copies before the operator sees anything
	var ins []A
	var want []B
	var werr []error
	for i := range inputs {
		c := cp(inputs[i])
		var w B
		var e error
		func() {
			defer func() {
				if x := recover(); x != nil {
					e = errOraclePanics
				}
			}()
			w, e = l.oracle(c)
		}()
		if e == errOraclePanics {
			continue
		}
		ins, want, werr = append(ins, inputs[i]), append(want, w), append(werr, e)
	}
	l.t.items += int64(len(ins))
	// streams of at most streamWindow items; a stream ended by an Error is followed by a fresh
	// subscription that starts behind the failing item, so every item is exercised
	idx, first := 0, true
	for first || idx < len(ins) {
		first = false
		to := idx + streamWindow
		if to > len(ins) {
			to = len(ins)
		}
		idx = l.stream(ins[:to], want[:to], werr[:to], idx, nil)
	}
	if !l.noErrEnd {
		k := len(ins)
		if k > 3 {
			k = 3
		}
		l.stream(ins[:k], want[:k], werr[:k], 0, errSrc)
	}
	l.concurrent(ins, want, werr)
}

// concurrent: ONE operator value, four goroutines subscribing pipelines built from it at the same moment,
// each over its own copy of the inputs the reference accepts: every subscriber gets the reference's values.
func (l *lift[A, B]) concurrent(ins []A, want []B, werr []error) {
	var idx []int
	for j := range ins {
		if werr[j] == nil && len(idx) < 120 {
			idx = append(idx, j)
		}
	}
	if len(idx) < 2 {
		return
	}
	const k = 4
	type out struct {
		vals []B
		err  error
		pan  any
	}
	outs := make([]out, k)
	start := make(chan struct{})
	var wg sync.WaitGroup
	for g := 0; g < k; g++ {
		g := g
		items := make([]A, len(idx))
		for i, j := range idx {
			items[i] = cp(ins[j])
		}
		wg.Add(1)
		go func() {
			defer wg.Done()
			defer func() { outs[g].pan = recover() }()
			<-start
			outs[g].vals, outs[g].err = ro.Collect(l.apply(ro.Just(items...)))
		}()
	}
	// what the operator delivers for these inputs when nobody else is subscribed (whether THAT agrees with
	// the reference is the business of the streams above)
	var alone []B
	{
		items := make([]A, len(idx))
		for i, j := range idx {
			items[i] = cp(ins[j])
		}
		var err error
		func() {
			defer func() { recover() }()
			alone, err = ro.Collect(l.apply(ro.Just(items...)))
		}()
		if err != nil || len(alone) != len(idx) {
			return
		}
	}
	close(start)
	wg.Wait()
	what := l.op + l.param
	for g, o := range outs {
		l.t.events += int64(len(o.vals))
		switch {
		case o.pan != nil:
			l.t.fail(l.op, "concurrent-subscriptions-disturb-each-other", fmt.Sprintf("%s: one operator value subscribed by %d goroutines at once: subscriber %d panicked with %v", what, k, g, o.pan))
			return
		case o.err != nil:
			l.t.fail(l.op, "concurrent-subscriptions-disturb-each-other", fmt.Sprintf("%s: one operator value subscribed by %d goroutines at once over inputs %s accepts: subscriber %d ended with Error(%s)", what, k, l.ref, g, short(o.err.Error())))
			return
		case len(o.vals) != len(idx):
			l.t.fail(l.op, "concurrent-subscriptions-disturb-each-other", fmt.Sprintf("%s: one operator value subscribed by %d goroutines at once: subscriber %d got %d values for %d inputs", what, k, g, len(o.vals), len(idx)))
			return
		}
		for i, j := range idx {
			msg := ""
			if l.verify != nil {
				msg = l.verify(ins[j], o.vals[i])
			} else if !l.equal(o.vals[i], alone[i]) {
				msg = "subscribed alone, the same operator value delivers " + short(deep(alone[i]))
			}
			if msg != "" {
				l.t.fail(l.op, "concurrent-subscriptions-disturb-each-other", fmt.Sprintf("%s: one operator value subscribed by %d goroutines at once: subscriber %d got %s for input %s: %s", what, k, g, short(deep(o.vals[i])), short(deepCap(ins[j])), msg))
				return
			}
		}
	}
}

func (l *lift[A, B]) stream(inputs []A, want []B, werr []error, from int, end error) int {
	t := l.t
	what := l.op + l.param
	items := make([]A, len(inputs)-from)
	snaps := make([]string, len(items))
	for i := range items {
		items[i] = cp(inputs[from+i])
		snaps[i] = deepCap(items[i])
	}
	p, obs := instrumented(items, end)
	r := rec.New(l.op)
	var got []B
	var gotSnap []string
	pan := subscribeRec(func() ro.Observable[B] { return l.apply(obs) }, r, func(v B) string {
		s := deep(v)
		got, gotSnap = append(got, v), append(gotSnap, s)
		return s
	})
	// expectation
	var expIdx []int
	stop := -1
	for j := from; j < len(inputs); j++ {
		if werr[j] == errSkip {
			continue
		}
		if werr[j] != nil {
			stop = j
			break
		}
		expIdx = append(expIdx, j)
	}
	next := len(inputs)
	if stop >= 0 {
		next = stop + 1
	}
	in := func(j int) string { return short(deepCap(inputs[j])) }
	if pan != nil {
		culprit := ""
		if stop >= 0 {
			culprit = " (first input on which " + l.ref + " reports an error: " + in(stop) + ")"
		}
		t.fail(l.op, "panic-escaped-subscribe", fmt.Sprintf("%s: Subscribe panicked with %v%s", what, pan, culprit))
		t.events += int64(r.Len())
		return next
	}
	ev := r.Events()
	k, gi := 0, 0
	var term *rec.Event
	bad := false
	for i := range ev {
		e := &ev[i]
		if e.Kind != rec.Next {
			if term == nil {
				term = e
			}
			continue
		}
		g := gi
		gi++
		if e.Late || bad {
			continue
		}
		if k >= len(expIdx) {
			bad = true
			if stop >= 0 {
				t.fail(l.op, l.class, fmt.Sprintf("%s: emitted the value %s although %s reports the error %q for input %s", what, short(gotSnap[g]), l.ref, werr[stop], in(stop)))
			} else {
				t.fail(l.op, l.class, fmt.Sprintf("%s: emitted one value more (%s) than the %d expected; trace [%s]", what, short(gotSnap[g]), len(expIdx), short(r.TraceString())))
			}
			continue
		}
		j := expIdx[k]
		k++
		if l.verify != nil {
			if msg := l.verify(inputs[j], got[g]); msg != "" {
				bad = true
				t.fail(l.op, l.class, fmt.Sprintf("%s: for input %s emitted %s: %s", what, in(j), short(gotSnap[g]), msg))
			}
		} else if !l.equal(got[g], want[j]) {
			bad = true
			t.fail(l.op, l.cls(inputs[j]), fmt.Sprintf("%s: for input %s emitted %s, %s gives %s", what, in(j), short(gotSnap[g]), l.ref, short(deep(want[j]))))
		}
		t.setSample(map[string]any{"operator": what, "input": in(j), "emitted": short(gotSnap[g]), "reference": l.ref})
	}
	if !bad && term != nil {
		switch {
		case k < len(expIdx):
			j := expIdx[k]
			if term.Kind == rec.Error && l.verify != nil {
				t.fail(l.op, "error-instead-of-value", fmt.Sprintf("%s: for input %s the stream ended with Error(%s) where %s is a value", what, in(j), short(term.ErrS), l.ref))
			} else if term.Kind == rec.Error {
				t.fail(l.op, l.cls(inputs[j]), fmt.Sprintf("%s: for input %s the stream ended with Error(%s), %s gives the value %s", what, in(j), short(term.ErrS), l.ref, short(deep(want[j]))))
			} else {
				t.fail(l.op, l.cls(inputs[j]), fmt.Sprintf("%s: completed after %d values, nothing was emitted for input %s (%s gives %s)", what, k, in(j), l.ref, short(deep(want[j]))))
			}
		case stop >= 0:
			if term.Kind == rec.Complete {
				t.fail(l.op, l.class, fmt.Sprintf("%s: the stream completed although %s reports the error %q for input %s", what, l.ref, werr[stop], in(stop)))
			} else {
				ok := errAgrees(term.Err, werr[stop])
				if l.errOK != nil {
					ok = l.errOK(term.Err, werr[stop])
				}
				if !ok {
					t.fail(l.op, "error-differs-from-wrapped-function", fmt.Sprintf("%s: for input %s the stream ended with Error(%s), %s reports %q", what, in(stop), short(term.ErrS), l.ref, werr[stop]))
				}
				t.setSample(map[string]any{"operator": what, "input": in(stop), "emitted": "Error(" + short(term.ErrS) + ")", "reference": l.ref})
			}
		case end != nil:
			if term.Kind != rec.Error || !errAgrees(term.Err, end) {
				t.fail(l.op, "source-error-not-forwarded", fmt.Sprintf("%s: the source ended with %q, the subscriber received [%s]", what, end, short(r.TraceString())))
			}
		default:
			if term.Kind == rec.Error {
				t.fail(l.op, l.class, fmt.Sprintf("%s: the stream ended with Error(%s) although %s accepts every input and the source completed; trace [%s]", what, short(term.ErrS), l.ref, short(r.TraceString())))
			}
		}
	}
	t.core(l.op, what, r, p)
	for i := range items {
		if now := deepCap(items[i]); now != snaps[i] {
			t.fail(l.op, "input-modified", fmt.Sprintf("%s: the input %s reads %s after the run", what, short(snaps[i]), short(now)))
			break
		}
	}
	for i := range got {
		if now := deep(got[i]); now != gotSnap[i] {
			t.fail(l.op, "delivered-value-modified-later", fmt.Sprintf("%s: value #%d was delivered as %s and reads %s at the end of the run", what, i, short(gotSnap[i]), short(now)))
			break
		}
	}
	return next
}

// viaPlugin runs one value through an operator with the library's own Collect (used for the
// sibling flavour of a text helper and for round trips).
func viaPlugin[A, B any](op func(ro.Observable[A]) ro.Observable[B], a A) (B, error) {
	vals, err := ro.Collect(op(ro.Just(a)))
	var z B
	if err != nil {
		return z, err
	}
	if len(vals) != 1 {
		return z, fmt.Errorf("c18: sibling emitted %d values", len(vals))
	}
	return vals[0], nil
}
