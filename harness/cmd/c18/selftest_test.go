package main

import (
	"context"
	"strconv"
	"strings"
	"testing"

	"github.com/samber/ro"
	"verifharness/internal/driver"
)

// The monitors must fire on deliberately broken operators (and stay silent on a faithful one).
func keysOf(t *T) string {
	var ks []string
	for _, f := range t.findings {
		ks = append(ks, f.Key)
	}
	return strings.Join(ks, " ")
}

func TestMonitorsFire(t *testing.T) {
	atoi := func(s string) (int, error) { return strconv.Atoi(s) }
	in := []string{"1", "0x10", "x", "7", "", "9"}
	cases := []struct {
		name string
		op   func(ro.Observable[string]) ro.Observable[int]
		want string
	}{
		{"faithful", ro.MapErr(atoi), ""},
		{"base0", ro.MapErr(func(s string) (int, error) { n, err := strconv.ParseInt(s, 0, 0); return int(n), err }), "differs-from-wrapped-function"},
		{"swallows-error", ro.Map(func(s string) int { n, _ := strconv.Atoi(s); return n }), "differs-from-wrapped-function"},
		{"other-error", ro.MapErr(func(s string) (int, error) {
			n, err := strconv.Atoi(s)
			if err != nil {
				return 0, context.Canceled
			}
			return n, nil
		}), "error-differs-from-wrapped-function"},
		{"drops-context", func(src ro.Observable[string]) ro.Observable[int] {
			return ro.NewObservableWithContext(func(ctx context.Context, d ro.Observer[int]) ro.Teardown {
				sub := src.SubscribeWithContext(ctx, ro.NewObserverWithContext(
					func(_ context.Context, s string) {
						if n, err := strconv.Atoi(s); err != nil {
							d.ErrorWithContext(context.Background(), err)
						} else {
							d.NextWithContext(context.Background(), n)
						}
					},
					func(_ context.Context, err error) { d.ErrorWithContext(context.Background(), err) },
					func(_ context.Context) { d.CompleteWithContext(context.Background()) }))
				return sub.Unsubscribe
			})
		}, "subscription-context-lost"},
		{"panics", ro.MapErr(func(s string) (int, error) { return atoi(s) }), ""},
	}
	for _, c := range cases {
		tt := newT(driver.Case{})
		mk(tt, "self.Atoi", "", c.op, atoi).run(in)
		got := keysOf(tt)
		if c.want == "" && got != "" {
			t.Errorf("%s: unexpected findings %s", c.name, got)
		}
		if c.want != "" && !strings.Contains(got, c.want) {
			t.Errorf("%s: findings [%s], want %s", c.name, got, c.want)
		}
	}
	// input modification (spare capacity) and delivered value modified later
	bin := [][]byte{spare("hello", 4), spare("world", 4)}
	tt := newT(driver.Case{})
	mk(tt, "self.Spare", "", ro.Map(func(b []byte) int { b[:cap(b)][len(b)] = 'X'; return len(b) }), func(b []byte) (int, error) { return len(b), nil }).run(bin)
	if !strings.Contains(keysOf(tt), "input-modified") {
		t.Errorf("spare capacity write not seen: %s", keysOf(tt))
	}
	shared := make([]byte, 5)
	tt = newT(driver.Case{})
	mk(tt, "self.Reuse", "", ro.Map(func(b []byte) []byte { copy(shared, b); return shared }), func(b []byte) ([]byte, error) { return append([]byte{}, b...), nil }).run(bin)
	if !strings.Contains(keysOf(tt), "delivered-value-modified-later") {
		t.Errorf("buffer reuse not seen: %s", keysOf(tt))
	}
	// a source that is never torn down / subscribed twice
	tt = newT(driver.Case{})
	mk(tt, "self.Twice", "", func(src ro.Observable[string]) ro.Observable[int] {
		return ro.NewObservableWithContext(func(ctx context.Context, d ro.Observer[int]) ro.Teardown {
			src.SubscribeWithContext(ctx, ro.NoopObserver[string]())
			sub := ro.MapErr(atoi)(src).SubscribeWithContext(ctx, d)
			return sub.Unsubscribe
		})
	}, atoi).run(in)
	if !strings.Contains(keysOf(tt), "source-subscription-count") {
		t.Errorf("double subscription not seen: %s", keysOf(tt))
	}
}
