// C18 — data plugins are faithful lifts of the functions they wrap.
//
// Differential testing: every plugin operator runs over an instrumented source and a recording
// observer; what it emits is compared, item by item, with the wrapped standard-library function
// called directly on a private copy of the same item, with the sibling flavour (strings / bytes)
// on the same text, and with the identity for encode∘decode round trips. Inputs (including the
// spare capacity of byte slices) and delivered values are snapshotted and compared again at the
// end of the run. The core contract (grammar, release of the source, context) is checked on
// every pipeline.
package main

import (
	"fmt"
	"math"
	"math/rand"
	"sort"
	"time"

	"verifharness/internal/driver"
	"verifharness/internal/rec"
)

var negZero = math.Copysign(0, -1)

type opFn func(t *T, rng *rand.Rand, boundary bool)

var registry = map[string]opFn{}

func reg(name string, f opFn) {
	if _, dup := registry[name]; dup {
		panic("duplicate operator " + name)
	}
	registry[name] = f
}

func opNames() []string {
	var out []string
	for k := range registry {
		out = append(out, k)
	}
	sort.Strings(out)
	return out
}

// plan: for every operator one boundary batch (fixed corpus: empty, huge, malformed, multi-byte,
// invalid UTF-8, threshold sizes, every parameter of the small ranges) and a fixed number of
// seeded random batches.
func plan(tier string, seed int64) []driver.Case {
	random := 7
	if tier == "thorough" {
		random = 100
	}
	var cases []driver.Case
	// batch-major order: neighbouring cases belong to different operators, so the driver's shards are balanced
	for b := 0; b <= random; b++ {
		for i, name := range opNames() {
			class := "boundary"
			if b > 0 {
				class = "random"
			}
			cases = append(cases, driver.Case{ID: fmt.Sprintf("%s/%s-%02d", name, class, b),
				P: map[string]string{"op": name, "class": class, "batch": fmt.Sprint(b), "seed": fmt.Sprint(seed*1000003 + int64(i)*1009 + int64(b))}})
		}
	}
	return cases
}

func runCase(c driver.Case) driver.Result {
	rec.ResetHooks()
	f := registry[c.Get("op")]
	if f == nil {
		return driver.Result{Verdict: driver.Inconclusive, Key: "unknown-operator", Msg: c.Get("op")}
	}
	var seed int64
	fmt.Sscan(c.Get("seed"), &seed)
	t := newT(c)
	f(t, rand.New(rand.NewSource(seed)), c.Get("class") == "boundary")
	return t.result()
}

func main() {
	driver.Main(driver.Property{
		ID:    "C18",
		Level: "exploration",
		Rule: "every operator of the plugins strconv, regexp, strings, bytes, time, template, encoding/base64, encoding/json, encoding/gob, encoding/csv, sort, stdio × one boundary batch (empty, huge, malformed, multi-byte and invalid UTF-8 text, byte slices with spare capacity, numeric limits of every bit size, sizes 0,1,1023..1025,2047..2049,3071..3073,4095..4097 for readers and 0,1,2,11..14,50,200 for sort with 1/2/3/10/many distinct keys, every base / bit size / n / ellipsis length −1..26 and len±1) + 7 (quick) or 100 (thorough) seeded random batches. " +
			"Oracles: the wrapped standard-library function called directly on a private copy of each item (value, or the Error that ends the stream, then the run continues behind the failing item on a fresh subscription); the string flavour for every byte flavour on the same text; the identity / the standard library's own round trip for encode∘decode; sorted permutation (+ equality with sort.SliceStable for SortStableFunc); concatenation of reader chunks = input (lines: input without \\r?\\n, and line by line bufio.Reader.ReadLine). " +
			"Every input is snapshotted (byte slices up to their capacity) before and compared after the run, every delivered value at delivery and at the end. Subscribe runs under recover. Core contract on every pipeline: no delivery after the terminal, exactly one terminal, the instrumented source subscribed once and torn down once, non-nil context carrying the subscription's value in every callback and at the source. Non-trivial: the case observed at least one callback.",
		Assume: []string{
			"parameters for which the wrapped function itself panics (FormatInt base 1, FormatFloat bitSize 10, time.In(nil), templates that do not parse) are outside the statement and not generated; inputs on which the wrapped function panics are dropped",
			"errors are compared by errors.Is or message containment, not by identity",
			"the Random helpers are not deterministic: only length and charset membership are checked",
			"nil and empty slices are told apart only against the very function the operator wraps, never between flavours or in round trips",
		},
		Plan:      plan,
		Run:       runCase,
		CaseWatch: 120 * time.Second,
		Setup:     func() { rec.Install() },
	})
}
