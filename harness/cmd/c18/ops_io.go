package main

import (
	"bufio"
	"bytes"
	"encoding/csv"
	"errors"
	"fmt"
	"io"
	"math/rand"
	"os"
	"regexp"
	"sort"
	"strconv"
	"strings"
	"testing/iotest"

	"github.com/samber/ro"
	rocsv "github.com/samber/ro/plugins/encoding/csv"
	rosort "github.com/samber/ro/plugins/sort"
	rostdio "github.com/samber/ro/plugins/stdio"
	"verifharness/internal/rec"
)

// ---------------------------------------------------------------- csv

type csvCfg struct {
	name             string
	comma, comment   rune
	lazy, trim, crlf bool
	fields           int
}

var csvCfgs = []csvCfg{
	{name: "default"}, {name: "Comma=';'", comma: ';'}, {name: "Comma=tab, Comment='#'", comma: '\t', comment: '#'}, {name: "LazyQuotes", lazy: true},
	{name: "TrimLeadingSpace", trim: true}, {name: "FieldsPerRecord=-1", fields: -1}, {name: "FieldsPerRecord=2", fields: 2}, {name: "Comma='日'", comma: '日'}, {name: "UseCRLF", crlf: true},
}

func (c csvCfg) reader(data []byte) *csv.Reader {
	r := csv.NewReader(bytes.NewReader(data))
	if c.comma != 0 {
		r.Comma = c.comma
	}
	r.Comment, r.LazyQuotes, r.TrimLeadingSpace, r.FieldsPerRecord = c.comment, c.lazy, c.trim, c.fields
	return r
}

func (c csvCfg) writer(w io.Writer) *csv.Writer {
	cw := csv.NewWriter(w)
	if c.comma != 0 {
		cw.Comma = c.comma
	}
	cw.UseCRLF = c.crlf
	return cw
}

func randRows(rng *rand.Rand) [][]string {
	n := rng.Intn(8)
	if rng.Intn(6) == 0 {
		n = 100 + rng.Intn(300)
	}
	w := 1 + rng.Intn(4)
	rows := make([][]string, n)
	for i := range rows {
		k := w
		if rng.Intn(10) == 0 {
			k = rng.Intn(5)
		}
		row := make([]string, k, k+rng.Intn(3))
		for j := range row {
			switch rng.Intn(6) {
			case 0:
				row[j] = ""
			case 1:
				row[j] = "q\"uo,te\n" + randText(rng)
			case 2:
				row[j] = " lead;\ttab# " + randText(rng)
			default:
				row[j] = randText(rng)
			}
		}
		rows[i] = row
	}
	return rows
}

var csvRowSets = [][][]string{
	nil,
	{{"a", "b", "c"}, {"1", "2", "3"}},
	{{"a"}},
	{{""}},
	{{}},
	{{"a", ""}, {"", ""}},
	{{"with,comma", "with\"quote", "with\nnewline", "with\r\ncrlf", " spaces "}, {"日本語", "😀", "\xff", "#notcomment", ";"}},
	{{"a", "b"}, {"c"}, {"d", "e", "f"}},
	{{strings.Repeat("x", 5000), strings.Repeat("\"", 50)}, {strings.Repeat("é,", 3000)}},
	{{"#comment-like", "x"}, {"\\.", "\\"}},
}

var csvTexts = []string{
	"", "\n", "\n\n\n", "a,b,c\n1,2,3\n", "a,b,c\n1,2,3", "a,b\r\nc,d\r\n", "a,\"b\nc\",d\n", "a,\"b\"\"c\"\n", "a,\"b\n", "a,b\"c\n", "a,\"b\"c\n", "\"\"\n", "\"", "a,b\n1\n", "a,b\n1,2,3\n", "a;b;c\n1;2;3\n",
	"#comment\na,b\n", "a\tb\n#c\td\n", " a, b\n", "a, \"b\"\n", "日本,語\n😀,é\n", "\xff,\xfe\n", "a,b\r", "a,b\rc,d\n", "\xef\xbb\xbfa,b\n", ",\n,,\n", "a日b日c\n", "x,\"y\"z\",w\n", "a,b\n\"c\nd\",e\nf,\"g",
	strings.Repeat("x", 5000) + ",y\n", strings.Repeat("a,b,c\n", 500), "a,b\n" + strings.Repeat("c,d\n", 200) + "e\n",
}

func init() {
	reg("csv.NewCSVReader", func(t *T, rng *rand.Rand, boundary bool) {
		var docs []string
		if boundary {
			docs = csvTexts
		} else {
			for i := 0; i < 12; i++ {
				cfg := csvCfgs[rng.Intn(len(csvCfgs))]
				var buf bytes.Buffer
				w := cfg.writer(&buf)
				w.WriteAll(randRows(rng))
				s := buf.String()
				docs = append(docs, s)
				if len(s) > 2 && rng.Intn(2) == 0 {
					b := []byte(s)
					b[rng.Intn(len(b))] = "\",\n;x\r"[rng.Intn(6)]
					docs = append(docs, string(b), s[:rng.Intn(len(s))])
				}
			}
		}
		for _, cfg := range csvCfgs {
			if cfg.crlf {
				continue
			}
			for _, doc := range docs {
				runCSVReader(t, cfg, []byte(doc))
			}
		}
	})
	reg("csv.NewCSVWriter", func(t *T, rng *rand.Rand, boundary bool) {
		sets := csvRowSets
		if !boundary {
			sets = nil
			for i := 0; i < 10; i++ {
				sets = append(sets, randRows(rng))
			}
		}
		for _, cfg := range csvCfgs {
			if cfg.comment != 0 || cfg.lazy || cfg.trim || cfg.fields != 0 {
				continue
			}
			for _, rows := range sets {
				runCSVWriter(t, cfg, rows, nil, -1)
				runCSVRoundTrip(t, cfg, rows)
			}
			runCSVWriter(t, cfg, sets[1%len(sets)], errSrc, -1)
		}
		// errors of the wrapped Write: an invalid delimiter, a failing underlying writer
		for _, rows := range sets {
			runCSVWriter(t, csvCfg{name: "Comma='\"' (invalid)", comma: '"'}, rows, nil, -1)
			runCSVWriter(t, csvCfg{name: "Comma=newline (invalid)", comma: '\n'}, rows, nil, -1)
		}
		big := make([][]string, 40)
		for i := range big {
			big[i] = []string{strconv.Itoa(i), strings.Repeat("x", 300+rng.Intn(300)), "é"}
		}
		for _, limit := range []int{0, 1, 4095, 4096, 4097, 6000, 9000, 1 << 20} {
			runCSVWriter(t, csvCfgs[0], big, nil, limit)
		}
	})
}

func runCSVReader(t *T, cfg csvCfg, data []byte) {
	const op = "csv.NewCSVReader"
	what := fmt.Sprintf("%s[%s] over %s", op, cfg.name, short(strconv.Quote(string(data))))
	// the wrapped function, called directly
	var want [][]string
	var werr error
	ref := cfg.reader(append([]byte{}, data...))
	for {
		recd, err := ref.Read()
		if err != nil {
			if err != io.EOF {
				werr = err
			}
			break
		}
		want = append(want, recd)
	}
	snap := string(data)
	r := rec.New(op)
	var got [][]string
	var gotSnap []string
	pan := subscribeRec(func() ro.Observable[[]string] { return rocsv.NewCSVReader(cfg.reader(data)) }, r, func(v []string) string {
		s := deep(v)
		got, gotSnap = append(got, v), append(gotSnap, s)
		return s
	})
	t.items++
	if pan != nil {
		t.fail(op, "panic-escaped-subscribe", fmt.Sprintf("%s: Subscribe panicked with %v", what, pan))
		return
	}
	for i := range got {
		if i >= len(want) {
			t.fail(op, "differs-from-wrapped-function", fmt.Sprintf("%s: emitted %d records, csv.Reader.Read returns %d", what, len(got), len(want)))
			break
		}
		if gotSnap[i] != deep(want[i]) {
			t.fail(op, "differs-from-wrapped-function", fmt.Sprintf("%s: record #%d is %s, csv.Reader.Read returns %s", what, i, short(gotSnap[i]), short(deep(want[i]))))
			break
		}
	}
	if len(got) < len(want) {
		t.fail(op, "differs-from-wrapped-function", fmt.Sprintf("%s: emitted %d records, csv.Reader.Read returns %d", what, len(got), len(want)))
	}
	ev := r.Events()
	if len(ev) > 0 {
		last := ev[len(ev)-1]
		switch {
		case werr != nil && last.Kind == rec.Complete:
			t.fail(op, "differs-from-wrapped-function", fmt.Sprintf("%s: completed, csv.Reader.Read reports %q", what, werr))
		case werr != nil && last.Kind == rec.Error && !errAgrees(last.Err, werr):
			t.fail(op, "error-differs-from-wrapped-function", fmt.Sprintf("%s: Error(%s), csv.Reader.Read reports %q", what, last.ErrS, werr))
		case werr == nil && last.Kind == rec.Error:
			t.fail(op, "differs-from-wrapped-function", fmt.Sprintf("%s: Error(%s), csv.Reader.Read reads the whole input", what, last.ErrS))
		}
	}
	t.core(op, what, r)
	if string(data) != snap {
		t.fail(op, "input-modified", what+": the bytes handed to the reader were modified")
	}
	for i := range got {
		if now := deep(got[i]); now != gotSnap[i] {
			t.fail(op, "delivered-value-modified-later", fmt.Sprintf("%s: record #%d was delivered as %s and reads %s at the end of the run", what, i, short(gotSnap[i]), short(now)))
			break
		}
	}
	t.setSample(map[string]any{"operator": op + "[" + cfg.name + "]", "input": short(strconv.Quote(string(data))), "emitted": short(r.TraceString())})
}

// failAfter accepts limit bytes, then fails (limit < 0: never fails).
type failAfter struct {
	limit   int
	buf     bytes.Buffer
	partial int // bytes accepted by the failing call
	full    int // bytes accepted by successful calls
}

var errWrite = errors.New("c18-writer-full")

func (f *failAfter) Write(p []byte) (int, error) {
	if f.limit >= 0 && f.buf.Len()+len(p) > f.limit {
		n := f.limit - f.buf.Len()
		if n < 0 {
			n = 0
		}
		f.buf.Write(p[:n])
		f.partial += n
		return n, errWrite
	}
	f.buf.Write(p)
	f.full += len(p)
	return len(p), nil
}

func runCSVWriter(t *T, cfg csvCfg, rows [][]string, end error, limit int) {
	const op = "csv.NewCSVWriter"
	what := fmt.Sprintf("%s[%s] over %d rows %s", op, cfg.name, len(rows), short(deep(rows)))
	if limit >= 0 {
		what += fmt.Sprintf(", underlying writer failing after %d bytes", limit)
	}
	// wrapped function called directly
	refOut := &failAfter{limit: limit}
	ref := cfg.writer(refOut)
	wantCount := 0
	var werr error
	for _, row := range cp(rows) {
		if err := ref.Write(row); err != nil {
			werr = err
			break
		}
		wantCount++
	}
	ref.Flush()
	items := cp(rows)
	snaps := make([]string, len(items))
	for i := range items {
		snaps[i] = deepCap(items[i])
	}
	out := &failAfter{limit: limit}
	p, src := instrumented(items, end)
	r := rec.New(op)
	pan := subscribeRec(func() ro.Observable[int] { return rocsv.NewCSVWriter(cfg.writer(out))(src) }, r, func(v int) string { return strconv.Itoa(v) })
	t.items += int64(len(rows))
	if pan != nil {
		t.fail(op, "panic-escaped-subscribe", fmt.Sprintf("%s: Subscribe panicked with %v", what, pan))
		return
	}
	wantTrace := strconv.Itoa(wantCount) + " C"
	switch {
	case werr != nil:
		wantTrace = strconv.Itoa(wantCount) + " E(" + werr.Error() + ")"
	case end != nil:
		wantTrace = strconv.Itoa(wantCount) + " E(" + end.Error() + ")"
	}
	if tr := r.TraceString(); tr != wantTrace {
		ev := r.Events()
		okErr := len(ev) == 2 && ev[0].Kind == rec.Next && ev[0].Val == strconv.Itoa(wantCount) && ev[1].Kind == rec.Error && ((werr != nil && errAgrees(ev[1].Err, werr)) || (werr == nil && end != nil && errAgrees(ev[1].Err, end)))
		if !okErr {
			t.fail(op, "differs-from-wrapped-function", fmt.Sprintf("%s: the subscriber received [%s]; calling csv.Writer.Write directly gives %d successful writes, error %v: expected [%s]", what, short(tr), wantCount, werr, wantTrace))
		}
	}
	if werr == nil && limit < 0 && !bytes.Equal(out.buf.Bytes(), refOut.buf.Bytes()) {
		t.fail(op, "output-differs-from-wrapped-function", fmt.Sprintf("%s: wrote %s, csv.Writer writes %s", what, short(strconv.Quote(out.buf.String())), short(strconv.Quote(refOut.buf.String()))))
	}
	t.core(op, what, r, p)
	for i := range items {
		if now := deepCap(items[i]); now != snaps[i] {
			t.fail(op, "input-modified", fmt.Sprintf("%s: the row %s reads %s after the run", what, short(snaps[i]), short(now)))
			break
		}
	}
	t.setSample(map[string]any{"operator": op + "[" + cfg.name + "]", "input": short(deep(rows)), "written": short(strconv.Quote(out.buf.String())), "emitted": r.TraceString()})
}

func runCSVRoundTrip(t *T, cfg csvCfg, rows [][]string) {
	const op = "csv.NewCSVWriter+NewCSVReader"
	what := fmt.Sprintf("%s[%s] over %s", op, cfg.name, short(deep(rows)))
	// stdlib round trip
	var refBuf bytes.Buffer
	w := cfg.writer(&refBuf)
	if err := w.WriteAll(cp(rows)); err != nil {
		return
	}
	want, werr := cfg.reader(refBuf.Bytes()).ReadAll()
	var buf bytes.Buffer
	if _, err := ro.Collect(rocsv.NewCSVWriter(cfg.writer(&buf))(ro.FromSlice(cp(rows)))); err != nil {
		t.fail(op, "round-trip-differs", fmt.Sprintf("%s: writing failed with %v", what, err))
		return
	}
	got, err := ro.Collect(rocsv.NewCSVReader(cfg.reader(buf.Bytes())))
	t.events += int64(len(got)) + 2
	t.items += int64(len(rows))
	if (err != nil) != (werr != nil) {
		t.fail(op, "round-trip-differs", fmt.Sprintf("%s: reading back gives error %v, the csv package gives %v", what, err, werr))
		return
	}
	if werr == nil && !sameRows(got, want) {
		identity := ""
		if sameRows(want, rows) {
			identity = " (= the rows written)"
		}
		t.fail(op, "round-trip-differs", fmt.Sprintf("%s: read back %s, the csv package reads back %s%s", what, short(deep(got)), short(deep(want)), identity))
	}
}

func sameRows(a, b [][]string) bool {
	if len(a) != len(b) {
		return false
	}
	for i := range a {
		if len(a[i]) != len(b[i]) {
			return false
		}
		for j := range a[i] {
			if a[i][j] != b[i][j] {
				return false
			}
		}
	}
	return true
}

// ---------------------------------------------------------------- stdio

type closeCounter struct {
	io.Reader
	closed int
}

func (c *closeCounter) Close() error { c.closed++; return nil }

// errAfterReader returns the data, then a non-EOF error.
type errAfterReader struct {
	r io.Reader
}

var errRead = errors.New("c18-read-failure")

func (e *errAfterReader) Read(p []byte) (int, error) {
	n, err := e.r.Read(p)
	if err == io.EOF {
		return n, errRead
	}
	return n, err
}

var readerKinds = []string{"bytes.Reader", "bytes.Buffer", "strings.Reader", "closer", "iotest.OneByteReader", "iotest.HalfReader", "iotest.DataErrReader", "iotest.TimeoutReader", "failing after the data", "failing together with the last data", "bufio.Reader(16)"}

func mkReader(kind string, data []byte) (io.Reader, *closeCounter, error) {
	switch kind {
	case "bytes.Buffer":
		return bytes.NewBuffer(append([]byte{}, data...)), nil, nil
	case "strings.Reader":
		return strings.NewReader(string(data)), nil, nil
	case "closer":
		c := &closeCounter{Reader: bytes.NewReader(data)}
		return c, c, nil
	case "iotest.OneByteReader":
		return iotest.OneByteReader(bytes.NewReader(data)), nil, nil
	case "iotest.HalfReader":
		return iotest.HalfReader(bytes.NewReader(data)), nil, nil
	case "iotest.DataErrReader":
		return iotest.DataErrReader(bytes.NewReader(data)), nil, nil
	case "iotest.TimeoutReader":
		return iotest.TimeoutReader(bytes.NewReader(data)), nil, iotest.ErrTimeout
	case "failing after the data":
		return &errAfterReader{bytes.NewReader(data)}, nil, errRead
	case "failing together with the last data":
		// the last bytes and the (non-EOF) error come back from the same Read call, which io.Reader allows
		return &errAfterReader{iotest.DataErrReader(bytes.NewReader(data))}, nil, errRead
	case "bufio.Reader(16)":
		return bufio.NewReaderSize(bytes.NewReader(data), 16), nil, nil
	}
	return bytes.NewReader(data), nil, nil
}

var ioSizes = []int{0, 1, 2, 1023, 1024, 1025, 2047, 2048, 2049, 3071, 3072, 3073, 4095, 4096, 4097, 5000, 10000}

var lineTerm = regexp.MustCompile(`\r?\n`)

func lineDocs(rng *rand.Rand, boundary bool) []string {
	if boundary {
		docs := []string{"", "\n", "\r\n", "a", "a\n", "a\r\n", "a\nb", "a\n\nb\n", "a\r\r\n", "\r", "a\r", "a\rb\n", "日本語\né\r\n😀", "\xff\n\xfe", "\n\n\n", " \n \n",
			strings.Repeat("x", 4095) + "\n" + "y\n", strings.Repeat("x", 4096) + "\ny\n", strings.Repeat("x", 4097) + "\ny", strings.Repeat("x", 4095) + "\r\ny", strings.Repeat("x", 4094) + "\r\ny",
			strings.Repeat("x", 8191) + "\n", strings.Repeat("x", 8192) + "\r\n", strings.Repeat("x", 8193), strings.Repeat("ab\n", 3000), strings.Repeat("line\r\n", 1000), strings.Repeat("x", 12000) + "\n" + strings.Repeat("y", 100)}
		return docs
	}
	var docs []string
	for i := 0; i < 12; i++ {
		var sb strings.Builder
		for l := rng.Intn(12); l > 0; l-- {
			switch rng.Intn(8) {
			case 0:
				sb.WriteString(strings.Repeat(string(rune('a'+rng.Intn(26))), 4090+rng.Intn(12)))
			case 1:
				sb.WriteString(strings.Repeat("z", rng.Intn(9000)))
			default:
				sb.WriteString(strings.ReplaceAll(randText(rng), "\n", " "))
			}
			switch rng.Intn(5) {
			case 0:
				sb.WriteString("\r\n")
			case 1:
				sb.WriteString("\r")
			case 2:
			default:
				sb.WriteString("\n")
			}
		}
		docs = append(docs, sb.String())
	}
	return docs
}

func init() {
	reg("stdio.NewIOReader", func(t *T, rng *rand.Rand, boundary bool) {
		sizes := ioSizes
		if !boundary {
			sizes = nil
			for i := 0; i < 8; i++ {
				sizes = append(sizes, []int{rng.Intn(6000), 1024*(1+rng.Intn(4)) + rng.Intn(3) - 1, rng.Intn(40)}[rng.Intn(3)])
			}
		}
		datas := make([][]byte, len(sizes))
		for i, n := range sizes {
			datas[i] = patternBytes(n)
			if !boundary {
				datas[i] = randBytes(rng, n)
			}
		}
		for _, kind := range readerKinds {
			for _, data := range datas {
				runIOReader(t, "stdio.NewIOReader", kind, data, false)
			}
		}
	})
	reg("stdio.NewIOReaderLine", func(t *T, rng *rand.Rand, boundary bool) {
		for _, doc := range lineDocs(rng, boundary) {
			for _, kind := range readerKinds {
				runIOReader(t, "stdio.NewIOReaderLine", kind, []byte(doc), true)
			}
		}
	})
	reg("stdio.NewStdReader", func(t *T, rng *rand.Rand, boundary bool) {
		sizes := []int{0, 1, 1024, 1025, 2049, 5000}
		if !boundary {
			sizes = []int{rng.Intn(5000), 1024*(1+rng.Intn(3)) + rng.Intn(3) - 1}
		}
		for _, n := range sizes {
			runIOReader(t, "stdio.NewStdReader", "os.Stdin", patternBytes(n), false)
		}
	})
	reg("stdio.NewStdReaderLine", func(t *T, rng *rand.Rand, boundary bool) {
		docs := lineDocs(rng, boundary)
		if len(docs) > 10 {
			docs = append(docs[:6], docs[len(docs)-4:]...)
		}
		for _, doc := range docs {
			runIOReader(t, "stdio.NewStdReaderLine", "os.Stdin", []byte(doc), true)
		}
	})
	reg("stdio.NewPrompt", func(t *T, rng *rand.Rand, boundary bool) {
		docs := []string{"", "one line\n", "a\nb\n", "a\r\nb\r\nc", "first\nsecond\nthird\n"}
		if !boundary {
			docs = nil
			for i := 0; i < 4; i++ {
				var sb strings.Builder
				for l := rng.Intn(5); l > 0; l-- {
					sb.WriteString(strings.ReplaceAll(randText(rng), "\n", " ") + "\n")
				}
				docs = append(docs, sb.String())
			}
		}
		for _, doc := range docs {
			runIOReader(t, "stdio.NewPrompt", "os.Stdin", []byte(doc), true)
		}
	})
	chunkSets := func(rng *rand.Rand, boundary bool) [][][]byte {
		var sets [][][]byte
		if boundary {
			sets = append(sets, nil, [][]byte{nil}, [][]byte{{}}, [][]byte{spare("a", 3)}, [][]byte{spare("hello ", 2), spare("wörld\n", 0), nil, spare("\xff", 1)})
			var big [][]byte
			for _, n := range ioSizes {
				big = append(big, spare(string(patternBytes(n)), n%5))
			}
			sets = append(sets, big)
			return sets
		}
		for i := 0; i < 8; i++ {
			var set [][]byte
			for k := rng.Intn(10); k > 0; k-- {
				n := rng.Intn(30)
				if rng.Intn(4) == 0 {
					n = rng.Intn(5000)
				}
				set = append(set, spare(string(randBytes(rng, n)), rng.Intn(6)))
			}
			sets = append(sets, set)
		}
		return sets
	}
	reg("stdio.NewIOWriter", func(t *T, rng *rand.Rand, boundary bool) {
		for _, set := range chunkSets(rng, boundary) {
			runIOWriter(t, "stdio.NewIOWriter", set, nil, -1)
			runIOWriter(t, "stdio.NewIOWriter", set, errSrc, -1)
			total := 0
			for _, c := range set {
				total += len(c)
			}
			for _, limit := range []int{0, 1, total / 2, total - 1} {
				if limit >= 0 && limit < total {
					runIOWriter(t, "stdio.NewIOWriter", set, nil, limit)
				}
			}
		}
	})
	reg("stdio.NewStdWriter", func(t *T, rng *rand.Rand, boundary bool) {
		for _, set := range chunkSets(rng, boundary) {
			runIOWriter(t, "stdio.NewStdWriter", set, nil, -1)
		}
		runIOWriter(t, "stdio.NewStdWriter", [][]byte{[]byte("x")}, errSrc, -1)
	})
}

// withStdin runs f with os.Stdin reading data from a file; withStdout captures os.Stdout into a file.
func withStdin(data []byte, f func()) error {
	tmp, err := os.CreateTemp("", "c18-stdin-*")
	if err != nil {
		return err
	}
	defer os.Remove(tmp.Name())
	tmp.Write(data)
	tmp.Seek(0, io.SeekStart)
	old := os.Stdin
	os.Stdin = tmp
	defer func() { os.Stdin = old; tmp.Close() }()
	f()
	return nil
}

func withStdout(f func()) ([]byte, error) {
	tmp, err := os.CreateTemp("", "c18-stdout-*")
	if err != nil {
		return nil, err
	}
	defer os.Remove(tmp.Name())
	old, oldErr := os.Stdout, os.Stderr
	os.Stdout = tmp
	devnull, _ := os.OpenFile(os.DevNull, os.O_WRONLY, 0)
	if devnull != nil {
		os.Stderr = devnull
	}
	func() {
		defer func() {
			os.Stdout, os.Stderr = old, oldErr
			if devnull != nil {
				devnull.Close()
			}
		}()
		f()
	}()
	tmp.Seek(0, io.SeekStart)
	b, err := io.ReadAll(tmp)
	tmp.Close()
	return b, err
}

func runIOReader(t *T, op, kind string, data []byte, lines bool) {
	what := fmt.Sprintf("%s(%s) over %d bytes %s", op, kind, len(data), short(strconv.Quote(string(data))))
	snap := string(data)
	// what the wrapped read function returns when called directly on the same kind of reader
	var wantLines [][]byte
	var wantErr error
	handedOut := 0 // bytes the reader hands out before (or together with) its error, read the way the operator reads
	if lines {
		rr, _, _ := mkReader(kind, append([]byte{}, data...))
		br := bufio.NewReader(rr)
		for {
			l, _, err := br.ReadLine()
			if err != nil {
				if err != io.EOF {
					wantErr = err
				}
				break
			}
			wantLines = append(wantLines, append([]byte{}, l...))
		}
	} else {
		// Read with a 1024-byte buffer, as the operator calls it; only the error matters here
		rr, _, _ := mkReader(kind, append([]byte{}, data...))
		buf := make([]byte, 1024)
		for i := 0; i < len(data)+10; i++ {
			n, err := rr.Read(buf)
			handedOut += n
			if err != nil {
				if err != io.EOF {
					wantErr = err
				}
				break
			}
		}
	}
	r := rec.New(op)
	var got, gotCopy [][]byte
	var gotSnap []string
	var closer *closeCounter
	capture := func(v []byte) string {
		s := deep(v)
		got, gotSnap, gotCopy = append(got, v), append(gotSnap, s), append(gotCopy, append([]byte{}, v...))
		return s
	}
	var pan any
	subscribe := func() {
		pan = subscribeRec(func() ro.Observable[[]byte] {
			switch op {
			case "stdio.NewStdReader":
				return rostdio.NewStdReader()
			case "stdio.NewStdReaderLine":
				return rostdio.NewStdReaderLine()
			case "stdio.NewPrompt":
				return rostdio.NewPrompt("> ")
			}
			var rd io.Reader
			rd, closer, _ = mkReader(kind, data)
			if lines {
				return rostdio.NewIOReaderLine(rd)
			}
			return rostdio.NewIOReader(rd)
		}, r, capture)
	}
	if kind == "os.Stdin" {
		var err error
		_, err2 := withStdout(func() { err = withStdin(data, subscribe) })
		if err != nil || err2 != nil {
			return // no temporary files: nothing observed
		}
	} else {
		subscribe()
	}
	t.items++
	if pan != nil {
		t.fail(op, "panic-escaped-subscribe", fmt.Sprintf("%s: Subscribe panicked with %v", what, pan))
		return
	}
	var concat []byte
	for _, c := range gotCopy {
		concat = append(concat, c...)
	}
	ev := r.Events()
	var last rec.Event
	if len(ev) > 0 {
		last = ev[len(ev)-1]
	}
	wantConcat := data
	if lines {
		wantConcat = lineTerm.ReplaceAll(data, nil)
	}
	// a reader that fails in the middle: bufio.Reader.ReadLine hands out what it has and may swallow a
	// transient error, so only the line-by-line comparison with ReadLine applies
	transient := lines && (kind == "iotest.TimeoutReader" || kind == "failing after the data" || kind == "failing together with the last data")
	if transient {
		if wantErr != nil && (last.Kind != rec.Error || !errAgrees(last.Err, wantErr)) {
			t.fail(op, "differs-from-wrapped-function", fmt.Sprintf("%s: bufio.Reader.ReadLine ends with %q, the subscriber's last notification is %s", what, wantErr, short(last.String())))
		}
		if wantErr == nil && last.Kind == rec.Error {
			t.fail(op, "differs-from-wrapped-function", fmt.Sprintf("%s: Error(%s), bufio.Reader.ReadLine ends with io.EOF", what, last.ErrS))
		}
	} else if wantErr == nil {
		if !bytes.Equal(concat, wantConcat) {
			class, hint := "concatenation-differs-from-input", ""
			if kind == "iotest.DataErrReader" {
				class, hint = "data-returned-together-with-EOF-dropped", " (this reader returns its last bytes together with io.EOF, which io.Reader allows)"
			}
			if op == "stdio.NewPrompt" {
				class = "lines-lost"
			}
			exp := "the input"
			if lines {
				exp = "the input without its line terminators"
			}
			t.fail(op, class, fmt.Sprintf("%s: the %d chunks delivered add up to %d bytes %s, %s is %d bytes %s%s", what, len(got), len(concat), short(strconv.Quote(string(concat))), exp, len(wantConcat), short(strconv.Quote(string(wantConcat))), hint))
		}
		if last.Kind == rec.Error {
			t.fail(op, "differs-from-wrapped-function", fmt.Sprintf("%s: Error(%s) although the reader ends with io.EOF", what, last.ErrS))
		}
	} else {
		if !bytes.HasPrefix(wantConcat, concat) {
			t.fail(op, "concatenation-differs-from-input", fmt.Sprintf("%s: the chunks delivered before the read error add up to %s, not a prefix of the input", what, short(strconv.Quote(string(concat)))))
		}
		if !lines && op == "stdio.NewIOReader" && bytes.HasPrefix(wantConcat, concat) && len(concat) != handedOut {
			t.fail(op, "data-returned-together-with-error-dropped", fmt.Sprintf("%s: the reader handed out %d bytes before and together with its error, the chunks delivered before the Error notification add up to %d", what, handedOut, len(concat)))
		}
		if last.Kind != rec.Error || !errAgrees(last.Err, wantErr) {
			t.fail(op, "differs-from-wrapped-function", fmt.Sprintf("%s: the reader fails with %q, the subscriber's last notification is %s", what, wantErr, short(last.String())))
		}
	}
	if lines && op != "stdio.NewPrompt" && (transient || (wantErr == nil && bytes.Equal(concat, wantConcat))) {
		same := len(got) == len(wantLines)
		for i := 0; same && i < len(got); i++ {
			same = gotSnap[i] == deep(wantLines[i]) || (len(wantLines[i]) == 0 && gotSnap[i] == `b""`)
		}
		if !same {
			t.fail(op, "differs-from-wrapped-function", fmt.Sprintf("%s: delivered %d lines [%s], bufio.Reader.ReadLine returns %d lines", what, len(got), short(strings.Join(gotSnap, " ")), len(wantLines)))
		}
	}
	t.core(op, what, r)
	if closer != nil && closer.closed == 0 {
		t.fail(op, "reader-not-closed", what+": the reader implements io.Closer and was not closed although the stream had ended")
	}
	if string(data) != snap {
		t.fail(op, "input-modified", what+": the bytes behind the reader were modified")
	}
	for i := range got {
		if now := deep(got[i]); now != gotSnap[i] {
			t.fail(op, "delivered-chunk-modified-later", fmt.Sprintf("%s: chunk #%d of %d was delivered as %s and reads %s at the end of the run", what, i, len(got), short(gotSnap[i]), short(now)))
			break
		}
	}
	first := ""
	if len(gotSnap) > 0 {
		first = short(gotSnap[0])
	}
	t.setSample(map[string]any{"operator": op + "(" + kind + ")", "input_bytes": len(data), "chunks": len(got), "first_chunk": first})
}

func runIOWriter(t *T, op string, chunks [][]byte, end error, limit int) {
	what := fmt.Sprintf("%s over %d chunks", op, len(chunks))
	if limit >= 0 {
		what += fmt.Sprintf(", writer failing after %d bytes", limit)
	}
	items := cp(chunks)
	snaps := make([]string, len(items))
	var concat []byte
	for i := range items {
		snaps[i] = deepCap(items[i])
		concat = append(concat, items[i]...)
	}
	out := &failAfter{limit: limit}
	p, src := instrumented(items, end)
	r := rec.New(op)
	var pan any
	var written []byte
	if op == "stdio.NewStdWriter" {
		var err error
		written, err = withStdout(func() {
			pan = subscribeRec(func() ro.Observable[int] { return rostdio.NewStdWriter()(src) }, r, func(v int) string { return strconv.Itoa(v) })
		})
		if err != nil {
			return
		}
	} else {
		pan = subscribeRec(func() ro.Observable[int] { return rostdio.NewIOWriter(out)(src) }, r, func(v int) string { return strconv.Itoa(v) })
		written = out.buf.Bytes()
	}
	t.items += int64(len(chunks))
	if pan != nil {
		t.fail(op, "panic-escaped-subscribe", fmt.Sprintf("%s: Subscribe panicked with %v", what, pan))
		return
	}
	ev := r.Events()
	tr := r.TraceString()
	if limit < 0 {
		want := strconv.Itoa(len(concat)) + " C"
		if end != nil {
			want = strconv.Itoa(len(concat)) + " E(" + end.Error() + ")"
		}
		if tr != want {
			t.fail(op, "differs-from-wrapped-function", fmt.Sprintf("%s: the subscriber received [%s]; the writer accepted %d bytes without error: expected [%s]", what, short(tr), len(concat), want))
		}
		if !bytes.Equal(written, concat) {
			t.fail(op, "output-differs-from-input", fmt.Sprintf("%s: %d bytes arrived at the writer %s, the chunks add up to %d bytes %s", what, len(written), short(strconv.Quote(string(written))), len(concat), short(strconv.Quote(string(concat)))))
		}
	} else {
		// the count is what successful Write calls accepted (the partial write of the failing call may or may not be counted)
		ok := len(ev) == 2 && ev[0].Kind == rec.Next && ev[1].Kind == rec.Error && errAgrees(ev[1].Err, errWrite)
		if ok {
			n, _ := strconv.Atoi(ev[0].Val)
			// the first failing call defines the count
			full := 0
			for _, c := range items {
				if full+len(c) > limit {
					break
				}
				full += len(c)
			}
			ok = n >= full && n <= limit
		}
		if !ok {
			t.fail(op, "differs-from-wrapped-function", fmt.Sprintf("%s: the subscriber received [%s]; Write fails with %q once %d bytes are in: expected the count of the bytes written before, then that error", what, short(tr), errWrite, limit))
		}
	}
	t.core(op, what, r, p)
	for i := range items {
		if now := deepCap(items[i]); now != snaps[i] {
			t.fail(op, "input-modified", fmt.Sprintf("%s: the chunk %s reads %s after the run", what, short(snaps[i]), short(now)))
			break
		}
	}
	t.setSample(map[string]any{"operator": op, "chunks": len(chunks), "bytes": len(concat), "emitted": tr})
}

// ---------------------------------------------------------------- sort

type kt struct{ K, Tag int }

var sortSizes = []int{0, 1, 2, 3, 11, 12, 13, 14, 25, 50, 100, 200}

// sortInputs: keys (few distinct keys give many ties), in three input orders.
func sortInputs(rng *rand.Rand, boundary bool) [][]kt {
	var out [][]kt
	sizes := sortSizes
	if !boundary {
		sizes = []int{rng.Intn(30), 10 + rng.Intn(5), 13 + rng.Intn(188), rng.Intn(201)}
	}
	for _, n := range sizes {
		for _, keys := range []int{1, 2, 3, 10, 1 << 20} {
			for _, order := range []string{"random", "sorted", "reversed"} {
				if !boundary && rng.Intn(3) != 0 {
					continue
				}
				xs := make([]kt, n, n+3)
				for i := range xs {
					xs[i] = kt{K: rng.Intn(keys), Tag: i}
				}
				switch order {
				case "sorted":
					sort.SliceStable(xs, func(i, j int) bool { return xs[i].K < xs[j].K })
				case "reversed":
					sort.SliceStable(xs, func(i, j int) bool { return xs[i].K > xs[j].K })
				}
				for i := range xs {
					xs[i].Tag = i // tags give the input position
				}
				out = append(out, xs)
			}
		}
	}
	return out
}

func runSort[E any](t *T, op, param string, stable bool, apply func(ro.Observable[E]) ro.Observable[E], cmp func(a, b E) int, input []E, end error) {
	what := fmt.Sprintf("%s%s over %d items %s", op, param, len(input), short(deep(input)))
	items := cp(input)
	snap := deepCap(items)
	p, src := instrumented(items, end)
	r := rec.New(op)
	var got []E
	pan := subscribeRec(func() ro.Observable[E] { return apply(src) }, r, func(v E) string { got = append(got, v); return deep(v) })
	t.items += int64(len(input))
	if pan != nil {
		t.fail(op, "panic-escaped-subscribe", fmt.Sprintf("%s: Subscribe panicked with %v", what, pan))
		return
	}
	ev := r.Events()
	if end != nil {
		if len(ev) == 0 || ev[len(ev)-1].Kind != rec.Error || !errAgrees(ev[len(ev)-1].Err, end) {
			t.fail(op, "source-error-not-forwarded", fmt.Sprintf("%s: the source ended with %q, the subscriber received [%s]", what, end, short(r.TraceString())))
		}
	} else {
		if len(ev) > 0 && ev[len(ev)-1].Kind == rec.Error {
			t.fail(op, "error-on-valid-input", fmt.Sprintf("%s: Error(%s)", what, ev[len(ev)-1].ErrS))
		}
		// permutation
		count := map[string]int{}
		for _, v := range input {
			count[deep(v)]++
		}
		perm := len(got) == len(input)
		for _, v := range got {
			count[deep(v)]--
			if count[deep(v)] < 0 {
				perm = false
			}
		}
		if !perm {
			t.fail(op, "not-a-permutation", fmt.Sprintf("%s: emitted %d values %s", what, len(got), short(deep(got))))
		} else {
			for i := 0; i+1 < len(got); i++ {
				if cmp(got[i], got[i+1]) > 0 {
					t.fail(op, "not-sorted", fmt.Sprintf("%s: emitted %s: position %d (%s) is greater than position %d (%s) under the comparison function", what, short(deep(got)), i, deep(got[i]), i+1, deep(got[i+1])))
					break
				}
			}
			if stable {
				ref := cp(input)
				sort.SliceStable(ref, func(i, j int) bool { return cmp(ref[i], ref[j]) < 0 })
				for i := range ref {
					if deep(ref[i]) != deep(got[i]) {
						t.fail(op, "not-stable", fmt.Sprintf("%s: emitted %s; at position %d comes %s, a stable sort (sort.SliceStable with the same comparison) puts %s there: elements that compare equal left their input order", what, short(deep(got)), i, deep(got[i]), deep(ref[i])))
						break
					}
				}
			}
		}
	}
	t.core(op, what, r, p)
	if now := deepCap(items); now != snap {
		t.fail(op, "input-modified", fmt.Sprintf("%s: the slice behind the source reads %s after the run", what, short(now)))
	}
	t.setSample(map[string]any{"operator": op + param, "input": short(deep(input)), "emitted": short(deep(got))})
}

func init() {
	byKey := func(a, b kt) int { return a.K - b.K }
	byKeyDesc := func(a, b kt) int { return b.K - a.K }
	reg("sort.SortFunc", func(t *T, rng *rand.Rand, boundary bool) {
		for _, in := range sortInputs(rng, boundary) {
			runSort(t, "sort.SortFunc", "(by key)", false, rosort.SortFunc(byKey), byKey, in, nil)
			runSort(t, "sort.SortFunc", "(by key, descending)", false, rosort.SortFunc(byKeyDesc), byKeyDesc, in, nil)
		}
		runSort(t, "sort.SortFunc", "(by key)", false, rosort.SortFunc(byKey), byKey, []kt{{3, 0}, {1, 1}, {2, 2}}, errSrc)
	})
	reg("sort.SortStableFunc", func(t *T, rng *rand.Rand, boundary bool) {
		for _, in := range sortInputs(rng, boundary) {
			runSort(t, "sort.SortStableFunc", "(by key)", true, rosort.SortStableFunc(byKey), byKey, in, nil)
			runSort(t, "sort.SortStableFunc", "(by key, descending)", true, rosort.SortStableFunc(byKeyDesc), byKeyDesc, in, nil)
		}
		runSort(t, "sort.SortStableFunc", "(by key)", true, rosort.SortStableFunc(byKey), byKey, []kt{{3, 0}, {1, 1}, {2, 2}}, errSrc)
	})
	reg("sort.Sort", func(t *T, rng *rand.Rand, boundary bool) {
		// ordered element types; the comparison looks at v/1000 only, so values that compare equal stay distinguishable
		coarse := func(a, b int) int { return a/1000 - b/1000 }
		natural := func(a, b int) int {
			switch {
			case a < b:
				return -1
			case a > b:
				return 1
			}
			return 0
		}
		for _, in := range sortInputs(rng, boundary) {
			ints := make([]int, len(in), len(in)+2)
			strs := make([]string, len(in))
			fls := make([]float64, len(in))
			for i, e := range in {
				ints[i] = e.K%50*1000 + e.Tag
				strs[i] = fmt.Sprintf("k%03d", e.K%500)
				fls[i] = float64(e.K%7) - 3
				if fls[i] == 0 && i%2 == 0 {
					fls[i] = negZero
				}
			}
			runSort(t, "sort.Sort", "[int](by v/1000)", false, rosort.Sort(coarse), coarse, ints, nil)
			runSort(t, "sort.Sort", "[int](natural order)", false, rosort.Sort(natural), natural, ints, nil)
			runSort(t, "sort.Sort", "[string](strings.Compare)", false, rosort.Sort(strings.Compare), strings.Compare, strs, nil)
			fcmp := func(a, b float64) int {
				switch {
				case a < b:
					return -1
				case a > b:
					return 1
				}
				return 0
			}
			runSort(t, "sort.Sort", "[float64](numeric order, both zeros present)", false, rosort.Sort(fcmp), fcmp, fls, nil)
		}
		runSort(t, "sort.Sort", "[int](natural order)", false, rosort.Sort(natural), natural, []int{3, 1, 2}, errSrc)
	})
}
