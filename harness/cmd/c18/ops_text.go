package main

import (
	"bytes"
	"fmt"
	"math/rand"
	"regexp"
	"unicode/utf8"

	"github.com/samber/ro"
	robytes "github.com/samber/ro/plugins/bytes"
	roregexp "github.com/samber/ro/plugins/regexp"
	rostrings "github.com/samber/ro/plugins/strings"
	"golang.org/x/text/cases"
	"golang.org/x/text/language"
)

var patterns = []string{`a+`, `(\w+)@(\w+)\.com`, `^$`, ``, `\d{2,3}`, `[[:alpha:]]+`, `(?i)hello`, `.`, `\pL+`, `(a)|(b)`, `(?s).+`, `x*`, `日本|é`, `\s+`, `\b\w`, `[^\x00-\x7f]`, `(?:\xff)+`, `([a-z])([A-Z])`}
var findN = []int{-1, 0, 1, 2, 3}

func bytesEq(a, b []byte) bool { return bytes.Equal(a, b) }

func strs2bytes(ss []string) [][]byte {
	if ss == nil {
		return nil
	}
	out := make([][]byte, len(ss))
	for i, s := range ss {
		out[i] = []byte(s)
	}
	return out
}

// content equality of [][]byte ignoring nil/empty differences (used between flavours only)
func bbEq(a, b [][]byte) bool {
	if len(a) != len(b) {
		return false
	}
	for i := range a {
		if !bytes.Equal(a[i], b[i]) {
			return false
		}
	}
	return true
}

func bbbEq(a, b [][][]byte) bool {
	if len(a) != len(b) {
		return false
	}
	for i := range a {
		if !bbEq(a[i], b[i]) {
			return false
		}
	}
	return true
}

// regexpOp runs fn once per pattern with the texts of the batch in both flavours.
func regexpOp(name string, withN bool, fn func(t *T, re *regexp.Regexp, n int, param string, ss []string, bs [][]byte, sibling bool)) {
	reg("regexp."+name, func(t *T, rng *rand.Rand, boundary bool) {
		ss := texts(rng, boundary, 40)
		bs := asBytes(ss)
		for pi, p := range patterns {
			re := regexp.MustCompile(p)
			ns := []int{0}
			if withN {
				ns = findN
			}
			for _, n := range ns {
				param := fmt.Sprintf("(%q)", p)
				if withN {
					param = fmt.Sprintf("(%q, n=%d)", p, n)
				}
				// the flavour-against-flavour comparison doubles the work: every third pattern in random batches
				fn(t, re, n, param, ss, bs, boundary || pi%3 == 0)
			}
		}
	})
}

const sibClass, sibRef = "disagrees-with-string-flavour", "the string flavour of the same operator"

func init() {
	regexpOp("Find", false, func(t *T, re *regexp.Regexp, n int, param string, ss []string, bs [][]byte, sib bool) {
		mk(t, "regexp.Find", param, roregexp.Find[[]byte](re), func(b []byte) ([]byte, error) { return re.Find(b), nil }).run(bs)
		if sib {
			mk(t, "regexp.Find", param, roregexp.Find[[]byte](re), func(b []byte) ([]byte, error) {
				s, err := viaPlugin(roregexp.FindString[string](re), string(b))
				return []byte(s), err
			}).withEq(bytesEq).as(sibClass, sibRef).run(bs)
		}
	})
	regexpOp("FindString", false, func(t *T, re *regexp.Regexp, n int, param string, ss []string, bs [][]byte, sib bool) {
		mk(t, "regexp.FindString", param, roregexp.FindString[string](re), func(s string) (string, error) { return re.FindString(s), nil }).run(ss)
	})
	regexpOp("FindSubmatch", false, func(t *T, re *regexp.Regexp, n int, param string, ss []string, bs [][]byte, sib bool) {
		mk(t, "regexp.FindSubmatch", param, roregexp.FindSubmatch[[]byte](re), func(b []byte) ([][]byte, error) { return re.FindSubmatch(b), nil }).run(bs)
		if sib {
			mk(t, "regexp.FindSubmatch", param, roregexp.FindSubmatch[[]byte](re), func(b []byte) ([][]byte, error) {
				s, err := viaPlugin(roregexp.FindStringSubmatch[string](re), string(b))
				return strs2bytes(s), err
			}).withEq(bbEq).as(sibClass, sibRef).run(bs)
		}
	})
	regexpOp("FindStringSubmatch", false, func(t *T, re *regexp.Regexp, n int, param string, ss []string, bs [][]byte, sib bool) {
		mk(t, "regexp.FindStringSubmatch", param, roregexp.FindStringSubmatch[string](re), func(s string) ([]string, error) { return re.FindStringSubmatch(s), nil }).run(ss)
	})
	regexpOp("FindAll", true, func(t *T, re *regexp.Regexp, n int, param string, ss []string, bs [][]byte, sib bool) {
		mk(t, "regexp.FindAll", param, roregexp.FindAll[[]byte](re, n), func(b []byte) ([][]byte, error) { return re.FindAll(b, n), nil }).run(bs)
		if sib {
			mk(t, "regexp.FindAll", param, roregexp.FindAll[[]byte](re, n), func(b []byte) ([][]byte, error) {
				s, err := viaPlugin(roregexp.FindAllString[string](re, n), string(b))
				return strs2bytes(s), err
			}).withEq(bbEq).as(sibClass, sibRef).run(bs)
		}
	})
	regexpOp("FindAllString", true, func(t *T, re *regexp.Regexp, n int, param string, ss []string, bs [][]byte, sib bool) {
		mk(t, "regexp.FindAllString", param, roregexp.FindAllString[string](re, n), func(s string) ([]string, error) { return re.FindAllString(s, n), nil }).run(ss)
	})
	regexpOp("FindAllSubmatch", true, func(t *T, re *regexp.Regexp, n int, param string, ss []string, bs [][]byte, sib bool) {
		mk(t, "regexp.FindAllSubmatch", param, roregexp.FindAllSubmatch[[]byte](re, n), func(b []byte) ([][][]byte, error) { return re.FindAllSubmatch(b, n), nil }).run(bs)
		if sib {
			mk(t, "regexp.FindAllSubmatch", param, roregexp.FindAllSubmatch[[]byte](re, n), func(b []byte) ([][][]byte, error) {
				s, err := viaPlugin(roregexp.FindAllStringSubmatch[string](re, n), string(b))
				var out [][][]byte
				for _, m := range s {
					out = append(out, strs2bytes(m))
				}
				return out, err
			}).withEq(bbbEq).as(sibClass, sibRef).run(bs)
		}
	})
	regexpOp("FindAllStringSubmatch", true, func(t *T, re *regexp.Regexp, n int, param string, ss []string, bs [][]byte, sib bool) {
		mk(t, "regexp.FindAllStringSubmatch", param, roregexp.FindAllStringSubmatch[string](re, n), func(s string) ([][]string, error) { return re.FindAllStringSubmatch(s, n), nil }).run(ss)
	})
	regexpOp("Match", false, func(t *T, re *regexp.Regexp, n int, param string, ss []string, bs [][]byte, sib bool) {
		mk(t, "regexp.Match", param, roregexp.Match[[]byte](re), func(b []byte) (bool, error) { return re.Match(b), nil }).run(bs)
		if sib {
			mk(t, "regexp.Match", param, roregexp.Match[[]byte](re), func(b []byte) (bool, error) {
				return viaPlugin(roregexp.MatchString[string](re), string(b))
			}).as(sibClass, sibRef).run(bs)
		}
	})
	regexpOp("MatchString", false, func(t *T, re *regexp.Regexp, n int, param string, ss []string, bs [][]byte, sib bool) {
		mk(t, "regexp.MatchString", param, roregexp.MatchString[string](re), func(s string) (bool, error) { return re.MatchString(s), nil }).run(ss)
	})
	repls := []string{"", "X", "<$0>", "$1-$2", "${1}é", "$$", "\xff"}
	regexpOp("ReplaceAll", false, func(t *T, re *regexp.Regexp, n int, param string, ss []string, bs [][]byte, sib bool) {
		for _, rp := range repls {
			repl := spare(rp, 4)
			snap := deepCap(repl)
			p := fmt.Sprintf("%s repl %q", param, rp)
			mk(t, "regexp.ReplaceAll", p, roregexp.ReplaceAll[[]byte](re, repl), func(b []byte) ([]byte, error) { return re.ReplaceAll(b, []byte(rp)), nil }).run(bs)
			if sib {
				mk(t, "regexp.ReplaceAll", p, roregexp.ReplaceAll[[]byte](re, repl), func(b []byte) ([]byte, error) {
					s, err := viaPlugin(roregexp.ReplaceAllString[string](re, rp), string(b))
					return []byte(s), err
				}).withEq(bytesEq).as(sibClass, sibRef).run(bs)
			}
			if now := deepCap(repl); now != snap {
				t.fail("regexp.ReplaceAll", "input-modified", fmt.Sprintf("%s: the replacement %s reads %s after the run", p, snap, now))
			}
		}
	})
	regexpOp("ReplaceAllString", false, func(t *T, re *regexp.Regexp, n int, param string, ss []string, bs [][]byte, sib bool) {
		for _, rp := range repls {
			rp := rp
			mk(t, "regexp.ReplaceAllString", fmt.Sprintf("%s repl %q", param, rp), roregexp.ReplaceAllString[string](re, rp), func(s string) (string, error) { return re.ReplaceAllString(s, rp), nil }).run(ss)
		}
	})
	regexpOp("FilterMatch", false, func(t *T, re *regexp.Regexp, n int, param string, ss []string, bs [][]byte, sib bool) {
		mk(t, "regexp.FilterMatch", param, roregexp.FilterMatch[[]byte](re), func(b []byte) ([]byte, error) {
			if re.Match(b) {
				return b, nil
			}
			return nil, errSkip
		}).run(bs)
	})
	regexpOp("FilterMatchString", false, func(t *T, re *regexp.Regexp, n int, param string, ss []string, bs [][]byte, sib bool) {
		mk(t, "regexp.FilterMatchString", param, roregexp.FilterMatchString[string](re), func(s string) (string, error) {
			if re.MatchString(s) {
				return s, nil
			}
			return "", errSkip
		}).run(ss)
	})
}

// ---------------------------------------------------------------- strings / bytes text helpers

// textHelper registers both flavours of one helper: the byte flavour is compared with the string
// flavour on the same text; each flavour is compared with a second, independent application of
// itself (and Capitalize with the x/text call it wraps).
func textHelper(name string, sOp func() func(ro.Observable[string]) ro.Observable[string], bOp func() func(ro.Observable[[]byte]) ro.Observable[[]byte], wrapped func(string) string) {
	reg("strings."+name, func(t *T, rng *rand.Rand, boundary bool) {
		ss := texts(rng, boundary, 60)
		l := mk(t, "strings."+name, "", sOp(), func(s string) (string, error) {
			if wrapped != nil {
				return wrapped(s), nil
			}
			return viaPlugin(sOp(), s)
		})
		if wrapped == nil {
			l.as("differs-between-two-applications", "a second application of the operator")
		}
		l.run(ss)
	})
	reg("bytes."+name, func(t *T, rng *rand.Rand, boundary bool) {
		bs := asBytes(texts(rng, boundary, 60))
		mk(t, "bytes."+name, "", bOp(), func(b []byte) ([]byte, error) {
			s, err := viaPlugin(sOp(), string(b))
			return []byte(s), err
		}).withEq(bytesEq).as("disagrees-with-strings-flavour", "rostrings."+name+" on the same text").classBy(flavourClass).run(bs)
	})
}

// flavourClass separates a disagreement of the two flavours on well-formed text from one that
// needs bytes which are not UTF-8 (the only inputs on which they still differ; see DESIGN.md).
func flavourClass(b []byte) string {
	if utf8.Valid(b) {
		return "disagrees-with-strings-flavour"
	}
	return "disagrees-with-strings-flavour-on-invalid-utf8"
}

func ellipsisLengths(boundary bool, rng *rand.Rand, ss []string) []int {
	seen := map[int]bool{}
	var out []int
	add := func(n int) {
		if !seen[n] {
			seen[n] = true
			out = append(out, n)
		}
	}
	if boundary {
		for n := -1; n <= 26; n++ {
			add(n)
		}
		for _, s := range hugeText {
			add(len(s) - 1)
			add(len(s))
			add(len(s) + 1)
			add(len(s) / 2)
		}
		return out
	}
	for i := 0; i < 12; i++ {
		s := ss[rng.Intn(len(ss))]
		add(rng.Intn(len(s)+3) - 1)
	}
	return out
}

func checkRandom(size int, charset []rune) func(string) string {
	return func(s string) string {
		if !utf8.ValidString(s) {
			return "not valid UTF-8"
		}
		if n := utf8.RuneCountInString(s); n != size {
			return fmt.Sprintf("%d characters, size is %d", n, size)
		}
		for _, r := range s {
			ok := false
			for _, c := range charset {
				if c == r {
					ok = true
					break
				}
			}
			if !ok {
				return fmt.Sprintf("character %q is not in the charset %q", r, string(charset))
			}
		}
		return ""
	}
}

type charsetDef struct {
	name string
	s, b []rune
}

func init() {
	title := func(s string) string { return cases.Title(language.English).String(s) }
	textHelper("CamelCase", rostrings.CamelCase[string], robytes.CamelCase[[]byte], nil)
	textHelper("Capitalize", rostrings.Capitalize[string], robytes.Capitalize[[]byte], title)
	textHelper("KebabCase", rostrings.KebabCase[string], robytes.KebabCase[[]byte], nil)
	textHelper("PascalCase", rostrings.PascalCase[string], robytes.PascalCase[[]byte], nil)
	textHelper("SnakeCase", rostrings.SnakeCase[string], robytes.SnakeCase[[]byte], nil)

	reg("bytes.Capitalize/wrapped", func(t *T, rng *rand.Rand, boundary bool) {
		bs := asBytes(texts(rng, boundary, 60))
		mk(t, "bytes.Capitalize", "", robytes.Capitalize[[]byte](), func(b []byte) ([]byte, error) {
			return cases.Title(language.English).Bytes(b), nil
		}).withEq(bytesEq).run(bs)
	})

	reg("strings.Ellipsis", func(t *T, rng *rand.Rand, boundary bool) {
		ss := texts(rng, boundary, 60)
		for _, n := range ellipsisLengths(boundary, rng, ss) {
			n := n
			mk(t, "strings.Ellipsis", fmt.Sprintf("(%d)", n), rostrings.Ellipsis[string](n), func(s string) (string, error) {
				return viaPlugin(rostrings.Ellipsis[string](n), s)
			}).as("differs-between-two-applications", "a second application of the operator").run(ss)
		}
	})
	reg("bytes.Ellipsis", func(t *T, rng *rand.Rand, boundary bool) {
		ss := texts(rng, boundary, 60)
		bs := asBytes(ss)
		for _, n := range ellipsisLengths(boundary, rng, ss) {
			n := n
			mk(t, "bytes.Ellipsis", fmt.Sprintf("(%d)", n), robytes.Ellipsis[[]byte](n), func(b []byte) ([]byte, error) {
				s, err := viaPlugin(rostrings.Ellipsis[string](n), string(b))
				return []byte(s), err
			}).withEq(bytesEq).as("disagrees-with-strings-flavour", "rostrings.Ellipsis on the same text").classBy(flavourClass).run(bs)
		}
	})
	reg("strings.Words", func(t *T, rng *rand.Rand, boundary bool) {
		ss := texts(rng, boundary, 60)
		mk(t, "strings.Words", "", rostrings.Words[string](), func(s string) ([]string, error) {
			return viaPlugin(rostrings.Words[string](), s)
		}).as("differs-between-two-applications", "a second application of the operator").run(ss)
	})
	reg("bytes.Words", func(t *T, rng *rand.Rand, boundary bool) {
		bs := asBytes(texts(rng, boundary, 60))
		mk(t, "bytes.Words", "", robytes.Words[[]byte](), func(b []byte) ([][]byte, error) {
			s, err := viaPlugin(rostrings.Words[string](), string(b))
			return strs2bytes(s), err
		}).withEq(bbEq).as("disagrees-with-strings-flavour", "rostrings.Words on the same text").classBy(flavourClass).run(bs)
	})

	charsets := []charsetDef{
		{"LowerCaseLetters", rostrings.LowerCaseLettersCharset, robytes.LowerCaseLettersCharset},
		{"UpperCaseLetters", rostrings.UpperCaseLettersCharset, robytes.UpperCaseLettersCharset},
		{"Letters", rostrings.LettersCharset, robytes.LettersCharset},
		{"Numbers", rostrings.NumbersCharset, robytes.NumbersCharset},
		{"Alphanumeric", rostrings.AlphanumericCharset, robytes.AlphanumericCharset},
		{"Special", rostrings.SpecialCharset, robytes.SpecialCharset},
		{"All", rostrings.AllCharset, robytes.AllCharset},
		{"multi-byte", []rune("明1好休2林森"), []rune("明1好休2林森")},
		{"two", []rune("ab"), []rune("ab")},
		{"three", []rune("xyz"), []rune("xyz")},
		{"one", []rune("a"), []rune("a")},
		{"seventeen", []rune("0123456789abcdefg"), []rune("0123456789abcdefg")},
	}
	randomSizes := func(rng *rand.Rand, boundary bool) []int {
		if boundary {
			return []int{1, 2, 3, 9, 10, 11, 63, 64, 65, 100, 1000}
		}
		return []int{1 + rng.Intn(20), 1 + rng.Intn(200), 1 + rng.Intn(2000)}
	}
	reg("strings.Random", func(t *T, rng *rand.Rand, boundary bool) {
		in := []int{1, 2, 3, 4, 5}
		for _, cs := range charsets {
			snap := deep(cs.s)
			for _, size := range randomSizes(rng, boundary) {
				var op func(ro.Observable[int]) ro.Observable[string]
				func() {
					defer func() { recover() }()
					op = rostrings.Random[int](size, cs.s)
				}()
				if op == nil {
					t.fail("strings.Random", "constructor-panics", fmt.Sprintf("Random(%d, %s charset of %d characters) panicked at construction", size, cs.name, len(cs.s)))
					continue
				}
				l := mk(t, "strings.Random", fmt.Sprintf("(%d, %s charset of %d characters)", size, cs.name, len(cs.s)), op, func(int) (string, error) { return "", nil })
				l.verify = func(_ int, got string) string { return checkRandom(size, cs.s)(got) }
				l.as("wrong-length-or-charset", "the documented result (size characters drawn from the charset)").run(in)
			}
			if now := deep(cs.s); now != snap {
				t.fail("strings.Random", "input-modified", "the charset "+cs.name+" was modified")
			}
		}
	})
	reg("bytes.Random", func(t *T, rng *rand.Rand, boundary bool) {
		in := []int{1, 2, 3, 4, 5}
		for _, cs := range charsets {
			snap := deep(cs.b)
			for _, size := range randomSizes(rng, boundary) {
				var op func(ro.Observable[int]) ro.Observable[[]byte]
				func() {
					defer func() { recover() }()
					op = robytes.Random[int](size, cs.b)
				}()
				if op == nil {
					t.fail("bytes.Random", "constructor-panics", fmt.Sprintf("Random(%d, %s charset of %d characters) panicked at construction", size, cs.name, len(cs.b)))
					continue
				}
				l := mk(t, "bytes.Random", fmt.Sprintf("(%d, %s charset of %d characters)", size, cs.name, len(cs.b)), op, func(int) ([]byte, error) { return nil, nil })
				l.verify = func(_ int, got []byte) string { return checkRandom(size, cs.b)(string(got)) }
				l.as("wrong-length-or-charset", "the documented result (size characters drawn from the charset)").run(in)
			}
			if now := deep(cs.b); now != snap {
				t.fail("bytes.Random", "input-modified", "the charset "+cs.name+" was modified")
			}
		}
	})
}
