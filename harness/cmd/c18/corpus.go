package main

import (
	"math"
	"math/rand"
	"strings"
)

// ---------------------------------------------------------------- text

var textCorpus = []string{
	"", " ", "a", "A", "ab", "abc", "é", "hello world", "Hello, World!", "  hello   world  ", "\t12345  ",
	"snake_case", "SNAKE_CASE_WITH_MORE", "kebab-case-here", "camelCaseString", "PascalCaseString", "HTTPServer", "userID", "JSON_blob",
	"Int8Value", "http200", "abc123def", "a1B2c3", "1st 2nd and 3rd", "NumberSplittingVersion1.0r3", "David's Computer",
	"  leading", "trailing  ", "\t\n", "\r\n", " \t mixed\twhite\nspace \r\n",
	"日本語テキスト", "héllo wörld", "éa", "ÀÉÎ ÕÜ", "straße", "ǅungla", "ﬁne ligature", "İstanbul", "ΑΒΓ αβγ", "привет мир", "naïve café",
	"emoji 😀 test", "a😀b", "\u00a0nbsp\u00a0", "\u2003em space", "\u0085nel", "x\u200by", "e\u0301 combining",
	"\xff\xfe", "bad\xc3", "a\xe2\x28\xa1b", "BadUTF8\xe2\xe2\xa1", "\xc3\xa9\xc3", "\x00", "nul\x00inside", "\x80\x81 \x82",
	"foo\uFFFDbar", "\uFFFD", "a\uFFFD", "x\uFFFD\uFFFDy z", "Mixed\uFFFDcase\xffEnd", // a validly encoded replacement character is a symbol, not an invalid byte
	"12345", "1234567890", "hello world, this is a long sentence", "x", "...", "a.b.c", "--", "__", "foo@example.com", "bob@site.com alice@corp.com",
	"aaa", "baaab aab", "The Quick Brown Fox", "ALLCAPS", "mIxEd CaSe",
}

var hugeText = []string{
	strings.Repeat("word ", 1200),
	strings.Repeat("x", 5000),
	strings.Repeat("é", 1500),
	strings.Repeat("CamelCase", 400),
	strings.Repeat("a\xffb ", 700),
}

const (
	asciiLower = "abcdefghijklmnopqrstuvwxyz"
	asciiUpper = "ABCDEFGHIJKLMNOPQRSTUVWXYZ"
	asciiDigit = "0123456789"
	asciiPunct = " _-.,!'\t\n@:/"
)

var multiRunes = []rune("éüßñçØÀǅΩжя日本語😀\u00a0\u2003ı\u0301\uFFFD")
var badBytes = []string{"\xff", "\xc3", "\xe2\x82", "\x80", "\xf0\x9f", "\xed\xa0\x80"}

// randText draws a text of one of three flavours: ASCII words, multi-byte, with invalid UTF-8.
func randText(rng *rand.Rand) string {
	n := rng.Intn(30)
	switch rng.Intn(12) {
	case 0:
		n = 0
	case 1:
		n = 30 + rng.Intn(300)
	}
	mode := rng.Intn(3)
	var sb strings.Builder
	for i := 0; i < n; i++ {
		switch x := rng.Intn(20); {
		case x < 8:
			sb.WriteByte(asciiLower[rng.Intn(26)])
		case x < 11:
			sb.WriteByte(asciiUpper[rng.Intn(26)])
		case x < 13:
			sb.WriteByte(asciiDigit[rng.Intn(10)])
		case x < 16:
			sb.WriteByte(asciiPunct[rng.Intn(len(asciiPunct))])
		case x < 19:
			if mode >= 1 {
				sb.WriteRune(multiRunes[rng.Intn(len(multiRunes))])
			} else {
				sb.WriteByte(' ')
			}
		default:
			if mode == 2 {
				sb.WriteString(badBytes[rng.Intn(len(badBytes))])
			} else {
				sb.WriteByte(asciiLower[rng.Intn(26)])
			}
		}
	}
	return sb.String()
}

// texts returns the boundary corpus (batch 0) or n seeded random texts.
func texts(rng *rand.Rand, boundary bool, n int) []string {
	if boundary {
		out := append([]string{}, textCorpus...)
		return append(out, hugeText...)
	}
	out := make([]string, n)
	for i := range out {
		out[i] = randText(rng)
	}
	return out
}

// spare copies s into a byte slice with k bytes of recognisable spare capacity behind len.
func spare(s string, k int) []byte {
	b := make([]byte, len(s)+k)
	copy(b, s)
	for i := len(s); i < len(b); i++ {
		b[i] = 0xA1 + byte(i%5)
	}
	return b[:len(s)]
}

func asBytes(ss []string) [][]byte {
	out := make([][]byte, len(ss))
	for i, s := range ss {
		out[i] = spare(s, []int{0, 5, 32, 1}[i%4])
	}
	return out
}

func randBytes(rng *rand.Rand, n int) []byte {
	b := make([]byte, n)
	for i := range b {
		b[i] = byte(rng.Intn(256))
	}
	return b
}

// patternBytes gives n bytes in which every 1024-block starts differently (deterministic).
func patternBytes(n int) []byte {
	b := make([]byte, n)
	for i := range b {
		b[i] = byte('a' + (i/1024)%26)
		if i%7 == 3 {
			b[i] = byte('0' + (i/7)%10)
		}
	}
	return b
}

// ---------------------------------------------------------------- numbers

var intCorpus = []string{
	"0", "-0", "+0", "1", "+1", "-1", "42", "-42", " 42", "42 ", "4 2", "", " ", "+", "-", "abc", "12a", "a12",
	"0x1F", "0X1f", "-0x1F", "0b101", "0B11", "0o17", "0O17", "017", "08", "0_1", "1_000", "1__0", "_1", "1_", "0x_1F", "0x",
	"127", "128", "-128", "-129", "255", "256", "32767", "32768", "-32768", "-32769", "65535", "65536",
	"2147483647", "2147483648", "-2147483648", "-2147483649", "4294967295", "4294967296",
	"9223372036854775807", "9223372036854775808", "-9223372036854775808", "-9223372036854775809",
	"18446744073709551615", "18446744073709551616", "99999999999999999999999999",
	"1e3", "1.0", "١٢٣", "１２３", "ff", "FF", "fF", "zz", "Z", "7fffffffffffffff", "8000000000000000", "ffffffffffffffff", "10000000000000000",
	"1111111", "777", "1y2p0ij32e8e7", "3w5e11264sgsf", "3w5e11264sgsg", "\xff", "1\x00", "０",
	strings.Repeat("1", 5000), strings.Repeat("0", 3000) + "7",
}

var floatCorpus = []string{
	"0", "-0", "+0", "1", "-1", "3.14", "-1.5e10", "1e400", "-1e400", "1e-400", "4.9e-324", "2.4e-324", "1.7976931348623157e308", "1.7976931348623159e308",
	"3.4028235e38", "3.4028236e38", "3.5e38", "1e-46", "NaN", "nan", "NAN", "Inf", "-inf", "+Infinity", "infinity", "in", "infi",
	"0x1p-2", "0x1.8p1", "0x1p", "0x.p1", "1_0.5", "1_000.000_1", ".5", "5.", ".", "e5", "1e", "1e+", "1e5.5", "1,5", " 1.5", "1.5 ", "",
	"0.1", "0.30000000000000004", "123456789012345678901234567890", "0.000000000000000000000000000001", "1e23", "8.41e21", "2.2250738585072011e-308",
	"١.٥", "abc", "--1", "+-1", "0x", "1p3", "\xff", strings.Repeat("9", 400), "0." + strings.Repeat("0", 400) + "1",
}

var boolCorpus = []string{"1", "t", "T", "TRUE", "true", "True", "0", "f", "F", "FALSE", "false", "False", "", " ", "yes", "no", "tRUE", "truee", " true", "2", "-1", "y", "n", "on", "off", "ｔ", "\xff", "nil"}

func randNumStr(rng *rand.Rand, base int) string {
	digits := "0123456789abcdefghijklmnopqrstuvwxyz"
	b := base
	var sb strings.Builder
	switch rng.Intn(4) {
	case 0:
		sb.WriteByte('-')
	case 1:
		if rng.Intn(2) == 0 {
			sb.WriteByte('+')
		}
	}
	if base == 0 {
		switch rng.Intn(5) {
		case 0:
			sb.WriteString("0x")
			b = 16
		case 1:
			sb.WriteString("0b")
			b = 2
		case 2:
			sb.WriteString("0o")
			b = 8
		case 3:
			sb.WriteString("0")
			b = 8
		default:
			b = 10
		}
	}
	if b < 2 || b > 36 {
		b = 10
	}
	n := 1 + rng.Intn(6)
	if rng.Intn(3) == 0 {
		n = 8 + rng.Intn(60)
	}
	if rng.Intn(6) == 0 {
		// around the 64-bit limits
		n = map[int]int{2: 63, 8: 21, 10: 19, 16: 16, 36: 13}[b] + rng.Intn(3)
		if n < 3 {
			n = 20
		}
	}
	for i := 0; i < n; i++ {
		d := digits[rng.Intn(b)]
		if rng.Intn(2) == 0 && d >= 'a' {
			d -= 32
		}
		sb.WriteByte(d)
		if rng.Intn(25) == 0 {
			sb.WriteByte('_')
		}
	}
	switch rng.Intn(15) {
	case 0:
		sb.WriteByte(digits[rng.Intn(36)])
	case 1:
		sb.WriteByte(' ')
	case 2:
		sb.WriteString("é")
	}
	return sb.String()
}

func numStrings(rng *rand.Rand, boundary bool, base int) []string {
	if boundary {
		return append([]string{}, intCorpus...)
	}
	out := make([]string, 60)
	for i := range out {
		out[i] = randNumStr(rng, base)
	}
	return out
}

func randFloat(rng *rand.Rand) float64 {
	switch rng.Intn(6) {
	case 0:
		return math.Float64frombits(rng.Uint64())
	case 1:
		return float64(rng.Intn(2000)-1000) / 8
	case 2:
		return rng.NormFloat64() * math.Pow(10, float64(rng.Intn(40)-20))
	case 3:
		return float64(math.Float32frombits(rng.Uint32()))
	case 4:
		return float64(rng.Int63n(1<<53)) * float64(1-2*rng.Intn(2))
	}
	return rng.Float64()
}

var floatValues = []float64{0, math.Copysign(0, -1), 1, -1, 0.1, 1.0 / 3, 2.5, -2.5, 100, 1e21, 1e20, 1e-7, 1e-6, 123456789.125, math.Pi, math.MaxFloat64, -math.MaxFloat64,
	math.SmallestNonzeroFloat64, math.MaxFloat32, math.SmallestNonzeroFloat32, math.NaN(), math.Inf(1), math.Inf(-1), 5e-324, 2.2250738585072014e-308, 9007199254740993, 0.000001234, 1e100, 8.41e21}

func floats(rng *rand.Rand, boundary bool) []float64 {
	if boundary {
		return append([]float64{}, floatValues...)
	}
	out := make([]float64, 40)
	for i := range out {
		out[i] = randFloat(rng)
	}
	return out
}

var int64Values = []int64{0, 1, -1, 2, 7, 8, 9, 10, 15, 16, 35, 36, 37, 127, 128, -128, 255, 256, 1000, -1000, 65535, 1 << 31, -(1 << 31), 1<<31 - 1, 1 << 32, 1<<53 + 1, math.MaxInt64, math.MinInt64, math.MaxInt64 - 1, math.MinInt64 + 1}

func int64s(rng *rand.Rand, boundary bool) []int64 {
	if boundary {
		return append([]int64{}, int64Values...)
	}
	out := make([]int64, 50)
	for i := range out {
		switch rng.Intn(3) {
		case 0:
			out[i] = int64(rng.Uint64())
		case 1:
			out[i] = int64(rng.Intn(2001) - 1000)
		default:
			out[i] = int64(rng.Uint64()) >> uint(rng.Intn(64))
		}
	}
	return out
}

func uint64s(rng *rand.Rand, boundary bool) []uint64 {
	if boundary {
		return []uint64{0, 1, 2, 9, 10, 35, 36, 255, 256, 65535, 65536, 1 << 32, 1<<32 - 1, 1 << 63, 1<<63 - 1, math.MaxUint64, math.MaxUint64 - 1, 1<<53 + 1}
	}
	out := make([]uint64, 50)
	for i := range out {
		out[i] = rng.Uint64() >> uint(rng.Intn(64))
	}
	return out
}

var runeValues = []rune{'a', 'Z', '0', ' ', '\n', '\t', '\'', '"', '\\', 0, 7, 0x1b, 0x7f, 0x80, 0xa0, 0xad, 'é', 'ß', '日', '😀', 0xfeff, 0xfffd, 0xd800, 0xdfff, 0x10ffff, 0x110000, -1, math.MaxInt32, math.MinInt32, 0x2028, 0x200b, 0x301}

func runes(rng *rand.Rand, boundary bool) []rune {
	if boundary {
		return append([]rune{}, runeValues...)
	}
	out := make([]rune, 50)
	for i := range out {
		switch rng.Intn(4) {
		case 0:
			out[i] = rune(rng.Intn(128))
		case 1:
			out[i] = rune(rng.Intn(0x3000))
		case 2:
			out[i] = rune(rng.Intn(0x120000))
		default:
			out[i] = rune(int32(rng.Uint32()))
		}
	}
	return out
}
