package main

import (
	"bytes"
	"encoding/base64"
	"encoding/gob"
	"encoding/json"
	"fmt"
	htmltemplate "html/template"
	"math"
	"math/rand"
	"reflect"
	"regexp"
	"strings"
	texttemplate "text/template"
	"time"
	_ "time/tzdata"

	"github.com/samber/ro"
	robase64 "github.com/samber/ro/plugins/encoding/base64"
	rogob "github.com/samber/ro/plugins/encoding/gob"
	rojson "github.com/samber/ro/plugins/encoding/json"
	rotemplate "github.com/samber/ro/plugins/template"
	rotime "github.com/samber/ro/plugins/time"
)

// ---------------------------------------------------------------- time

func mustLoc(name string) *time.Location {
	l, err := time.LoadLocation(name)
	if err != nil {
		return time.FixedZone(name, 3600)
	}
	return l
}

var (
	locParis = mustLoc("Europe/Paris")
	locNY    = mustLoc("America/New_York")
	locLord  = mustLoc("Australia/Lord_Howe")
	locFixed = time.FixedZone("X+0545", 5*3600+45*60)
	locs     = []*time.Location{time.UTC, locParis, locNY, locLord, locFixed, time.FixedZone("", -11*3600)}
)

func timesOf(rng *rand.Rand, boundary bool) []time.Time {
	if boundary {
		return []time.Time{
			{}, time.Unix(0, 0).UTC(), time.Unix(0, 0).In(locNY), time.Date(2026, 1, 7, 14, 30, 0, 0, time.UTC), time.Date(2024, 2, 29, 23, 59, 59, 999999999, time.UTC),
			time.Date(2025, 1, 31, 12, 0, 0, 0, locParis), time.Date(2025, 3, 30, 1, 59, 59, 0, locParis), time.Date(2025, 3, 30, 3, 0, 0, 0, locParis), time.Date(2025, 10, 26, 2, 30, 0, 0, locParis),
			time.Date(2025, 3, 9, 2, 30, 0, 0, locNY), time.Date(2025, 11, 2, 1, 30, 0, 0, locNY), time.Date(2025, 11, 2, 0, 0, 0, 0, locNY), time.Date(2025, 4, 6, 1, 45, 0, 0, locLord),
			time.Date(9999, 12, 31, 23, 59, 59, 0, time.UTC), time.Date(1, 1, 1, 0, 0, 0, 0, time.UTC), time.Date(0, 1, 1, 0, 0, 0, 0, time.UTC), time.Date(-44, 3, 15, 12, 0, 0, 0, time.UTC),
			time.Date(12345, 6, 7, 8, 9, 10, 11, time.UTC), time.Date(1969, 12, 31, 23, 59, 59, 1, locFixed), time.Date(2000, 1, 1, 0, 0, 0, 0, locFixed), time.Unix(1<<40, 0).UTC(),
			time.Date(2026, 12, 31, 23, 59, 60, 0, time.UTC), time.Date(1883, 11, 18, 12, 0, 0, 0, locNY),
		}
	}
	out := make([]time.Time, 40)
	for i := range out {
		sec := rng.Int63n(8e9) - 3e9
		out[i] = time.Unix(sec, rng.Int63n(1e9)).In(locs[rng.Intn(len(locs))])
		if rng.Intn(4) == 0 {
			out[i] = out[i].Truncate(time.Second)
		}
	}
	return out
}

var layouts = []string{time.RFC3339, time.RFC3339Nano, time.RFC1123, time.RFC1123Z, time.RFC822, time.RFC850, time.Kitchen, time.ANSIC, time.UnixDate, time.StampNano, time.DateTime, time.DateOnly, time.TimeOnly,
	"2006-01-02 15:04:05", "", "Monday, 02-Jan-06", "no layout at all", "2006-01-02T15:04:05.000Z07:00", "02/01/2006 03:04:05.999 PM -0700 MST", "Jan _2 2006", "06 1 2 3 4 5", "2006 002", "日本 2006年01月02日", "\xff 2006"}

var badTimes = []string{"", " ", "not a time", "2026-13-01 00:00:00", "2026-02-30 00:00:00", "2026-01-07 25:00:00", "2026-01-07 14:30:00 trailing", "2026-01-07T14:30:00Z", "2026-01-07T14:30:00+25:00",
	"２０２６-01-07", "\xff", "2026-01-07 14:30:60", "10000-01-01 00:00:00", "0000-00-00 00:00:00", "3:04PM", "Mon, 02 Jan 2006 15:04:05 XYZ", "2026-01-07 14:30:00.123456789123"}

func init() {
	reg("time.Add", func(t *T, rng *rand.Rand, boundary bool) {
		ds := []time.Duration{0, 1, -1, time.Second, 2 * time.Hour, -36 * time.Hour, 24 * time.Hour, math.MaxInt64, math.MinInt64, 365 * 24 * time.Hour, 90 * time.Minute}
		if !boundary {
			ds = []time.Duration{time.Duration(rng.Int63()), -time.Duration(rng.Int63n(1e15)), time.Duration(rng.Int63n(1e12))}
		}
		in := timesOf(rng, boundary)
		for _, d := range ds {
			d := d
			mk(t, "time.Add", fmt.Sprintf("(%v)", d), rotime.Add(d), func(v time.Time) (time.Time, error) { return v.Add(d), nil }).run(in)
		}
	})
	reg("time.AddDate", func(t *T, rng *rand.Rand, boundary bool) {
		ps := [][3]int{{0, 0, 0}, {0, 1, 0}, {-1, 0, 0}, {0, 0, -1}, {0, 13, 40}, {1, -14, 400}, {0, 0, 1}, {4, 0, 0}, {0, -1, 0}, {0, 0, 365}, {100, 0, 0}, {0, 1, 1}}
		if !boundary {
			ps = ps[:0]
			for i := 0; i < 6; i++ {
				ps = append(ps, [3]int{rng.Intn(21) - 10, rng.Intn(61) - 30, rng.Intn(801) - 400})
			}
		}
		in := timesOf(rng, boundary)
		for _, p := range ps {
			p := p
			mk(t, "time.AddDate", fmt.Sprintf("(%d, %d, %d)", p[0], p[1], p[2]), rotime.AddDate(p[0], p[1], p[2]), func(v time.Time) (time.Time, error) { return v.AddDate(p[0], p[1], p[2]), nil }).run(in)
		}
	})
	reg("time.Format", func(t *T, rng *rand.Rand, boundary bool) {
		in := timesOf(rng, boundary)
		for _, lay := range layouts {
			lay := lay
			mk(t, "time.Format", fmt.Sprintf("(%q)", lay), rotime.Format(lay), func(v time.Time) (string, error) { return v.Format(lay), nil }).run(in)
		}
		// encoding followed by decoding: RFC3339Nano keeps the instant (years 0..9999)
		var rt []time.Time
		for _, v := range in {
			if v.Year() >= 0 && v.Year() <= 9999 {
				rt = append(rt, v)
			}
		}
		// (historical zones with an offset of odd seconds do not survive the layout in the time package itself)
		mk(t, "time.Format+Parse", "(RFC3339Nano)", compose(rotime.Format(time.RFC3339Nano), rotime.Parse[string](time.RFC3339Nano)),
			func(v time.Time) (time.Time, error) { return time.Parse(time.RFC3339Nano, v.Format(time.RFC3339Nano)) }).withEq(func(a, b time.Time) bool { return a.Equal(b) }).as("round-trip-differs", "time.Parse(layout, t.Format(layout)) called directly (the same instant wherever the layout can express the offset)").run(rt)
	})
	reg("time.In", func(t *T, rng *rand.Rand, boundary bool) {
		in := timesOf(rng, boundary)
		for _, loc := range locs {
			loc := loc
			mk(t, "time.In", "("+loc.String()+")", rotime.In(loc), func(v time.Time) (time.Time, error) { return v.In(loc), nil }).run(in)
		}
	})
	reg("time.StartOfDay", func(t *T, rng *rand.Rand, boundary bool) {
		in := timesOf(rng, boundary)
		mk(t, "time.StartOfDay", "", rotime.StartOfDay(), func(v time.Time) (time.Time, error) {
			y, m, d := v.Date()
			return time.Date(y, m, d, 0, 0, 0, 0, v.Location()), nil
		}).run(in)
	})
	parseInputs := func(rng *rand.Rand, boundary bool, lay string) []string {
		var in []string
		for _, v := range timesOf(rng, boundary) {
			in = append(in, v.Format(lay))
		}
		if boundary {
			in = append(in, badTimes...)
		} else {
			for i := 0; i < 10; i++ {
				s := in[rng.Intn(len(in))]
				if len(s) > 0 {
					b := []byte(s)
					b[rng.Intn(len(b))] = "0123456789:-TZ+ x\xff"[rng.Intn(18)]
					s = string(b)
				}
				in = append(in, s, randText(rng))
			}
		}
		return in
	}
	reg("time.Parse", func(t *T, rng *rand.Rand, boundary bool) {
		for _, lay := range layouts {
			lay := lay
			mk(t, "time.Parse", fmt.Sprintf("(%q)", lay), rotime.Parse[string](lay), func(s string) (time.Time, error) { return time.Parse(lay, s) }).run(parseInputs(rng, boundary, lay))
		}
	})
	reg("time.ParseInLocation", func(t *T, rng *rand.Rand, boundary bool) {
		for i, lay := range layouts {
			lay := lay
			for j, loc := range locs {
				if !boundary && (i+j)%3 != 0 {
					continue
				}
				loc := loc
				mk(t, "time.ParseInLocation", fmt.Sprintf("(%q, %s)", lay, loc), rotime.ParseInLocation[string](lay, loc), func(s string) (time.Time, error) { return time.ParseInLocation(lay, s, loc) }).run(parseInputs(rng, boundary, lay))
			}
		}
	})
}

// ---------------------------------------------------------------- template

type inner struct {
	X, Y  int
	Label string
}

type person struct {
	Name  string         `json:"name"`
	Age   int            `json:"age,omitempty"`
	Tags  []string       `json:"tags"`
	Attrs map[string]int `json:"attrs,omitempty"`
	Score float64
	Inner *inner `json:"inner,omitempty"`
	Raw   []byte
	OK    bool
}

func (p person) Greeting() string { return "hi " + p.Name }

var people = []person{
	{},
	{Name: "Ada", Age: 36, Tags: []string{"a", "b"}, Attrs: map[string]int{"x": 1}, Score: 1.5, Inner: &inner{1, 2, "in"}, Raw: []byte{0, 1, 255}, OK: true},
	{Name: "<script>alert('x')</script>", Age: -1, Tags: []string{}, Attrs: map[string]int{}, Raw: []byte{}},
	{Name: "O'Reilly & \"Sons\"", Tags: []string{"日本語", "😀", ""}, Attrs: map[string]int{"b": 2, "a": 1, "c": 3}, Score: math.MaxFloat64, Inner: &inner{}},
	{Name: "bad\xffutf8", Age: math.MaxInt64, Tags: []string{"\xff"}, Score: -0.0, Raw: []byte("hello world")},
	{Name: strings.Repeat("long ", 500), Tags: make([]string, 3, 10), Score: 1e-300},
	{Name: "javascript:alert(1)", Tags: []string{"x y", "a&b=c"}, OK: true},
}

func randPerson(rng *rand.Rand) person {
	p := person{Name: randText(rng), Age: rng.Intn(200) - 50, Score: randFloat(rng), OK: rng.Intn(2) == 0}
	if p.Score != p.Score || math.IsInf(p.Score, 0) {
		p.Score = 0.25
	}
	for i := rng.Intn(4); i > 0; i-- {
		p.Tags = append(p.Tags, randText(rng))
	}
	if rng.Intn(2) == 0 {
		p.Attrs = map[string]int{}
		for i := rng.Intn(4); i > 0; i-- {
			p.Attrs[randText(rng)] = rng.Intn(100)
		}
	}
	if rng.Intn(2) == 0 {
		p.Inner = &inner{rng.Intn(10), -rng.Intn(10), randText(rng)}
	}
	if rng.Intn(2) == 0 {
		p.Raw = randBytes(rng, rng.Intn(20))
	}
	return p
}

func persons(rng *rand.Rand, boundary bool) []person {
	if boundary {
		return cp(people)
	}
	out := make([]person, 25)
	for i := range out {
		out[i] = randPerson(rng)
	}
	return out
}

var templates = []string{
	"Hello {{.}}!", "{{.Name}} is {{.Age}}", "{{range .Tags}}[{{.}}]{{end}}", "{{if .OK}}yes{{else}}no{{end}}", "{{.Missing}}", "{{index .Tags 5}}", "{{printf \"%05d\" .Age}}",
	"{{.Name | html}}", "plain text", "", "{{len .Name}}", "{{.Age | printf \"%s\"}}", "<a href=\"{{.Name}}\" title='{{.Name}}'>{{.Name}}</a>", "<script>var x = {{.}};</script>",
	"{{.Greeting}}", "{{with .Inner}}{{.Label}}:{{.X}}{{end}}", "{{range $k, $v := .Attrs}}{{$k}}={{$v}};{{end}}", "{{.Inner.Label}}", "{{/* comment */}}日本語 {{.Name}}", "{{template \"nope\" .}}",
	"<p style=\"color: {{.Name}}\">{{.Score}}</p>", "{{ .Raw }}", "{{js .Name}} {{urlquery .Name}}", "{{slice .Name 1 2}}", "{{.Name.Foo}}", "{{and .OK .Name}}", "{{index . \"k\"}}",
}

func templateValues(rng *rand.Rand, boundary bool) []any {
	var vals []any
	for _, p := range persons(rng, boundary) {
		vals = append(vals, p)
		if len(vals)%3 == 0 {
			pp := p
			vals = append(vals, &pp)
		}
	}
	ts := texts(rng, boundary, 10)
	if len(ts) > 25 {
		ts = ts[:25]
	}
	for _, s := range ts {
		vals = append(vals, s)
	}
	vals = append(vals, 42, 3.14, true, nil, []string{"a", "b"}, map[string]any{"Name": "map", "Age": 3, "Tags": []int{1, 2}, "k": "v", "OK": false}, map[string]string{}, []byte("raw"),
		struct {
			Name string
			Age  int
		}{"anon", 7}, (*person)(nil))
	return vals
}

// a template that prints a pointer prints its address: private copies of the input live elsewhere
var ptrText = regexp.MustCompile(`0x[0-9a-f]{6,}`)

func sameButPointers(a, b string) bool {
	return a == b || ptrText.ReplaceAllString(a, "PTR") == ptrText.ReplaceAllString(b, "PTR")
}

func init() {
	reg("template.TextTemplate", func(t *T, rng *rand.Rand, boundary bool) {
		vals := templateValues(rng, boundary)
		ps := persons(rng, boundary)
		for _, src := range templates {
			ref, err := texttemplate.New(src).Parse(src)
			if err != nil {
				continue
			}
			oracle := func(v any) (string, error) {
				var buf bytes.Buffer
				err := ref.Execute(&buf, v)
				return buf.String(), err
			}
			mk(t, "template.TextTemplate", fmt.Sprintf("(%q)", src), rotemplate.TextTemplate[any](src), oracle).withEq(sameButPointers).run(vals)
			mk(t, "template.TextTemplate", fmt.Sprintf("[person](%q)", src), rotemplate.TextTemplate[person](src), func(p person) (string, error) { return oracle(p) }).withEq(sameButPointers).run(ps)
		}
	})
	reg("template.HTMLTemplate", func(t *T, rng *rand.Rand, boundary bool) {
		vals := templateValues(rng, boundary)
		ps := persons(rng, boundary)
		for _, src := range templates {
			ref, err := htmltemplate.New(src).Parse(src)
			if err != nil {
				continue
			}
			oracle := func(v any) (string, error) {
				var buf bytes.Buffer
				err := ref.Execute(&buf, v)
				return buf.String(), err
			}
			mk(t, "template.HTMLTemplate", fmt.Sprintf("(%q)", src), rotemplate.HTMLTemplate[any](src), oracle).withEq(sameButPointers).run(vals)
			mk(t, "template.HTMLTemplate", fmt.Sprintf("[person](%q)", src), rotemplate.HTMLTemplate[person](src), func(p person) (string, error) { return oracle(p) }).withEq(sameButPointers).run(ps)
		}
	})
}

// ---------------------------------------------------------------- base64

type encDef struct {
	name string
	enc  *base64.Encoding
}

var encodings = []encDef{
	{"StdEncoding", base64.StdEncoding}, {"URLEncoding", base64.URLEncoding}, {"RawStdEncoding", base64.RawStdEncoding}, {"RawURLEncoding", base64.RawURLEncoding},
	{"StdEncoding.Strict", base64.StdEncoding.Strict()}, {"custom alphabet, padding '*'", base64.NewEncoding("ABCDEFGHIJKLMNOPQRSTUVWXYZabcdefghijklmnopqrstuvwxyz0123456789-_"[:62] + "!.").WithPadding('*')},
}

func blobs(rng *rand.Rand, boundary bool) [][]byte {
	var out [][]byte
	if boundary {
		for _, n := range []int{0, 1, 2, 3, 4, 5, 6, 7, 56, 57, 58, 255, 1023, 1024, 1025, 5000} {
			out = append(out, spare(string(patternBytes(n)), []int{0, 7}[n%2]))
		}
		out = append(out, spare("\xff\xff\xff", 3), spare("\xfb\xef\xbe", 0), spare("\x00\x00", 1), spare("hello", 0), []byte(nil))
		return out
	}
	for i := 0; i < 40; i++ {
		n := rng.Intn(12)
		if rng.Intn(5) == 0 {
			n = rng.Intn(3000)
		}
		out = append(out, spare(string(randBytes(rng, n)), rng.Intn(9)))
	}
	return out
}

func init() {
	reg("base64.Encode", func(t *T, rng *rand.Rand, boundary bool) {
		in := blobs(rng, boundary)
		for _, e := range encodings {
			e := e
			mk(t, "base64.Encode", "("+e.name+")", robase64.Encode[[]byte](e.enc), func(b []byte) (string, error) { return e.enc.EncodeToString(b), nil }).run(in)
			mk(t, "base64.Encode+Decode", "("+e.name+")", compose(robase64.Encode[[]byte](e.enc), robase64.Decode[string](e.enc)),
				func(b []byte) ([]byte, error) { return b, nil }).withEq(bytesEq).as("round-trip-not-identity", "the identity").run(in)
		}
	})
	reg("base64.Decode", func(t *T, rng *rand.Rand, boundary bool) {
		for ei, e := range encodings {
			e := e
			var in []string
			for _, b := range blobs(rng, boundary) {
				s := e.enc.EncodeToString(b)
				in = append(in, s)
				if len(b) < 60 {
					// the other alphabets / paddings, truncations, foreign characters
					in = append(in, encodings[(ei+1)%len(encodings)].enc.EncodeToString(b), encodings[(ei+2)%len(encodings)].enc.EncodeToString(b))
					if len(s) > 1 {
						in = append(in, s[:len(s)-1], s[1:], s[:len(s)/2]+"\n"+s[len(s)/2:], s[:len(s)/2]+"é"+s[len(s)/2:], s+"=", s+"A")
					}
				}
			}
			in = append(in, "", "=", "====", "A", "AA", "AAA", "AAAA", "AA==", "AB==", "AAA=", "AAB=", "A===", "aGVsbG8=", "aGVsbG8", "aGVs bG8=", "aGVsbG8=\r\n", "aGV$bG8=", "\xff\xff\xff\xff", "日本語日", "-_-_", "+/+/", "AA=A", "=AAA", "aGVsbG8==")
			mk(t, "base64.Decode", "("+e.name+")", robase64.Decode[string](e.enc), func(s string) ([]byte, error) { return e.enc.DecodeString(s) }).withEq(bytesEq).run(in)
		}
	})
}

// ---------------------------------------------------------------- json

func jsonRT[V any](t *T, typ string, vals []V) {
	mk(t, "json.Marshal", "["+typ+"]", rojson.Marshal[V](), func(v V) ([]byte, error) { return json.Marshal(v) }).run(vals)
	mk(t, "json.Marshal+Unmarshal", "["+typ+"]", compose(rojson.Marshal[V](), rojson.Unmarshal[V]()), func(v V) (V, error) {
		var out V
		b, err := json.Marshal(v)
		if err != nil {
			return out, err
		}
		err = json.Unmarshal(b, &out)
		return out, err
	}).as("round-trip-differs", "json.Unmarshal(json.Marshal(x)) called directly").run(vals)
}

func jsonDec[V any](t *T, typ string, docs [][]byte) {
	mk(t, "json.Unmarshal", "["+typ+"]", rojson.Unmarshal[V](), func(b []byte) (V, error) {
		var out V
		err := json.Unmarshal(b, &out)
		return out, err
	}).run(docs)
}

type cyclic struct {
	Name string
	Next *cyclic
}

type withChan struct {
	Name string
	C    chan int
}

type floats2 struct {
	A, B float64
	L    []float64
}

func jsonDocs(rng *rand.Rand, boundary bool) [][]byte {
	var docs []string
	if boundary {
		docs = []string{``, ` `, `null`, `nul`, `true`, `1`, `-0`, `1e400`, `300`, `-129`, `1.5`, `"str"`, `"\ud800"`, `"é"`, "\"\xff\"", `"unterminated`, `{`, `}`, `[1,2`, `[1,2]`, `[1,"a"]`, `{"a":}`, `{"a":1}`, `{"a":1,}`, `{"a":1,"a":2}`,
			`{"name":"Ada","age":36,"tags":["x"],"attrs":{"k":1},"Score":2.5,"inner":{"X":1,"Y":2,"Label":"l"},"Raw":"AAH/","OK":true}`, `{"name":"Ada","age":"x"}`, `{"NAME":"case","Age":3}`, `{"name":null,"tags":null}`, `{"name":"a"} trailing`,
			`{"Raw":"not base64!"}`, `{"age":1.5}`, `{"age":9223372036854775808}`, `{"unknown":[1,{"deep":[true,null]}]}`, `[[[[[[[[[[1]]]]]]]]]]`, strings.Repeat("[", 10001) + strings.Repeat("]", 10001), strings.Repeat("[", 200), `"` + strings.Repeat("é", 3000) + `"`,
			"\ufeff{}", `{"a":"\n"}`, "{\"a\":\"\n\"}", `123abc`, `0123`, `.5`, `+1`, `{"日本":"語"}`, `["` + strings.Repeat("a", 5000) + `"]`}
	} else {
		for i := 0; i < 25; i++ {
			b, _ := json.Marshal(randPerson(rng))
			docs = append(docs, string(b))
			if rng.Intn(2) == 0 && len(b) > 2 {
				c := append([]byte{}, b...)
				c[rng.Intn(len(c))] = "{}[]\",:0a \xff"[rng.Intn(11)]
				docs = append(docs, string(c), string(b[:rng.Intn(len(b))]))
			}
			m, _ := json.Marshal(map[string]any{randText(rng): rng.Intn(100), "l": []any{randText(rng), rng.Float64(), nil}})
			docs = append(docs, string(m))
		}
	}
	out := make([][]byte, len(docs))
	for i, d := range docs {
		out[i] = spare(d, []int{0, 9}[i%2])
	}
	return out
}

func init() {
	reg("json.Marshal", func(t *T, rng *rand.Rand, boundary bool) {
		jsonRT(t, "person", persons(rng, boundary))
		var pp []*person
		for i, p := range persons(rng, boundary) {
			p := p
			pp = append(pp, &p)
			if i%3 == 0 {
				pp = append(pp, nil)
			}
		}
		jsonRT(t, "*person", pp)
		jsonRT(t, "string", texts(rng, boundary, 30))
		jsonRT(t, "float64", floats(rng, boundary)) // NaN and infinities are errors
		var maps []map[string]int
		var anys []any
		var fl []floats2
		for i, s := range texts(rng, boundary, 20) {
			maps = append(maps, map[string]int{s: i, "k": 1, s + "2": -i})
			anys = append(anys, s, i, float64(i)/4, []any{s, i, nil, true}, map[string]any{s: []any{i}}, nil, []byte(s))
			fl = append(fl, floats2{float64(i), -0.5, []float64{1, 2.5}})
		}
		maps = append(maps, nil, map[string]int{})
		fl = append(fl, floats2{A: math.NaN()}, floats2{L: []float64{math.Inf(1)}})
		anys = append(anys, math.NaN(), make(chan int), func() {}, map[int]string{1: "a"}, map[bool]int{true: 1}, complex(1, 2), people[1], &people[3], json.RawMessage(`{"raw":1}`), json.RawMessage(`{bad`), time.Date(2026, 1, 7, 0, 0, 0, 0, time.UTC), time.Date(12345, 1, 1, 0, 0, 0, 0, time.UTC))
		jsonRT(t, "map[string]int", maps)
		mk(t, "json.Marshal", "[any]", rojson.Marshal[any](), func(v any) ([]byte, error) { return json.Marshal(v) }).run(anys)
		jsonRT(t, "struct of floats", fl)
		loop := &cyclic{Name: "a"}
		loop.Next = &cyclic{Name: "b", Next: loop}
		mk(t, "json.Marshal", "[*cyclic]", rojson.Marshal[*cyclic](), func(v *cyclic) ([]byte, error) { return json.Marshal(v) }).run([]*cyclic{{Name: "x"}, {Name: "y", Next: &cyclic{Name: "z"}}, nil})
		// a cyclic value cannot be snapshotted; only the notification is compared
		cl := mk(t, "json.Marshal", "[*cyclic, cyclic value]", rojson.Marshal[*cyclic](), func(v *cyclic) ([]byte, error) { return json.Marshal(loop) })
		runCyclic(t, cl, loop)
		mk(t, "json.Marshal", "[withChan]", rojson.Marshal[withChan](), func(v withChan) ([]byte, error) { return json.Marshal(v) }).run([]withChan{{Name: "a"}, {Name: "b", C: make(chan int)}})
	})
	reg("json.Unmarshal", func(t *T, rng *rand.Rand, boundary bool) {
		docs := jsonDocs(rng, boundary)
		jsonDec[person](t, "person", docs)
		jsonDec[*person](t, "*person", docs)
		jsonDec[map[string]any](t, "map[string]any", docs)
		jsonDec[any](t, "any", docs)
		jsonDec[[]int](t, "[]int", docs)
		jsonDec[string](t, "string", docs)
		jsonDec[float64](t, "float64", docs)
		jsonDec[int8](t, "int8", docs)
		jsonDec[[]any](t, "[]any", docs)
		jsonDec[json.RawMessage](t, "json.RawMessage", docs)
	})
}

// runCyclic subscribes once with a self-referencing value (no snapshots: they would not terminate).
func runCyclic(t *T, l *lift[*cyclic, []byte], loop *cyclic) {
	_, werr := json.Marshal(loop)
	if werr == nil {
		return
	}
	got, err := viaPlugin(l.apply, loop)
	if err == nil {
		t.fail(l.op, l.class, fmt.Sprintf("%s: emitted %s for a cyclic value, json.Marshal reports %q", l.op+l.param, short(deep(got)), werr))
	} else if !errAgrees(err, werr) {
		t.fail(l.op, "error-differs-from-wrapped-function", fmt.Sprintf("%s: Error(%s), json.Marshal reports %q", l.op+l.param, err, werr))
	}
	t.events++
}

// ---------------------------------------------------------------- gob

type unexportedOnly struct{ a, b int }

type gobDoc struct {
	ID    int
	Title string
	Items []inner
	Index map[string][]int
	Ptr   *inner
	Blob  []byte
	F     float64
	C     complex128
	Arr   [3]int8
	When  time.Time
}

func randDoc(rng *rand.Rand) gobDoc {
	d := gobDoc{ID: rng.Intn(1000) - 500, Title: randText(rng), F: randFloat(rng), C: complex(rng.Float64(), -rng.Float64()), Arr: [3]int8{int8(rng.Intn(256) - 128), 1, 0}, When: time.Unix(rng.Int63n(4e9), rng.Int63n(1e9)).UTC()}
	for i := rng.Intn(4); i > 0; i-- {
		d.Items = append(d.Items, inner{rng.Intn(5), rng.Intn(5), randText(rng)})
	}
	if rng.Intn(2) == 0 {
		d.Index = map[string][]int{}
		for i := 1 + rng.Intn(3); i > 0; i-- {
			d.Index[randText(rng)] = []int{rng.Intn(9), rng.Intn(9)}
		}
	}
	if rng.Intn(2) == 0 {
		d.Ptr = &inner{1 + rng.Intn(5), 2, "p"}
	}
	if rng.Intn(2) == 0 {
		d.Blob = randBytes(rng, 1+rng.Intn(30))
	}
	return d
}

func gobDocs(rng *rand.Rand, boundary bool) []gobDoc {
	if boundary {
		return []gobDoc{
			{},
			{ID: 1, Title: "t", Items: []inner{{1, 2, "a"}, {}}, Index: map[string][]int{"a": {1}, "b": {2, 3}, "c": nil}, Ptr: &inner{1, 2, "p"}, Blob: []byte{0, 255}, F: math.Pi, C: complex(1, -1), Arr: [3]int8{-128, 0, 127}, When: time.Date(2026, 1, 7, 14, 30, 0, 5, time.UTC)},
			{ID: math.MinInt64, Title: "日本語 \xff bad", Items: []inner{}, Index: map[string][]int{}, Ptr: &inner{}, Blob: []byte{}, F: math.NaN(), C: complex(math.Inf(1), 0)},
			{ID: math.MaxInt64, Title: strings.Repeat("x", 5000), Blob: patternBytes(3000), F: math.Copysign(0, -1), When: time.Date(2025, 3, 30, 3, 0, 0, 0, locParis)},
		}
	}
	out := make([]gobDoc, 20)
	for i := range out {
		out[i] = randDoc(rng)
	}
	return out
}

func gobEncodeDirect[V any](v V) ([]byte, error) {
	var w bytes.Buffer
	err := gob.NewEncoder(&w).Encode(v)
	return w.Bytes(), err
}

func gobDecodeDirect[V any](b []byte) (V, error) {
	var out V
	err := gob.NewDecoder(bytes.NewBuffer(b)).Decode(&out)
	return out, err
}

// gobSame: identical bytes, or (maps are written in iteration order) bytes that decode to the same value.
func gobSame[V any](got, want []byte) bool {
	if bytes.Equal(got, want) {
		return true
	}
	if len(got) != len(want) {
		return false
	}
	a, errA := gobDecodeDirect[V](got)
	b, errB := gobDecodeDirect[V](want)
	return errA == nil && errB == nil && (reflect.DeepEqual(a, b) || deep(a) == deep(b)) // (NaN is not DeepEqual to itself)
}

func gobRT[V any](t *T, typ string, vals []V) {
	mk(t, "gob.Encode", "["+typ+"]", rogob.Encode[V](), gobEncodeDirect[V]).withEq(gobSame[V]).run(vals)
	mk(t, "gob.Encode+Decode", "["+typ+"]", compose(rogob.Encode[V](), rogob.Decode[V]()), func(v V) (V, error) {
		b, err := gobEncodeDirect(v)
		if err != nil {
			var z V
			return z, err
		}
		return gobDecodeDirect[V](b)
	}).withEq(func(a, b V) bool { return reflect.DeepEqual(a, b) || deep(a) == deep(b) }).as("round-trip-differs", "gob decode(encode(x)) called directly").run(vals)
}

func gobDec[V any](t *T, typ string, blobs [][]byte) {
	mk(t, "gob.Decode", "["+typ+"]", rogob.Decode[V](), gobDecodeDirect[V]).withEq(func(a, b V) bool { return reflect.DeepEqual(a, b) || deep(a) == deep(b) }).run(blobs)
}

func gobBlobs(rng *rand.Rand, boundary bool) [][]byte {
	var out [][]byte
	add := func(b []byte, err error) {
		if err != nil {
			return
		}
		out = append(out, spare(string(b), len(out)%3*4))
		if len(b) > 4 {
			out = append(out, spare(string(b[:len(b)-1]), 2), spare(string(b[:len(b)/2]), 0), spare(string(b[1:]), 0))
			c := append([]byte{}, b...)
			c[rng.Intn(len(c))] ^= byte(1 << uint(rng.Intn(8)))
			out = append(out, c)
			out = append(out, append(append([]byte{}, b...), b...)) // two messages: only the first value is decoded
		}
	}
	for _, d := range gobDocs(rng, boundary) {
		add(gobEncodeDirect(d))
	}
	for _, p := range persons(rng, boundary)[:3] {
		add(gobEncodeDirect(p))
	}
	add(gobEncodeDirect("a string"))
	add(gobEncodeDirect(12345))
	add(gobEncodeDirect([]string{"a", "b"}))
	add(gobEncodeDirect(map[string]int{"a": 1}))
	add(gobEncodeDirect(3.25))
	out = append(out, []byte{}, nil, []byte{0}, []byte{1}, []byte{0xff}, []byte{0xff, 0xff, 0xff, 0xff}, []byte{3, 4, 0, 2}, []byte{0xf8, 0x7f, 0xff, 0xff, 0xff, 0xff, 0xff, 0xff, 0xff}, []byte("plain text"), bytes.Repeat([]byte{0x7f}, 100))
	n := 6
	if boundary {
		n = 12
	}
	for i := 0; i < n; i++ {
		out = append(out, randBytes(rng, 1+rng.Intn(40)))
	}
	return out
}

func init() {
	reg("gob.Encode", func(t *T, rng *rand.Rand, boundary bool) {
		docs := gobDocs(rng, boundary)
		gobRT(t, "gobDoc", docs)
		var ptrs []*gobDoc
		for i := range docs {
			d := docs[i]
			ptrs = append(ptrs, &d)
		}
		ptrs = append(ptrs, nil) // gob refuses a nil pointer
		gobRT(t, "*gobDoc", ptrs)
		gobRT(t, "person", persons(rng, boundary))
		gobRT(t, "string", texts(rng, boundary, 20))
		gobRT(t, "float64", floats(rng, boundary))
		var ints []int
		for _, v := range int64s(rng, boundary) {
			ints = append(ints, int(v))
		}
		gobRT(t, "int", ints)
		gobRT(t, "[]byte", blobs(rng, boundary))
		var sl [][]string
		var maps []map[string]int
		for i, s := range texts(rng, boundary, 12) {
			sl = append(sl, []string{s, "x", s + s}[:1+i%3])
			maps = append(maps, map[string]int{s: i, "k": i + 1})
		}
		sl = append(sl, nil, []string{})
		maps = append(maps, nil, map[string]int{})
		gobRT(t, "[]string", sl)
		gobRT(t, "map[string]int", maps)
		gobRT(t, "[3]int", [][3]int{{}, {1, 2, 3}, {-1, math.MaxInt64, math.MinInt64}})
		// values gob refuses: the Error notification must carry gob's error
		gobRT(t, "struct without exported fields", []unexportedOnly{{1, 2}})
		gobRT(t, "withChan", []withChan{{Name: "a", C: make(chan int)}})
		gobRT(t, "chan int", []chan int{make(chan int)})
		gobRT(t, "func()", []func(){func() {}})
	})
	reg("gob.Decode", func(t *T, rng *rand.Rand, boundary bool) {
		bl := gobBlobs(rng, boundary)
		gobDec[gobDoc](t, "gobDoc", bl)
		gobDec[*gobDoc](t, "*gobDoc", bl)
		gobDec[person](t, "person", bl)
		gobDec[string](t, "string", bl)
		gobDec[int](t, "int", bl)
		gobDec[[]string](t, "[]string", bl)
		gobDec[map[string]int](t, "map[string]int", bl)
		gobDec[float64](t, "float64", bl)
		gobDec[unexportedOnly](t, "struct without exported fields", bl)
	})
}

var _ = ro.Just[int]
