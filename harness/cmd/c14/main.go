// C14 — downstream termination cancels upstream without waiting for it.
package main

import (
	"context"
	"errors"
	"fmt"
	"math/rand"
	"strings"
	"sync/atomic"
	"time"

	"github.com/samber/ro"
	"verifharness/internal/catalog"
	"verifharness/internal/driver"
	"verifharness/internal/quiesce"
	"verifharness/internal/rec"
	"verifharness/internal/sched"
	"verifharness/internal/src"
)

var cuts = []string{"take1", "take2", "take3", "first", "elementat1", "takewhile-false", "takeuntil", "maperr1", "maperr2", "tap-panic", "unsub1", "unsub2"}

var errCut = errors.New("downstream-callback-error")

func plan(tier string, seed int64) []driver.Case {
	nChains := 150
	if tier == "thorough" {
		nChains = 3000
	}
	rng := rand.New(rand.NewSource(seed))
	var cases []driver.Case
	for _, e := range catalog.All() {
		if e.Flags.Has(catalog.Creation) {
			if e.Flags.Has(catalog.TimeDriven) || e.Flags.Has(catalog.Async) {
				for _, cut := range []string{"ctx", "unsub1", "take1"} {
					cases = append(cases, driver.Case{ID: fmt.Sprintf("creation/%s/%s", e.Name, cut), P: map[string]string{"kind": "creation", "entry": e.Name, "cut": cut}})
				}
			}
			continue
		}
		if e.Op == nil && e.IntObs == nil {
			// non-int outputs: only the external cut applies
			cases = append(cases, driver.Case{ID: fmt.Sprintf("op/%s/unsub1", e.Name), P: map[string]string{"kind": "op", "entry": e.Name, "cut": "unsub1"}})
			continue
		}
		for _, cut := range cuts {
			if e.Flags.Has(catalog.Blocks) && strings.HasPrefix(cut, "unsub") {
				continue // no subscription object is available before Subscribe returns
			}
			cases = append(cases, driver.Case{ID: fmt.Sprintf("op/%s/%s", e.Name, cut), P: map[string]string{"kind": "op", "entry": e.Name, "cut": cut}})
		}
		if e.Op != nil || e.IntObs != nil {
			cases = append(cases, driver.Case{ID: fmt.Sprintf("op/%s/ctx", e.Name), P: map[string]string{"kind": "op", "entry": e.Name, "cut": "ctx"}})
			// "head" sources: never-ending sources that emit one value synchronously while they are
			// being subscribed (a cached value followed by live updates) - the downstream side can
			// terminate before the operator has even got the subscription it must release
			for _, cut := range []string{"take1", "take2", "first", "maperr1", "tap-panic"} {
				cases = append(cases, driver.Case{ID: fmt.Sprintf("op/%s/%s/head", e.Name, cut), P: map[string]string{"kind": "op", "entry": e.Name, "cut": cut, "head": "1"}})
			}
			// one source's teardown panics: the others are released all the same
			if e.NSrc >= 2 && !e.Flags.Has(catalog.Blocks) {
				for mask := 1; mask < 1<<e.NSrc; mask++ {
					for _, cut := range []string{"take1", "take2", "unsub1"} {
						cases = append(cases, driver.Case{ID: fmt.Sprintf("op/%s/%s/tdpanic%d", e.Name, cut, mask), P: map[string]string{"kind": "op", "entry": e.Name, "cut": cut, "tdpanic": fmt.Sprint(mask)}})
					}
				}
			}
		}
	}
	// higher-order operators fed by an asynchronous outer source whose inner observables are
	// never-ending, with and without a value emitted while the inner one is being subscribed
	for _, name := range hoNames {
		for _, cut := range []string{"take1", "take2", "first", "maperr1", "tap-panic", "unsub1"} {
			for _, head := range []string{"", "inner"} {
				for _, oc := range []string{"", "2"} {
					if hoNeedsOuterComplete[name] && oc == "" {
						continue
					}
					cases = append(cases, driver.Case{ID: fmt.Sprintf("ho/%s/%s/head=%s/outer-complete=%s", name, cut, head, oc),
						P: map[string]string{"kind": "ho", "entry": name, "cut": cut, "head": head, "ocomplete": oc}})
				}
			}
		}
	}
	// the downstream side terminates while the operator is still inside the Subscribe call of its
	// last source (that source's subscribe function is held): the subscription it gets back belongs to
	// a stream that is already over and must be released at once
	for _, e := range catalog.All() {
		if e.NSrc < 2 || (e.Op == nil && e.IntObs == nil) || e.Flags.Has(catalog.Blocks) || e.Flags.Has(catalog.Creation) {
			continue
		}
		for _, cut := range []string{"take1", "first", "tap-panic"} {
			cases = append(cases, driver.Case{ID: fmt.Sprintf("held/%s/%s", e.Name, cut), P: map[string]string{"kind": "held", "entry": e.Name, "cut": cut}})
		}
	}
	for _, name := range hoNames {
		if hoNeedsOuterComplete[name] {
			cases = append(cases, driver.Case{ID: fmt.Sprintf("held/ho/%s/unsub", name), P: map[string]string{"kind": "held", "ho": name, "cut": "unsub"}})
		} else {
			cases = append(cases, driver.Case{ID: fmt.Sprintf("held/ho/%s/take1", name), P: map[string]string{"kind": "held", "ho": name, "cut": "take1"}})
		}
	}
	// the periodic sources without anything that ends them: only the cut stops them
	for _, name := range rawPeriodic {
		for _, cut := range []string{"ctx", "ctx-late", "unsub1"} {
			cases = append(cases, driver.Case{ID: fmt.Sprintf("creation-raw/%s/%s", name, cut), P: map[string]string{"kind": "creation", "raw": name, "cut": cut}})
		}
	}
	ch := catalog.Chainable()
	// every operator downstream of a context-aware one: cancelling the subscription context makes
	// ThrowOnContextCancel fail, the error travels through the operator, everything is released and the
	// Subscribe call returns
	for _, e := range ch {
		if e.Family == "ThrowOnContextCancel" {
			continue
		}
		cases = append(cases, driver.Case{ID: fmt.Sprintf("below-ctx-aware/%s/ctx", e.Name), P: map[string]string{"kind": "op", "chain": "ThrowOnContextCancel>" + e.Name, "cut": "ctx"}})
	}
	for i := 0; i < nChains; i++ {
		n := 2 + rng.Intn(2)
		names := make([]string, n)
		for j := range names {
			names[j] = ch[rng.Intn(len(ch))].Name
		}
		cut := cuts[rng.Intn(len(cuts))]
		blocks := false
		for _, nm := range names {
			if catalog.Get(nm).Flags.Has(catalog.Blocks) {
				blocks = true
			}
		}
		if blocks && strings.HasPrefix(cut, "unsub") {
			cut = "take1"
		}
		head := ""
		if i%3 == 2 && !strings.HasPrefix(cut, "unsub") && cut != "takeuntil" {
			head = "1"
		}
		cases = append(cases, driver.Case{ID: fmt.Sprintf("chain/%d/%s/%s%s", i, strings.Join(names, ">"), cut, map[string]string{"": "", "1": "/head"}[head]), P: map[string]string{"kind": "op", "chain": strings.Join(names, ">"), "cut": cut, "head": head}})
	}
	return cases
}

func downstream(cut string, signal ro.Observable[int]) (func(ro.Observable[int]) ro.Observable[int], int) {
	switch cut {
	case "take1":
		return ro.Take[int](1), 1
	case "take2":
		return ro.Take[int](2), 2
	case "take3":
		return ro.Take[int](3), 3
	case "first":
		return ro.First(func(int) bool { return true }), 1
	case "elementat1":
		return ro.ElementAt[int](1), 2
	case "takewhile-false":
		return ro.TakeWhile(func(int) bool { return false }), 1
	case "takeuntil":
		return ro.TakeUntil[int](signal), 0
	case "maperr1", "maperr2":
		n := int(cut[len(cut)-1] - '0')
		return func(o ro.Observable[int]) ro.Observable[int] {
			return ro.Defer(func() ro.Observable[int] {
				k := 0
				return ro.MapErr(func(x int) (int, error) {
					k++
					if k >= n {
						return 0, errCut
					}
					return x, nil
				})(o)
			})
		}, n
	case "tap-panic":
		return ro.TapOnNext(func(int) { panic("downstream-callback-panic") }), 1
	}
	return func(o ro.Observable[int]) ro.Observable[int] { return o }, 0
}

// ---------------------------------------------------------------- higher-order operators

var hoNames = []string{"MergeAll", "MergeMap", "MergeMapWithContext", "MergeMapI", "MergeMapIWithContext", "ConcatAll", "FlatMap", "FlatMapWithContext", "FlatMapI", "FlatMapIWithContext", "CombineLatestAll", "ZipAll"}

// these subscribe their inner observables only once the outer one has completed
var hoNeedsOuterComplete = map[string]bool{"CombineLatestAll": true, "ZipAll": true}

// hoEntry builds, for the generic driver of this check, a pipeline whose source 0 is the outer
// observable (its values pick the inner observable) and whose sources 1..2 are the inner ones.
func hoEntry(name string) *catalog.Entry {
	const k = 2
	e := &catalog.Entry{Name: "ho/" + name, Family: name, NSrc: 1 + k}
	pick := func(b *catalog.B) func(int) ro.Observable[int] {
		return func(i int) ro.Observable[int] {
			if i < 0 {
				i = -i
			}
			return b.S(1 + i%k)
		}
	}
	size := ro.Map(func(v []int) int { return len(v) })
	switch name {
	case "ConcatAll", "FlatMap", "FlatMapWithContext", "FlatMapI", "FlatMapIWithContext":
		e.Flags |= catalog.Blocks
	}
	e.IntObs = func(b *catalog.B) ro.Observable[int] {
		outer, f := b.S(0), pick(b)
		switch name {
		case "MergeAll":
			return ro.MergeAll[int]()(ro.Map(f)(outer))
		case "ConcatAll":
			return ro.ConcatAll[int]()(ro.Map(f)(outer))
		case "CombineLatestAll":
			return size(ro.CombineLatestAll[int]()(ro.Map(f)(outer)))
		case "ZipAll":
			return size(ro.ZipAll[int]()(ro.Map(f)(outer)))
		case "MergeMap":
			return ro.MergeMap(f)(outer)
		case "MergeMapWithContext":
			return ro.MergeMapWithContext(func(_ context.Context, i int) ro.Observable[int] { return f(i) })(outer)
		case "MergeMapI":
			return ro.MergeMapI(func(i int, _ int64) ro.Observable[int] { return f(i) })(outer)
		case "MergeMapIWithContext":
			return ro.MergeMapIWithContext(func(ctx context.Context, i int, _ int64) (context.Context, ro.Observable[int]) { return ctx, f(i) })(outer)
		case "FlatMap":
			return ro.FlatMap(f)(outer)
		case "FlatMapWithContext":
			return ro.FlatMapWithContext(func(_ context.Context, i int) ro.Observable[int] { return f(i) })(outer)
		case "FlatMapI":
			return ro.FlatMapI(func(i int, _ int64) ro.Observable[int] { return f(i) })(outer)
		case "FlatMapIWithContext":
			return ro.FlatMapIWithContext(func(_ context.Context, i int, _ int64) ro.Observable[int] { return f(i) })(outer)
		}
		panic("c14: unknown higher-order operator " + name)
	}
	return e
}

// runHeld: see the plan. For higher-order operators the held subscribe function is the one of an
// inner source; for CombineLatestAll / ZipAll (which subscribe their inner sources when the outer one
// completes and emit only when all have emitted) the stream is ended by Unsubscribe instead.
func runHeld(c driver.Case) driver.Result {
	var e *catalog.Entry
	if h := c.Get("ho"); h != "" {
		e = hoEntry(h)
	} else {
		e = catalog.Get(c.Get("entry"))
	}
	cut := c.Get("cut")
	res := driver.Result{Verdict: driver.Held, Sig: "held/" + e.Name + "/" + cut}
	b := &catalog.B{}
	var srcs []*src.Source
	hold := make(chan struct{})
	inside := make(chan int, 8)
	var entered atomic.Int64
	isHO := c.Get("ho") != ""
	for i := 0; i < e.NSrc; i++ {
		i := i
		s := src.New(fmt.Sprintf("s%d", i))
		s.OnSubscribe = func(int, int64, context.Context) {
			n := entered.Add(1)
			last := int(n) == e.NSrc
			if isHO {
				last = i > 0 && n == 2 // the first inner source that gets subscribed
			}
			if last {
				inside <- i
				<-hold
			}
		}
		srcs = append(srcs, s)
		b.Srcs = append(b.Srcs, s.Observable())
	}
	var o ro.Observable[int]
	if e.Op != nil {
		o = e.Op(b)(b.S(0))
	} else {
		o = e.IntObs(b)
	}
	signal := src.New("signal")
	d, _ := downstream(cut, signal.Observable())
	r := rec.New(e.Name)
	var sub ro.Subscription
	subDone := make(chan struct{})
	go func() {
		defer close(subDone)
		defer func() { recover() }()
		sub = catalog.P(d(o)).Subscribe(context.Background(), r, false)
	}()
	what := fmt.Sprintf("%s followed by %s; the downstream side ends while the subscribe function of one source is still running", e.Name, cut)
	released := false
	release := func() {
		if !released {
			released = true
			close(hold)
		}
	}
	defer release()
	send := func(s *src.Source, n src.Notif) {
		go func() { defer func() { recover() }(); s.Send(n) }()
		quiesce.Settle(300 * time.Millisecond)
	}
	heldIdx := -1
	if isHO {
		// the outer source picks inner source 1, (for the …All operators) then completes
		select {
		case <-subDone:
		case <-time.After(3 * time.Second):
		}
		send(srcs[0], src.Notif{K: rec.Next, V: 0})
		if hoNeedsOuterComplete[c.Get("ho")] {
			send(srcs[0], src.Notif{K: rec.Next, V: 1})
			send(srcs[0], src.Notif{K: rec.Complete})
		}
	}
	select {
	case heldIdx = <-inside:
	case <-time.After(3 * time.Second):
		res.Extra = map[string]int64{"no_subscribe_function_held": 1}
		cleanup(sub, srcs)
		return res
	}
	// end the stream
	if cut == "unsub" {
		select {
		case <-subDone:
			func() { defer func() { recover() }(); sub.Unsubscribe() }()
		case <-time.After(time.Second):
		}
	} else {
		for i, s := range srcs {
			if i != heldIdx && s.IsSubscribed() && s.Live.Load() > 0 && !(isHO && i == 0) {
				send(s, src.Notif{K: rec.Next, V: 1})
			}
		}
		if isHO {
			// no other inner source is subscribed yet: a second outer value brings one in
			send(srcs[0], src.Notif{K: rec.Next, V: 1})
			for i, s := range srcs {
				if i > 0 && i != heldIdx && s.IsSubscribed() && s.Live.Load() > 0 {
					send(s, src.Notif{K: rec.Next, V: 1})
				}
			}
		}
	}
	over := r.Terminal() != rec.Next || (cut == "unsub" && sub != nil && sub.IsClosed())
	release()
	st, dump, _ := quiesce.Call(func() { <-subDone }, 10*time.Second)
	if st == quiesce.Hung {
		res.Verdict, res.Key, res.Dirty, res.Witness = driver.Violated, "C14/"+e.Family+"/subscribe-never-returns/"+quiesce.BlockedSite(dump), true, dump
		res.Msg = what + ": Subscribe never returns; all goroutines blocked"
		return res
	}
	_, settled := quiesce.Settle(10 * time.Second)
	res.Events = int64(r.Len()) + entered.Load()
	res.Sample = map[string]any{"pipeline": e.Name, "cut": cut, "held_source": heldIdx, "downstream_over_while_held": over, "trace": r.TraceString(), "sources": summarize(srcs)}
	if !over {
		// the operator gave the downstream side nothing to terminate on (it waits for every source): nothing to judge
		res.Extra = map[string]int64{"downstream_not_over_while_held": 1}
		cleanup(sub, srcs)
		return res
	}
	res.Nontrivial = true
	for _, s := range srcs {
		if e.Flags.Has(catalog.KeepsSource) {
			break
		}
		if s.IsSubscribed() && s.Live.Load() > 0 && settled {
			res.Verdict, res.Key, res.Dirty = driver.Violated, "C14/"+e.Family+"/upstream-not-released", true
			res.Msg = fmt.Sprintf("%s (trace [%s], held source s%d): source %s is still subscribed after its subscribe function returned into a stream that was already over: %s", what, r.TraceString(), heldIdx, s.Name, s.Summary())
			cleanup(sub, srcs)
			return res
		}
	}
	cleanup(sub, srcs)
	return res
}

func runOp(c driver.Case) driver.Result {
	var e *catalog.Entry
	var chain []*catalog.Entry
	name, fam := "", "chain"
	if ch := c.Get("chain"); ch != "" {
		for _, n := range strings.Split(ch, ">") {
			chain = append(chain, catalog.Get(n))
		}
		e, chain, name = chain[0], chain[1:], ch
		// the family of the first blocking operator names the finding, if any
		for _, x := range append([]*catalog.Entry{e}, chain...) {
			if x.Flags.Has(catalog.Blocks) {
				fam = canonBlocking(x.Family)
				break
			}
		}
	} else {
		if c.Get("kind") == "ho" {
			e = hoEntry(c.Get("entry"))
		} else {
			e = catalog.Get(c.Get("entry"))
		}
		name, fam = e.Name, e.Family
		if e.Flags.Has(catalog.Blocks) {
			fam = canonBlocking(e.Family)
		}
	}
	flags := e.Flags
	for _, x := range chain {
		flags |= x.Flags
	}
	cut := c.Get("cut")
	res := driver.Result{Verdict: driver.Held}
	b := &catalog.B{}
	var srcs []*src.Source
	for i := 0; i < e.NSrc; i++ {
		s := src.New(fmt.Sprintf("s%d", i)) // never-ending: emits only when the harness says so
		if c.Get("tdpanic") != "" && c.Int("tdpanic")&(1<<i) != 0 {
			s.PanicInTeardown = fmt.Sprintf("teardown of source %d panics", i)
		}
		if c.Get("head") == "1" || (c.Get("head") == "inner" && i > 0) {
			s.Scripts = []src.Script{{src.Notif{K: rec.Next, V: 1}}} // plus one value during Subscribe
		}
		srcs = append(srcs, s)
		b.Srcs = append(b.Srcs, s.Observable())
	}
	signal := src.New("signal")
	var p catalog.Pipeline
	needed := 0
	if e.Op != nil || e.IntObs != nil {
		var o ro.Observable[int]
		if e.Op != nil {
			o = e.Op(b)(b.S(0))
		} else {
			o = e.IntObs(b)
		}
		for _, x := range chain {
			o = x.Op(b)(o)
		}
		d, n := downstream(cut, signal.Observable())
		needed = n
		p = catalog.P(d(o))
	} else {
		p = e.Pipeline(b)
	}
	r := rec.New(name)
	ctx, cancel := context.WithCancel(context.WithValue(context.Background(), rec.SubKey, "sub"))
	defer cancel()
	var sub ro.Subscription
	subDone := make(chan struct{})
	go func() {
		defer close(subDone)
		defer func() { recover() }()
		sub = p.Subscribe(ctx, r, false)
	}()
	returned := func() bool {
		select {
		case <-subDone:
			return true
		default:
			return false
		}
	}
	quiesce.Settle(time.Second)
	what := fmt.Sprintf("%s followed by %s over never-ending source(s)", name, cut)
	fail := func(key, msg string, dump string) driver.Result {
		res.Verdict, res.Key = driver.Violated, "C14/"+fam+"/"+key
		res.Msg = what + ": " + msg
		if dump != "" {
			res.Witness = dump
		}
		res.Dirty = true
		return res
	}
	// A higher-order operator that waits for its inner observable inside Next keeps the outer
	// producer's call open as long as the inner one runs - legitimately. The driver must not sit in
	// that call itself (it could never feed the inner source): the outer value is sent from a
	// goroutine of its own, and that the call returns is checked once the downstream side is over.
	asyncOuter := c.Get("kind") == "ho" && e.Flags.Has(catalog.Blocks)
	var pending []chan struct{}
	emit := func(s *src.Source, n src.Notif) bool {
		if !s.IsSubscribed() || s.Live.Load() == 0 {
			return true
		}
		if asyncOuter && s == srcs[0] {
			done := make(chan struct{})
			pending = append(pending, done)
			go func() {
				defer close(done)
				defer func() { recover() }()
				s.Send(n)
			}()
			quiesce.Settle(300 * time.Millisecond)
			return true
		}
		st, dump, _ := quiesce.Call(func() { defer func() { recover() }(); s.Send(n) }, 10*time.Second)
		if st == quiesce.Hung {
			fail("", fmt.Sprintf("emitting %s into %s never returned; all goroutines blocked", n, s.Name), dump)
			res.Key = "C14/hang/" + quiesce.BlockedSite(dump)
			return false
		}
		if flags.Has(catalog.Blocks) || flags.Has(catalog.HandOff) || flags.Has(catalog.Async) {
			quiesce.Settle(300 * time.Millisecond)
		}
		return st == quiesce.Returned
	}
	closed := func() bool { return r.Terminal() != rec.Next || (sub != nil && sub.IsClosed()) }
	emissions := 0
	// drive the sources until the downstream side terminates (or the budget is spent)
	switch {
	case strings.HasPrefix(cut, "unsub"):
		n := int(cut[len(cut)-1] - '0')
		for v := 0; v < n; v++ {
			for _, s := range srcs {
				if !emit(s, src.Notif{K: rec.Next, V: v % 3}) {
					return res
				}
				emissions++
			}
		}
		if !returned() {
			return fail("subscribe-did-not-return-with-silent-sources", "Subscribe has not returned although no source is blocking", "")
		}
		st, dump, _ := quiesce.Call(func() { sub.Unsubscribe() }, 10*time.Second)
		if st == quiesce.Hung {
			return fail("unsubscribe-never-returns/"+quiesce.BlockedSite(dump), "Unsubscribe never returned; all goroutines blocked", dump)
		}
	case cut == "ctx":
		for _, s := range srcs {
			if !emit(s, src.Notif{K: rec.Next, V: 1}) {
				return res
			}
			emissions++
		}
		cancel()
	case cut == "takeuntil":
		for _, s := range srcs {
			if !emit(s, src.Notif{K: rec.Next, V: 1}) {
				return res
			}
			emissions++
		}
		if !emit(signal, src.Notif{K: rec.Next, V: 1}) {
			return res
		}
	default:
		for round := 0; round < 8 && !closed(); round++ {
			if oc := c.Get("ocomplete"); oc != "" && fmt.Sprint(round) == oc {
				if !emit(srcs[0], src.Notif{K: rec.Complete}) {
					return res
				}
			}
			for _, s := range srcs {
				if closed() {
					break
				}
				if !emit(s, src.Notif{K: rec.Next, V: round % 3}) {
					return res
				}
				emissions++
			}
		}
	}
	if flags.Has(catalog.Async) || flags.Has(catalog.HandOff) || flags.Has(catalog.TimeDriven) {
		time.Sleep(8 * time.Millisecond)
	}
	_, settled := quiesce.Settle(15 * time.Second)
	res.Events = int64(r.Len()) + int64(emissions)
	res.Sig = name + "/" + cut + "→" + r.TraceString()
	terminated := r.Terminal() != rec.Next || strings.HasPrefix(cut, "unsub")
	if cut == "ctx" {
		// only context-aware operators are required to react to the cancellation
		aware := false
		for _, x := range append([]*catalog.Entry{e}, chain...) {
			if x.Family == "ThrowOnContextCancel" || x.Family == "RetryWithConfig" {
				aware = true
			}
		}
		if !aware {
			res.Nontrivial = false
			res.Extra = map[string]int64{"ctx_cancel_on_non_context_aware_operator": 1}
			cleanup(sub, srcs)
			return res
		}
		terminated = true
	}
	if cut == "takeuntil" {
		// the notifier's value was delivered (its emission returned): TakeUntil ends the stream by itself,
		// whatever the operator upstream of it lets through
		terminated = true
	}
	_ = needed
	if !terminated {
		// the operator under test never let the downstream side terminate (e.g. it waits for completion): nothing to judge
		res.Extra = map[string]int64{"downstream_never_terminated": 1}
		cleanup(sub, srcs)
		select {
		case <-subDone:
		case <-time.After(time.Second):
			res.Dirty = true
		}
		return res
	}
	res.Nontrivial = true
	res.Sample = map[string]any{"pipeline": name, "cut": cut, "emissions_before_cut": emissions, "trace": r.TraceString(), "sources": summarize(srcs)}
	// 1. every upstream source has been released as a direct consequence
	for _, s := range srcs {
		if flags.Has(catalog.KeepsSource) {
			break // documented: the shared upstream subscription outlives its subscribers
		}
		if s.IsSubscribed() && s.Live.Load() > 0 {
			dump := ""
			if !returned() {
				for _, g := range quiesce.Dump() {
					if strings.Contains(g.Stack, "/repo/") {
						dump += g.Stack + "\n\n"
					}
				}
			}
			if !settled {
				return fail("upstream-not-released-and-still-running", fmt.Sprintf("the downstream side terminated (trace [%s]) but source %s is still subscribed and goroutines keep running (%s)", r.TraceString(), s.Name, s.Summary()), dump)
			}
			return fail("upstream-not-released", fmt.Sprintf("the downstream side terminated (trace [%s]) but source %s is still subscribed: %s; Subscribe returned: %v", r.TraceString(), s.Name, s.Summary(), returned()), dump)
		}
	}
	for _, done := range pending {
		done := done
		st, dump, _ := quiesce.Call(func() { <-done }, 10*time.Second)
		if st == quiesce.Hung {
			return fail("producer-call-never-returns/"+quiesce.BlockedSite(dump), "every source is released but the outer producer's Next call, which was waiting for an inner observable, never returns; all goroutines blocked", dump)
		}
	}
	// 2. the Subscribe call that was running inside the pipeline has returned
	if !returned() {
		st, dump, _ := quiesce.Call(func() { <-subDone }, 10*time.Second)
		if st == quiesce.Hung {
			return fail("subscribe-never-returns/"+quiesce.BlockedSite(dump), "every source is released but the Subscribe call never returns; all goroutines blocked", dump)
		}
	}
	if !settled {
		return fail("goroutines-keep-running-after-termination", "the process does not become quiescent after the downstream side terminated", "")
	}
	res.Dirty = false
	return res
}

// canonBlocking folds the variants of an operator that waits inside Subscribe
// (WhileI, WhileWithContext… → While; ConcatAll, ConcatWith → Concat).
func canonBlocking(f string) string {
	f = strings.TrimSuffix(f, "WithContext")
	f = strings.TrimSuffix(f, "I")
	switch {
	case strings.HasPrefix(f, "Concat"):
		return "Concat"
	case strings.HasPrefix(f, "Retry"):
		return "Retry"
	case strings.HasPrefix(f, "DoWhile"):
		return "DoWhile"
	case strings.HasPrefix(f, "While"):
		return "While"
	}
	return f
}

func summarize(srcs []*src.Source) []string {
	var out []string
	for _, s := range srcs {
		out = append(out, s.Summary())
	}
	return out
}

func cleanup(sub ro.Subscription, srcs []*src.Source) {
	for round := 0; round < 3; round++ {
		for _, s := range srcs {
			if s.IsSubscribed() && s.Live.Load() > 0 {
				func() { defer func() { recover() }(); quiesce.Call(func() { s.Complete() }, 2*time.Second) }()
			}
		}
	}
	if sub != nil {
		func() { defer func() { recover() }(); sub.Unsubscribe() }()
	}
}

var rawPeriodic = []string{"Interval(1ms)", "IntervalWithInitial(1ms,1ms)", "IntervalWithInitial(0,1ms)", "IntervalWithInitial(3ms,1ms)"}

func rawEntry(name string) *catalog.Entry {
	e := &catalog.Entry{Name: name, Family: strings.SplitN(name, "(", 2)[0], Flags: catalog.Creation | catalog.TimeDriven | catalog.Async}
	e.Build = func(*catalog.B) catalog.Pipeline {
		switch name {
		case "Interval(1ms)":
			return catalog.P(ro.Interval(time.Millisecond))
		case "IntervalWithInitial(0,1ms)":
			return catalog.P(ro.IntervalWithInitial(0, time.Millisecond))
		case "IntervalWithInitial(3ms,1ms)":
			return catalog.P(ro.IntervalWithInitial(3*time.Millisecond, time.Millisecond))
		}
		return catalog.P(ro.IntervalWithInitial(time.Millisecond, time.Millisecond))
	}
	return e
}

func runCreation(c driver.Case) driver.Result {
	var e *catalog.Entry
	if raw := c.Get("raw"); raw != "" {
		e = rawEntry(raw)
	} else {
		e = catalog.Get(c.Get("entry"))
	}
	cut := c.Get("cut")
	if cut == "ctx-late" {
		// the cancellation comes once the source is in its steady state (several ticks delivered)
		defer func(t0 time.Time) {}(time.Now())
	}
	res := driver.Result{Verdict: driver.Held}
	before := map[string]bool{}
	for _, g := range quiesce.Dump() {
		before[g.ID] = true
	}
	r := rec.New(e.Name)
	ctx, cancel := context.WithCancel(context.Background())
	defer cancel()
	var p catalog.Pipeline = e.Pipeline(&catalog.B{})
	var sub ro.Subscription
	subDone := make(chan struct{})
	go func() {
		defer close(subDone)
		defer func() { recover() }()
		sub = p.Subscribe(ctx, r, false)
	}()
	time.Sleep(1500 * time.Microsecond)
	if cut == "ctx-late" {
		deadline := time.Now().Add(2 * time.Second)
		for r.Len() < 3 && time.Now().Before(deadline) {
			time.Sleep(300 * time.Microsecond)
		}
		cut = "ctx"
	}
	switch cut {
	case "ctx":
		cancel()
	case "unsub1":
		select {
		case <-subDone:
			sub.Unsubscribe()
		case <-time.After(2 * time.Second):
		}
	case "take1":
		// wait for the first value, then cut from outside as Take would
		deadline := time.Now().Add(2 * time.Second)
		for r.Len() == 0 && time.Now().Before(deadline) {
			time.Sleep(200 * time.Microsecond)
		}
		select {
		case <-subDone:
			sub.Unsubscribe()
		case <-time.After(2 * time.Second):
		}
	}
	st, dump, _ := quiesce.Call(func() { <-subDone }, 10*time.Second)
	res.Events, res.Nontrivial = int64(r.Len())+1, true
	res.Sig = e.Name + "/" + cut + "→" + fmt.Sprint(r.Len())
	if st == quiesce.Hung {
		res.Verdict, res.Key, res.Dirty = driver.Violated, "C14/"+e.Family+"/subscribe-never-returns-after-"+cut, true
		res.Msg = fmt.Sprintf("%s: Subscribe does not return after %s; all goroutines blocked (%s)", e.Name, cut, quiesce.BlockedSite(dump))
		res.Witness = dump
		return res
	}
	n0 := r.Len()
	time.Sleep(6 * time.Millisecond) // several periods of the 1 ms timers
	gs, settled := quiesce.Settle(15 * time.Second)
	late := 0
	for _, ev := range r.Events()[n0:] {
		if ev.Kind == rec.Next {
			late++
		}
	}
	// After Unsubscribe one value may have been in flight. A cancelled context is noticed by the
	// emitting goroutine at its next select, which picks at random between the cancellation and a
	// tick that is pending as well - on a loaded machine several times in a row (each with probability
	// 1/2): for cancellation only "stops" is asserted (the goroutine scan below), plus a bound that a
	// stopped source exceeds with probability 2^-40.
	limit := 1
	if cut == "ctx" {
		limit = 40
	}
	if late > limit {
		res.Verdict, res.Key = driver.Violated, "C14/"+e.Family+"/keeps-emitting-after-"+cut
		res.Msg = fmt.Sprintf("%s: %d values were delivered after %s", e.Name, late, cut)
		return res
	}
	if !settled {
		res.Verdict, res.Key, res.Dirty = driver.Violated, "C14/"+e.Family+"/goroutines-keep-running-after-"+cut, true
		res.Msg = fmt.Sprintf("%s: goroutines keep running after %s", e.Name, cut)
		return res
	}
	for _, g := range gs {
		if !before[g.ID] && strings.Contains(g.Stack, "/repo/") {
			res.Verdict, res.Key, res.Dirty = driver.Violated, "C14/"+e.Family+"/goroutine-left-after-"+cut, true
			res.Msg = fmt.Sprintf("%s: a library goroutine is still parked after %s: [%s]", e.Name, cut, g.State)
			res.Witness = g.Stack
			return res
		}
	}
	res.Sample = map[string]any{"source": e.Name, "cut": cut, "delivered": r.Len()}
	return res
}

func runCase(c driver.Case) driver.Result {
	rec.ResetHooks()
	if c.Get("kind") == "creation" {
		return runCreation(c)
	}
	if c.Get("kind") == "held" {
		return runHeld(c)
	}
	return runOp(c)
}

func main() {
	driver.Main(driver.Property{
		ID:        "C14",
		Level:     "exploration",
		Rule:      "every catalogue operator O (alone and in random chains, blocking operators included — Subscribe runs on a harness goroutine) between never-ending controllable source(s) (a puppet that emits only when the harness tells it to, so 'without the source having to end or emit again' is literal) and an early-terminating downstream D ∈ {Take 1/2/3, First, ElementAt(1), TakeWhile(false), TakeUntil(signal), MapErr failing at the 1st/2nd value, a panicking Tap, external Unsubscribe after 1/2 values, cancellation of the subscription context for context-aware operators}; time-driven/asynchronous creation operators cut by Unsubscribe / context cancellation. After the cut no further emission is made. Oracle after quiescence: every subscribed source has been released (teardown ran), the harness's Subscribe call has returned, no library goroutine keeps running; 'never returns' is decided by the all-goroutines-blocked proof, never by a deadline. Cases in which O never lets D terminate (operators that wait for completion) are counted as trivial. Non-trivial: the downstream side did terminate. Also: sources that emit one value inside their subscribe function before becoming never-ending (head), higher-order operators (MergeAll, MergeMap*, ConcatAll, FlatMap*, CombineLatestAll, ZipAll) with an asynchronous outer source and never-ending inner sources (outer value of waiting operators sent from its own goroutine; that call must return once the downstream side is over), and multi-source entries where a subset of the sources has a panicking teardown.",
		Assume:    []string{"a watchdog expiry without a blocked-process proof is inconclusive"},
		Plan:      plan,
		Run:       runCase,
		CaseWatch: 90 * time.Second,
		Setup: func() {
			rec.Install()
			sched.Install()
		},
	})
}
