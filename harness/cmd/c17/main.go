// C17 — bridges to slices, maps and channels are exact and close exactly once.
package main

import (
	"context"
	"fmt"
	"strings"
	"sync"
	"sync/atomic"
	"time"

	"github.com/samber/ro"
	"verifharness/internal/catalog"
	"verifharness/internal/driver"
	"verifharness/internal/quiesce"
	"verifharness/internal/rec"
	"verifharness/internal/sched"
	"verifharness/internal/src"
)

func plan(tier string, seed int64) []driver.Case {
	maxVals, maxCap := 3, 2
	if tier == "thorough" {
		maxVals, maxCap = 5, 3
	}
	var cases []driver.Case
	for _, sc := range src.LegalScripts([]int{1, 2}, maxVals) {
		nEv := len(sc)
		for cp := 0; cp <= maxCap; cp++ {
			for _, drive := range []string{"sync", "puppet"} {
				for _, reader := range []string{"eager", "stop1", "stop2", "never"} {
					cases = append(cases, driver.Case{ID: fmt.Sprintf("tochannel/%s/cap%d/%s/%s/nocut", sc, cp, drive, reader),
						P: map[string]string{"kind": "tochannel", "script": sc.String(), "cap": fmt.Sprint(cp), "drive": drive, "reader": reader, "cut": "-1"}})
				}
				if drive == "puppet" {
					for cut := 0; cut <= nEv; cut++ {
						for _, reader := range []string{"eager", "never"} {
							cases = append(cases, driver.Case{ID: fmt.Sprintf("tochannel/%s/cap%d/%s/%s/cut%d", sc, cp, drive, reader, cut),
								P: map[string]string{"kind": "tochannel", "script": sc.String(), "cap": fmt.Sprint(cp), "drive": drive, "reader": reader, "cut": fmt.Sprint(cut)}})
						}
					}
				}
			}
			// the subscription context is cancelled (before subscribing / after the first notification): ToChannel
			// carries the whole materialised sequence all the same - only unsubscription cuts it
			nAll := len(sc)
			for _, when := range []string{"before", "mid"} {
				cases = append(cases, driver.Case{ID: fmt.Sprintf("tochannel/%s/cap%d/puppet/eager/cut%d/ctx-cancelled-%s", sc, cp, nAll, when),
					P: map[string]string{"kind": "tochannel", "script": sc.String(), "cap": fmt.Sprint(cp), "drive": "puppet", "reader": "eager", "cut": fmt.Sprint(nAll), "ctxcancel": when}})
			}
			// FromChannel
			n := 0
			for _, x := range sc {
				if x.K == rec.Next {
					n++
				}
			}
			_, end := sc.Values()
			if end != rec.Error {
				for cut := -1; cut <= n; cut++ {
					cases = append(cases, driver.Case{ID: fmt.Sprintf("fromchannel/n%d/closed=%v/cap%d/cut%d", n, end == rec.Complete, cp, cut),
						P: map[string]string{"kind": "fromchannel", "n": fmt.Sprint(n), "closed": fmt.Sprint(end == rec.Complete), "cap": fmt.Sprint(cp), "cut": fmt.Sprint(cut)}})
				}
			}
		}
		// FromChannel over a channel that already holds n values, the observer unsubscribing inside its cut-th callback
		if len(sc) == 0 {
			for n := 1; n <= 4; n++ {
				for cut := 1; cut <= n; cut++ {
					cases = append(cases, driver.Case{ID: fmt.Sprintf("fromchannel-inside/n%d/cut%d", n, cut), P: map[string]string{"kind": "fromchannel-inside", "n": fmt.Sprint(n), "cut": fmt.Sprint(cut)}})
				}
			}
		}
		// ToSlice / ToMap / Collect / Materialize∘Dematerialize on the same script
		cases = append(cases, driver.Case{ID: fmt.Sprintf("values/%s", sc), P: map[string]string{"kind": "values", "script": sc.String()}})
	}
	// the ordering the 1 ms sleep of ToChannel is meant to guarantee
	for _, sc := range []string{"C", "E", "1 C"} {
		for _, where := range []string{"tochannel.before-handout"} {
			cases = append(cases, driver.Case{ID: fmt.Sprintf("park/%s/%s", where, sc), Solo: true, P: map[string]string{"kind": "park", "script": sc, "point": where}})
		}
	}
	// de-duplicate ids (scripts with the same number of values map to the same fromchannel case)
	seen := map[string]bool{}
	var out []driver.Case
	for _, c := range cases {
		if !seen[c.ID] {
			seen[c.ID] = true
			out = append(out, c)
		}
	}
	return out
}

func materialised(sc src.Script) []string {
	var out []string
	for _, n := range sc.Legal() {
		switch n.K {
		case rec.Next:
			out = append(out, ro.NewNotificationNext(n.V).String())
		case rec.Error:
			out = append(out, ro.NewNotificationError[int](src.ErrSrc).String())
		default:
			out = append(out, ro.NewNotificationComplete[int]().String())
		}
	}
	return out
}

func runToChannel(c driver.Case) driver.Result {
	sc := src.Parse(c.Get("script"))
	cp, cut := c.Int("cap"), c.Int("cut")
	drive, reader := c.Get("drive"), c.Get("reader")
	res := driver.Result{Verdict: driver.Held}
	what := fmt.Sprintf("ToChannel(%d) over %s source [%s], reader %s, Unsubscribe after event %d", cp, drive, sc, reader, cut)
	fail := func(key, msg string) driver.Result {
		res.Verdict, res.Key = driver.Violated, "C17/ToChannel/"+key
		res.Msg = what + ": " + msg
		return res
	}
	var s *src.Source
	if drive == "sync" {
		s = src.New("s", sc)
	} else {
		s = src.New("s")
	}
	hand := rec.New("handout")
	var chans []<-chan ro.Notification[int]
	var mu sync.Mutex
	ctx, cancel := context.WithCancel(context.Background())
	defer cancel()
	if c.Get("ctxcancel") != "" {
		what += ", subscription context cancelled (" + c.Get("ctxcancel") + ")"
	}
	if c.Get("ctxcancel") == "before" {
		cancel()
	}
	sub := ro.ToChannel[int](cp)(s.Observable()).SubscribeWithContext(ctx, rec.RawWith[<-chan ro.Notification[int]](hand, func(ch <-chan ro.Notification[int]) string {
		mu.Lock()
		chans = append(chans, ch)
		mu.Unlock()
		return "chan"
	}))
	mu.Lock()
	if len(chans) != 1 {
		mu.Unlock()
		return fail("not-exactly-one-channel-at-subscription", fmt.Sprintf("%d channels had been delivered when Subscribe returned; trace [%s]", len(chans), hand.TraceString()))
	}
	ch := chans[0]
	mu.Unlock()
	var got []string
	var gotMu sync.Mutex
	closedSeen := atomic.Bool{}
	limit := map[string]int{"eager": 1 << 30, "stop1": 1, "stop2": 2, "never": 0}[reader]
	readerDone := make(chan struct{})
	go func() {
		defer close(readerDone)
		for i := 0; i < limit; i++ {
			v, ok := <-ch
			if !ok {
				closedSeen.Store(true)
				return
			}
			gotMu.Lock()
			got = append(got, v.String())
			gotMu.Unlock()
		}
	}()
	// wait for the source to be subscribed (ToChannel subscribes from its own goroutine)
	deadline := time.Now().Add(20 * time.Second)
	for !s.IsSubscribed() && time.Now().Before(deadline) {
		time.Sleep(100 * time.Microsecond)
	}
	if !s.IsSubscribed() {
		return driver.Result{Verdict: driver.Inconclusive, Key: "source-not-subscribed-in-time", Msg: what}
	}
	var escaped any
	sent := 0
	if drive == "puppet" {
		prodDone := make(chan struct{})
		go func() {
			defer close(prodDone)
			for i, n := range sc {
				if cut >= 0 && i >= cut {
					return
				}
				if i == 1 && c.Get("ctxcancel") == "mid" {
					cancel()
				}
				func() {
					defer func() {
						if e := recover(); e != nil && escaped == nil {
							escaped = e
						}
					}()
					s.Send(n)
				}()
				sent++
			}
		}()
		// a blocked producer (full channel, reader stopped) is legitimate: do not wait for it beyond quiescence
		select {
		case <-prodDone:
		case <-time.After(50 * time.Millisecond):
		}
		quiesce.Settle(500 * time.Millisecond)
		if cut >= 0 {
			st, dump, pan := quiesce.Call(func() { sub.Unsubscribe() }, 10*time.Second)
			if st == quiesce.Hung {
				res.Dirty, res.Witness = true, dump
				return fail("unsubscribe-never-returns", "Unsubscribe never returned; all goroutines blocked")
			}
			if pan != nil {
				return fail("unsubscribe-panicked", fmt.Sprint(pan))
			}
		}
		select {
		case <-prodDone:
		case <-time.After(150 * time.Millisecond):
			// producer still blocked on a full channel nobody reads and nobody unsubscribed: release it now
			func() { defer func() { recover() }(); sub.Unsubscribe() }()
			select {
			case <-prodDone:
			case <-time.After(2 * time.Second):
				res.Dirty = true
				return fail("producer-blocked-after-unsubscribe", "the producer's Next call is still blocked after the subscription was released")
			}
		}
	} else {
		quiesce.Settle(time.Second)
	}
	if escaped != nil {
		return fail("panic-escaped-into-producer", fmt.Sprintf("a panic reached the goroutine calling Next/Error/Complete: %v", escaped))
	}
	_, end := sc.Values()
	ended := end != rec.Next && (cut < 0 || cut >= len(sc.Legal()))
	if reader == "eager" {
		// everything that was put in the channel is read; after a terminal or an unsubscription the channel must be closed
		if ended || cut >= 0 {
			switch st, _, _ := quiesce.Call(func() { <-readerDone }, 20*time.Second); st {
			case quiesce.Hung:
				return fail("channel-not-closed", "the reader is still waiting and every goroutine is blocked: the channel was not closed after the stream ended / was unsubscribed")
			case quiesce.TimedOut:
				return driver.Result{Verdict: driver.Inconclusive, Key: "reader-not-finished-in-time", Msg: what, Dirty: true}
			}
			if !closedSeen.Load() {
				return fail("channel-not-closed", "reader stopped without seeing the channel closed")
			}
		} else {
			quiesce.Settle(500 * time.Millisecond)
		}
		gotMu.Lock()
		g := append([]string(nil), got...)
		gotMu.Unlock()
		want := materialised(sc)
		if cut >= 0 && cut < len(want) {
			want = want[:cut]
		}
		if ended || cut < 0 {
			if strings.Join(g, " ") != strings.Join(want, " ") {
				return fail("channel-content-differs", fmt.Sprintf("read [%s], materialised sequence is [%s]", strings.Join(g, " "), strings.Join(want, " ")))
			}
		} else if !isPrefix(g, want) {
			return fail("channel-content-differs", fmt.Sprintf("read [%s], not a prefix of [%s]", strings.Join(g, " "), strings.Join(want, " ")))
		}
	} else {
		// partial / no reading: whatever was read is a prefix; after unsubscription the channel gets closed
		quiesce.Settle(500 * time.Millisecond)
		gotMu.Lock()
		g := append([]string(nil), got...)
		gotMu.Unlock()
		if !isPrefix(g, materialised(sc)) {
			return fail("channel-content-differs", fmt.Sprintf("read [%s], not a prefix of [%s]", strings.Join(g, " "), strings.Join(materialised(sc), " ")))
		}
		func() { defer func() { recover() }(); sub.Unsubscribe() }()
		// drain: the channel must end up closed
		closed := make(chan bool, 1)
		go func() {
			for range ch {
			}
			closed <- true
		}()
		switch st, _, _ := quiesce.Call(func() { <-closed }, 20*time.Second); st {
		case quiesce.Hung:
			res.Dirty = true
			return fail("channel-not-closed-after-unsubscribe", "draining the channel after Unsubscribe never ends; every goroutine is blocked")
		case quiesce.TimedOut:
			return driver.Result{Verdict: driver.Inconclusive, Key: "drain-not-finished-in-time", Msg: what, Dirty: true}
		}
	}
	// the subscriber itself: exactly one Next (the channel) and, when the stream ended, one Complete
	quiesce.Settle(500 * time.Millisecond)
	tr := hand.TraceString()
	if ended && reader == "eager" {
		if tr != "chan C" {
			return fail("subscriber-trace", fmt.Sprintf("the subscriber of ToChannel received [%s], expected [chan C]", tr))
		}
	} else if tr != "chan" && tr != "chan C" {
		return fail("subscriber-trace", fmt.Sprintf("the subscriber of ToChannel received [%s]", tr))
	}
	if n := len(rec.UnhandledEvents()); n > 0 {
		res.Extra = map[string]int64{"unhandled_error_hook_calls": int64(n)}
	}
	res.Events = int64(len(got)) + int64(hand.Len()) + 1
	res.Nontrivial = true
	res.Sig = what
	res.Sample = map[string]any{"scenario": what, "read_from_channel": got, "subscriber_trace": tr}
	func() { defer func() { recover() }(); sub.Unsubscribe() }()
	return res
}

func isPrefix(a, b []string) bool {
	if len(a) > len(b) {
		return false
	}
	for i := range a {
		if a[i] != b[i] {
			return false
		}
	}
	return true
}

// runFromChannelInside: the channel is buffered and full before the subscription; the observer unsubscribes
// inside the callback of its cut-th value (once Subscribe has returned, so that the teardown is registered).
// The operator is inside that callback, not in a receive: not one more value leaves the channel.
func runFromChannelInside(c driver.Case) driver.Result {
	n, cut := c.Int("n"), c.Int("cut")
	res := driver.Result{Verdict: driver.Held, Nontrivial: true}
	what := fmt.Sprintf("FromChannel over a buffered channel holding %d values, the observer unsubscribes inside the callback of value #%d", n, cut)
	in := make(chan int, n+1)
	for i := 0; i < n; i++ {
		in <- 100 + i
	}
	r := rec.New("fromchannel-inside")
	subscribed := make(chan struct{})
	var self ro.Subscriber[int]
	r.OnEvent = func(ev *rec.Event) {
		if ev.Kind == rec.Next && r.Len()+1 == cut {
			<-subscribed
			self.Unsubscribe()
		}
	}
	self = ro.NewSubscriber[int](rec.Raw[int](r))
	sub := ro.FromChannel((<-chan int)(in)).Subscribe(self)
	close(subscribed)
	quiesce.Settle(2 * time.Second)
	sub.Unsubscribe()
	left := len(in)
	res.Events = int64(r.Len()) + 1
	res.Sig = what
	res.Sample = map[string]any{"scenario": what, "trace": r.TraceString(), "values_left_in_channel": left}
	if left < n-cut {
		res.Verdict, res.Key = driver.Violated, "C17/FromChannel/keeps-reading-after-unsubscribe"
		res.Msg = fmt.Sprintf("%s: %d values are left in the channel, %d were still there when the observer unsubscribed (delivered: [%s]) - the others were taken out and dropped", what, left, n-cut, r.TraceString())
	}
	return res
}

func runFromChannel(c driver.Case) driver.Result {
	n, cp, cut := c.Int("n"), c.Int("cap"), c.Int("cut")
	closeIt := c.Get("closed") == "true"
	res := driver.Result{Verdict: driver.Held}
	what := fmt.Sprintf("FromChannel over a channel of capacity %d receiving %d values (closed afterwards: %v), Unsubscribe after %d deliveries", cp, n, closeIt, cut)
	fail := func(key, msg string) driver.Result {
		res.Verdict, res.Key = driver.Violated, "C17/FromChannel/"+key
		res.Msg = what + ": " + msg
		return res
	}
	in := make(chan int, cp)
	r := rec.New("fromchannel")
	var sub ro.Subscription
	unsubAt := make(chan struct{}, 1)
	r.OnEvent = func(ev *rec.Event) {
		if ev.Kind == rec.Next && cut > 0 && r.Len()+1 == cut {
			select {
			case unsubAt <- struct{}{}:
			default:
			}
		}
	}
	sub = ro.FromChannel((<-chan int)(in)).Subscribe(rec.Raw[int](r))
	if cut == 0 {
		sub.Unsubscribe()
	}
	var acceptedAfter atomic.Int64
	var unsubscribed atomic.Bool
	prodDone := make(chan struct{})
	extraDone := make(chan struct{})
	go func() {
		defer close(prodDone)
		for i := 0; i < n; i++ {
			select {
			case in <- 100 + i:
				if unsubscribed.Load() {
					acceptedAfter.Add(1)
				}
			case <-time.After(300 * time.Millisecond):
				return // nobody reads any more (abandon)
			}
		}
		<-extraDone // the probe sends below are made on the still open channel
		if closeIt {
			close(in)
		}
	}()
	if cut > 0 {
		select {
		case <-unsubAt:
			sub.Unsubscribe()
		case <-time.After(time.Second):
		}
	}
	if cut >= 0 {
		unsubscribed.Store(true)
		// after Unsubscribe returned the operator may have been blocked in one receive at most
		for i := 0; i < 3; i++ {
			select {
			case in <- 900 + i:
				acceptedAfter.Add(1)
			case <-time.After(20 * time.Millisecond):
			}
		}
	}
	close(extraDone)
	<-prodDone
	quiesce.Settle(time.Second)
	ev := r.Events()
	res.Events = int64(len(ev)) + 1
	res.Nontrivial = true
	res.Sig = what
	var vals []string
	for _, e := range ev {
		if e.Kind == rec.Next {
			vals = append(vals, e.Val)
		}
	}
	res.Sample = map[string]any{"scenario": what, "trace": r.TraceString(), "values_taken_from_channel_after_unsubscribe": acceptedAfter.Load()}
	if cut < 0 {
		var want []string
		for i := 0; i < n; i++ {
			want = append(want, fmt.Sprint(100+i))
		}
		if strings.Join(vals, " ") != strings.Join(want, " ") {
			return fail("values-differ", fmt.Sprintf("delivered [%s], sent [%s]", strings.Join(vals, " "), strings.Join(want, " ")))
		}
		if closeIt && r.Terminal() != rec.Complete {
			return fail("no-completion-after-close", "the channel was closed but the stream did not complete; trace ["+r.TraceString()+"]")
		}
		if !closeIt && r.Terminal() != rec.Next {
			return fail("terminal-without-close", "the channel is still open but the stream ended; trace ["+r.TraceString()+"]")
		}
		sub.Unsubscribe()
		return res
	}
	// stops reading when unsubscribed: the channel accepts at most its capacity plus one more value (a receive in progress)
	if got := acceptedAfter.Load(); got > int64(cp)+1 {
		return fail("keeps-reading-after-unsubscribe", fmt.Sprintf("%d values were taken from a channel of capacity %d after Unsubscribe had returned", got, cp))
	}
	for i, v := range vals {
		if v != fmt.Sprint(100+i) {
			return fail("values-differ", fmt.Sprintf("delivered [%s]", strings.Join(vals, " ")))
		}
	}
	if gp := r.GrammarProblems(); len(gp) > 0 {
		return fail("delivery-after-terminal", strings.Join(gp, "; "))
	}
	return res
}

func runValues(c driver.Case) driver.Result {
	sc := src.Parse(c.Get("script"))
	vs, end := sc.Values()
	res := driver.Result{Verdict: driver.Held}
	fail := func(key, msg string) driver.Result {
		res.Verdict, res.Key = driver.Violated, "C17/"+key
		res.Msg = fmt.Sprintf("over [%s]: %s", sc, msg)
		return res
	}
	mk := func() ro.Observable[int] { return src.New("s", sc).Observable() }
	// ToSlice
	r := rec.New("toslice")
	ro.ToSlice[int]()(mk()).Subscribe(rec.Raw[[]int](r))
	wantSlice := fmt.Sprint(append([]int{}, vs...))
	switch end {
	case rec.Complete:
		if r.TraceString() != wantSlice+" C" {
			return fail("ToSlice/result", fmt.Sprintf("ToSlice delivered [%s], expected [%s C]", r.TraceString(), wantSlice))
		}
	case rec.Error:
		if r.TraceString() != "E(src-error)" {
			return fail("ToSlice/result", fmt.Sprintf("ToSlice delivered [%s], expected only the error", r.TraceString()))
		}
	default:
		if r.Len() != 0 {
			return fail("ToSlice/result", fmt.Sprintf("ToSlice delivered [%s] before completion", r.TraceString()))
		}
	}
	// ToMap: last write wins per key
	rm := rec.New("tomap")
	ro.ToMapI(func(x int, i int64) (int, int) { return x, int(i) })(mk()).Subscribe(rec.Raw[map[int]int](rm))
	m := map[int]int{}
	for i, v := range vs {
		m[v] = i
	}
	if end == rec.Complete && rm.TraceString() != fmt.Sprint(m)+" C" {
		return fail("ToMap/result", fmt.Sprintf("ToMap delivered [%s], expected [%v C]", rm.TraceString(), m))
	}
	if end != rec.Complete && rm.Len() != 0 && !(end == rec.Error && rm.TraceString() == "E(src-error)") {
		return fail("ToMap/result", fmt.Sprintf("ToMap delivered [%s]", rm.TraceString()))
	}
	// the sinks are recipes too: one sink observable subscribed twice over a source that plays the
	// script and then the script shifted by 10 - the second result is the one of a fresh sink over the
	// shifted script, and what the first subscription delivered has not changed meanwhile
	if end == rec.Complete {
		var shifted src.Script
		for _, n := range sc {
			if n.K == rec.Next {
				n.V += 10
			}
			shifted = append(shifted, n)
		}
		m2 := map[int]int{}
		var vs2 []int
		for i, v := range vs {
			m2[v+10] = i
			vs2 = append(vs2, v+10)
		}
		type sink struct {
			name string
			mk   func(o ro.Observable[int]) catalog.Pipeline
			want [2]string
		}
		wm := [2]string{fmt.Sprint(m) + " C", fmt.Sprint(m2) + " C"}
		sinks := []sink{
			{"ToSlice", func(o ro.Observable[int]) catalog.Pipeline { return catalog.P(ro.ToSlice[int]()(o)) }, [2]string{wantSlice + " C", fmt.Sprint(append([]int{}, vs2...)) + " C"}},
			{"ToMapI", func(o ro.Observable[int]) catalog.Pipeline {
				return catalog.P(ro.ToMapI(func(x int, i int64) (int, int) { return x, int(i) })(o))
			}, wm},
			{"ToMapIWithContext", func(o ro.Observable[int]) catalog.Pipeline {
				return catalog.P(ro.ToMapIWithContext(func(_ context.Context, x int, i int64) (int, int) { return x, int(i) })(o))
			}, wm},
		}
		for _, sk := range sinks {
			two := src.New("s2", sc, shifted)
			p := sk.mk(two.Observable())
			r1, r2 := rec.New(sk.name+"/1"), rec.New(sk.name+"/2")
			p.Subscribe(context.Background(), r1, false)
			p.Subscribe(context.Background(), r2, false)
			if r1.TraceString() != sk.want[0] || r2.TraceString() != sk.want[1] {
				return fail(sk.name+"/resubscription-result", fmt.Sprintf("one %s observable subscribed twice (source plays [%s] then [%s]): results [%s] and [%s], expected [%s] and [%s]", sk.name, sc, shifted, r1.TraceString(), r2.TraceString(), sk.want[0], sk.want[1]))
			}
			if mu := r1.Mutated(); len(mu) > 0 {
				return fail(sk.name+"/delivered-value-modified-later", fmt.Sprintf("%s: the value delivered to the first subscriber changed when the observable was subscribed again: %s", sk.name, mu[0]))
			}
			res.Events += int64(r1.Len() + r2.Len())
		}
	}
	// Collect
	if end != rec.Next {
		var got []int
		var err error
		st, _, _ := quiesce.Call(func() { got, err = ro.Collect(mk()) }, 10*time.Second)
		if st != quiesce.Returned {
			res.Dirty = true
			return fail("Collect/hang", "Collect did not return on a terminated stream")
		}
		if fmt.Sprint(got) != fmt.Sprint(append([]int{}, vs...)) || (err != nil) != (end == rec.Error) {
			return fail("Collect/result", fmt.Sprintf("Collect returned %v, %v", got, err))
		}
	}
	// Materialize ∘ Dematerialize = identity
	ri, rd := rec.New("identity"), rec.New("direct")
	mk().Subscribe(rec.Raw[int](rd))
	ro.Dematerialize[int]()(ro.Materialize[int]()(mk())).Subscribe(rec.Raw[int](ri))
	if ri.TraceString() != rd.TraceString() {
		return fail("Materialize-Dematerialize/not-identity", fmt.Sprintf("round trip delivered [%s], the stream is [%s]", ri.TraceString(), rd.TraceString()))
	}
	if end == rec.Error {
		// the same stream ending with an error notification that carries no error value (Error(nil))
		nilEnd := func() ro.Observable[int] {
			return ro.NewObservable(func(d ro.Observer[int]) ro.Teardown {
				for _, v := range vs {
					d.Next(v)
				}
				d.Error(nil)
				return nil
			})
		}
		ni, nd := rec.New("identity-nil"), rec.New("direct-nil")
		nilEnd().Subscribe(rec.Raw[int](nd))
		ro.Dematerialize[int]()(ro.Materialize[int]()(nilEnd())).Subscribe(rec.Raw[int](ni))
		if ni.TraceString() != nd.TraceString() {
			return fail("Materialize-Dematerialize/not-identity", fmt.Sprintf("stream ending with Error(nil): round trip delivered [%s], the stream is [%s]", ni.TraceString(), nd.TraceString()))
		}
	}
	res.Events = int64(r.Len()+rm.Len()+ri.Len()) + 1
	res.Nontrivial = true
	res.Sig = "values/" + sc.String()
	res.Sample = map[string]any{"script": sc.String(), "ToSlice": r.TraceString(), "ToMap": rm.TraceString(), "round_trip": ri.TraceString()}
	return res
}

// runPark reproduces the schedule ToChannel's 1 ms sleep is meant to exclude: the subscribing
// goroutine is held right before it hands the channel out while the source runs to its end.
func runPark(c driver.Case) driver.Result {
	sc := src.Parse(c.Get("script"))
	res := driver.Result{Verdict: driver.Held}
	arrived, release := sched.Park(c.Get("point"), 1)
	defer sched.ClearParks()
	s := src.New("s", sc)
	hand := rec.New("handout")
	var ch <-chan ro.Notification[int]
	subDone := make(chan struct{})
	go func() {
		defer close(subDone)
		ro.ToChannel[int](2)(s.Observable()).Subscribe(rec.RawWith[<-chan ro.Notification[int]](hand, func(c <-chan ro.Notification[int]) string { ch = c; return "chan" }))
	}()
	select {
	case <-arrived:
	case <-time.After(2 * time.Second):
		release()
		return driver.Result{Verdict: driver.Inconclusive, Key: "park-point-not-reached", Msg: "hook point " + c.Get("point") + " was not reached"}
	}
	// the subscriber's goroutine is parked; let the library's goroutine subscribe the source and run it to its end
	deadline := time.Now().Add(2 * time.Second)
	for s.Subscribed.Load() == 0 && time.Now().Before(deadline) {
		time.Sleep(200 * time.Microsecond)
	}
	quiesce.Settle(300 * time.Millisecond)
	release()
	<-subDone
	quiesce.Settle(300 * time.Millisecond)
	res.Events = int64(hand.Len()) + 1
	res.Nontrivial = true
	res.Sig = "park/" + sc.String()
	res.Sample = map[string]any{"script": sc.String(), "subscriber_trace": hand.TraceString()}
	if ch == nil || !strings.HasPrefix(hand.TraceString(), "chan") {
		res.Verdict, res.Key = driver.Violated, "C17/ToChannel/channel-never-handed-out"
		res.Msg = fmt.Sprintf("ToChannel over [%s] with the subscribing goroutine delayed before the hand-out (schedule reproduced by parking at %s): the subscriber received [%s] — the source ended before the channel was handed out, so the hand-out was dropped", sc, c.Get("point"), hand.TraceString())
	}
	return res
}

func runCase(c driver.Case) driver.Result {
	rec.ResetHooks()
	switch c.Get("kind") {
	case "fromchannel":
		return runFromChannel(c)
	case "fromchannel-inside":
		return runFromChannelInside(c)
	case "values":
		return runValues(c)
	case "park":
		return runPark(c)
	}
	return runToChannel(c)
}

var _ = context.Background

func main() {
	driver.Main(driver.Property{
		ID:        "C17",
		Level:     "exploration",
		Rule:      "every legal script (≤3/5 values, endings complete/error/none) × ToChannel capacity 0..2/3 × source drive {synchronous, puppet} × reader {reads everything, stops after 1, after 2, never reads} × Unsubscribe after each prefix of the script: exactly one channel is delivered at subscription; what is read from it equals (or is a prefix of) the materialised notification sequence; the channel ends up closed after the terminal or the unsubscription (a reader draining it terminates); no panic reaches the goroutine calling Next (recover around every harness-side emission); a producer blocked on a full channel is released by Unsubscribe. FromChannel: n values through a channel of capacity c, closed or abandoned, Unsubscribe after k deliveries — values in order, completion iff closed, at most capacity+1 values taken from the channel after Unsubscribe returned. ToSlice / ToMap (last write wins) / Collect results and Materialize∘Dematerialize == identity on every script. A deterministic park at the hook point before ToChannel's hand-out reproduces 'source ends before the channel is handed out'. Non-trivial: every case reads a channel or a result.",
		Assume:    []string{"a send-on-closed-channel panic that is caught inside the library is allowed by the statement; one that escapes is not"},
		Plan:      plan,
		Run:       runCase,
		CaseWatch: 60 * time.Second,
		Setup: func() {
			rec.Install()
			sched.Install()
		},
	})
}
