// C13 — goroutine-safe parts of the API are free of data races (Go race detector, silent harness).
package main

import (
	"context"
	"fmt"
	"math/rand"
	"runtime"
	"strings"
	"sync"
	"time"

	"github.com/prometheus/client_golang/prometheus"
	"github.com/samber/ro"
	roprom "github.com/samber/ro/ee/plugins/prometheus"
	"verifharness/internal/catalog"
	"verifharness/internal/driver"
	"verifharness/internal/racelog"
	"verifharness/internal/rec"
	"verifharness/internal/sched"
	"verifharness/internal/src"
)

var logOffset int64

func plan(tier string, seed int64) []driver.Case {
	seeds := 40
	if tier == "thorough" {
		seeds = 400
	}
	rng := rand.New(rand.NewSource(seed))
	var cases []driver.Case
	add := func(kind, target string, s int) {
		cases = append(cases, driver.Case{ID: fmt.Sprintf("%s/%s/%d", kind, target, s), Race: true,
			P: map[string]string{"kind": kind, "target": target, "seed": fmt.Sprint(rng.Int63()), "concurrent": "1"}})
	}
	for s := 0; s < seeds; s++ {
		for _, e := range catalog.All() {
			if e.Flags.Has(catalog.Creation) {
				if e.Flags.Has(catalog.Async) || e.Flags.Has(catalog.TimeDriven) {
					add("creation", e.Name, s)
				}
				continue
			}
			if e.Flags.Has(catalog.Blocks) {
				continue
			}
			add("entry", e.Name, s) // async sources at every input + external Unsubscribe racing the emissions
			if s%2 == 0 {
				add("concsub", e.Name, s) // concurrent subscriptions of one pipeline value
			}
		}
		for _, t := range []string{"publish", "behavior", "replay", "async", "unicast"} {
			add("subject", t, s)
		}
		// time-driven operators whose timers really fire while the source emits (the catalogue's 1 h
		// variants never tick), with a stateful library operator downstream
		for _, t := range timedNames {
			add("timed", t, s)
		}
		for _, t := range []string{"connectable", "connectable-noreset", "share", "sharereplay", "share-noreset", "share-cfg-zero", "share-cfg-zero-err", "share-cfg-all", "share-cfg-all-err", "share-cfg-replaycfg"} {
			add("hot", t, s)
		}
		for _, t := range []string{"subscription", "subscriber-safe", "subscriber-eventually"} {
			add("sub", t, s)
		}
		for _, t := range []string{"pipe", "counters"} {
			add("prometheus", t, s)
		}
	}
	return cases
}

var timedNames = []string{"BufferWithTime", "BufferWithTimeOrCount", "SampleTime", "ThrottleTime", "Timeout", "Delay", "DelayEach", "TimeInterval"}

func timedPipeline(name string, d time.Duration, o ro.Observable[int]) catalog.Pipeline {
	switch name {
	case "BufferWithTime":
		return catalog.P(ro.BufferWithTime[int](d)(o))
	case "BufferWithTimeOrCount":
		return catalog.P(ro.BufferWithTimeOrCount[int](3, d)(o))
	case "SampleTime":
		return catalog.P(ro.SampleTime[int](d)(o))
	case "ThrottleTime":
		return catalog.P(ro.ThrottleTime[int](d)(o))
	case "Timeout":
		return catalog.P(ro.Timeout[int](d)(o))
	case "Delay":
		return catalog.P(ro.Delay[int](d)(o))
	case "DelayEach":
		return catalog.P(ro.DelayEach[int](d / 8)(o))
	}
	return catalog.P(ro.TimeInterval[int]()(o))
}

func silentRec() *rec.Rec { r := rec.New("silent"); r.Silent = true; return r }

func quietSource(name string, n int, end rec.Kind, start chan struct{}) *src.Source {
	var sc src.Script
	for i := 0; i < n; i++ {
		sc = append(sc, src.Notif{K: rec.Next, V: i % 3})
	}
	if end != rec.Next {
		sc = append(sc, src.Notif{K: end})
	}
	s := src.New(name, sc)
	s.Quiet, s.Async, s.Yield, s.Start = true, true, true, start
	return s
}

func spin(rng *rand.Rand, max int) {
	n := rng.Intn(max)
	for i := 0; i < n; i++ {
		runtime.Gosched()
	}
}

func runScenario(c driver.Case) (ops int64) {
	var sd int64
	fmt.Sscan(c.Get("seed"), &sd)
	rng := rand.New(rand.NewSource(sd))
	target := c.Get("target")
	start := make(chan struct{})
	var wg sync.WaitGroup
	goN := func(n int, f func(g int, r *rand.Rand)) {
		for g := 0; g < n; g++ {
			g := g
			r := rand.New(rand.NewSource(rng.Int63()))
			wg.Add(1)
			go func() {
				defer wg.Done()
				defer func() { recover() }()
				<-start
				f(g, r)
			}()
		}
	}
	switch c.Get("kind") {
	case "timed":
		d := time.Duration(50+rng.Intn(300)) * time.Microsecond
		source := quietSource("s", 150+rng.Intn(150), []rec.Kind{rec.Complete, rec.Error, rec.Next}[rng.Intn(3)], start)
		source.Gap = time.Duration(rng.Intn(40)) * time.Microsecond
		p := timedPipeline(target, d, source.Observable()).Counted()
		var sub ro.Subscription
		func() { defer func() { recover() }(); sub = p.Subscribe(context.Background(), silentRec(), false) }()
		goN(1, func(g int, r *rand.Rand) {
			time.Sleep(time.Duration(500+r.Intn(4000)) * time.Microsecond)
			if sub != nil && r.Intn(2) == 0 {
				sub.Unsubscribe()
			}
		})
		ops = 300
	case "entry", "concsub":
		e := catalog.Get(target)
		b := &catalog.B{}
		for i := 0; i < e.NSrc; i++ {
			end := rec.Complete
			switch rng.Intn(6) {
			case 0:
				end = rec.Next
			case 1, 2:
				end = rec.Error // a source failing while the others emit: the error paths take the same locks
			}
			n := 30 + rng.Intn(40)
			if end == rec.Error {
				n = 3 + rng.Intn(30) // fails while the other sources are still in full swing
			}
			b.Srcs = append(b.Srcs, quietSource(fmt.Sprintf("s%d", i), n, end, start).Observable())
		}
		p := e.Pipeline(b)
		if rng.Intn(2) == 0 {
			p = p.Counted() // a stateful library operator downstream: overlapping deliveries race in library memory
		}
		if c.Get("kind") == "entry" {
			var sub ro.Subscription
			func() { defer func() { recover() }(); sub = p.Subscribe(context.Background(), silentRec(), false) }()
			goN(1+rng.Intn(2), func(g int, r *rand.Rand) {
				spin(r, 60)
				if sub != nil {
					sub.Unsubscribe()
					_ = sub.IsClosed()
				}
			})
			ops = int64(e.NSrc * 40)
		} else {
			goN(2+rng.Intn(3), func(g int, r *rand.Rand) {
				sub := p.Subscribe(context.Background(), silentRec(), false)
				spin(r, 80)
				sub.Unsubscribe()
			})
			ops = 120
		}
	case "creation":
		e := catalog.Get(target)
		p := e.Pipeline(&catalog.B{})
		goN(2, func(g int, r *rand.Rand) {
			sub := p.Subscribe(context.Background(), silentRec(), false)
			time.Sleep(time.Duration(r.Intn(3000)) * time.Microsecond)
			sub.Unsubscribe()
		})
		ops = 10
	case "subject":
		var s ro.Subject[int]
		switch target {
		case "publish":
			s = ro.NewPublishSubject[int]()
		case "behavior":
			s = ro.NewBehaviorSubject(0)
		case "replay":
			s = ro.NewReplaySubject[int](2)
		case "async":
			s = ro.NewAsyncSubject[int]()
		default:
			s = ro.NewUnicastSubject[int](4)
		}
		goN(4+rng.Intn(3), func(g int, r *rand.Rand) {
			var subs []ro.Subscription
			for k := 0; k < 25; k++ {
				switch x := r.Intn(12); {
				case x < 5:
					s.Next(k)
				case x < 8:
					subs = append(subs, s.Subscribe(rec.Raw[int](silentRec())))
				case x < 10 && len(subs) > 0:
					subs[r.Intn(len(subs))].Unsubscribe()
				case x == 10:
					_ = s.HasObserver()
					_ = s.CountObservers()
					_ = s.IsClosed()
				default:
					if k > 20 && g == 0 {
						s.Complete()
					}
				}
			}
		})
		ops = 150
	case "hot":
		source := quietSource("s", 200, rec.Next, start)
		if strings.HasPrefix(target, "share-cfg") {
			// short sources that terminate while subscribers come and go: the reset bookkeeping of the
			// non-default configurations is touched by the source's goroutine and by the unsubscribers
			end := rec.Complete
			if strings.HasSuffix(target, "-err") {
				end = rec.Error
			}
			source = quietSource("s", 5+rng.Intn(30), end, start)
		}
		var obs ro.Observable[int]
		var conn ro.ConnectableObservable[int]
		switch target {
		case "connectable":
			conn = ro.Connectable(source.Observable())
			obs = conn
		case "connectable-noreset":
			conn = ro.ConnectableWithConfig(source.Observable(), ro.ConnectableConfig[int]{Connector: func() ro.Subject[int] { return ro.NewReplaySubject[int](2) }, ResetOnDisconnect: false})
			obs = conn
		case "share":
			obs = ro.Share[int]()(source.Observable())
		case "sharereplay":
			obs = ro.ShareReplay[int](2)(source.Observable())
		case "share-cfg-zero", "share-cfg-zero-err":
			obs = ro.ShareWithConfig(ro.ShareConfig[int]{Connector: func() ro.Subject[int] { return ro.NewReplaySubject[int](2) }, ResetOnRefCountZero: true})(source.Observable())
		case "share-cfg-all", "share-cfg-all-err":
			obs = ro.ShareWithConfig(ro.ShareConfig[int]{Connector: func() ro.Subject[int] { return ro.NewPublishSubject[int]() }, ResetOnRefCountZero: true, ResetOnComplete: true, ResetOnError: true})(source.Observable())
		case "share-cfg-replaycfg":
			obs = ro.ShareReplayWithConfig[int](2, ro.ShareReplayConfig{ResetOnRefCountZero: true})(source.Observable())
		default:
			obs = ro.ShareWithConfig(ro.ShareConfig[int]{Connector: func() ro.Subject[int] { return ro.NewPublishSubject[int]() }})(source.Observable())
		}
		goN(4, func(g int, r *rand.Rand) {
			for k := 0; k < 15; k++ {
				if conn != nil && r.Intn(3) == 0 {
					cs := conn.Connect()
					spin(r, 20)
					if r.Intn(2) == 0 {
						cs.Unsubscribe()
					}
					continue
				}
				sub := obs.Subscribe(rec.Raw[int](silentRec()))
				spin(r, 30)
				sub.Unsubscribe()
			}
		})
		ops = 60
	case "sub":
		var sub ro.Subscription
		var sber ro.Subscriber[int]
		switch target {
		case "subscription":
			sub = ro.NewSubscription(func() {})
		case "subscriber-safe":
			sber = ro.NewSafeSubscriber[int](rec.Raw[int](silentRec()))
			sub = sber
		default:
			sber = ro.NewEventuallySafeSubscriber[int](rec.Raw[int](silentRec()))
			sub = sber
		}
		goN(5, func(g int, r *rand.Rand) {
			for k := 0; k < 20; k++ {
				switch x := r.Intn(10); {
				case x < 3:
					sub.Add(func() {})
				case x < 5:
					_ = sub.IsClosed()
				case x < 8 && sber != nil:
					sber.Next(k)
					_ = sber.IsClosed()
					_ = sber.HasThrown()
				case x == 8 && k > 12:
					if sber != nil && r.Intn(2) == 0 {
						sber.Complete()
					} else {
						sub.Unsubscribe()
					}
				default:
					sub.AddUnsubscribable(ro.NewSubscription(nil))
				}
			}
			sub.Unsubscribe()
			sub.Wait()
		})
		ops = 100
	case "prometheus":
		var obs ro.Observable[int]
		source := func() ro.Observable[int] { return quietSource("s", 40, rec.Complete, start).Observable() }
		if target == "pipe" {
			var col prometheus.Collector
			obs, col = roprom.Pipe2(roprom.CollectorConfig{Namespace: "verif", Subsystem: "c13"}, source(), ro.Map(func(x int) int { return x + 1 }), ro.Filter(func(x int) bool { return x%2 == 0 }))
			go func() {
				<-start
				for i := 0; i < 3 && col != nil; i++ {
					ch := make(chan prometheus.Metric, 256)
					done := make(chan struct{})
					go func() {
						for range ch {
						}
						close(done)
					}()
					col.Collect(ch)
					close(ch)
					<-done
					runtime.Gosched()
				}
			}()
		} else {
			cnt := prometheus.NewCounter(prometheus.CounterOpts{Name: "verif_c13_total"})
			obs = ro.Pipe3(source(), roprom.IncCounterOnNext[int](cnt), roprom.IncCounterOnComplete[int](cnt), roprom.IncCounterOnSubscription[int](cnt))
		}
		goN(3, func(g int, r *rand.Rand) {
			sub := obs.Subscribe(rec.Raw[int](silentRec()))
			spin(r, 100)
			sub.Unsubscribe()
		})
		ops = 120
	}
	close(start)
	done := make(chan struct{})
	go func() { wg.Wait(); close(done) }()
	select {
	case <-done:
	case <-time.After(10 * time.Second):
	}
	time.Sleep(2 * time.Millisecond) // let asynchronous players observe their stop signal
	return ops
}

func runCase(c driver.Case) driver.Result {
	res := driver.Result{Verdict: driver.Held}
	path := racelog.Path()
	if path == "" {
		res.Verdict, res.Key, res.Msg = driver.Inconclusive, "not-a-race-build", "C13 must run in the -race worker (scripts/check.sh builds it)"
		return res
	}
	ops := runScenario(c)
	reports := racelog.Read(path, &logOffset)
	res.Events = ops
	res.Nontrivial = ops > 0
	res.Sig = c.Get("kind") + "/" + c.Get("target")
	res.Extra = map[string]int64{"race_reports": int64(len(reports))}
	seen := map[string]bool{}
	for _, r := range reports {
		if r.Harness {
			res.Extra["harness_only_reports"]++
			if res.Verdict == driver.Held {
				res.Verdict, res.Key = driver.Inconclusive, "harness-race"
				res.Msg = "race report whose both accesses are in harness code (harness bug): " + r.Key()
				res.Witness = r.Text
			}
			continue
		}
		k := "C13/" + r.Key()
		if seen[k] {
			continue
		}
		seen[k] = true
		f := driver.Finding{Key: k, Msg: fmt.Sprintf("data race in scenario %s/%s between %s and %s", c.Get("kind"), c.Get("target"), r.A, r.B), Witness: trim(r.Text)}
		if res.Verdict != driver.Violated {
			res.Verdict, res.Key, res.Msg, res.Witness = driver.Violated, f.Key, f.Msg, f.Witness
		} else {
			res.More = append(res.More, f)
		}
	}
	if res.Verdict == driver.Held && strings.HasSuffix(c.ID, "/0") {
		res.Sample = map[string]any{"scenario": c.Get("kind") + "/" + c.Get("target"), "library_operations_issued": ops, "race_reports": 0}
	}
	return res
}

func trim(s string) string {
	if len(s) > 6000 {
		return s[:6000] + "\n…"
	}
	return strings.TrimSpace(s)
}

func main() {
	driver.Main(driver.Property{
		ID:        "C13",
		Level:     "exploration",
		Rule:      "the concurrent scenario generators of C02/C03/C05/C06/C10/C11/C12 re-run in SILENT mode under the Go race detector (-race worker binary, GORACE=halt_on_error=0 log_path=…): observers are empty functions without any synchronisation, sources emit from one goroutine each without atomics or mutexes, the hook handler only calls Gosched — so the harness creates no happens-before edge that could hide a library race. Scenarios: every non-blocking catalogue entry with an asynchronous source at every input and 1-2 goroutines calling Unsubscribe/IsClosed while the sources emit; concurrent subscriptions of one pipeline value; asynchronous creation operators; five subjects under 4-6 goroutines mixing Next/Subscribe/Unsubscribe/accessors/Complete; Connectable (reset on/off), Share, ShareReplay under concurrent Connect/Subscribe/Unsubscribe; Subscription and safe/eventually-safe Subscriber under Add/Unsubscribe/IsClosed/Wait/Next/Complete; the prometheus PipeN collector and stand-alone counters under concurrent subscriptions and Collect. Oracle: race reports parsed from the log after each scenario; a report counts iff frame #0 of at least one racing access is a /repo file; key = pair of racing library functions. Reports with both accesses in harness files make the run inconclusive (harness bug), never a violation. Non-trivial: the scenario issued library operations. Half of the entry / concurrent-subscription scenarios append ro.Count to the pipeline (Counted): overlapping deliveries then conflict in library memory instead of in the empty observer.",
		Assume:    []string{"a race detector only reports races on executions that happen; the evidence lists scenarios and operation counts"},
		Plan:      plan,
		Run:       runCase,
		CaseWatch: 60 * time.Second,
		Setup: func() {
			rec.InstallSilent()
			sched.InstallSilent(25)
			roprom.VerifSetBypassLicenseCheck(true) // once, before any goroutine uses the plugin
		},
	})
}
