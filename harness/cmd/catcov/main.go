// catcov fails when an exported operator / constructor of package ro has neither
// a catalogue entry nor a reasoned exclusion: the generic monitors then would
// silently not drive it.
package main

import (
	"fmt"
	"go/ast"
	"go/parser"
	"go/token"
	"os"
	"sort"
	"strings"

	"verifharness/internal/catalog"
)

// excluded: exported functions that are not stream operators, or that dedicated
// checks (named) drive outside the catalogue.
var excluded = map[string]string{
	// constructors / plumbing exercised by every scenario
	"NewObservable": "bare sources (src package)", "NewSafeObservable": "src", "NewUnsafeObservable": "src", "NewEventuallySafeObservable": "src",
	"NewObservableWithContext": "src", "NewSafeObservableWithContext": "src", "NewUnsafeObservableWithContext": "src", "NewEventuallySafeObservableWithContext": "src",
	"NewObservableWithConcurrencyMode": "src", "NewObserver": "rec.Wrapped", "NewObserverWithContext": "rec.Wrapped",
	"OnNext": "partial observers (C07)", "OnNextWithContext": "C07", "OnError": "C07", "OnErrorWithContext": "C07", "OnComplete": "C07", "OnCompleteWithContext": "C07",
	"NoopObserver": "trivial", "PrintObserver": "prints only",
	"NewSubscriber": "C03/C13", "NewSafeSubscriber": "C03/C13", "NewUnsafeSubscriber": "C03", "NewEventuallySafeSubscriber": "C13", "NewSubscriberWithConcurrencyMode": "C03",
	"NewSubscription": "C03/C13", "Collect": "C06/C17", "CollectWithContext": "C06",
	"NewSubject": "alias of publish (C10)", "NewPublishSubject": "C10", "NewBehaviorSubject": "C10", "NewReplaySubject": "C10", "NewAsyncSubject": "C10", "NewUnicastSubject": "C10",
	"Connectable": "C11", "ConnectableWithConfig": "C11", "NewConnectableObservable": "C11 (same implementation)", "NewConnectableObservableWithContext": "C11", "NewConnectableObservableWithConfig": "C11", "NewConnectableObservableWithConfigAndContext": "C11",
	"NewNotificationNext": "value constructors", "NewNotificationError": "value constructors", "NewNotificationComplete": "value constructors",
	"IgnoreOnUnhandledError": "hook default", "IgnoreOnDroppedNotification": "hook default", "DefaultOnUnhandledError": "hook default", "DefaultOnDroppedNotification": "hook default",
	"NewScheduler": "not an operator", "Never": "C14 creation (struct{} values)", "VerifSetHandler": "verification hook",
	"Dematerialize": "Materialize+Dematerialize entry", "Retry": "unlimited retries: C15 (retry-plain) with a finally succeeding attempt",
}

func main() {
	fset := token.NewFileSet()
	pkgs, err := parser.ParseDir(fset, "/repo", func(fi os.FileInfo) bool { return !strings.HasSuffix(fi.Name(), "_test.go") }, 0)
	if err != nil {
		fmt.Println(err)
		os.Exit(1)
	}
	covered := map[string]bool{}
	for _, e := range catalog.All() {
		for _, x := range e.Exports {
			covered[x] = true
		}
		covered[e.Family] = true
	}
	var missing []string
	total := 0
	for _, p := range pkgs {
		for _, f := range p.Files {
			for _, d := range f.Decls {
				fd, ok := d.(*ast.FuncDecl)
				if !ok || fd.Recv != nil || !fd.Name.IsExported() {
					continue
				}
				n := fd.Name.Name
				if strings.HasPrefix(n, "Pipe") {
					continue // composition helpers: C04 pipe cases / C19
				}
				total++
				if covered[n] || excluded[n] != "" {
					continue
				}
				missing = append(missing, n)
			}
		}
	}
	sort.Strings(missing)
	fmt.Printf("catalogue coverage: %d exported functions, %d catalogue entries, %d without entry or exclusion\n", total, len(catalog.All()), len(missing))
	if len(missing) > 0 {
		fmt.Println("MISSING:", strings.Join(missing, " "))
		os.Exit(1)
	}
}
