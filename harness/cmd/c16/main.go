// C16 — time-driven operators never act early, never reorder, and stop when told.
package main

import (
	"context"
	"fmt"
	"math/rand"
	"strings"
	"sync/atomic"
	"time"

	"github.com/samber/ro"
	"verifharness/internal/driver"
	"verifharness/internal/quiesce"
	"verifharness/internal/rec"
	"verifharness/internal/sched"
	"verifharness/internal/src"
)

var ops = []string{"delay", "timer", "interval", "intervalinitial", "rangeinterval", "repeatinterval", "timeout", "timeout-slow", "throttletime", "throttletime-2subs", "timed-2subs", "delayeach", "sampletime", "buffertime", "buffertimeorcount", "stop"}

func plan(tier string, seed int64) []driver.Case {
	reps := 40
	if tier == "thorough" {
		reps = 400
	}
	rng := rand.New(rand.NewSource(seed))
	var cases []driver.Case
	for _, op := range ops {
		for i := 0; i < reps; i++ {
			d := []int{1, 5, 20}[rng.Intn(3)]
			if tier == "thorough" && rng.Intn(4) == 0 {
				d = 40
			}
			cases = append(cases, driver.Case{ID: fmt.Sprintf("%s/%d/d%d", op, i, d), P: map[string]string{"op": op, "d": fmt.Sprint(d), "seed": fmt.Sprint(rng.Int63()), "jitter": fmt.Sprint(rng.Intn(3))}})
		}
	}
	return cases
}

// timeline of inter-arrival gaps around d
func gaps(rng *rand.Rand, d time.Duration, n int) []time.Duration {
	eps := d / 8
	choices := []time.Duration{0, d / 4, d - eps, d, d + eps, 3 * d}
	out := make([]time.Duration, n)
	for i := range out {
		if rng.Intn(5) == 0 { // burst
			out[i] = 0
		} else {
			out[i] = choices[rng.Intn(len(choices))]
		}
	}
	return out
}

type run struct {
	r    *rec.Rec
	s    *src.Source
	sub  ro.Subscription
	ts   int64
	done chan struct{}
}

// drive subscribes obs and plays values with the given gaps from a goroutine, ending with end (Next = no terminal).
func drive(mk func(o ro.Observable[int]) func(*rec.Rec) ro.Subscription, gs []time.Duration, end rec.Kind, ctx context.Context) *run {
	return driveRec(mk, gs, end, nil)
}

func driveRec(mk func(o ro.Observable[int]) func(*rec.Rec) ro.Subscription, gs []time.Duration, end rec.Kind, prep func(*rec.Rec)) *run {
	x := &run{r: rec.New("c16"), s: src.New("s"), done: make(chan struct{})}
	if prep != nil {
		prep(x.r)
	}
	subscribe := mk(x.s.Observable())
	x.ts = rec.Mono()
	x.sub = subscribe(x.r)
	go func() {
		defer close(x.done)
		defer func() { recover() }()
		for i, g := range gs {
			if g > 0 {
				time.Sleep(g)
			}
			if x.s.Live.Load() == 0 {
				return
			}
			x.s.Next(i)
		}
		switch end {
		case rec.Complete:
			x.s.Complete()
		case rec.Error:
			x.s.Error()
		}
	}()
	return x
}

// driveDwell is drive with an observer that stays dwell[i] inside its callback for the i-th value.
func driveDwell(mk func(o ro.Observable[int]) func(*rec.Rec) ro.Subscription, gs []time.Duration, end rec.Kind, dwell map[int]time.Duration) *run {
	if len(dwell) == 0 {
		return drive(mk, gs, end, nil)
	}
	var k atomic.Int64
	return driveRec(mk, gs, end, func(r *rec.Rec) {
		r.Dwell = func() {
			i := int(k.Add(1)) - 1
			if dw := dwell[i]; dw > 0 {
				time.Sleep(dw)
			}
		}
	})
}

func waitTerminal(r *rec.Rec, budget time.Duration) {
	deadline := time.Now().Add(budget)
	for r.Terminal() == rec.Next && time.Now().Before(deadline) {
		time.Sleep(200 * time.Microsecond)
	}
}

func intSub(o ro.Observable[int]) func(*rec.Rec) ro.Subscription {
	return func(r *rec.Rec) ro.Subscription { return o.Subscribe(rec.Raw[int](r)) }
}

func runCase(c driver.Case) driver.Result {
	rec.ResetHooks()
	var sd int64
	fmt.Sscan(c.Get("seed"), &sd)
	rng := rand.New(rand.NewSource(sd))
	d := time.Duration(c.Int("d")) * time.Millisecond
	op := c.Get("op")
	switch c.Int("jitter") {
	case 1:
		sched.Set(sched.Jitter, 30)
	case 2:
		sched.Set(sched.Yield, 50)
	default:
		sched.Set(sched.Off, 0)
	}
	defer sched.Set(sched.Off, 0)
	res := driver.Result{Verdict: driver.Held}
	fail := func(key, msg string) driver.Result {
		res.Verdict, res.Key = driver.Violated, "C16/"+op+"/"+key
		res.Msg = fmt.Sprintf("%s with duration %v: %s", op, d, msg)
		return res
	}
	ms := func(ns int64) string { return fmt.Sprintf("%.3fms", float64(ns)/1e6) }
	if strings.HasPrefix(op, "throttletime") && sd%2 == 1 {
		d -= 200 * time.Microsecond // a window that is no whole number of milliseconds (0.8, 4.8, 19.8 ms)
	}
	n := 4 + rng.Intn(8)
	gs := gaps(rng, d, n)
	end := []rec.Kind{rec.Complete, rec.Complete, rec.Error, rec.Next}[rng.Intn(4)]
	emByVal := func(x *run) map[string]src.Emission {
		m := map[string]src.Emission{}
		for _, em := range x.s.Emissions() {
			if em.N.K == rec.Next {
				m[fmt.Sprint(em.N.V)] = em
			}
		}
		return m
	}
	finish := func(x *run, settle time.Duration) {
		<-x.done
		if end != rec.Next {
			waitTerminal(x.r, settle)
		} else {
			time.Sleep(settle / 4)
		}
		func() { defer func() { recover() }(); x.sub.Unsubscribe() }()
	}
	subseq := func(ev []rec.Event, emitted int) (string, bool) {
		last := -1
		for _, e := range ev {
			if e.Kind != rec.Next {
				continue
			}
			var v int
			fmt.Sscan(e.Val, &v)
			if v <= last || v >= emitted {
				return fmt.Sprintf("delivered %d after %d (emitted 0..%d)", v, last, emitted-1), false
			}
			last = v
		}
		return "", true
	}
	switch op {
	case "delay":
		x := drive(func(o ro.Observable[int]) func(*rec.Rec) ro.Subscription { return intSub(ro.Delay[int](d)(o)) }, gs, end, nil)
		finish(x, 3*time.Second+20*d)
		em := emByVal(x)
		ev := x.r.Events()
		if msg, ok := subseq(ev, n); !ok {
			return fail("reordered-or-invented", msg)
		}
		var termBegin int64
		for _, e := range x.s.Emissions() {
			if e.N.K != rec.Next {
				termBegin = e.TBegin
			}
		}
		for _, e := range ev {
			if e.Kind == rec.Next {
				if lag := e.T - em[e.Val].TBegin; lag < int64(d) {
					return fail("delivered-early", fmt.Sprintf("value %s delivered %s after its emission began (< %v)", e.Val, ms(lag), d))
				}
			} else if termBegin != 0 && e.T-termBegin < int64(d) {
				return fail("terminal-delivered-early", fmt.Sprintf("terminal delivered %s after its emission began (< %v)", ms(e.T-termBegin), d))
			}
		}
		if end == rec.Complete && x.r.Terminal() == rec.Complete && countNext(ev) != n {
			return fail("value-lost", fmt.Sprintf("%d values delivered, %d emitted before completion", countNext(ev), n))
		}
		res.Events = int64(len(ev))
	case "timer":
		r := rec.New("timer")
		ts := rec.Mono()
		done := make(chan struct{})
		go func() { defer close(done); ro.Timer(d).Subscribe(rec.Raw[time.Duration](r)) }()
		<-done
		ev := r.Events()
		if len(ev) != 2 || ev[0].Kind != rec.Next || ev[1].Kind != rec.Complete {
			return fail("wrong-shape", "expected one value then completion, got ["+r.TraceString()+"]")
		}
		if ev[0].T-ts < int64(d) {
			return fail("fired-early", fmt.Sprintf("value delivered %s after subscription (< %v)", ms(ev[0].T-ts), d))
		}
		res.Events = 2
	case "interval", "intervalinitial", "rangeinterval", "repeatinterval":
		k := 3 + rng.Intn(4)
		initial := d
		if op == "intervalinitial" {
			initial = []time.Duration{d / 2, d, 2 * d, 0, -d, -1}[rng.Intn(6)] // a negative delay is no delay
		}
		var o ro.Observable[int64]
		switch op {
		case "interval":
			o = ro.Take[int64](int64(k))(ro.Interval(d))
		case "intervalinitial":
			o = ro.Take[int64](int64(k))(ro.IntervalWithInitial(initial, d))
		case "rangeinterval":
			o = ro.RangeWithInterval(0, int64(k), d)
		default:
			o = ro.Map(func(x int) int64 { return int64(x) })(ro.Scan(func(acc, _ int) int { return acc + 1 }, -1)(ro.RepeatWithInterval(7, int64(k), d)))
		}
		// the observable is cold: every subscription - the second one of the same value too - counts from 0 and from its own start
		for round := 0; round < 2; round++ {
			r := rec.New(op)
			ts := rec.Mono()
			sub := o.Subscribe(rec.Raw[int64](r))
			waitTerminal(r, 3*time.Second+time.Duration(k+2)*(d+initial))
			sub.Unsubscribe()
			ev := r.Events()
			idx := int64(0)
			for _, e := range ev {
				if e.Kind == rec.Error {
					return fail("error-instead-of-values", fmt.Sprintf("(initial %v) ended with an error: %s", initial, e.ErrS))
				}
				if e.Kind != rec.Next {
					continue
				}
				if e.Val != fmt.Sprint(idx) {
					return fail("wrong-sequence", fmt.Sprintf("subscription #%d of the observable: value #%d is %s; trace [%s]", round+1, idx, e.Val, r.TraceString()))
				}
				lower := int64(idx+1) * int64(d)
				if op == "intervalinitial" {
					lower = max(int64(initial), 0) + idx*int64(d)
				}
				if e.T-ts < lower {
					return fail("emitted-early", fmt.Sprintf("(initial %v) value %d delivered %s after subscription, not before %s is allowed", initial, idx, ms(e.T-ts), ms(lower)))
				}
				idx++
			}
			if r.Terminal() == rec.Complete && idx != int64(k) {
				return fail("wrong-count", fmt.Sprintf("%d values then completion, expected %d", idx, k))
			}
			res.Events += int64(len(ev))
		}
	case "timeout", "timeout-slow":
		x := &run{}
		dwells := map[int]time.Duration{}
		if op == "timeout-slow" {
			// a consumer that takes its time: the deadline armed before a value arrived must not
			// fire while - or right after - that value is being handled
			choices := []time.Duration{0, d / 2, d, d + d/2, 2 * d}
			for i := 0; i < n; i++ {
				dwells[i] = choices[rng.Intn(len(choices))]
			}
		}
		x = driveDwell(func(o ro.Observable[int]) func(*rec.Rec) ro.Subscription { return intSub(ro.Timeout[int](d)(o)) }, gs, end, dwells)
		<-x.done
		waitTerminal(x.r, 3*time.Second+4*d)
		func() { defer func() { recover() }(); x.sub.Unsubscribe() }()
		ev := x.r.Events()
		if msg, ok := subseq(ev, n); !ok {
			return fail("reordered-or-invented", msg)
		}
		var nexts []rec.Event
		for _, e := range ev {
			if e.Kind == rec.Next {
				nexts = append(nexts, e)
			}
		}
		var emNext []src.Emission
		for _, em := range x.s.Emissions() {
			if em.N.K == rec.Next {
				emNext = append(emNext, em)
			}
		}
		for _, e := range ev {
			if e.Kind != rec.Error || !strings.Contains(e.ErrS, "timeout") {
				continue
			}
			// The deadline that fired was armed at subscription, or after the observer had finished
			// with some value j (Timeout re-arms once the value has been handled), and it is disarmed
			// before the observer gets value j+1: ∃ j: arm_j + d ≤ E and arm_j + d ≤ start of the
			// observer's callback for value j+1 (not delivered: return of its emission; none: ∞).
			limit := func(j int) int64 { // latest instant at which deadline j can still have been armed
				if j < len(nexts) {
					return nexts[j].T
				}
				if j < len(emNext) && emNext[j].TEnd != 0 {
					return emNext[j].TEnd
				}
				return 1 << 62
			}
			ok := x.ts+int64(d) <= e.T && x.ts+int64(d) <= limit(0)
			for j := range nexts {
				at := nexts[j].TE
				if at != 0 && at+int64(d) <= e.T && at+int64(d) <= limit(j+1) {
					ok = true
				}
			}
			if !ok {
				last := "no value"
				if len(nexts) > 0 {
					l := nexts[len(nexts)-1]
					last = fmt.Sprintf("value %s handled from %s to %s", l.Val, ms(l.T), ms(l.TE))
				}
				return fail("fired-before-a-full-quiet-period", fmt.Sprintf("timeout error delivered at %s (subscription at %s, last: %s): no point at which the deadline can have been armed (subscription, or the observer returning from a value) is followed by a full quiet period of %v before the next value reached the observer", ms(e.T), ms(x.ts), last, d))
			}
		}
		res.Events = int64(len(ev))
	case "throttletime":
		x := drive(func(o ro.Observable[int]) func(*rec.Rec) ro.Subscription { return intSub(ro.ThrottleTime[int](d)(o)) }, gs, end, nil)
		finish(x, 3*time.Second)
		ev := x.r.Events()
		em := emByVal(x)
		if msg, ok := subseq(ev, n); !ok {
			return fail("reordered-or-invented", msg)
		}
		var prev *rec.Event
		for i := range ev {
			if ev[i].Kind != rec.Next {
				continue
			}
			if prev != nil {
				if dt := ev[i].T - em[prev.Val].TBegin; dt < int64(d) {
					return fail("two-values-in-one-window", fmt.Sprintf("value %s delivered %s after the emission of the previously delivered value %s began (< %v)", ev[i].Val, ms(dt), prev.Val, d))
				}
			}
			prev = &ev[i]
		}
		if n > 0 && countNext(ev) == 0 && x.r.Terminal() != rec.Next {
			return fail("first-value-not-delivered", "no value was let through at all")
		}
		res.Events = int64(len(ev))
	case "throttletime-2subs":
		// one throttled observable over a hot source, a second subscriber arriving in mid-stream: each
		// subscriber has its own window - never two values within one window for either of them
		subj := ro.NewPublishSubject[int]()
		o := ro.ThrottleTime[int](d)(subj)
		rA, rB := rec.New("A"), rec.New("B")
		begin := map[string]int64{}
		subA := o.Subscribe(rec.Raw[int](rA))
		var subB ro.Subscription
		join := 1 + rng.Intn(n-1)
		for i, g := range gs {
			if g > 0 {
				time.Sleep(g)
			}
			if i == join {
				subB = o.Subscribe(rec.Raw[int](rB))
			}
			begin[fmt.Sprint(i)] = rec.Mono()
			subj.Next(i)
		}
		subj.Complete()
		subA.Unsubscribe()
		if subB != nil {
			subB.Unsubscribe()
		}
		for name, r := range map[string]*rec.Rec{"A": rA, "B": rB} {
			ev := r.Events()
			if msg, ok := subseq(ev, n); !ok {
				return fail("reordered-or-invented", "subscriber "+name+": "+msg)
			}
			var prev *rec.Event
			for i := range ev {
				if ev[i].Kind != rec.Next {
					continue
				}
				if prev != nil {
					if dt := ev[i].T - begin[prev.Val]; dt < int64(d) {
						return fail("two-values-in-one-window", fmt.Sprintf("subscriber %s (B joined before value %d): value %s delivered %s after the emission of its previously delivered value %s began (< %v)", name, join, ev[i].Val, ms(dt), prev.Val, d))
					}
				}
				prev = &ev[i]
			}
			res.Events += int64(len(ev))
		}
	case "timed-2subs":
		// one time-driven pipeline value (BufferWithTime / SampleTime) over a hot source, subscribed a second time
		// half a period later: each subscription has a time base of its own - nothing is delivered to a
		// subscriber earlier than one period after ITS subscription - and the end of the first subscription
		// (its context is cancelled) does not end the second one
		subj := ro.NewPublishSubject[int]()
		which := []string{"BufferWithTime", "SampleTime"}[rng.Intn(2)]
		var subscribe func(ctx context.Context, r *rec.Rec) ro.Subscription
		if which == "BufferWithTime" {
			o := ro.BufferWithTime[int](d)(subj)
			subscribe = func(ctx context.Context, r *rec.Rec) ro.Subscription {
				return o.SubscribeWithContext(ctx, rec.Raw[[]int](r))
			}
		} else {
			o := ro.SampleTime[int](d)(subj)
			subscribe = func(ctx context.Context, r *rec.Rec) ro.Subscription {
				return o.SubscribeWithContext(ctx, rec.Raw[int](r))
			}
		}
		ctxA, cancelA := context.WithCancel(context.Background())
		defer cancelA()
		rA, rB := rec.New("A"), rec.New("B")
		tsA := rec.Mono()
		subA := subscribe(ctxA, rA)
		time.Sleep(d / 2)
		tsB := rec.Mono()
		subB := subscribe(context.Background(), rB)
		total, cancelAt := 14, 6
		for i := 0; i < total; i++ {
			time.Sleep(d / 4)
			if i == cancelAt {
				cancelA()
			}
			subj.Next(i)
		}
		tComplete := rec.Mono()
		subj.Complete()
		waitTerminal(rB, 3*time.Second)
		subA.Unsubscribe()
		subB.Unsubscribe()
		for _, x := range []struct {
			name string
			r    *rec.Rec
			ts   int64
		}{{"A", rA, tsA}, {"B", rB, tsB}} {
			for _, e := range x.r.Events() {
				if e.Kind == rec.Next {
					if e.T-x.ts < int64(d) {
						return fail("second-subscription-shares-the-time-base", fmt.Sprintf("%s subscribed twice (B %v after A): subscriber %s got %s %s after its own subscription, before one period had passed", which, d/2, x.name, e.Val, ms(e.T-x.ts)))
					}
					break
				}
			}
			res.Events += int64(x.r.Len())
		}
		// B lives until the source completes (which of the last values it still gets is the concurrent
		// flush's business, C05): its terminal is the source's completion, not an earlier one
		if rB.Terminal() != rec.Complete {
			return fail("second-subscription-ended-with-the-first", fmt.Sprintf("%s subscribed twice: subscriber B ended with %v instead of the source's completion; trace [%s]", which, rB.Terminal(), rB.TraceString()))
		}
		for _, e := range rB.Events() {
			if e.Kind == rec.Complete && e.T < tComplete {
				return fail("second-subscription-ended-with-the-first", fmt.Sprintf("%s subscribed twice, the context of subscription A cancelled before value %d: subscriber B was completed %s before the source completed; trace [%s]", which, cancelAt, ms(tComplete-e.T), rB.TraceString()))
			}
		}
	case "delayeach":
		// every value is held for the duration before it is forwarded - also when the subscription
		// context is cancelled while it waits
		ctx, cancel := context.WithCancel(context.Background())
		defer cancel()
		x := driveRec(func(o ro.Observable[int]) func(*rec.Rec) ro.Subscription {
			return func(r *rec.Rec) ro.Subscription {
				return ro.DelayEach[int](d)(o).SubscribeWithContext(ctx, rec.Raw[int](r))
			}
		}, gs, end, nil)
		if rng.Intn(2) == 0 {
			go func(after time.Duration) { time.Sleep(after); cancel() }(time.Duration(rng.Int63n(int64(time.Duration(n) * d))))
		}
		<-x.done
		waitTerminal(x.r, time.Second)
		func() { defer func() { recover() }(); x.sub.Unsubscribe() }()
		ev := x.r.Events()
		em := emByVal(x)
		if msg, ok := subseq(ev, n); !ok {
			return fail("reordered-or-invented", msg)
		}
		for _, e := range ev {
			if e.Kind == rec.Next {
				if lag := e.T - em[e.Val].TBegin; lag < int64(d) {
					return fail("delivered-early", fmt.Sprintf("value %s delivered %s after its emission began (< %v)", e.Val, ms(lag), d))
				}
			}
		}
		res.Events = int64(len(ev))
	case "sampletime":
		x := drive(func(o ro.Observable[int]) func(*rec.Rec) ro.Subscription { return intSub(ro.SampleTime[int](d)(o)) }, gs, end, nil)
		finish(x, 3*time.Second)
		ev := x.r.Events()
		if msg, ok := subseq(ev, n); !ok {
			return fail("reordered-duplicated-or-invented", msg)
		}
		m := int64(0)
		for _, e := range ev {
			if e.Kind != rec.Next {
				continue
			}
			if e.T-x.ts < (m+1)*int64(d) {
				return fail("more-than-one-value-per-tick", fmt.Sprintf("delivery #%d happened %s after subscription, before %d tick(s) of %v can have elapsed", m, ms(e.T-x.ts), m+1, d))
			}
			m++
		}
		res.Events = int64(len(ev))
	case "buffertime", "buffertimeorcount":
		size := 2 + rng.Intn(3)
		r := rec.New(op)
		s := src.New("s")
		var o ro.Observable[[]int]
		if op == "buffertime" {
			o = ro.BufferWithTime[int](d)(s.Observable())
		} else {
			o = ro.BufferWithTimeOrCount[int](size, d)(s.Observable())
		}
		ts := rec.Mono()
		sub := o.Subscribe(rec.Raw[[]int](r))
		for i, g := range gs {
			if g > 0 {
				time.Sleep(g)
			}
			s.Next(i)
		}
		if end == rec.Complete {
			s.Complete()
		} else if end == rec.Error {
			s.Error()
		}
		if end != rec.Next {
			waitTerminal(r, 3*time.Second)
		} else {
			time.Sleep(3 * d)
		}
		sub.Unsubscribe()
		ev := r.Events()
		last := -1
		total := 0
		timed := int64(0)
		termBegin := int64(0)
		for _, em := range s.Emissions() {
			if em.N.K != rec.Next {
				termBegin = em.TBegin
			}
		}
		for i, e := range ev {
			if e.Kind != rec.Next {
				continue
			}
			vals := strings.Fields(strings.Trim(e.Val, "[]"))
			if op == "buffertimeorcount" && len(vals) > size {
				return fail("buffer-larger-than-count", fmt.Sprintf("buffer %s has more than %d items", e.Val, size))
			}
			for _, vs := range vals {
				var v int
				fmt.Sscan(vs, &v)
				if v <= last || v >= n {
					return fail("reordered-duplicated-or-invented", fmt.Sprintf("buffer #%d %s contains %d after %d", i, e.Val, v, last))
				}
				last = v
				total++
			}
			isFinal := i+1 < len(ev) && ev[i+1].Kind != rec.Next
			countTriggered := op == "buffertimeorcount" && len(vals) == size
			// (only for BufferWithTime: with a count trigger a size-triggered flush racing a tick can emit a
			// partial buffer, so "shorter than size" does not identify the tick-triggered ones)
			// … and a buffer delivered after the source's terminal call began may be the flush of that
			// terminal overtaking a tick's flush (the recorded unlock-then-emit defect delivers them in
			// either order): only buffers delivered before the terminal call are certainly tick-triggered
			if !isFinal && !countTriggered && op == "buffertime" && (termBegin == 0 || e.T < termBegin) {
				if e.T-ts < (timed+1)*int64(d) {
					return fail("time-buffer-emitted-early", fmt.Sprintf("time-triggered buffer #%d delivered %s after subscription, before %d period(s) of %v", timed, ms(e.T-ts), timed+1, d))
				}
				timed++
			}
		}
		if end == rec.Complete && r.Terminal() == rec.Complete && total != n {
			return fail("value-lost-at-completion", fmt.Sprintf("source emitted %d values and completed; buffers contain %d: [%s]", n, total, r.TraceString()))
		}
		res.Events = int64(len(ev))
	case "stop":
		// silence after Unsubscribe / context cancellation at a random instant
		which := rng.Intn(8)
		ctx, cancel := context.WithCancel(context.Background())
		defer cancel()
		r := rec.New("stop")
		var sub ro.Subscription
		s := src.New("s")
		name := ""
		switch which {
		case 0:
			name = "Interval"
			sub = ro.Interval(d).SubscribeWithContext(ctx, rec.Raw[int64](r))
		case 1:
			name = "IntervalWithInitial"
			sub = ro.IntervalWithInitial(d, d).SubscribeWithContext(ctx, rec.Raw[int64](r))
		case 2:
			name = "Delay"
			sub = ro.Delay[int](d)(s.Observable()).SubscribeWithContext(ctx, rec.Raw[int](r))
		case 3:
			name = "SampleTime"
			sub = ro.SampleTime[int](d)(s.Observable()).SubscribeWithContext(ctx, rec.Raw[int](r))
		case 4:
			name = "BufferWithTime"
			sub = ro.BufferWithTime[int](d)(s.Observable()).SubscribeWithContext(ctx, rec.Raw[[]int](r))
		case 5:
			name = "Timeout"
			sub = ro.Timeout[int](d)(s.Observable()).SubscribeWithContext(ctx, rec.Raw[int](r))
		case 6:
			name = "BufferWithTimeOrCount"
			sub = ro.BufferWithTimeOrCount[int](3, d)(s.Observable()).SubscribeWithContext(ctx, rec.Raw[[]int](r)) // count-triggered buffers go on for as long as the stream lives
		default:
			name = "ThrottleTime"
			sub = ro.ThrottleTime[int](d)(s.Observable()).SubscribeWithContext(ctx, rec.Raw[int](r))
		}
		stopFeed := make(chan struct{})
		fed := make(chan struct{})
		go func() {
			defer close(fed)
			defer func() { recover() }()
			for i := 0; ; i++ {
				select {
				case <-stopFeed:
					return
				case <-time.After(d / 3):
				}
				if s.IsSubscribed() && s.Live.Load() > 0 {
					s.Next(i)
				}
			}
		}()
		time.Sleep(time.Duration(rng.Int63n(int64(4 * d))))
		// Cancellation is applied to the periodic sources and to the operators whose time base is such a source
		// (SampleTime, BufferWithTime, BufferWithTimeOrCount: their ticker ends with the context, and with it the
		// stream). The source of cases 2.. is a plain producer that knows nothing of the context and keeps
		// emitting: Delay, Timeout and ThrottleTime have no time base of their own that could notice the
		// cancellation, they are stopped by Unsubscribe only.
		byCancel := (which <= 1 || which == 3 || which == 4 || which == 6) && rng.Intn(2) == 0
		if byCancel {
			cancel()
		} else {
			sub.Unsubscribe()
		}
		tu := rec.Tick()
		// "falls silent": two consecutive observation windows of 4 periods without any notification.
		// How soon that happens is not asserted (a loaded machine may run the operator's goroutine
		// late); an operator that was not stopped keeps ticking and never shows two silent windows.
		silent, windows := 0, 0
		prev := r.Len()
		for silent < 2 && windows < 400 {
			time.Sleep(4*d + 2*time.Millisecond)
			windows++
			if n := r.Len(); n == prev {
				silent++
			} else {
				silent, prev = 0, n
			}
		}
		close(stopFeed)
		<-fed
		quiesce.Settle(time.Second)
		how := "Unsubscribe"
		if byCancel {
			how = "context cancellation"
		}
		late := 0
		for _, e := range r.Events() {
			if e.Seq > tu && e.Kind == rec.Next {
				late++
			}
		}
		// Unsubscribe closes the subscriber at once: only a callback already in progress may finish.
		// A cancelled context is noticed by the emitting goroutine at its next select, which may pick a
		// pending tick first: no count is asserted there, only that the stream has fallen silent.
		if !byCancel && late > 1 {
			return fail("not-silent-after-stop", fmt.Sprintf("%s delivered %d values after %s returned", name, late, how))
		}
		if silent < 2 {
			return fail("not-silent-after-stop", fmt.Sprintf("%s is still delivering after %s: %d observation windows of 4 periods each, never two consecutive ones without a notification (%d values since)", name, how, windows, late))
		}
		res.Events = int64(r.Len()) + 1
		res.Sig = name
	}
	res.Nontrivial = res.Events > 0
	if res.Sig == "" {
		res.Sig = fmt.Sprintf("%s/%v/%d", op, d, n)
	}
	res.Sample = map[string]any{"operator": op, "duration": d.String(), "gaps": fmt.Sprint(gs), "events": res.Events}
	return res
}

func countNext(ev []rec.Event) int {
	n := 0
	for _, e := range ev {
		if e.Kind == rec.Next {
			n++
		}
	}
	return n
}

func main() {
	driver.Main(driver.Property{
		ID:        "C16",
		Level:     "exploration",
		Rule:      "seeded timelines (inter-arrival gaps from {0, d/4, d−ε, d, d+ε, 3d} with bursts; durations 1/5/20(/40) ms; ending complete/error/none; jitter or yields at the timer-goroutine hook points) through Delay, Timer, Interval, IntervalWithInitial (initial d/2, d, 2d, 0, −d, −1ns), RangeWithInterval, RepeatWithInterval, Timeout, ThrottleTime, SampleTime, BufferWithTime, BufferWithTimeOrCount, and Unsubscribe / context cancellation at a random instant. Monotonic timestamps are taken by the harness at emission and inside the recording observer. ONLY lower bounds and order/count relations are asserted (Delay: delivery − emission ≥ d, order kept, nothing lost at completion; periodic sources: value k not before (k+1)·p / initial + k·p, values 0,1,2…; Timeout: error not before d after the emission that armed it; ThrottleTime (windows of whole and of fractional milliseconds): two deliveries ≥ w apart measured from the first one's emission, first value delivered; SampleTime: m-th delivery not before (m+1)·p, output an increasing subsequence; time buffers: increasing subsequence, complete at completion, sizes ≤ count, m-th time-triggered buffer not before (m+1)·p; silence (≤1 in-flight value) after stop). Non-trivial: ≥1 timestamped event. Timeout additionally with an observer that dwells 0..2·d inside Next (timeout-slow); Timeout oracle: the deadline that fired was armed at subscription or when the observer returned from value j, and arm+d ≤ start of the observer's callback for value j+1. Periodic sources: the same observable value is subscribed twice, each subscription counts from 0 and from its own start.",
		Assume:    []string{"machine load can only delay deliveries; no upper bound on time is asserted"},
		Plan:      plan,
		Run:       runCase,
		CaseWatch: 60 * time.Second,
		Setup: func() {
			rec.Install()
			sched.Install()
		},
	})
}
