// C15 — re-subscribing operators run attempts in sequence, the right number of times.
package main

import (
	"context"
	"fmt"
	"strings"
	"sync/atomic"
	"time"

	"github.com/samber/ro"
	"verifharness/internal/driver"
	"verifharness/internal/quiesce"
	"verifharness/internal/rec"
	"verifharness/internal/run"
	"verifharness/internal/sched"
	"verifharness/internal/src"
)

// attempt outcomes: short scripts ending in C or E
var outcomes = []string{"C", "E", "1 C", "1 E", "1 2 C", "1 2 E"}

func seqs(n int) [][]string {
	out := [][]string{{}}
	for i := 0; i < n; i++ {
		var next [][]string
		for _, p := range out {
			for _, o := range outcomes {
				next = append(next, append(append([]string(nil), p...), o))
			}
		}
		out = next
	}
	return out
}

func plan(tier string, seed int64) []driver.Case {
	maxAttempts := 4
	if tier == "thorough" {
		maxAttempts = 5
	}
	var cases []driver.Case
	add := func(op, cfg string, attempts []string, async bool, cancelAt int) {
		id := fmt.Sprintf("%s/%s/%s/async=%v/cancel=%d", op, cfg, strings.Join(attempts, "|"), async, cancelAt)
		cases = append(cases, driver.Case{ID: id, P: map[string]string{"op": op, "cfg": cfg, "attempts": strings.Join(attempts, "|"), "async": fmt.Sprint(async), "cancel": fmt.Sprint(cancelAt)}})
		if async && len(attempts) >= 2 && len(attempts) <= 3 {
			// the goroutine that ends attempt k is held between the terminal callbacks and the
			// release of that attempt: the next attempt must wait for the release, not for the callback
			for k := 1; k < len(attempts); k++ {
				cases = append(cases, driver.Case{ID: id + fmt.Sprintf("/park=%d", k), P: map[string]string{"op": op, "cfg": cfg, "attempts": strings.Join(attempts, "|"), "async": "true", "cancel": fmt.Sprint(cancelAt), "park": fmt.Sprint(k)}})
			}
			// … and inside the release itself: the subscription of attempt k is already marked closed,
			// its finalizers (the source's teardown among them) have not run yet
			cases = append(cases, driver.Case{ID: id + "/park-unsub=1", P: map[string]string{"op": op, "cfg": cfg, "attempts": strings.Join(attempts, "|"), "async": "true", "cancel": fmt.Sprint(cancelAt), "park": "1", "parkpoint": "subscription.unsub.unlocked"}})
		}
	}
	for _, what := range []string{"subscription", "subscriber"} {
		cases = append(cases, driver.Case{ID: "primitive/wait-during-unsubscribe/" + what, P: map[string]string{"op": "primitive", "what": what}})
	}
	for n := 1; n <= maxAttempts; n++ {
		for _, at := range seqs(n) {
			for _, async := range []bool{false, true} {
				if async && n == maxAttempts && tier != "thorough" {
					continue
				}
				// Retry configurations
				for _, mr := range []int{0, 1, 2, 3} {
					if mr == 0 && !strings.HasSuffix(at[len(at)-1], "C") {
						continue // unlimited retries: the last scripted attempt (which repeats) must succeed
					}
					for _, reset := range []bool{false, true} {
						if reset && mr != 0 {
							// ResetOnSuccess restarts the count at every value: an attempt that delivers values and
							// fails, repeated for ever (the last outcome repeats), never exhausts the retries
							if v, ok := vals(at[len(at)-1]); !ok && len(v) > 0 {
								continue
							}
						}
						for _, delay := range []int{0, 2} {
							if delay == 2 && (async || n > 2) {
								continue
							}
							add("retry", fmt.Sprintf("max=%d,reset=%v,delay=%d", mr, reset, delay), at, async, -1)
						}
					}
				}
				if n <= 2 {
					add("retry-plain", "", appendC(at), async, -1)
				}
				for _, cnt := range []int{0, 1, 2, 3} {
					add("repeat", fmt.Sprintf("count=%d", cnt), at, async, -1)
				}
				for _, truth := range []string{"F", "TF", "TTF", "TTTF"} {
					add("dowhile", truth, at, async, -1)
					add("while", truth, at, async, -1)
				}
				if n <= 3 {
					add("catch", "", at, async, -1)
					add("resumenext", fmt.Sprint(n), at, async, -1)
					add("concat", fmt.Sprint(n), at, async, -1)
				}
			}
			// context cancellation when attempt k is subscribed (Retry checks the context between attempts)
			for k := 0; k < n; k++ {
				add("retry", "max=3,reset=false,delay=0", at, false, k)
				add("retry", "max=0,reset=false,delay=0", appendC(at), false, k)
			}
		}
	}
	return cases
}

func appendC(at []string) []string {
	if strings.HasSuffix(at[len(at)-1], "C") {
		return at
	}
	return append(append([]string(nil), at...), "C")
}

type expect struct {
	vals     []string
	term     string // "C", "E", "E(ctx)", ""
	attempts int
}

func vals(sc string) ([]string, bool) { // values, completes?
	f := strings.Fields(sc)
	return f[:len(f)-1], f[len(f)-1] == "C"
}

func outcome(at []string, i int) string {
	if i >= len(at) {
		return at[len(at)-1]
	}
	return at[i]
}

func model(op, cfg string, at []string, cancelAt int) expect {
	var e expect
	play := func(i int) bool { // plays attempt i, returns completed?
		v, ok := vals(outcome(at, i))
		e.vals = append(e.vals, v...)
		e.attempts++
		return ok
	}
	switch op {
	case "retry", "retry-plain":
		var mr int
		var reset bool
		if op == "retry" {
			var d int
			fmt.Sscanf(cfg, "max=%d,reset=%t,delay=%d", &mr, &reset, &d)
		}
		retries := 0
		for i := 0; ; i++ {
			if cancelAt >= 0 && i > cancelAt {
				e.term = "E(ctx)"
				return e
			}
			v, ok := vals(outcome(at, i))
			if reset && len(v) > 0 {
				retries = 0
			}
			if play(i) {
				e.term = "C"
				return e
			}
			retries++
			if !(mr == 0 || retries <= mr) {
				e.term = "E"
				return e
			}
			_ = ok
		}
	case "repeat":
		var cnt int
		fmt.Sscanf(cfg, "count=%d", &cnt)
		if cnt == 0 {
			e.term = "C"
			return e
		}
		for i := 0; i < cnt; i++ {
			if !play(i) {
				e.term = "E"
				return e
			}
		}
		e.term = "C"
	case "dowhile":
		for i := 0; ; i++ {
			if !play(i) {
				e.term = "E"
				return e
			}
			if i >= len(cfg) || cfg[i] == 'F' {
				e.term = "C"
				return e
			}
		}
	case "while":
		for i := 0; ; i++ {
			if i >= len(cfg) || cfg[i] == 'F' {
				e.term = "C"
				return e
			}
			if !play(i) {
				e.term = "E"
				return e
			}
		}
	case "catch":
		// source 0, then on error the fallback (source 1) once
		if play(0) {
			e.term = "C"
			return e
		}
		if len(at) < 2 {
			e.term = "C" // fallback is Empty when no second outcome was scripted
			return e
		}
		if play(1) {
			e.term = "C"
		} else {
			e.term = "E"
		}
	case "resumenext":
		ok := true
		for i := range at {
			ok = play(i)
		}
		if ok {
			e.term = "C"
		} else {
			e.term = "E"
		}
	case "concat":
		for i := range at {
			if !play(i) {
				e.term = "E"
				return e
			}
		}
		e.term = "C"
	}
	return e
}

// runPrimitive: every operator of this property moves on to the next attempt when Wait() on the
// previous attempt's subscription returns. While another goroutine is inside Unsubscribe of that
// subscription - already marked closed, finalizers (the source's teardown among them) not yet run -
// Wait must not return: otherwise the next attempt starts before the previous one is released.
// attemptBudget bounds the number of subscriptions the scripted sources of one case play as scripted.
const attemptBudget = 60

func runPrimitive(c driver.Case) driver.Result {
	res := driver.Result{Verdict: driver.Held, Nontrivial: true, Sig: "primitive/" + c.Get("what")}
	var released atomic.Bool
	mk := func() ro.Subscription {
		if c.Get("what") == "subscriber" {
			sub := ro.NewSubscriber[int](rec.Raw[int](rec.New("p")))
			sub.Add(func() { released.Store(true) })
			return sub
		}
		return ro.NewSubscription(func() { released.Store(true) })
	}
	sub := mk()
	arrived, release := sched.Park("subscription.unsub.unlocked", 1)
	defer sched.ClearParks()
	unsubDone := make(chan struct{})
	go func() { defer close(unsubDone); defer func() { recover() }(); sub.Unsubscribe() }()
	select {
	case <-arrived:
	case <-time.After(10 * time.Second):
		return driver.Result{Verdict: driver.Inconclusive, Key: "park-not-reached", Dirty: true}
	}
	waitDone := make(chan struct{})
	var releasedAtReturn atomic.Bool
	go func() { defer close(waitDone); sub.Wait(); releasedAtReturn.Store(released.Load()) }()
	early := false
	select {
	case <-waitDone:
		early = true
	case <-time.After(20 * time.Millisecond): // Wait is (still) blocked: as it must be
	}
	release()
	<-unsubDone
	st, _, _ := quiesce.Call(func() { <-waitDone }, 10*time.Second)
	res.Events = 3
	res.Sample = map[string]any{"primitive": c.Get("what"), "wait_returned_while_finalizers_pending": early, "released_when_wait_returned": releasedAtReturn.Load()}
	switch {
	case st != quiesce.Returned:
		res.Verdict, res.Key, res.Dirty = driver.Violated, "C15/subscription/wait-never-returns-after-unsubscribe", true
		res.Msg = "Wait() started while Unsubscribe was running its finalizers never returned"
	case early || !releasedAtReturn.Load():
		res.Verdict, res.Key = driver.Violated, "C15/subscription/wait-returns-before-release-finished"
		res.Msg = fmt.Sprintf("%s: Unsubscribe is held (hook point subscription.unsub.unlocked) after marking the subscription closed and before running its finalizers; Wait() called meanwhile returned although the teardown had not run - an operator that waits for the previous attempt this way subscribes the next one before the previous one is released", c.Get("what"))
	}
	return res
}

func runCase(c driver.Case) driver.Result {
	rec.ResetHooks()
	if c.Get("op") == "primitive" {
		return runPrimitive(c)
	}
	op, cfg := c.Get("op"), c.Get("cfg")
	at := strings.Split(c.Get("attempts"), "|")
	async := c.Get("async") == "true"
	cancelAt := c.Int("cancel")
	res := driver.Result{Verdict: driver.Held}
	ctx, cancel := context.WithCancel(context.Background())
	defer cancel()
	var overlap, notReleased atomic.Int64
	var live atomic.Int64 // shared across all instrumented sources
	var started atomic.Int64
	var startedAfterCancel atomic.Int64
	var cancelled atomic.Bool
	mkSource := func(name string, scripts []string) *src.Source {
		var ss []src.Script
		for _, s := range scripts {
			ss = append(ss, src.Parse(s))
		}
		s := src.New(name, ss...)
		s.Async = async
		return s
	}
	var sources []*src.Source
	hook := func(s *src.Source) {
		s.OnSubscribe = func(idx int, liveOthers int64, _ context.Context) {
			running := 0
			for _, o := range sources {
				running += o.Running()
			}
			if running > 1 { // this subscription is already counted; "over" = it issued its terminal
				overlap.Add(1)
			}
			// operators that wait for the previous attempt also release it before the next one starts
			if op != "catch" {
				total := int64(0)
				for _, o := range sources {
					total += o.Live.Load()
				}
				if total > 1 {
					notReleased.Add(1)
				}
			}
			n := started.Add(1)
			if n > attemptBudget {
				// a runaway loop of re-subscriptions (no definition here prescribes more than a handful of
				// attempts): from now on the source just completes, which ends every one of these operators;
				// the attempt count reported below tells the rest
				s.Scripts = []src.Script{src.Parse("C")}
			}
			if cancelled.Load() {
				startedAfterCancel.Add(1)
			}
			if cancelAt >= 0 && int(n-1) == cancelAt {
				cancel()
				cancelled.Store(true)
			}
			_ = &live
		}
	}
	var obs ro.Observable[int]
	switch op {
	case "retry", "retry-plain":
		s := mkSource("a", at)
		sources = []*src.Source{s}
		if op == "retry-plain" {
			obs = ro.Retry[int]()(s.Observable())
		} else {
			var mr, d int
			var reset bool
			fmt.Sscanf(cfg, "max=%d,reset=%t,delay=%d", &mr, &reset, &d)
			obs = ro.RetryWithConfig[int](ro.RetryConfig{MaxRetries: uint64(mr), ResetOnSuccess: reset, Delay: time.Duration(d) * time.Millisecond})(s.Observable())
		}
	case "repeat":
		var cnt int
		fmt.Sscanf(cfg, "count=%d", &cnt)
		s := mkSource("a", at)
		sources = []*src.Source{s}
		obs = ro.RepeatWith[int](int64(cnt))(s.Observable())
	case "dowhile", "while":
		s := mkSource("a", at)
		sources = []*src.Source{s}
		truth := cfg
		cond := func(i int64) bool { return int(i) < len(truth) && truth[i] == 'T' }
		if op == "dowhile" {
			obs = ro.DoWhileI[int](cond)(s.Observable())
		} else {
			obs = ro.WhileI[int](cond)(s.Observable())
		}
	case "catch":
		a := mkSource("a", at[:1])
		sources = []*src.Source{a}
		fallback := ro.Empty[int]()
		if len(at) >= 2 {
			b := mkSource("b", at[1:2])
			sources = append(sources, b)
			fallback = b.Observable()
		}
		obs = ro.Catch(func(error) ro.Observable[int] { return fallback })(a.Observable())
	case "resumenext", "concat":
		var all []ro.Observable[int]
		for i, o := range at {
			s := mkSource(fmt.Sprintf("s%d", i), []string{o})
			sources = append(sources, s)
			all = append(all, s.Observable())
		}
		if op == "concat" {
			obs = ro.Concat(all...)
		} else {
			obs = ro.OnErrorResumeNextWith(all[1:]...)(all[0])
		}
	}
	for _, s := range sources {
		hook(s)
	}
	r := rec.New(op)
	var parkedAt atomic.Int64
	if pk := c.Get("park"); pk != "" {
		point := "subscriber.terminal.unlocked"
		if pp := c.Get("parkpoint"); pp != "" {
			point = pp
		}
		arrived, release := sched.Park(point, c.Int("park"))
		if c.Get("parkpoint") != "" {
			// the operator gets the subscription back only when the attempt's goroutine already sits
			// inside the release of that subscription
			for _, s := range sources {
				s.HoldSubscribe = arrived
			}
		}
		defer sched.ClearParks()
		go func() {
			<-arrived
			parkedAt.Store(started.Load())
			// whoever wrongly takes the terminal callback for the end of the attempt gets time to
			// subscribe the next one; whoever waits for the release is still waiting afterwards
			time.Sleep(5 * time.Millisecond)
			release()
		}()
	}
	st, dump, pan := quiesce.Call(func() { obs.SubscribeWithContext(ctx, rec.Raw[int](r)) }, 20*time.Second)
	what := fmt.Sprintf("%s(%s) over attempts [%s] (async=%v, cancel at attempt %d)", op, cfg, c.Get("attempts"), async, cancelAt)
	fail := func(key, msg string) driver.Result {
		res.Verdict, res.Key = driver.Violated, "C15/"+op+"/"+key
		res.Msg = what + ": " + msg + "; trace: [" + r.TraceString() + "]"
		return res
	}
	if st == quiesce.Hung {
		res.Dirty, res.Witness = true, dump
		return fail("subscribe-never-returns", "Subscribe never returned; all goroutines blocked ("+quiesce.BlockedSite(dump)+")")
	}
	if st != quiesce.Returned {
		return driver.Result{Verdict: driver.Inconclusive, Key: "subscribe-timeout", Dirty: true}
	}
	if pan != nil {
		return fail("panic", fmt.Sprint(pan))
	}
	run.WaitEvents(r, -1, 3*time.Second, 15*time.Second)
	quiesce.Settle(5 * time.Second)
	exp := model(op, cfg, at, cancelAt)
	// trace
	var got []string
	term := ""
	for _, e := range r.Events() {
		switch e.Kind {
		case rec.Next:
			got = append(got, e.Val)
		case rec.Complete:
			term = "C"
		case rec.Error:
			term = "E"
			if e.Err == context.Canceled || strings.Contains(e.ErrS, "context canceled") {
				term = "E(ctx)"
			}
		}
	}
	res.Events = int64(r.Len()) + started.Load()
	res.Nontrivial = started.Load() > 0 || exp.attempts == 0
	res.Sig = what
	res.Sample = map[string]any{"operator": op, "config": cfg, "attempt_outcomes": at, "async": async, "trace": r.TraceString(), "attempts_started": started.Load(), "expected_attempts": exp.attempts}
	if overlap.Load() > 0 {
		return fail("attempts-overlap", "an attempt was subscribed while a previous one had not ended")
	}
	if notReleased.Load() > 0 {
		return fail("previous-attempt-not-released", "an attempt was subscribed while the previous one, although ended, had not been released")
	}
	if gp := r.GrammarProblems(); len(gp) > 0 {
		return fail("delivery-after-terminal", strings.Join(gp, "; "))
	}
	if cancelAt >= 0 {
		// cancellation: no attempt may start after the cancel call returned; terminal per model
		if startedAfterCancel.Load() > 0 {
			return fail("attempt-started-after-context-cancelled", fmt.Sprintf("%d attempt(s) were started after the subscription context had been cancelled", startedAfterCancel.Load()))
		}
	}
	if int(started.Load()) != exp.attempts {
		return fail("attempt-count", fmt.Sprintf("the source(s) were subscribed %d times, the definition prescribes %d", started.Load(), exp.attempts))
	}
	if strings.Join(got, " ") != strings.Join(exp.vals, " ") {
		return fail("values", fmt.Sprintf("values [%s], the definition prescribes [%s]", strings.Join(got, " "), strings.Join(exp.vals, " ")))
	}
	if term != exp.term {
		return fail("terminal", fmt.Sprintf("terminal %q, the definition prescribes %q", term, exp.term))
	}
	for _, s := range sources {
		if s.Live.Load() != 0 {
			return fail("attempt-not-released", "an attempt is still subscribed after the stream ended: "+s.Summary())
		}
	}
	return res
}

func main() {
	driver.Main(driver.Property{
		ID:        "C15",
		Level:     "exploration",
		Rule:      "a scripted cold source whose n-th subscription plays the n-th outcome (each outcome a script of ≤2 values ending in completion or error) — EVERY outcome sequence up to the bound × Retry/RetryWithConfig (MaxRetries 0..3 × ResetOnSuccess × Delay 0/2ms), RepeatWith 0..3, DoWhileI/WhileI (truth sequences F, TF, TTF, TTTF), Catch, OnErrorResumeNextWith, Concat × synchronous and asynchronous attempts, plus cancellation of the subscription context at the moment attempt k is subscribed. Oracle: inside the source's subscribe function no other attempt is live; number of attempts, forwarded values and terminal equal the executable definition; no attempt starts after the context was cancelled and the terminal is the context's error; every attempt is released at the end. Non-trivial: at least one attempt was started (or the definition prescribes none). Asynchronous cases of 2-3 attempts are repeated with the goroutine that ends attempt k parked at the hook point subscriber.terminal.unlocked (terminal callbacks done, attempt not yet released): the next attempt must not be subscribed meanwhile.",
		Assume:    []string{"definitions follow the operators' doc comments and examples; unlimited Retry is only driven with a finally succeeding outcome"},
		Plan:      plan,
		Run:       runCase,
		CaseWatch: 90 * time.Second,
		Setup: func() {
			rec.Install()
			sched.Install()
		},
		Exhaustive: func(tier string) string {
			if tier == "thorough" {
				return "all outcome sequences of ≤5 attempts over 6 outcomes × the listed configurations"
			}
			return "all outcome sequences of ≤4 attempts over 6 outcomes × the listed configurations"
		},
	})
}
