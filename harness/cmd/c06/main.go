// C06 — Unsubscribe cuts delivery; IsClosed, Wait and Collect tell the truth.
package main

import (
	"context"
	"fmt"
	"math/rand"
	"strings"
	"sync"
	"sync/atomic"
	"time"

	"github.com/samber/ro"
	"verifharness/internal/catalog"
	"verifharness/internal/driver"
	"verifharness/internal/quiesce"
	"verifharness/internal/rec"
	"verifharness/internal/sched"
	"verifharness/internal/src"
)

func plan(tier string, seed int64) []driver.Case {
	maxPrefix, nChains, nConc := 2, 120, 150
	if tier == "thorough" {
		maxPrefix, nChains, nConc = 4, 2500, 4000
	}
	rng := rand.New(rand.NewSource(seed))
	var cases []driver.Case
	kinds := []string{"cut", "cut-mid", "inside-next", "inside-terminal", "wait-order"}
	add := func(id string, p map[string]string) {
		cases = append(cases, driver.Case{ID: id, P: p})
	}
	for _, e := range catalog.All() {
		if e.Flags.Has(catalog.Creation) {
			add("creation/"+e.Name, map[string]string{"kind": "creation", "entry": e.Name})
			continue
		}
		for _, k := range kinds {
			if e.Flags.Has(catalog.Blocks) && k != "wait-order" {
				continue // no subscription object exists before the sources end (C14's subject)
			}
			for j := 0; j <= maxPrefix; j++ {
				if (k == "inside-next" || k == "cut-mid") && j == 0 {
					continue
				}
				ends := []string{""}
				if k == "inside-terminal" || k == "wait-order" {
					ends = []string{"C", "E"}
				}
				for _, end := range ends {
					add(fmt.Sprintf("op/%s/%s/p%d%s", e.Name, k, j, end), map[string]string{"kind": k, "entry": e.Name, "prefix": fmt.Sprint(j), "end": end})
				}
			}
		}
		// Collect over synchronous scripts
		for _, sc := range []string{"C", "E", "1 C", "1 2 E", "2 1 2 C"} {
			add(fmt.Sprintf("collect/%s/%s", e.Name, sc), map[string]string{"kind": "collect", "entry": e.Name, "script": sc})
			add(fmt.Sprintf("collect-async/%s/%s", e.Name, sc), map[string]string{"kind": "collect", "entry": e.Name, "script": sc, "async": "1"})
		}
	}
	// the emitting goroutine is parked between the moment a subscriber marks itself terminated
	// and the moment it runs the terminal callback: Wait / Collect must sit this window out
	for _, e := range catalog.All() {
		if e.Op == nil || e.Flags.Has(catalog.Blocks) || e.Flags.Has(catalog.Creation) {
			continue
		}
		for _, sc := range []string{"1 2 E", "1 C", "E"} {
			for _, v := range []string{"collect", "wait"} {
				for _, async := range []string{"1", "", "held"} {
					add(fmt.Sprintf("park-terminal/%s/%s/%s/async=%s", v, e.Name, sc, async), map[string]string{"kind": "park-terminal", "variant": v, "entry": e.Name, "script": sc, "async": async})
				}
			}
		}
	}
	// a source whose teardown panics: the stream still terminates, Wait and Collect must return
	for _, e := range catalog.All() {
		if e.Op == nil || e.Flags.Has(catalog.Blocks) || e.Flags.Has(catalog.Creation) {
			continue
		}
		for _, sc := range []string{"1 2 E", "1 C"} {
			for _, v := range []string{"collect", "wait", "unsubscribe"} {
				add(fmt.Sprintf("teardown-panic/%s/%s/%s", v, e.Name, sc), map[string]string{"kind": "teardown-panic", "variant": v, "entry": e.Name, "script": sc})
			}
		}
	}
	ch := catalog.Chainable()
	var usable []*catalog.Entry
	for _, e := range ch {
		if !e.Flags.Has(catalog.Blocks) {
			usable = append(usable, e)
		}
	}
	for i := 0; i < nChains; i++ {
		n := 2 + rng.Intn(3)
		names := make([]string, n)
		for j := range names {
			names[j] = usable[rng.Intn(len(usable))].Name
		}
		k := kinds[rng.Intn(len(kinds))]
		j := 1 + rng.Intn(3)
		end := ""
		if k == "inside-terminal" || k == "wait-order" {
			end = []string{"C", "E"}[rng.Intn(2)]
		}
		add(fmt.Sprintf("chain/%d/%s/%s/p%d%s", i, strings.Join(names, ">"), k, j, end), map[string]string{"kind": k, "chain": strings.Join(names, ">"), "prefix": fmt.Sprint(j), "end": end})
	}
	// concurrent Unsubscribe / Wait callers against an emitting asynchronous source
	for i := 0; i < nConc; i++ {
		e := usable[rng.Intn(len(usable))]
		cases = append(cases, driver.Case{ID: fmt.Sprintf("conc/%d/%s", i, e.Name), Race: tier == "thorough" && i%2 == 0,
			P: map[string]string{"kind": "conc", "entry": e.Name, "callers": fmt.Sprint(1 + rng.Intn(8)), "yield": fmt.Sprint(rng.Intn(3)), "seed": fmt.Sprint(rng.Int63()), "concurrent": "1"}})
	}
	cases = append(cases, joinedCases()...)
	cases = append(cases, doubleTerminalCases()...)
	// subjects' subscriptions
	for _, kind := range []string{"publish", "behavior", "replay", "async", "unicast"} {
		for j := 0; j <= maxPrefix; j++ {
			add(fmt.Sprintf("subject/%s/p%d", kind, j), map[string]string{"kind": "subject", "subject": kind, "prefix": fmt.Sprint(j)})
		}
	}
	return cases
}

type built struct {
	name, fam string
	flags     catalog.Flags
	srcs      []*src.Source
	p         catalog.Pipeline
}

func build(c driver.Case, async bool, scripts []src.Script) built {
	var b0 built
	cb := &catalog.B{}
	var e *catalog.Entry
	var chain []*catalog.Entry
	if ch := c.Get("chain"); ch != "" {
		for _, n := range strings.Split(ch, ">") {
			chain = append(chain, catalog.Get(n))
		}
		e = chain[0]
		chain = chain[1:]
		b0.name, b0.fam = ch, "chain"
	} else {
		e = catalog.Get(c.Get("entry"))
		b0.name, b0.fam = e.Name, e.Family
	}
	b0.flags = e.Flags
	for _, x := range chain {
		b0.flags |= x.Flags
	}
	for i := 0; i < e.NSrc; i++ {
		var sc []src.Script
		if i < len(scripts) {
			sc = []src.Script{scripts[i]}
		}
		s := src.New(fmt.Sprintf("s%d", i), sc...)
		s.Async = async
		b0.srcs = append(b0.srcs, s)
		cb.Srcs = append(cb.Srcs, s.Observable())
	}
	if e.Op != nil {
		obs := e.Op(cb)(cb.S(0))
		for _, x := range chain {
			obs = x.Op(cb)(obs)
		}
		b0.p = catalog.P(obs)
	} else {
		b0.p = e.Pipeline(cb)
	}
	return b0
}

func asyncish(f catalog.Flags) bool {
	return f.Has(catalog.Async) || f.Has(catalog.HandOff) || f.Has(catalog.TimeDriven)
}

// lateDeliveries returns the events that entered after clock tu and stem from an
// emission that began after tu (or, when the ctx tag was lost, any event after
// tu on a synchronous pipeline whose earlier emissions had all returned).
func lateDeliveries(r *rec.Rec, srcs []*src.Source, tu int64, flags catalog.Flags) []string {
	begun := map[string]int64{}
	for _, s := range srcs {
		for _, em := range s.Emissions() {
			begun[em.Tag] = em.Begin
		}
	}
	inFlight := false
	for _, s := range srcs {
		for _, em := range s.Emissions() {
			if em.Begin < tu && (em.End == 0 || em.End > tu) {
				inFlight = true
			}
		}
	}
	var out []string
	for _, ev := range r.Events() {
		if ev.Seq <= tu {
			continue
		}
		if b, ok := begun[ev.Item]; ok {
			if b > tu {
				out = append(out, fmt.Sprintf("%s (emission %s began at clock %d > Unsubscribe returned at %d)", ev.String(), ev.Item, b, tu))
			}
			continue
		}
		if !asyncish(flags) && !inFlight {
			out = append(out, fmt.Sprintf("%s delivered at clock %d after Unsubscribe returned at %d (no pending emission)", ev.String(), ev.Seq, tu))
		}
	}
	return out
}

func subscribeAsync(p catalog.Pipeline, r *rec.Rec) (sub *ro.Subscription, done chan struct{}) {
	done = make(chan struct{})
	var s ro.Subscription
	sub = &s
	go func() {
		defer close(done)
		defer func() { recover() }()
		s = p.Subscribe(context.Background(), r, false)
	}()
	return
}

func runCut(c driver.Case) driver.Result {
	kind := c.Get("kind")
	bb := build(c, false, nil)
	prefix := c.Int("prefix")
	r := rec.New(bb.name)
	res := driver.Result{Verdict: driver.Held}
	what := fmt.Sprintf("%s, %s after %d values", bb.name, kind, prefix)
	fail := func(key, msg string) driver.Result {
		res.Verdict, res.Key = driver.Violated, "C06/"+bb.fam+"/"+key
		res.Msg = what + ": " + msg + "; trace: " + r.TraceString()
		res.Witness = r.Trace()
		return res
	}
	var sub ro.Subscription
	var insideDone atomic.Bool
	var tuInside atomic.Int64
	gate := make(chan struct{})
	inGate := make(chan struct{}, 1)
	var gated, gateArmed atomic.Bool
	nextSeen := 0
	r.OnEvent = func(ev *rec.Event) {
		switch {
		case kind == "inside-next" && ev.Kind == rec.Next && !insideDone.Load():
			nextSeen++
			if nextSeen >= prefix && sub != nil {
				insideDone.Store(true)
				sub.Unsubscribe()
				tuInside.Store(rec.Tick())
			}
		case kind == "inside-terminal" && ev.Kind != rec.Next && !insideDone.Load() && sub != nil:
			insideDone.Store(true)
			sub.Unsubscribe()
			tuInside.Store(rec.Tick())
		case kind == "cut-mid" && ev.Kind == rec.Next && !gated.Load() && gateArmed.Load():
			nextSeen++
			if nextSeen >= prefix {
				gated.Store(true)
				inGate <- struct{}{}
				<-gate
			}
		}
	}
	var pan any
	func() {
		defer func() { pan = recover() }()
		sub = bb.p.Subscribe(context.Background(), r, false)
	}()
	if pan != nil {
		return fail("panic-escaped-subscribe", fmt.Sprint(pan))
	}
	send := func(s *src.Source, n src.Notif) bool {
		st, dump, _ := quiesce.Call(func() { defer func() { recover() }(); s.Send(n) }, 10*time.Second)
		if st == quiesce.Hung {
			res.Verdict, res.Key, res.Dirty = driver.Violated, "C06/hang/"+quiesce.BlockedSite(dump), true
			res.Msg = what + ": emitting " + n.String() + " never returned; all goroutines blocked"
			res.Witness = dump
			return false
		}
		return st == quiesce.Returned
	}
	for i := 1; i < len(bb.srcs); i++ {
		if bb.srcs[i].IsSubscribed() {
			if !send(bb.srcs[i], src.Notif{K: rec.Next, V: 1}) {
				return res
			}
		}
	}
	var tu int64
	switch kind {
	case "cut", "inside-next", "inside-terminal":
		for v := 0; v < prefix; v++ {
			if bb.srcs[0].IsSubscribed() && !send(bb.srcs[0], src.Notif{K: rec.Next, V: 1 + v%2}) {
				return res
			}
		}
		// operators that deliver fewer values than they receive (buffers, pairs, every n-th…) get more
		// input until the observer has had its prefix-th callback and unsubscribed inside it
		for v := prefix; kind == "inside-next" && !insideDone.Load() && v < prefix+8; v++ {
			if bb.srcs[0].IsSubscribed() && bb.srcs[0].Live.Load() > 0 && !send(bb.srcs[0], src.Notif{K: rec.Next, V: 1 + v%2}) {
				return res
			}
		}
		if kind == "inside-terminal" {
			k := rec.Complete
			if c.Get("end") == "E" {
				k = rec.Error
			}
			if bb.srcs[0].IsSubscribed() && !send(bb.srcs[0], src.Notif{K: k}) {
				return res
			}
		}
		if kind == "cut" || !insideDone.Load() {
			// (an operator that delivered nothing gave the observer no chance to unsubscribe: cut from outside)
			st, dump, _ := quiesce.Call(func() { sub.Unsubscribe() }, 10*time.Second)
			if st == quiesce.Hung {
				res.Verdict, res.Key, res.Dirty = driver.Violated, "C06/hang/"+quiesce.BlockedSite(dump), true
				res.Msg = what + ": Unsubscribe never returned"
				res.Witness = dump
				return res
			}
			tu = rec.Tick()
		} else {
			// hand-off operators run the observer (and so the Unsubscribe inside it) on their own goroutine:
			// wait until that call has returned - or is proven to hang
			st, dump, _ := quiesce.Call(func() {
				for tuInside.Load() == 0 {
					time.Sleep(100 * time.Microsecond)
				}
			}, 10*time.Second)
			if st == quiesce.Hung {
				res.Verdict, res.Key, res.Dirty = driver.Violated, "C06/hang/"+quiesce.BlockedSite(dump), true
				res.Msg = what + ": Unsubscribe called inside the callback never returned; all goroutines blocked"
				res.Witness = dump
				return res
			}
			if st != quiesce.Returned {
				return driver.Result{Verdict: driver.Inconclusive, Key: "unsubscribe-inside-did-not-return", Dirty: true}
			}
			tu = tuInside.Load()
		}
	case "cut-mid":
		nextSeen = 0
		gateArmed.Store(true)
		prodDone := make(chan struct{})
		go func() {
			defer close(prodDone)
			defer func() { recover() }()
			for v := 0; v < prefix; v++ {
				if bb.srcs[0].IsSubscribed() {
					bb.srcs[0].Send(src.Notif{K: rec.Next, V: 1 + v%2})
				}
			}
		}()
		select {
		case <-inGate:
			// a callback is in progress on the producer goroutine: unsubscribe from here
			unsubDone := make(chan struct{})
			go func() { defer close(unsubDone); defer func() { recover() }(); sub.Unsubscribe() }()
			select {
			case <-unsubDone:
				tu = rec.Tick()
				close(gate)
			case <-time.After(300 * time.Millisecond):
				// Unsubscribe waits for the callback in progress (allowed): let the callback finish
				res.Extra = map[string]int64{"unsubscribe_waited_for_callback": 1}
				close(gate)
				<-unsubDone
				tu = rec.Tick()
			}
			<-prodDone
		case <-prodDone:
			// the operator delivered fewer values than emitted: plain cut
			close(gate)
			sub.Unsubscribe()
			tu = rec.Tick()
		}
	}
	if !sub.IsClosed() {
		return fail("is-closed-false-after-unsubscribe", "IsClosed() == false after Unsubscribe returned")
	}
	// Wait must return now that the subscription is closed
	st, dump, _ := quiesce.Call(func() { sub.Wait() }, 10*time.Second)
	if st == quiesce.Hung {
		res.Dirty = true
		res.Witness = dump
		// Wait waits for the goroutine that is running the release; named by the site where that one is
		// stuck, so that a recorded deadlock (GroupBy's teardown) is recognised and any other one is not
		r2 := fail("wait-blocks-on-closed-subscription", "Wait() does not return although the subscription is closed; all goroutines blocked ("+quiesce.BlockedSite(dump)+")")
		if site := quiesce.BlockedSite(dump); strings.HasSuffix(site, "(mutex)") {
			r2.Key = "C06/hang/" + site
		}
		return r2
	}
	// repeated Unsubscribe is harmless
	func() { defer func() { pan = recover() }(); sub.Unsubscribe(); sub.Unsubscribe() }()
	if pan != nil {
		return fail("repeated-unsubscribe-panics", fmt.Sprint(pan))
	}
	// emissions that begin now must never be delivered
	for round := 0; round < 2; round++ {
		for _, s := range bb.srcs {
			if s.IsSubscribed() {
				if !send(s, src.Notif{K: rec.Next, V: 7}) {
					return res
				}
			}
		}
	}
	for _, s := range bb.srcs {
		if s.IsSubscribed() {
			if !send(s, src.Notif{K: rec.Complete}) {
				return res
			}
		}
	}
	if asyncish(bb.flags) {
		time.Sleep(5 * time.Millisecond)
	}
	_, settled := quiesce.Settle(2 * time.Second)
	res.Dirty = res.Dirty || !settled
	if late := lateDeliveries(r, bb.srcs, tu, bb.flags); len(late) > 0 {
		return fail("delivery-after-unsubscribe-returned", strings.Join(late, "; "))
	}
	res.Events = int64(r.Len()) + 3
	res.Nontrivial = true
	res.Sig = bb.name + "/" + kind + "→" + r.TraceString()
	res.Sample = map[string]any{"pipeline": bb.name, "scenario": kind, "values_before_cut": prefix, "unsubscribe_returned_at_clock": tu, "trace": r.TraceString()}
	return res
}

func runWaitOrder(c driver.Case) driver.Result {
	bb := build(c, false, nil)
	prefix := c.Int("prefix")
	r := rec.New(bb.name)
	res := driver.Result{Verdict: driver.Held}
	what := fmt.Sprintf("%s, %d values then %s", bb.name, prefix, c.Get("end"))
	subp, done := subscribeAsync(bb.p, r)
	if bb.flags.Has(catalog.Blocks) {
		quiesce.Settle(time.Second)
	} else {
		<-done
	}
	// a Wait started while the stream is open
	var waitReturned atomic.Int64
	waitDone := make(chan struct{})
	go func() {
		defer close(waitDone)
		if !bb.flags.Has(catalog.Blocks) {
			(*subp).Wait()
			waitReturned.Store(rec.Tick())
		}
	}()
	time.Sleep(200 * time.Microsecond)
	inject := func(s *src.Source, n src.Notif) {
		defer func() { recover() }()
		if s.IsSubscribed() && s.Live.Load() > 0 {
			quiesce.Call(func() { defer func() { recover() }(); s.Send(n) }, 5*time.Second)
			if bb.flags.Has(catalog.Blocks) {
				quiesce.Settle(300 * time.Millisecond)
			}
		}
	}
	for i := 1; i < len(bb.srcs); i++ {
		inject(bb.srcs[i], src.Notif{K: rec.Next, V: 1})
	}
	for v := 0; v < prefix; v++ {
		inject(bb.srcs[0], src.Notif{K: rec.Next, V: 1 + v%2})
	}
	k := rec.Complete
	if c.Get("end") == "E" {
		k = rec.Error
	}
	for round := 0; round < 4; round++ {
		for _, s := range bb.srcs {
			inject(s, src.Notif{K: k})
		}
	}
	select {
	case <-done:
	case <-time.After(3 * time.Second):
		res.Verdict, res.Key, res.Dirty = driver.Inconclusive, "subscribe-did-not-return", true
		return res
	}
	sub := *subp
	if sub == nil {
		res.Verdict, res.Key = driver.Inconclusive, "no-subscription"
		return res
	}
	deadline := time.Now().Add(3 * time.Second)
	for r.Terminal() == rec.Next && time.Now().Before(deadline) {
		if _, ok := quiesce.Settle(5 * time.Millisecond); ok && !asyncish(bb.flags) {
			break
		}
		time.Sleep(200 * time.Microsecond)
	}
	res.Events = int64(r.Len()) + 1
	res.Nontrivial = true
	res.Sig = bb.name + "/wait→" + r.TraceString()
	if r.Terminal() == rec.Next {
		// the operator did not end (e.g. waits for another source): Wait must still be blocked
		if waitReturned.Load() != 0 && !sub.IsClosed() {
			res.Verdict, res.Key = driver.Violated, "C06/"+bb.fam+"/wait-returned-while-open"
			res.Msg = what + ": Wait returned although the subscription is not closed"
		}
		func() { defer func() { recover() }(); sub.Unsubscribe() }()
		<-waitDone
		return res
	}
	// the stream ended by itself: Wait (old and new) must return, and not before the terminal callback returned
	st, dump, _ := quiesce.Call(func() { <-waitDone; sub.Wait() }, 10*time.Second)
	if st == quiesce.Hung {
		res.Verdict, res.Key, res.Dirty = driver.Violated, "C06/hang/"+quiesce.BlockedSite(dump), true
		res.Msg = what + ": the observer received its terminal notification but Wait never returns; all goroutines blocked"
		res.Witness = dump
		return res
	}
	var termEnd int64
	for _, ev := range r.Events() {
		if ev.Kind != rec.Next {
			termEnd = ev.End
		}
	}
	if w := waitReturned.Load(); w != 0 && w < termEnd {
		res.Verdict, res.Key = driver.Violated, "C06/"+bb.fam+"/wait-returned-before-terminal-callback-finished"
		res.Msg = fmt.Sprintf("%s: Wait returned at clock %d, the terminal callback only finished at %d", what, w, termEnd)
		return res
	}
	if !sub.IsClosed() {
		res.Verdict, res.Key = driver.Violated, "C06/"+bb.fam+"/not-closed-after-terminal"
		res.Msg = what + ": IsClosed() == false after the terminal notification was delivered and Wait returned"
		return res
	}
	res.Sample = map[string]any{"pipeline": bb.name, "trace": r.TraceString(), "wait_returned_at": waitReturned.Load(), "terminal_callback_finished_at": termEnd}
	return res
}

func runCollect(c driver.Case) driver.Result {
	sc := src.Parse(c.Get("script"))
	e := catalog.Get(c.Get("entry"))
	scripts := make([]src.Script, e.NSrc)
	for i := range scripts {
		scripts[i] = sc
	}
	bb := build(c, c.Get("async") == "1", scripts)
	res := driver.Result{Verdict: driver.Held}
	if e.Op == nil {
		// non-int output: Collect through the untyped pipeline is not available; covered by int operators
		r := rec.New(e.Name)
		sub := bb.p.Subscribe(context.Background(), r, false)
		st, dump, _ := quiesce.Call(func() { sub.Wait() }, 10*time.Second)
		res.Events, res.Nontrivial, res.Sig = int64(r.Len())+1, true, e.Name+"/wait-only→"+r.TraceString()
		if st == quiesce.Hung && r.Terminal() != rec.Next {
			res.Verdict, res.Key, res.Dirty = driver.Violated, "C06/"+e.Family+"/wait-hangs-after-stream-terminated", true
			res.Msg = fmt.Sprintf("%s over [%s]: terminal delivered but Wait never returns", e.Name, sc)
			res.Witness = dump
		} else if st != quiesce.Returned {
			func() { defer func() { recover() }(); sub.Unsubscribe() }()
		}
		return res
	}
	cb := &catalog.B{}
	for _, s := range bb.srcs {
		cb.Srcs = append(cb.Srcs, s.Observable())
	}
	var tapped []string
	var tapTerm atomic.Int64
	var mu sync.Mutex
	obs := ro.TapWithContext(
		func(_ context.Context, v int) { mu.Lock(); tapped = append(tapped, fmt.Sprint(v)); mu.Unlock() },
		func(_ context.Context, err error) { tapTerm.Store(rec.Tick()) },
		func(_ context.Context) { tapTerm.Store(rec.Tick()) },
	)(e.Op(cb)(cb.S(0)))
	var vals []int
	var err error
	var returnedAt int64
	st, dump, _ := quiesce.Call(func() {
		vals, err = ro.Collect(obs)
		returnedAt = rec.Tick()
	}, 15*time.Second)
	what := fmt.Sprintf("Collect(%s over [%s], async=%s)", e.Name, sc, c.Get("async"))
	if st == quiesce.Hung {
		if tapTerm.Load() != 0 {
			res.Verdict, res.Key, res.Dirty = driver.Violated, "C06/"+e.Family+"/collect-hangs-after-stream-terminated", true
			res.Msg = what + ": the stream delivered its terminal notification but Collect never returns"
			res.Witness = dump
			return res
		}
		// the operator legitimately never ends on this input (e.g. waits for a second source that never completes)
		res.Events, res.Nontrivial, res.Dirty = 1, true, true
		res.Extra = map[string]int64{"collect_on_non_terminating_stream": 1}
		return res
	}
	if st != quiesce.Returned {
		res.Verdict, res.Key, res.Dirty = driver.Inconclusive, "collect-timeout", true
		return res
	}
	got := make([]string, len(vals))
	for i, v := range vals {
		got[i] = fmt.Sprint(v)
	}
	mu.Lock()
	want := strings.Join(tapped, " ")
	mu.Unlock()
	res.Events, res.Nontrivial = int64(len(vals))+1, true
	res.Sig = what + "→" + strings.Join(got, " ")
	res.Sample = map[string]any{"call": what, "collected": strings.Join(got, " "), "delivered": want, "err": fmt.Sprint(err)}
	if strings.Join(got, " ") != want {
		res.Verdict, res.Key = driver.Violated, "C06/"+e.Family+"/collect-result-differs-from-delivered-values"
		res.Msg = fmt.Sprintf("%s returned [%s] but the stream delivered [%s]", what, strings.Join(got, " "), want)
		return res
	}
	if tapTerm.Load() == 0 || returnedAt < tapTerm.Load() {
		res.Verdict, res.Key = driver.Violated, "C06/"+e.Family+"/collect-returned-before-terminal"
		res.Msg = fmt.Sprintf("%s returned at clock %d; terminal notification seen at %d (0 = never)", what, returnedAt, tapTerm.Load())
		return res
	}
	return res
}

// runParkTerminal widens the window in which a subscriber already reports closed (its status word
// has flipped) but the terminal callback has not run yet: the goroutine that delivers the terminal
// notification is parked at the hook point inside that window, at every nesting level of the
// pipeline in turn. Collect must still return the stream's error and values; a Wait must not
// return before the observer's terminal callback has.
func runParkTerminal(c driver.Case) driver.Result {
	const point = "subscriber.terminal.marked"
	e := catalog.Get(c.Get("entry"))
	sc := src.Parse(c.Get("script"))
	variant, async := c.Get("variant"), c.Get("async") != ""
	// "held": source 0 plays its script from a worker goroutine and its subscribe function returns
	// only once that worker is parked in the window (or done) - so the caller of Subscribe comes
	// back to a subscriber that is marked terminated but whose terminal callback is still pending
	held := c.Get("async") == "held"
	res := driver.Result{Verdict: driver.Held}
	what := fmt.Sprintf("%s over [%s] (async=%v), %s", e.Name, sc, async, variant)
	type outcome struct {
		vals    []string
		err     error
		tapped  []string
		tapErr  error
		tapTerm bool
		st      quiesce.CallResult
		early   string
		rec     *rec.Rec
	}
	// one execution; nth == 0: nothing parked (counting run)
	exec := func(nth int) outcome {
		var o outcome
		scripts := make([]src.Script, e.NSrc)
		for i := range scripts {
			scripts[i] = sc
		}
		bb := build(c, async, scripts)
		cb := &catalog.B{}
		for _, s := range bb.srcs {
			cb.Srcs = append(cb.Srcs, s.Observable())
		}
		var arrived <-chan struct{}
		release := func() {}
		if nth > 0 {
			arrived, release = sched.Park(point, nth)
		}
		defer sched.ClearParks()
		if held {
			parked := arrived
			cb.Srcs[0] = ro.NewObservable(func(dest ro.Observer[int]) ro.Teardown {
				played := make(chan struct{})
				go func() {
					defer close(played)
					defer func() { recover() }()
					for _, n := range sc {
						switch n.K {
						case rec.Next:
							dest.Next(n.V)
						case rec.Error:
							dest.Error(src.ErrSrc)
						case rec.Complete:
							dest.Complete()
						}
					}
				}()
				select {
				case <-parked: // nil (blocks forever) in the counting run
				case <-played:
				}
				return nil
			})
		}
		var mu sync.Mutex
		obs := ro.TapWithContext(
			func(_ context.Context, v int) { mu.Lock(); o.tapped = append(o.tapped, fmt.Sprint(v)); mu.Unlock() },
			func(_ context.Context, err error) { mu.Lock(); o.tapErr, o.tapTerm = err, true; mu.Unlock() },
			func(_ context.Context) { mu.Lock(); o.tapTerm = true; mu.Unlock() },
		)(e.Op(cb)(cb.S(0)))
		done := make(chan struct{})
		var returned atomic.Bool
		o.rec = rec.New(e.Name)
		go func() {
			defer close(done)
			defer func() { recover() }()
			if variant == "collect" {
				vals, err := ro.Collect(obs)
				for _, v := range vals {
					o.vals = append(o.vals, fmt.Sprint(v))
				}
				o.err = err
			} else {
				sub := obs.Subscribe(rec.Raw[int](o.rec))
				sub.Wait()
			}
			returned.Store(true)
		}()
		if nth > 0 {
			select {
			case <-arrived:
				// the delivering goroutine sits in the window; everything else gets time to move
				quiesce.Settle(2 * time.Second)
				if returned.Load() && variant == "wait" && o.rec.Terminal() == rec.Next {
					o.early = "Wait returned while the goroutine delivering the terminal notification was parked before the observer's terminal callback (observer has seen: [" + o.rec.TraceString() + "])"
				}
				release()
			case <-done:
			}
		}
		o.st, _, _ = quiesce.Call(func() { <-done }, 15*time.Second)
		return o
	}
	sched.CountHits(true)
	sched.Hits()
	base := exec(0)
	n := int(sched.Hits()[point])
	sched.CountHits(false)
	if base.st != quiesce.Returned {
		// the operator never ends on this input: nothing to park (covered by the collect / wait-order kinds)
		res.Events, res.Nontrivial, res.Dirty = 1, false, true
		res.Extra = map[string]int64{"stream_does_not_terminate": 1}
		return res
	}
	if n > 6 {
		n = 6
	}
	for nth := 1; nth <= n; nth++ {
		o := exec(nth)
		res.Events += int64(len(o.tapped)) + 1
		if o.st == quiesce.Hung {
			res.Verdict, res.Key, res.Dirty = driver.Violated, "C06/"+e.Family+"/"+variant+"-hangs-after-delayed-terminal", true
			res.Msg = fmt.Sprintf("%s: delivering goroutine parked at hit %d of %s and released again: the call never returns", what, nth, point)
			return res
		}
		if o.st != quiesce.Returned {
			res.Verdict, res.Key, res.Dirty = driver.Inconclusive, "call-did-not-return", true
			return res
		}
		if o.early != "" {
			res.Verdict, res.Key = driver.Violated, "C06/"+e.Family+"/wait-returned-before-terminal-callback-ran"
			res.Msg = fmt.Sprintf("%s, parked at hit %d of %d: %s", what, nth, n, o.early)
			return res
		}
		if variant == "collect" {
			if strings.Join(o.vals, " ") != strings.Join(o.tapped, " ") {
				res.Verdict, res.Key = driver.Violated, "C06/"+e.Family+"/collect-result-differs-from-delivered-values"
				res.Msg = fmt.Sprintf("%s, parked at hit %d of %d: Collect returned [%s], the stream delivered [%s]", what, nth, n, strings.Join(o.vals, " "), strings.Join(o.tapped, " "))
				return res
			}
			if (o.err == nil) != (o.tapErr == nil) {
				res.Verdict, res.Key = driver.Violated, "C06/"+e.Family+"/collect-error-differs-from-delivered-terminal"
				res.Msg = fmt.Sprintf("%s, parked at hit %d of %d: Collect returned err=%v, the stream ended with err=%v (Collect came back before its own terminal callback had run)", what, nth, n, o.err, o.tapErr)
				return res
			}
		}
	}
	res.Nontrivial = n > 0
	res.Extra = map[string]int64{"terminal_windows_parked": int64(n)}
	res.Sig = fmt.Sprintf("park-terminal/%s/%s/%s/%d", variant, e.Name, sc, n)
	res.Sample = map[string]any{"pipeline": e.Name, "script": sc.String(), "variant": variant, "async": async, "nesting_levels_parked": n, "collected": strings.Join(base.vals, " "), "err": fmt.Sprint(base.err)}
	return res
}

// runTeardownPanic: the source's teardown panics. Whoever triggers the release gets the panic
// (the delivering goroutine when the stream ends by itself, the caller of Unsubscribe otherwise),
// but the subscription is closed all the same: a Wait started before must return, Collect must
// come back with what was delivered.
func runTeardownPanic(c driver.Case) driver.Result {
	e := catalog.Get(c.Get("entry"))
	sc := src.Parse(c.Get("script"))
	variant := c.Get("variant")
	res := driver.Result{Verdict: driver.Held}
	what := fmt.Sprintf("%s over an asynchronous source playing [%s] whose teardown panics, %s", e.Name, sc, variant)
	start := make(chan struct{})
	var tornDown atomic.Int64
	mk := func() ro.Observable[int] {
		return ro.NewObservable(func(dest ro.Observer[int]) ro.Teardown {
			go func() {
				defer func() { recover() }()
				<-start
				for _, n := range sc {
					switch n.K {
					case rec.Next:
						dest.Next(n.V)
					case rec.Error:
						dest.Error(src.ErrSrc)
					case rec.Complete:
						dest.Complete()
					}
				}
			}()
			return func() { tornDown.Add(1); panic("teardown-panics") }
		})
	}
	cb := &catalog.B{}
	for i := 0; i < e.NSrc; i++ {
		cb.Srcs = append(cb.Srcs, mk())
	}
	var mu sync.Mutex
	var tapped []string
	var tapErr error
	var tapTerm atomic.Bool
	obs := ro.TapWithContext(
		func(_ context.Context, v int) { mu.Lock(); tapped = append(tapped, fmt.Sprint(v)); mu.Unlock() },
		func(_ context.Context, err error) { mu.Lock(); tapErr = err; mu.Unlock(); tapTerm.Store(true) },
		func(_ context.Context) { tapTerm.Store(true) },
	)(e.Op(cb)(cb.S(0)))
	r := rec.New(e.Name)
	done := make(chan struct{})
	var vals []string
	var err error
	var subp atomic.Pointer[ro.Subscription]
	go func() {
		defer close(done)
		defer func() { recover() }()
		if variant == "collect" {
			vs, e2 := ro.Collect(obs)
			for _, v := range vs {
				vals = append(vals, fmt.Sprint(v))
			}
			err = e2
		} else {
			sub := obs.Subscribe(rec.Raw[int](r))
			subp.Store(&sub)
			sub.Wait()
		}
	}()
	quiesce.Settle(time.Second) // Collect / Wait are in place
	if variant == "unsubscribe" {
		if sp := subp.Load(); sp != nil {
			func() { defer func() { recover() }(); (*sp).Unsubscribe() }()
		}
	}
	close(start)
	st, dump, _ := quiesce.Call(func() { <-done }, 15*time.Second)
	res.Events, res.Nontrivial = int64(r.Len())+int64(len(vals))+1, true
	res.Sig = fmt.Sprintf("teardown-panic/%s/%s/%s", variant, e.Name, sc)
	res.Sample = map[string]any{"pipeline": e.Name, "script": sc.String(), "variant": variant, "source_teardowns_run": tornDown.Load(), "collected": strings.Join(vals, " ")}
	if st == quiesce.Hung {
		if variant != "unsubscribe" && !tapTerm.Load() {
			// the operator never ends on this input: nothing closes the subscription
			res.Nontrivial, res.Dirty = false, true
			res.Extra = map[string]int64{"stream_does_not_terminate": 1}
			return res
		}
		res.Verdict, res.Key, res.Dirty = driver.Violated, "C06/"+e.Family+"/"+variant+"-hangs-when-a-teardown-panics", true
		res.Msg = what + ": the subscription was closed (stream ended / Unsubscribe returned) but the call never returns; all goroutines blocked"
		res.Witness = dump
		return res
	}
	if st != quiesce.Returned {
		res.Verdict, res.Key, res.Dirty = driver.Inconclusive, "call-did-not-return", true
		return res
	}
	// a Wait that arrives only now - the subscription is closed, its (panicking) release is over - returns too
	if sp := subp.Load(); sp != nil && (*sp).IsClosed() {
		if st2, dump2, _ := quiesce.Call(func() { (*sp).Wait() }, 10*time.Second); st2 == quiesce.Hung {
			res.Verdict, res.Key, res.Dirty = driver.Violated, "C06/"+e.Family+"/late-wait-hangs-when-a-teardown-panicked", true
			res.Msg = what + ": the subscription is closed and its release has run (a teardown panicked); a Wait() called afterwards never returns; all goroutines blocked"
			res.Witness = dump2
			return res
		}
	}
	if variant == "collect" {
		mu.Lock()
		defer mu.Unlock()
		if strings.Join(vals, " ") != strings.Join(tapped, " ") || (err == nil) != (tapErr == nil) {
			res.Verdict, res.Key = driver.Violated, "C06/"+e.Family+"/collect-result-differs-from-delivered-values"
			res.Msg = fmt.Sprintf("%s: Collect returned [%s] err=%v, the stream delivered [%s] err=%v", what, strings.Join(vals, " "), err, strings.Join(tapped, " "), tapErr)
		}
	}
	return res
}

func runConc(c driver.Case) driver.Result {
	var sd int64
	fmt.Sscan(c.Get("seed"), &sd)
	rng := rand.New(rand.NewSource(sd))
	switch c.Int("yield") {
	case 1:
		sched.Set(sched.Yield, 40)
	case 2:
		sched.Set(sched.Jitter, 15)
	default:
		sched.Set(sched.Off, 0)
	}
	defer sched.Set(sched.Off, 0)
	var sc src.Script
	for i := 0; i < 200; i++ {
		sc = append(sc, src.Notif{K: rec.Next, V: 1 + i%2})
	}
	bb := build(c, true, []src.Script{sc})
	bb.srcs[0].Yield = true
	r := rec.New(bb.name)
	res := driver.Result{Verdict: driver.Held}
	sub := bb.p.Subscribe(context.Background(), r, false)
	time.Sleep(time.Duration(rng.Intn(300)) * time.Microsecond)
	callers := c.Int("callers")
	var wg sync.WaitGroup
	start := make(chan struct{})
	var maxTu atomic.Int64
	for g := 0; g < callers; g++ {
		g := g
		wg.Add(1)
		go func() {
			defer wg.Done()
			defer func() { recover() }()
			<-start
			if g%2 == 0 {
				sub.Unsubscribe()
				t := rec.Tick()
				for {
					m := maxTu.Load()
					if t <= m || maxTu.CompareAndSwap(m, t) {
						break
					}
				}
			} else {
				sub.Wait()
			}
		}()
	}
	close(start)
	st, dump, _ := quiesce.Call(wg.Wait, 15*time.Second)
	if st == quiesce.Hung {
		res.Verdict, res.Key, res.Dirty = driver.Violated, "C06/"+bb.fam+"/concurrent-unsubscribe-or-wait-never-returns", true
		res.Msg = fmt.Sprintf("%s: %d concurrent Unsubscribe/Wait callers against an emitting source: some never return; all goroutines blocked", bb.name, callers)
		res.Witness = dump
		return res
	}
	tu := rec.Tick() // every Unsubscribe has returned
	bb.srcs[0].WaitTimeout(3 * time.Second)
	if asyncish(bb.flags) {
		time.Sleep(5 * time.Millisecond)
	}
	_, settled := quiesce.Settle(2 * time.Second)
	res.Dirty = !settled
	res.Events = int64(r.Len()) + int64(callers)
	res.Nontrivial = r.Len() > 0
	res.Sig = fmt.Sprintf("%s/conc%d→%d", bb.name, callers, r.Len())
	res.Sample = map[string]any{"pipeline": bb.name, "concurrent_callers": callers, "delivered_before_cut": r.Len()}
	if !sub.IsClosed() {
		res.Verdict, res.Key = driver.Violated, "C06/"+bb.fam+"/is-closed-false-after-unsubscribe"
		res.Msg = bb.name + ": IsClosed() == false after concurrent Unsubscribe calls returned"
		return res
	}
	if late := lateDeliveries(r, bb.srcs, tu, bb.flags); len(late) > 0 {
		res.Verdict, res.Key = driver.Violated, "C06/"+bb.fam+"/delivery-after-unsubscribe-returned"
		res.Msg = fmt.Sprintf("%s with %d concurrent callers: %s", bb.name, callers, strings.Join(late[:1], "; "))
		return res
	}
	return res
}

func runSubject(c driver.Case) driver.Result {
	var s ro.Subject[int]
	switch c.Get("subject") {
	case "publish":
		s = ro.NewPublishSubject[int]()
	case "behavior":
		s = ro.NewBehaviorSubject(0)
	case "replay":
		s = ro.NewReplaySubject[int](2)
	case "async":
		s = ro.NewAsyncSubject[int]()
	default:
		s = ro.NewUnicastSubject[int](4)
	}
	res := driver.Result{Verdict: driver.Held}
	r := rec.New(c.Get("subject"))
	sub := s.Subscribe(rec.Raw[int](r))
	for v := 0; v < c.Int("prefix"); v++ {
		s.Next(v + 1)
	}
	sub.Unsubscribe()
	tu := rec.Tick()
	closed := sub.IsClosed()
	s.Next(7)
	s.Next(8)
	s.Complete()
	res.Events, res.Nontrivial = int64(r.Len())+1, true
	res.Sig = c.Get("subject") + "→" + r.TraceString()
	for _, ev := range r.Events() {
		if ev.Seq > tu {
			res.Verdict, res.Key = driver.Violated, "C06/subject-"+c.Get("subject")+"/delivery-after-unsubscribe-returned"
			res.Msg = fmt.Sprintf("%s subject: %s delivered after the subscriber's Unsubscribe returned", c.Get("subject"), ev.String())
			return res
		}
	}
	if !closed {
		res.Verdict, res.Key = driver.Violated, "C06/subject-"+c.Get("subject")+"/is-closed-false-after-unsubscribe"
		res.Msg = "IsClosed false after Unsubscribe"
	}
	if s.HasObserver() {
		res.Verdict, res.Key = driver.Violated, "C06/subject-"+c.Get("subject")+"/observer-kept-after-unsubscribe"
		res.Msg = "subject still reports an observer after the only subscriber unsubscribed"
	}
	return res
}

func runCreation(c driver.Case) driver.Result {
	e := catalog.Get(c.Get("entry"))
	r := rec.New(e.Name)
	res := driver.Result{Verdict: driver.Held}
	subp, done := subscribeAsync(e.Pipeline(&catalog.B{}), r)
	select {
	case <-done:
	case <-time.After(3 * time.Second):
		res.Verdict, res.Key, res.Dirty = driver.Inconclusive, "subscribe-did-not-return", true
		return res
	}
	sub := *subp
	sub.Unsubscribe()
	tu := rec.Tick()
	time.Sleep(8 * time.Millisecond) // several periods of the catalogue's 1ms timers
	quiesce.Settle(time.Second)
	res.Events, res.Nontrivial = int64(r.Len())+1, true
	res.Sig = e.Name + "→" + r.TraceString()
	for _, ev := range r.Events() {
		if ev.Seq > tu+1 { // one callback may have been in progress
			res.Verdict, res.Key = driver.Violated, "C06/"+e.Family+"/delivery-after-unsubscribe-returned"
			res.Msg = fmt.Sprintf("%s: %s delivered at clock %d, Unsubscribe had returned at %d", e.Name, ev.String(), ev.Seq, tu)
			return res
		}
	}
	if !sub.IsClosed() {
		res.Verdict, res.Key = driver.Violated, "C06/"+e.Family+"/is-closed-false-after-unsubscribe"
		res.Msg = e.Name + ": IsClosed false after Unsubscribe"
	}
	return res
}

func runCase(c driver.Case) driver.Result {
	rec.ResetHooks()
	switch c.Get("kind") {
	case "wait-order":
		return runWaitOrder(c)
	case "collect":
		return runCollect(c)
	case "park-terminal":
		return runParkTerminal(c)
	case "teardown-panic":
		return runTeardownPanic(c)
	case "conc":
		return runConc(c)
	case "subject":
		return runSubject(c)
	case "creation":
		return runCreation(c)
	case "joined-producer":
		return runJoinedProducer(c)
	case "observer-panics-in-terminal":
		return runObserverPanicsInTerminal(c)
	case "double-terminal":
		return runDoubleTerminal(c)
	}
	return runCut(c)
}

func main() {
	driver.Main(driver.Property{
		ID:        "C06",
		Level:     "exploration",
		Rule:      "every catalogue entry (and random chains) over puppet sources: after each prefix of the input, Unsubscribe is called from the harness, from another goroutine while a callback is in progress (recorder gate), and from inside the Next / Error / Complete callback; then further notifications are emitted at every input. All harness calls and recorder callbacks are stamped by one logical clock. Oracle: no delivery whose emission began after Unsubscribe returned (attributed by the emission tag in the ctx, or — tag lost — any delivery on a synchronous pipeline); IsClosed() true at once; Wait returns on a closed subscription (hang = all goroutines blocked, not a deadline), repeated Unsubscribe harmless; when the stream ends by itself a Wait started earlier returns only after the terminal callback finished; Collect == values seen by a Tap just upstream, returned after the terminal; 1-8 concurrent Unsubscribe/Wait callers against an emitting asynchronous source; subjects' and creation operators' subscriptions. Non-trivial: clock comparison performed on ≥1 event or call. Also: the goroutine delivering the terminal notification is parked at the hook point subscriber.terminal.marked (status flipped, terminal callback not yet run) at every nesting level, with free-running, synchronous and 'held' sources (Subscribe returns while the worker is parked): Collect still returns the delivered values and the stream's error, a Wait does not return before the observer's terminal callback ran; sources whose teardown panics: Wait / Collect / a waiting Wait after Unsubscribe still return. double-terminal/*: the observer dwells in its terminal callback while a second goroutine hands the pipeline another terminal (protocol-breaking producers on NewObservable / NewSafeObservable with all four Complete/Error pairs, and the second source of every multi-source operator failing while the first source's error is being delivered): a Wait started earlier returns only after the running callback has returned (clock comparison).",
		Assume:    []string{"a callback already in progress when Unsubscribe is called may finish", "operators that wait inside Subscribe have no subscription to cut before their sources end (C14)"},
		Plan:      plan,
		Run:       runCase,
		CaseWatch: 60 * time.Second,
		Setup: func() {
			rec.Install()
			sched.Install()
		},
	})
}
