package main

import (
	"fmt"
	"sync/atomic"
	"time"

	"github.com/samber/ro"

	"verifharness/internal/driver"
	"verifharness/internal/quiesce"
	"verifharness/internal/rec"
	"verifharness/internal/run"
)

// ---------------------------------------------------------------- producers that are joined by their teardown
//
// A producer goroutine that answers the stop signal with one more notification (a late Complete / Error / Next,
// dropped by the closed subscriber) while the teardown waits for that goroutine to exit; and a teardown that
// calls Unsubscribe on its own subscription. "Unsubscribe may be called repeatedly, concurrently and from inside
// a callback": the second Unsubscribe hidden in the late terminal (or made by the teardown) returns at once, so
// the first one returns too, Wait returns and the subscription reports closed.

func joinedCases() []driver.Case {
	var cases []driver.Case
	for _, late := range []string{"complete", "error", "next", "none", "reentrant-unsubscribe"} {
		for _, below := range []string{"", "Map", "Take(5)", "ObserveOn"} {
			cases = append(cases, driver.Case{ID: fmt.Sprintf("joined-producer/%s/below=%s", late, below), P: map[string]string{"kind": "joined-producer", "late": late, "below": below}})
		}
	}
	for _, end := range []string{"error", "complete"} {
		for _, drive := range []string{"async", "sync"} {
			cases = append(cases, driver.Case{ID: fmt.Sprintf("observer-panics-in-terminal/%s/%s", end, drive), P: map[string]string{"kind": "observer-panics-in-terminal", "end": end, "drive": drive}})
		}
	}
	return cases
}

func runJoinedProducer(c driver.Case) driver.Result {
	late, below := c.Get("late"), c.Get("below")
	res := driver.Result{Verdict: driver.Held, Nontrivial: true}
	what := fmt.Sprintf("producer goroutine joined by its teardown, answering the stop signal with %q, pipeline [%s]", late, below)
	var tornDown atomic.Int64
	var self atomic.Pointer[ro.Subscription]
	o := ro.NewObservable(func(d ro.Observer[int]) ro.Teardown {
		stop, exited := make(chan struct{}), make(chan struct{})
		go func() {
			defer close(exited)
			defer func() { recover() }()
			d.Next(1)
			<-stop
			switch late {
			case "complete":
				d.Complete()
			case "error":
				d.Error(fmt.Errorf("late error"))
			case "next":
				d.Next(2)
			}
		}()
		return func() {
			tornDown.Add(1)
			if late == "reentrant-unsubscribe" {
				if s := self.Load(); s != nil {
					(*s).Unsubscribe()
				}
			}
			close(stop)
			<-exited
		}
	})
	switch below {
	case "Map":
		o = ro.Map(func(x int) int { return x })(o)
	case "Take(5)":
		o = ro.Take[int](5)(o)
	case "ObserveOn":
		o = ro.ObserveOn[int](2)(o)
	}
	r := rec.New("joined")
	sub := o.Subscribe(rec.Raw[int](r))
	self.Store(&sub)
	run.WaitEvents(r, 1, 100*time.Millisecond, 2*time.Second)
	st, dump, _ := quiesce.Call(func() { defer func() { recover() }(); sub.Unsubscribe() }, 10*time.Second)
	if st == quiesce.Hung {
		res.Verdict, res.Key, res.Dirty = driver.Violated, "C06/hang/"+quiesce.BlockedSite(dump), true
		res.Msg = what + ": Unsubscribe never returns; every goroutine of the process is blocked"
		res.Witness = dump
		return res
	}
	if st != quiesce.Returned {
		return driver.Result{Verdict: driver.Inconclusive, Key: "call-did-not-return", Msg: what + ": Unsubscribe did not return within the watchdog budget (no hang proof)", Dirty: true}
	}
	st, dump, _ = quiesce.Call(func() { sub.Wait() }, 10*time.Second)
	if st == quiesce.Hung {
		res.Verdict, res.Key, res.Dirty = driver.Violated, "C06/hang/"+quiesce.BlockedSite(dump), true
		res.Msg = what + ": Unsubscribe returned but Wait never does; every goroutine of the process is blocked"
		res.Witness = dump
		return res
	}
	res.Events = int64(r.Len()) + 2
	res.Sig = c.ID
	res.Sample = map[string]any{"scenario": what, "trace": r.TraceString(), "teardown_runs": tornDown.Load()}
	if !sub.IsClosed() {
		res.Verdict, res.Key = driver.Violated, "C06/joined-producer/not-closed-after-unsubscribe"
		res.Msg = what + ": IsClosed() is false after Unsubscribe returned"
	} else if n := tornDown.Load(); n != 1 {
		res.Verdict, res.Key = driver.Violated, "C06/joined-producer/teardown-runs"
		res.Msg = fmt.Sprintf("%s: the teardown ran %d times", what, n)
	}
	return res
}

// ---------------------------------------------------------------- an observer whose terminal callback panics
//
// The stream has terminated all the same: the subscription is closed, Wait returns, the producer's teardown ran.

type panickyObserver struct{ ro.Observer[int] }

func runObserverPanicsInTerminal(c driver.Case) driver.Result {
	end, drive := c.Get("end"), c.Get("drive")
	res := driver.Result{Verdict: driver.Held, Nontrivial: true}
	what := fmt.Sprintf("%s source ending with %s into a hand-written observer whose terminal callback panics", drive, end)
	var tornDown atomic.Int64
	played := make(chan struct{})
	play := func(d ro.Observer[int]) {
		defer close(played)
		defer func() { recover() }()
		d.Next(1)
		d.Next(2)
		if end == "error" {
			d.Error(fmt.Errorf("source error"))
		} else {
			d.Complete()
		}
	}
	o := ro.NewObservable(func(d ro.Observer[int]) ro.Teardown {
		if drive == "async" {
			go play(d)
		} else {
			play(d)
		}
		return func() { tornDown.Add(1) }
	})
	r := rec.New("panicky")
	r.OnEvent = func(ev *rec.Event) {
		if ev.Kind != rec.Next {
			panic("the observer's terminal callback panics")
		}
	}
	var sub ro.Subscription
	st, dump, _ := quiesce.Call(func() { defer func() { recover() }(); sub = o.Subscribe(rec.Raw[int](r)) }, 10*time.Second)
	if st == quiesce.Hung {
		res.Verdict, res.Key, res.Dirty = driver.Violated, "C06/hang/"+quiesce.BlockedSite(dump), true
		res.Msg, res.Witness = what+": Subscribe never returns; every goroutine of the process is blocked", dump
		return res
	}
	if sub == nil {
		// the panic of the callback came back through Subscribe (synchronous source): nothing to wait on
		res.Sample = map[string]any{"scenario": what, "note": "the panic propagated to the caller of Subscribe"}
		res.Sig = c.ID
		return res
	}
	select {
	case <-played:
	case <-time.After(5 * time.Second):
		return driver.Result{Verdict: driver.Inconclusive, Key: "producer-did-not-finish", Msg: what, Dirty: true}
	}
	st, dump, _ = quiesce.Call(func() { sub.Wait() }, 10*time.Second)
	res.Events = int64(r.Len()) + 1
	res.Sig = c.ID
	res.Sample = map[string]any{"scenario": what, "trace": r.TraceString(), "teardown_runs": tornDown.Load(), "closed": sub.IsClosed()}
	if st == quiesce.Hung {
		res.Verdict, res.Key, res.Dirty = driver.Violated, "C06/observer-panics-in-terminal/wait-hangs-after-stream-terminated", true
		res.Msg = what + ": the stream has terminated (the terminal callback was invoked) but Wait never returns; every goroutine of the process is blocked"
		res.Witness = dump
		return res
	}
	if st != quiesce.Returned {
		return driver.Result{Verdict: driver.Inconclusive, Key: "call-did-not-return", Msg: what + ": Wait did not return within the watchdog budget (no hang proof)", Dirty: true}
	}
	if !sub.IsClosed() {
		res.Verdict, res.Key = driver.Violated, "C06/observer-panics-in-terminal/not-closed-after-terminal"
		res.Msg = what + ": IsClosed() is false after the terminal callback"
	} else if n := tornDown.Load(); n != 1 {
		res.Verdict, res.Key = driver.Violated, "C06/observer-panics-in-terminal/teardown-runs"
		res.Msg = fmt.Sprintf("%s: the producer's teardown ran %d times", what, n)
	}
	return res
}
