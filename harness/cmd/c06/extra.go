package main

import (
	"fmt"
	"sync/atomic"
	"time"

	"github.com/samber/ro"

	"verifharness/internal/catalog"
	"verifharness/internal/driver"
	"verifharness/internal/quiesce"
	"verifharness/internal/rec"
	"verifharness/internal/run"
	"verifharness/internal/src"
)

// ---------------------------------------------------------------- producers that are joined by their teardown
//
// A producer goroutine that answers the stop signal with one more notification (a late Complete / Error / Next,
// dropped by the closed subscriber) while the teardown waits for that goroutine to exit; and a teardown that
// calls Unsubscribe on its own subscription. "Unsubscribe may be called repeatedly, concurrently and from inside
// a callback": the second Unsubscribe hidden in the late terminal (or made by the teardown) returns at once, so
// the first one returns too, Wait returns and the subscription reports closed.

func joinedCases() []driver.Case {
	var cases []driver.Case
	for _, late := range []string{"complete", "error", "next", "none", "reentrant-unsubscribe"} {
		for _, below := range []string{"", "Map", "Take(5)", "ObserveOn"} {
			cases = append(cases, driver.Case{ID: fmt.Sprintf("joined-producer/%s/below=%s", late, below), P: map[string]string{"kind": "joined-producer", "late": late, "below": below}})
		}
	}
	for _, end := range []string{"error", "complete"} {
		for _, drive := range []string{"async", "sync"} {
			cases = append(cases, driver.Case{ID: fmt.Sprintf("observer-panics-in-terminal/%s/%s", end, drive), P: map[string]string{"kind": "observer-panics-in-terminal", "end": end, "drive": drive}})
		}
	}
	return cases
}

func runJoinedProducer(c driver.Case) driver.Result {
	late, below := c.Get("late"), c.Get("below")
	res := driver.Result{Verdict: driver.Held, Nontrivial: true}
	what := fmt.Sprintf("producer goroutine joined by its teardown, answering the stop signal with %q, pipeline [%s]", late, below)
	var tornDown atomic.Int64
	var self atomic.Pointer[ro.Subscription]
	o := ro.NewObservable(func(d ro.Observer[int]) ro.Teardown {
		stop, exited := make(chan struct{}), make(chan struct{})
		go func() {
			defer close(exited)
			defer func() { recover() }()
			d.Next(1)
			<-stop
			switch late {
			case "complete":
				d.Complete()
			case "error":
				d.Error(fmt.Errorf("late error"))
			case "next":
				d.Next(2)
			}
		}()
		return func() {
			tornDown.Add(1)
			if late == "reentrant-unsubscribe" {
				if s := self.Load(); s != nil {
					(*s).Unsubscribe()
				}
			}
			close(stop)
			<-exited
		}
	})
	switch below {
	case "Map":
		o = ro.Map(func(x int) int { return x })(o)
	case "Take(5)":
		o = ro.Take[int](5)(o)
	case "ObserveOn":
		o = ro.ObserveOn[int](2)(o)
	}
	r := rec.New("joined")
	sub := o.Subscribe(rec.Raw[int](r))
	self.Store(&sub)
	run.WaitEvents(r, 1, 100*time.Millisecond, 2*time.Second)
	st, dump, _ := quiesce.Call(func() { defer func() { recover() }(); sub.Unsubscribe() }, 10*time.Second)
	if st == quiesce.Hung {
		res.Verdict, res.Key, res.Dirty = driver.Violated, "C06/hang/"+quiesce.BlockedSite(dump), true
		res.Msg = what + ": Unsubscribe never returns; every goroutine of the process is blocked"
		res.Witness = dump
		return res
	}
	if st != quiesce.Returned {
		return driver.Result{Verdict: driver.Inconclusive, Key: "call-did-not-return", Msg: what + ": Unsubscribe did not return within the watchdog budget (no hang proof)", Dirty: true}
	}
	st, dump, _ = quiesce.Call(func() { sub.Wait() }, 10*time.Second)
	if st == quiesce.Hung {
		res.Verdict, res.Key, res.Dirty = driver.Violated, "C06/hang/"+quiesce.BlockedSite(dump), true
		res.Msg = what + ": Unsubscribe returned but Wait never does; every goroutine of the process is blocked"
		res.Witness = dump
		return res
	}
	res.Events = int64(r.Len()) + 2
	res.Sig = c.ID
	res.Sample = map[string]any{"scenario": what, "trace": r.TraceString(), "teardown_runs": tornDown.Load()}
	if !sub.IsClosed() {
		res.Verdict, res.Key = driver.Violated, "C06/joined-producer/not-closed-after-unsubscribe"
		res.Msg = what + ": IsClosed() is false after Unsubscribe returned"
	} else if n := tornDown.Load(); n != 1 {
		res.Verdict, res.Key = driver.Violated, "C06/joined-producer/teardown-runs"
		res.Msg = fmt.Sprintf("%s: the teardown ran %d times", what, n)
	}
	return res
}

// ---------------------------------------------------------------- an observer whose terminal callback panics
//
// The stream has terminated all the same: the subscription is closed, Wait returns, the producer's teardown ran.

type panickyObserver struct{ ro.Observer[int] }

func runObserverPanicsInTerminal(c driver.Case) driver.Result {
	end, drive := c.Get("end"), c.Get("drive")
	res := driver.Result{Verdict: driver.Held, Nontrivial: true}
	what := fmt.Sprintf("%s source ending with %s into a hand-written observer whose terminal callback panics", drive, end)
	var tornDown atomic.Int64
	played := make(chan struct{})
	play := func(d ro.Observer[int]) {
		defer close(played)
		defer func() { recover() }()
		d.Next(1)
		d.Next(2)
		if end == "error" {
			d.Error(fmt.Errorf("source error"))
		} else {
			d.Complete()
		}
	}
	o := ro.NewObservable(func(d ro.Observer[int]) ro.Teardown {
		if drive == "async" {
			go play(d)
		} else {
			play(d)
		}
		return func() { tornDown.Add(1) }
	})
	r := rec.New("panicky")
	r.OnEvent = func(ev *rec.Event) {
		if ev.Kind != rec.Next {
			panic("the observer's terminal callback panics")
		}
	}
	var sub ro.Subscription
	st, dump, _ := quiesce.Call(func() { defer func() { recover() }(); sub = o.Subscribe(rec.Raw[int](r)) }, 10*time.Second)
	if st == quiesce.Hung {
		res.Verdict, res.Key, res.Dirty = driver.Violated, "C06/hang/"+quiesce.BlockedSite(dump), true
		res.Msg, res.Witness = what+": Subscribe never returns; every goroutine of the process is blocked", dump
		return res
	}
	if sub == nil {
		// the panic of the callback came back through Subscribe (synchronous source): nothing to wait on
		res.Sample = map[string]any{"scenario": what, "note": "the panic propagated to the caller of Subscribe"}
		res.Sig = c.ID
		return res
	}
	select {
	case <-played:
	case <-time.After(5 * time.Second):
		return driver.Result{Verdict: driver.Inconclusive, Key: "producer-did-not-finish", Msg: what, Dirty: true}
	}
	st, dump, _ = quiesce.Call(func() { sub.Wait() }, 10*time.Second)
	res.Events = int64(r.Len()) + 1
	res.Sig = c.ID
	res.Sample = map[string]any{"scenario": what, "trace": r.TraceString(), "teardown_runs": tornDown.Load(), "closed": sub.IsClosed()}
	if st == quiesce.Hung {
		res.Verdict, res.Key, res.Dirty = driver.Violated, "C06/observer-panics-in-terminal/wait-hangs-after-stream-terminated", true
		res.Msg = what + ": the stream has terminated (the terminal callback was invoked) but Wait never returns; every goroutine of the process is blocked"
		res.Witness = dump
		return res
	}
	if st != quiesce.Returned {
		return driver.Result{Verdict: driver.Inconclusive, Key: "call-did-not-return", Msg: what + ": Wait did not return within the watchdog budget (no hang proof)", Dirty: true}
	}
	if !sub.IsClosed() {
		res.Verdict, res.Key = driver.Violated, "C06/observer-panics-in-terminal/not-closed-after-terminal"
		res.Msg = what + ": IsClosed() is false after the terminal callback"
	} else if n := tornDown.Load(); n != 1 {
		res.Verdict, res.Key = driver.Violated, "C06/observer-panics-in-terminal/teardown-runs"
		res.Msg = fmt.Sprintf("%s: the producer's teardown ran %d times", what, n)
	}
	return res
}

// ---------------------------------------------------------------- a second terminal while the first one's callback runs
//
// "Wait returns only once the subscription is closed - when the stream ends by itself, after the terminal callback
// has returned". The observer dwells in its terminal callback (gate); meanwhile another goroutine hands a second
// terminal notification to the same pipeline: a producer that breaks the protocol on a NewObservable /
// NewSafeObservable, or - legally - the second source of a multi-source operator failing while the first source's
// error is still being delivered. The second terminal is dropped, but it must not close the subscription under the
// feet of the running callback: a Wait started earlier stays blocked until the callback has returned. The verdict
// compares logical clock stamps (Wait returned / callback finished); wall-clock pauses only give the second
// terminal time to act before the gate is opened.

func doubleTerminalCases() []driver.Case {
	var cases []driver.Case
	for _, ctor := range []string{"NewObservable", "NewSafeObservable"} {
		for _, first := range []string{"C", "E"} {
			for _, second := range []string{"C", "E"} {
				for _, below := range []string{"", "Map", "Take(5)"} {
					cases = append(cases, driver.Case{ID: fmt.Sprintf("double-terminal/%s/%s%s/below=%s", ctor, first, second, below),
						P: map[string]string{"kind": "double-terminal", "ctor": ctor, "first": first, "second": second, "below": below}})
				}
			}
		}
	}
	for _, e := range catalog.All() {
		if e.NSrc < 2 || e.Flags.Has(catalog.Blocks) || e.Flags.Has(catalog.Creation) {
			continue
		}
		cases = append(cases, driver.Case{ID: "double-terminal/op/" + e.Name, P: map[string]string{"kind": "double-terminal", "entry": e.Name}})
	}
	return cases
}

func runDoubleTerminal(c driver.Case) driver.Result {
	res := driver.Result{Verdict: driver.Held}
	r := rec.New("dt")
	entered, release := make(chan struct{}), make(chan struct{})
	var once atomic.Bool
	r.OnEvent = func(ev *rec.Event) {
		if ev.Kind != rec.Next && once.CompareAndSwap(false, true) {
			close(entered)
			<-release
		}
	}
	var what string
	var sub ro.Subscription
	var first, second func()
	if en := c.Get("entry"); en != "" {
		bb := build(c, false, nil)
		what = bb.name + ": source 0 fails, source 1 fails while the observer is still inside its Error callback"
		subp, done := subscribeAsync(bb.p, r)
		select {
		case <-done:
		case <-time.After(3 * time.Second):
			res.Verdict, res.Key, res.Dirty = driver.Inconclusive, "subscribe-did-not-return", true
			return res
		}
		sub = *subp
		send := func(s *src.Source) func() {
			return func() {
				defer func() { recover() }()
				if s.IsSubscribed() && s.Live.Load() > 0 {
					s.Send(src.Notif{K: rec.Error})
				}
			}
		}
		first, second = send(bb.srcs[0]), send(bb.srcs[1])
	} else {
		var dest atomic.Pointer[ro.Observer[int]]
		fn := func(d ro.Observer[int]) ro.Teardown { dest.Store(&d); return nil }
		var o ro.Observable[int]
		if c.Get("ctor") == "NewSafeObservable" {
			o = ro.NewSafeObservable(fn)
		} else {
			o = ro.NewObservable(fn)
		}
		switch c.Get("below") {
		case "Map":
			o = ro.Map(func(v int) int { return v })(o)
		case "Take(5)":
			o = ro.Take[int](5)(o)
		}
		what = fmt.Sprintf("%s producer, pipeline [%s]: terminal %s, then %s from a second goroutine while the observer is inside the first one's callback", c.Get("ctor"), c.Get("below"), c.Get("first"), c.Get("second"))
		sub = o.Subscribe(rec.Raw[int](r))
		term := func(k string) func() {
			return func() {
				defer func() { recover() }()
				if k == "C" {
					(*dest.Load()).Complete()
				} else {
					(*dest.Load()).Error(fmt.Errorf("terminal"))
				}
			}
		}
		first, second = term(c.Get("first")), term(c.Get("second"))
	}
	if sub == nil {
		res.Verdict, res.Key = driver.Inconclusive, "no-subscription"
		return res
	}
	var waitReturned atomic.Int64
	waitDone := make(chan struct{})
	go func() {
		defer close(waitDone)
		sub.Wait()
		waitReturned.Store(rec.Tick())
	}()
	firstDone, secondDone := make(chan struct{}), make(chan struct{})
	go func() { defer close(firstDone); first() }()
	select {
	case <-entered:
	case <-time.After(2 * time.Second):
		// the operator did not pass the first source's error on (it waits for something else): nothing to observe
		close(release)
		func() { defer func() { recover() }(); sub.Unsubscribe() }()
		<-firstDone
		<-waitDone
		res.Sig = "first-terminal-not-delivered"
		return res
	}
	go func() { defer close(secondDone); second() }()
	// give the second terminal time to act: it either returns (dropped) or queues behind the running callback
	select {
	case <-secondDone:
	case <-time.After(20 * time.Millisecond):
	}
	select {
	case <-waitDone:
	case <-time.After(5 * time.Millisecond):
	}
	close(release)
	st, dump, _ := quiesce.Call(func() { <-firstDone; <-secondDone; <-waitDone }, 10*time.Second)
	if st == quiesce.Hung {
		res.Verdict, res.Key, res.Dirty = driver.Violated, "C06/double-terminal/hang/"+quiesce.BlockedSite(dump), true
		res.Msg = what + ": the terminal callback returned but Wait (or a producer) never does; all goroutines blocked"
		res.Witness = dump
		return res
	}
	var termEnd int64
	for _, ev := range r.Events() {
		if ev.Kind != rec.Next && termEnd == 0 {
			termEnd = ev.End
		}
	}
	res.Events, res.Nontrivial = int64(r.Len())+1, true
	res.Sig = "double-terminal→" + r.TraceString()
	res.Sample = map[string]any{"scenario": what, "trace": r.TraceString(), "wait_returned_at": waitReturned.Load(), "terminal_callback_finished_at": termEnd}
	if w := waitReturned.Load(); w < termEnd {
		res.Verdict, res.Key = driver.Violated, "C06/double-terminal/wait-returned-before-terminal-callback-finished"
		res.Msg = fmt.Sprintf("%s: Wait returned at clock %d, the terminal callback only finished at %d", what, w, termEnd)
		return res
	}
	if !sub.IsClosed() {
		res.Verdict, res.Key = driver.Violated, "C06/double-terminal/not-closed-after-terminal"
		res.Msg = what + ": IsClosed() == false after the terminal notification was delivered and Wait returned"
	}
	return res
}
