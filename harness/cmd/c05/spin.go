package main

import (
	"context"
	"fmt"
	"runtime"
	"strings"
	"sync"
	"sync/atomic"

	"verifharness/internal/catalog"
	"verifharness/internal/driver"
	"verifharness/internal/rec"
	"verifharness/internal/src"
)

// Spin-barrier rounds: one goroutine per source, all released by the same atomic flag (aligned to within
// nanoseconds, with a small swept offset), each playing its script into a puppet source of a fresh pipeline.
// A channel wake-up never puts the FIRST notifications of two sources into the few instructions of a
// check-then-act; this does, thousands of times. Oracle as in the concurrent cases: the trace is the
// definition's output for some arrival order compatible with each source's order and real time.
func spinCases(tier string) []driver.Case {
	rounds := 1500
	if tier == "thorough" {
		rounds = 15000
	}
	var cases []driver.Case
	for _, e := range stepEntries() {
		if e.Flags.Has(catalog.Blocks) || e.Flags.Has(catalog.Async) || e.Flags.Has(catalog.HandOff) || e.Flags.Has(catalog.TimeDriven) || strings.HasSuffix(e.Name, "(marked)") {
			continue
		}
		var sc []string
		for i := 0; i < e.NSrc; i++ {
			sc = append(sc, fmt.Sprintf("%d %d C", 100*(i+1), 100*(i+1)+1))
		}
		cases = append(cases, driver.Case{ID: "spin/" + e.Name, Solo: true, P: map[string]string{"kind": "spin", "entry": e.Name, "scripts": strings.Join(sc, "|"), "rounds": fmt.Sprint(rounds), "concurrent": "1"}})
		// the main source fails after two values, the others never end, and the observer takes its time (a few
		// microseconds inside every callback): a failure that arrives while another source's value is being
		// delivered still ends the output as an error
		var se []string
		for i := 0; i < e.NSrc; i++ {
			if i == 0 {
				se = append(se, "100 101 E")
			} else {
				se = append(se, fmt.Sprintf("%d %d %d", 100*(i+1), 100*(i+1)+1, 100*(i+1)+2))
			}
		}
		cases = append(cases, driver.Case{ID: "spin-err/" + e.Name, Solo: true, P: map[string]string{"kind": "spin", "entry": e.Name, "scripts": strings.Join(se, "|"), "rounds": fmt.Sprint(rounds / 3), "dwell": "1", "concurrent": "1"}})
	}
	return cases
}

var spinSink atomic.Int64

func runSpin(c driver.Case) driver.Result {
	e := catalog.Get(c.Get("entry"))
	scripts := parse(c.Get("scripts"))
	rounds := c.Int("rounds")
	res := driver.Result{Verdict: driver.Held, Nontrivial: true}
	traces := map[string]bool{}
	for round := 0; round < rounds; round++ {
		r := rec.New(e.Name)
		if c.Get("dwell") != "" {
			r.Dwell = func() {
				for k := 0; k < 2000; k++ {
					spinSink.Add(1)
				}
			}
		}
		b := &catalog.B{}
		var srcs []*src.Source
		for i := 0; i < e.NSrc; i++ {
			s := src.New(fmt.Sprintf("s%d", i))
			srcs = append(srcs, s)
			b.Srcs = append(b.Srcs, s.Observable())
		}
		sub := e.Pipeline(b).Subscribe(context.Background(), r, false)
		var ready atomic.Int32
		var release atomic.Bool
		var wg sync.WaitGroup
		for i, s := range srcs {
			i, s := i, s
			wg.Add(1)
			go func() {
				defer wg.Done()
				defer func() { recover() }()
				ready.Add(1)
				for !release.Load() {
				}
				for k := (round + 3*i) % 7 * 4; k > 0; k-- { // swept offset, a few ns per step
					spinSink.Add(1)
				}
				for _, n := range scripts[i] {
					if s.IsSubscribed() && s.Live.Load() > 0 {
						s.Send(n)
					}
				}
			}()
		}
		for int(ready.Load()) < len(srcs) {
			runtime.Gosched()
		}
		release.Store(true)
		wg.Wait()
		per := make([][]cev, e.NSrc)
		for i, s := range srcs {
			for _, em := range s.Emissions() {
				per[i] = append(per[i], cev{event{i, em.N}, em.Begin, em.End})
			}
		}
		obs := r.Events()
		res.Events += int64(len(obs))
		traces[r.TraceString()] = true
		bad := ""
		if gp := r.GrammarProblems(); len(gp) > 0 {
			res.Key = "C05/" + canon(e.Family) + "/delivery-after-terminal-under-concurrency"
			bad = strings.Join(gp, "; ")
		} else if !explain(e, per, obs) {
			res.Key = "C05/" + canon(e.Family) + "/no-arrival-order-explains-concurrent-output/" + classify(per, obs)
			bad = fmt.Sprintf("observed [%s] is not the definition's output for any arrival order compatible with each source's order and real time", r.TraceString())
		}
		func() { defer func() { recover() }(); sub.Unsubscribe() }()
		if bad != "" {
			res.Verdict = driver.Violated
			res.Msg = fmt.Sprintf("%s, sources released together by a spin barrier [%s], round %d: %s", e.Name, c.Get("scripts"), round, bad)
			res.Witness = map[string]any{"trace": r.Trace(), "emissions": fmt.Sprint(per), "round": round}
			break
		}
	}
	res.Sig = "spin/" + e.Name
	res.Extra = map[string]int64{"spin_rounds": int64(rounds), "spin_distinct_traces": int64(len(traces))}
	var some []string
	for t := range traces {
		if len(some) < 6 {
			some = append(some, t)
		}
	}
	res.Sample = map[string]any{"operator": e.Name, "source_scripts": c.Get("scripts"), "rounds": rounds, "distinct_traces": len(traces), "some_traces": some}
	return res
}
