// C05 — multi-source operators honour every arrival order of their inputs.
package main

import (
	"context"
	"fmt"
	"math/rand"
	"regexp"
	"strings"
	"sync"
	"time"

	"github.com/samber/ro"
	"verifharness/internal/catalog"
	"verifharness/internal/driver"
	"verifharness/internal/quiesce"
	"verifharness/internal/rec"
	"verifharness/internal/sched"
	"verifharness/internal/src"
)

func stepEntries() []*catalog.Entry {
	var out []*catalog.Entry
	for _, e := range catalog.All() {
		if e.Step != nil {
			out = append(out, e)
		}
	}
	return out
}

// scriptsFor enumerates per-source scripts with values unique per source.
func scriptsFor(srcIdx, maxVals int) []src.Script {
	var out []src.Script
	for n := 0; n <= maxVals; n++ {
		for _, end := range []rec.Kind{rec.Complete, rec.Error, rec.Next} {
			var s src.Script
			for k := 0; k < n; k++ {
				s = append(s, src.Notif{K: rec.Next, V: 10*(srcIdx+1) + k})
			}
			if end != rec.Next {
				s = append(s, src.Notif{K: end})
			}
			out = append(out, s)
		}
	}
	return out
}

func tuples(n, maxVals int) [][]src.Script {
	var out [][]src.Script
	var gen func(prefix []src.Script)
	gen = func(prefix []src.Script) {
		if len(prefix) == n {
			out = append(out, append([]src.Script(nil), prefix...))
			return
		}
		for _, s := range scriptsFor(len(prefix), maxVals) {
			gen(append(prefix, s))
		}
	}
	gen(nil)
	return out
}

func key(ss []src.Script) string {
	p := make([]string, len(ss))
	for i, s := range ss {
		p[i] = s.String()
	}
	return strings.Join(p, "|")
}

func parse(k string) []src.Script {
	var out []src.Script
	for _, p := range strings.Split(k, "|") {
		out = append(out, src.Parse(p))
	}
	return out
}

func plan(tier string, seed int64) []driver.Case {
	mv2, mv3, nConc := 3, 1, 30
	if tier == "thorough" {
		mv2, mv3, nConc = 4, 2, 400
	}
	rng := rand.New(rand.NewSource(seed))
	var cases []driver.Case
	for _, e := range stepEntries() {
		mv := mv2
		if e.NSrc >= 3 {
			mv = mv3
		}
		for _, t := range tuples(e.NSrc, mv) {
			cases = append(cases, driver.Case{ID: fmt.Sprintf("seq/%s/%s", e.Name, key(t)), P: map[string]string{"kind": "seq", "entry": e.Name, "scripts": key(t)}})
		}
		// three and more sources: beyond one value per source the tuple space is sampled (seeded), and
		// so are the arrival orders: which source is the shortest, which completes with values queued…
		if e.NSrc >= 3 {
			nDeep := 60
			if tier == "thorough" {
				nDeep = 600
			}
			for i := 0; i < nDeep; i++ {
				var t []src.Script
				for s := 0; s < e.NSrc; s++ {
					sc := scriptsFor(s, 3)
					t = append(t, sc[rng.Intn(len(sc))])
				}
				cases = append(cases, driver.Case{ID: fmt.Sprintf("seq-deep/%s/%d", e.Name, i), P: map[string]string{"kind": "seq", "entry": e.Name, "scripts": key(t), "sample": "12", "seed": fmt.Sprint(rng.Int63())}})
			}
		}
		// operators that store values: one long script for the main source (6 values: the slices they build grow
		// through capacities 1, 2, 4, 8 and are handed out with spare capacity), sampled arrival orders
		if e.Flags.Has(catalog.Stores) && e.NSrc == 2 {
			long := []src.Script{src.Parse("10 11 12 13 14 15 C"), src.Parse("20 21 22 C")}
			for i := 0; i < 3; i++ {
				cases = append(cases, driver.Case{ID: fmt.Sprintf("seq-long/%s/%d", e.Name, i), P: map[string]string{"kind": "seq", "entry": e.Name, "scripts": key(long), "sample": "40", "seed": fmt.Sprint(rng.Int63())}})
			}
		}
		if e.Flags.Has(catalog.Blocks) {
			continue
		}
		// one source emits a value while it is being subscribed (a cached value followed by live
		// ones) and goes on afterwards: the operator has to treat that value like any other, and
		// keep listening to the source if the definition does
		hv := 2
		if e.NSrc >= 3 {
			hv = 1
		}
		for head := 0; head < e.NSrc; head++ {
			for _, t := range tuples(e.NSrc, hv) {
				cases = append(cases, driver.Case{ID: fmt.Sprintf("seq-head%d/%s/%s", head, e.Name, key(t)), P: map[string]string{"kind": "seq", "entry": e.Name, "scripts": key(t), "head": fmt.Sprint(head)}})
			}
		}
		for i := 0; i < nConc; i++ {
			var t []src.Script
			for s := 0; s < e.NSrc; s++ {
				sc := scriptsFor(s, 4)
				t = append(t, sc[rng.Intn(len(sc))])
			}
			if strings.HasSuffix(e.Name, "(marked)") {
				// the markers are no source values: an unexplained concurrent trace could not be attributed to an
				// anomaly class; the concurrent feeding of that operator is the unmarked entry's business
				continue
			}
			cases = append(cases, driver.Case{ID: fmt.Sprintf("conc/%s/%d", e.Name, i), Race: tier == "thorough" && i%2 == 0,
				P: map[string]string{"kind": "conc", "entry": e.Name, "scripts": key(t), "yield": fmt.Sprint(rng.Intn(3)), "concurrent": "1"}})
		}
	}
	cases = append(cases, spinCases(tier)...)
	for _, pl := range parkPlans {
		cases = append(cases, driver.Case{ID: "park/" + pl.name, P: map[string]string{"kind": "park", "plan": pl.name}})
	}
	return cases
}

type event struct {
	Src int
	N   src.Notif
}

func (e event) String() string { return fmt.Sprintf("s%d:%s", e.Src, e.N) }

// interleavings enumerates, with the model alone, every order in which the
// scripts can be injected (only sources the model considers live can emit).
func interleavings(e *catalog.Entry, scripts []src.Script, limit int, head int) [][]event {
	var out [][]event
	pos := make([]int, len(scripts))
	var dfs func(st catalog.Step, path []event)
	dfs = func(st catalog.Step, path []event) {
		if len(out) >= limit {
			return
		}
		any := false
		for i := range scripts {
			if pos[i] < len(scripts[i]) && !st.Done() && st.Live(i) {
				any = true
				n := scripts[i][pos[i]]
				c := st.Clone()
				c.On(i, n)
				pos[i]++
				dfs(c, append(append([]event(nil), path...), event{i, n}))
				pos[i]--
			}
		}
		if !any {
			out = append(out, path)
		}
	}
	st0 := e.Step(len(scripts))
	if head >= 0 && st0.Live(head) {
		st0.On(head, headNotif(head))
	}
	dfs(st0, nil)
	return out
}

// sampledInterleavings draws k arrival orders at random (at each step one of the sources the model
// still listens to), instead of the first k of the enumeration, which all share their beginning.
func sampledInterleavings(e *catalog.Entry, scripts []src.Script, k int, rng *rand.Rand) [][]event {
	var out [][]event
	seen := map[string]bool{}
	for try := 0; try < 4*k && len(out) < k; try++ {
		st := e.Step(len(scripts))
		pos := make([]int, len(scripts))
		var path []event
		for {
			var enabled []int
			for i := range scripts {
				if pos[i] < len(scripts[i]) && !st.Done() && st.Live(i) {
					enabled = append(enabled, i)
				}
			}
			if len(enabled) == 0 {
				break
			}
			i := enabled[rng.Intn(len(enabled))]
			n := scripts[i][pos[i]]
			st.On(i, n)
			pos[i]++
			path = append(path, event{i, n})
		}
		if key := fmt.Sprint(path); !seen[key] {
			seen[key] = true
			out = append(out, path)
		}
	}
	return out
}

type harness struct {
	e       *catalog.Entry
	srcs    []*src.Source
	rec     *rec.Rec
	sub     ro.Subscription
	subDone chan struct{}
}

// headNotif is the value source i emits inside its subscribe function when it is the "head" source.
func headNotif(i int) src.Notif { return src.Notif{K: rec.Next, V: 90 + i} }

func setup(e *catalog.Entry) *harness { return setupHead(e, -1) }

func setupHead(e *catalog.Entry, head int) *harness {
	h := &harness{e: e, rec: rec.New(e.Name), subDone: make(chan struct{})}
	b := &catalog.B{}
	for i := 0; i < e.NSrc; i++ {
		s := src.New(fmt.Sprintf("s%d", i))
		if i == head {
			s.Scripts = []src.Script{{headNotif(i)}}
		}
		h.srcs = append(h.srcs, s)
		b.Srcs = append(b.Srcs, s.Observable())
	}
	p := e.Pipeline(b)
	go func() {
		defer close(h.subDone)
		defer func() { recover() }()
		h.sub = p.Subscribe(context.Background(), h.rec, false)
	}()
	if e.Flags.Has(catalog.Blocks) {
		quiesce.Settle(time.Second)
	} else {
		select {
		case <-h.subDone:
		case <-time.After(3 * time.Second):
		}
	}
	return h
}

func (h *harness) cleanup() {
	defer func() { recover() }()
	// let blocked Subscribe calls return: later sources get subscribed as earlier ones end
	for round := 0; round < 2*len(h.srcs)+2; round++ {
		for _, s := range h.srcs {
			if s.IsSubscribed() && s.Live.Load() > 0 {
				func() { defer func() { recover() }(); s.Complete() }()
			}
		}
		select {
		case <-h.subDone:
			round = 1000
		case <-time.After(3 * time.Millisecond):
			quiesce.Settle(50 * time.Millisecond)
		}
	}
	select {
	case <-h.subDone:
	case <-time.After(time.Second):
	}
	if h.sub != nil {
		h.sub.Unsubscribe()
	}
}

func runSeq(c driver.Case) driver.Result {
	e := catalog.Get(c.Get("entry"))
	scripts := parse(c.Get("scripts"))
	res := driver.Result{Verdict: driver.Held}
	head := -1
	if c.Get("head") != "" {
		head = c.Int("head")
	}
	var paths [][]event
	if k := c.Int("sample"); k > 0 {
		var sd int64
		fmt.Sscan(c.Get("seed"), &sd)
		paths = sampledInterleavings(e, scripts, k, rand.New(rand.NewSource(sd)))
	} else {
		paths = interleavings(e, scripts, 4000, head)
	}
	var orders int64
	sigs := map[string]bool{}
	for _, path := range paths {
		h := setupHead(e, head)
		st := e.Step(e.NSrc)
		var want []string
		var wantTerm *catalog.Term
		headLive := head >= 0 && st.Live(head) // a source the operator never subscribes emits nothing
		if headLive {
			want, wantTerm = st.On(head, headNotif(head))
		}
		fail := func(keyS, msg string) driver.Result {
			res.Verdict, res.Key = driver.Violated, keyS
			res.Msg = fmt.Sprintf("%s with source scripts [%s], arrival order %v: %s; observed so far: [%s], definition: [%s]", e.Name, c.Get("scripts"), path, msg, h.rec.TraceString(), strings.Join(want, " "))
			res.Witness = map[string]any{"order": fmt.Sprint(path), "trace": h.rec.Trace()}
			h.cleanup()
			return res
		}
		if headLive {
			exp := catalog.Expect{Vals: want}
			if wantTerm != nil {
				exp.Term = *wantTerm
			}
			if m := exp.Match(h.rec.Events()); m != "" {
				return fail("C05/"+canon(e.Family)+"/output-differs-after-value-emitted-during-subscription", fmt.Sprintf("source %d emits %s inside its subscribe function: %s", head, headNotif(head), m))
			}
		}
		// initial subscription state
		for i, s := range h.srcs {
			if st.Live(i) && !s.IsSubscribed() {
				return fail("C05/"+canon(e.Family)+"/source-not-subscribed", fmt.Sprintf("source %d should be subscribed before any notification", i))
			}
		}
		for step, ev := range path {
			s := h.srcs[ev.Src]
			if !s.IsSubscribed() || s.Live.Load() == 0 {
				return fail("C05/"+canon(e.Family)+"/source-not-subscribed-or-released-early", fmt.Sprintf("step %d: the definition still listens to source %d but it is not subscribed (%s)", step, ev.Src, s.Summary()))
			}
			st2, dump, _ := quiesce.Call(func() { s.Send(ev.N) }, 10*time.Second)
			if st2 == quiesce.Hung {
				res.Verdict, res.Key = driver.Violated, "C05/hang/"+quiesce.BlockedSite(dump)
				res.Msg = fmt.Sprintf("%s with [%s], order %v: emitting %s never returned; all goroutines blocked", e.Name, c.Get("scripts"), path, ev)
				res.Witness = dump
				res.Dirty = true
				return res
			} else if st2 == quiesce.TimedOut {
				res.Verdict, res.Key, res.Dirty = driver.Inconclusive, "emit-did-not-return", true
				return res
			}
			if e.Flags.Has(catalog.Blocks) {
				quiesce.Settle(time.Second)
			}
			out, t := st.On(ev.Src, ev.N)
			want = append(want, out...)
			if t != nil {
				wantTerm = t
			}
			exp := catalog.Expect{Vals: want}
			if wantTerm != nil {
				exp.Term = *wantTerm
			}
			if m := exp.Match(h.rec.Events()); m != "" {
				return fail("C05/"+canon(e.Family)+"/output-differs-after-step", fmt.Sprintf("after step %d (%s): %s", step, ev, m))
			}
			// the consumer appends to the slices it has been handed so far (spare capacity only): what the
			// operator still holds must not live in the backing array of something it has delivered
			h.rec.ScribbleAll()
			if mut := h.rec.Mutated(); len(mut) > 0 {
				return fail("C05/"+canon(e.Family)+"/delivered-value-modified-later", fmt.Sprintf("after step %d (%s): %s", step, ev, strings.Join(mut, "; ")))
			}
			if st.Done() {
				// the output ended: every source that was subscribed must have been released
				if e.Flags.Has(catalog.Blocks) {
					select {
					case <-h.subDone:
					case <-time.After(2 * time.Second):
					}
				}
				for i, s := range h.srcs {
					if s.IsSubscribed() && s.Live.Load() != 0 {
						return fail("C05/"+canon(e.Family)+"/source-not-released-when-output-ended", fmt.Sprintf("after step %d (%s) the output ended but source %d is still subscribed (%s)", step, ev, i, s.Summary()))
					}
				}
			}
		}
		res.Events += int64(h.rec.Len())
		orders++
		sigs[h.rec.TraceString()] = true
		h.cleanup()
	}
	res.Nontrivial = orders > 0 && res.Events > 0
	res.Extra = map[string]int64{"arrival_orders_executed": orders, "distinct_outputs": int64(len(sigs))}
	res.Sig = e.Name + "|" + c.Get("scripts")
	if len(paths) > 0 {
		res.Sample = map[string]any{"operator": e.Name, "source_scripts": c.Get("scripts"), "arrival_orders": len(paths), "one_order": fmt.Sprint(paths[len(paths)/2])}
	}
	return res
}

// ---------------------------------------------------------------- concurrent: ∃ explaining interleaving

type cev struct {
	event
	begin, end int64
}

func explain(e *catalog.Entry, per [][]cev, observed []rec.Event) bool {
	var vals []string
	var term *rec.Event
	for i := range observed {
		if observed[i].Kind == rec.Next {
			vals = append(vals, observed[i].Val)
		} else if term == nil {
			term = &observed[i]
		}
	}
	pos := make([]int, len(per))
	budget := 200000
	var dfs func(st catalog.Step, matched int, termSeen bool) bool
	dfs = func(st catalog.Step, matched int, termSeen bool) bool {
		budget--
		if budget < 0 {
			return true // search exhausted its budget: do not claim a violation
		}
		done := true
		for i := range per {
			if pos[i] < len(per[i]) {
				done = false
			}
		}
		if done {
			if matched != len(vals) {
				return false
			}
			if term == nil {
				return !termSeen
			}
			return termSeen
		}
		for i := range per {
			if pos[i] >= len(per[i]) {
				continue
			}
			ev := per[i][pos[i]]
			// real-time order: ev may go next only if no other pending event returned before ev began
			ok := true
			for j := range per {
				if j != i && pos[j] < len(per[j]) && per[j][pos[j]].end != 0 && per[j][pos[j]].end < ev.begin {
					ok = false
					break
				}
			}
			if !ok {
				continue
			}
			c := st.Clone()
			var out []string
			var t *catalog.Term
			if !c.Done() && c.Live(i) {
				out, t = c.On(i, ev.N)
			}
			m := matched
			good := true
			for _, o := range out {
				if m >= len(vals) || vals[m] != o {
					good = false
					break
				}
				m++
			}
			ts := termSeen
			if good && t != nil {
				if term == nil || term.Kind != t.K || m != len(vals) {
					good = false
				}
				ts = true
			}
			if !good {
				continue
			}
			pos[i]++
			if dfs(c, m, ts) {
				pos[i]--
				return true
			}
			pos[i]--
		}
		return false
	}
	return dfs(e.Step(len(per)), 0, false)
}

func runConc(c driver.Case) driver.Result {
	e := catalog.Get(c.Get("entry"))
	scripts := parse(c.Get("scripts"))
	switch c.Int("yield") {
	case 1:
		sched.Set(sched.Yield, 40)
	case 2:
		sched.Set(sched.Jitter, 20)
	default:
		sched.Set(sched.Off, 0)
	}
	defer sched.Set(sched.Off, 0)
	sched.ResetGauge()
	res := driver.Result{Verdict: driver.Held}
	start := make(chan struct{})
	r := rec.New(e.Name)
	b := &catalog.B{}
	var srcs []*src.Source
	for i := 0; i < e.NSrc; i++ {
		s := src.New(fmt.Sprintf("s%d", i), scripts[i])
		s.Async, s.Start, s.Yield = true, start, true
		srcs = append(srcs, s)
		b.Srcs = append(b.Srcs, s.Observable())
	}
	sub := e.Pipeline(b).Subscribe(context.Background(), r, false)
	close(start)
	var wg sync.WaitGroup
	for _, s := range srcs {
		s := s
		wg.Add(1)
		go func() { defer wg.Done(); s.WaitTimeout(5 * time.Second) }()
	}
	wg.Wait()
	_, settled := quiesce.Settle(3 * time.Second)
	res.Dirty = !settled
	per := make([][]cev, e.NSrc)
	for i, s := range srcs {
		for _, em := range s.Emissions() {
			per[i] = append(per[i], cev{event{i, em.N}, em.Begin, em.End})
		}
	}
	obs := r.Events()
	res.Events = int64(len(obs))
	res.Nontrivial = len(obs) > 0
	res.Sig = e.Name + "→" + r.TraceString()
	res.Extra = map[string]int64{"max_producers_in_flight": int64(sched.MaxInNext.Load())}
	res.Sample = map[string]any{"operator": e.Name, "source_scripts": c.Get("scripts"), "concurrent_trace": r.TraceString()}
	if gp := r.GrammarProblems(); len(gp) > 0 {
		res.Verdict, res.Key = driver.Violated, "C05/"+canon(e.Family)+"/delivery-after-terminal-under-concurrency"
		res.Msg = fmt.Sprintf("%s fed concurrently [%s]: %s", e.Name, c.Get("scripts"), strings.Join(gp, "; "))
	} else if !explain(e, per, obs) {
		res.Verdict, res.Key = driver.Violated, "C05/"+canon(e.Family)+"/no-arrival-order-explains-concurrent-output/"+classify(per, obs)
		res.Msg = fmt.Sprintf("%s fed concurrently [%s]: observed [%s] is not the definition's output for any arrival order compatible with each source's order and real time", e.Name, c.Get("scripts"), r.TraceString())
		res.Witness = map[string]any{"trace": r.Trace(), "emissions": fmt.Sprint(per)}
	}
	func() { defer func() { recover() }(); sub.Unsubscribe() }()
	return res
}

// classify names the anomaly class of an unexplained concurrent trace (used in
// the finding key so that a different anomaly at the same operator is a new alarm).
func classify(per [][]cev, obs []rec.Event) string {
	// the terminal is of a kind no source issued: a failure turned into a completion or the reverse
	issued := map[rec.Kind]bool{}
	for _, evs := range per {
		for _, ev := range evs {
			issued[ev.N.K] = true
		}
	}
	for _, o := range obs {
		if o.Kind == rec.Complete && !issued[rec.Complete] {
			return "error-replaced-by-completion"
		}
		if o.Kind == rec.Error && !issued[rec.Error] {
			return "completion-replaced-by-error"
		}
	}
	emitted := map[string]int{} // value → source
	for i, evs := range per {
		for _, ev := range evs {
			if ev.N.K == rec.Next {
				emitted[fmt.Sprint(ev.N.V)] = i
			}
		}
	}
	seen := map[string]int{}
	lastIdx := map[int]int{}
	simple := true
	for _, o := range obs {
		if o.Kind != rec.Next {
			continue
		}
		srcI, ok := emitted[o.Val]
		if !ok {
			simple = false
			continue
		}
		seen[o.Val]++
		if seen[o.Val] > 1 {
			return "value-duplicated"
		}
		// per-source order
		idx := -1
		for k, ev := range per[srcI] {
			if ev.N.K == rec.Next && fmt.Sprint(ev.N.V) == o.Val {
				idx = k
			}
		}
		if idx < lastIdx[srcI] {
			return "source-order-not-preserved"
		}
		lastIdx[srcI] = idx
	}
	if !simple {
		return "combination-mismatch"
	}
	// a value emitted before a later value of the same source that was delivered, but itself missing
	for i, evs := range per {
		for k, ev := range evs {
			if ev.N.K == rec.Next && seen[fmt.Sprint(ev.N.V)] == 0 && k < lastIdx[i] {
				return "value-lost"
			}
		}
	}
	return "terminal-or-count-mismatch"
}

var canonRe = regexp.MustCompile(`(With\d*|AllAny|All|Any|\d+)$`)

// canon folds the arities and aliases of one operator family (Zip2…Zip6,
// ZipWith1…5, ZipAll → Zip) so that a finding names the operator, not the arity.
func canon(f string) string {
	f = strings.TrimSuffix(f, "+MergeAll")
	for {
		g := canonRe.ReplaceAllString(f, "")
		if g == f || g == "" {
			break
		}
		f = g
	}
	if f == "Amb" {
		f = "Race"
	}
	return f
}

// ---------------------------------------------------------------- park plans: deterministic unlock-then-emit interleavings

type parkPlan struct {
	name   string
	entry  string
	point  string
	before []event // injected from the harness goroutine, to completion, before the parked emission
	parked event   // injected from a second goroutine; it parks at `point` (state taken, not yet emitted)
	during []event // injected from the harness goroutine while the other one is parked
}

func n(s, v int) event { return event{s, src.Notif{K: rec.Next, V: v}} }
func cpl(s int) event  { return event{s, src.Notif{K: rec.Complete}} }

var parkPlans = []parkPlan{
	{"zip-completion-overtakes-popped-tuple", "Zip2", "zip.popped", []event{n(0, 10)}, n(1, 20), []event{cpl(0)}},
	{"buffer-completion-overtakes-taken-buffer", "BufferWhen", "buffer.flush.unlocked", []event{n(0, 10)}, n(1, 20), []event{cpl(0)}},
	{"window-boundary-overtakes-routed-value", "WindowWhen+MergeAll", "window.next.read", nil, n(0, 10), []event{n(1, 20), n(0, 11)}},
	// SampleWhen: the tick goroutine took value 10 and is parked; the source emits 11 and completes meanwhile
	{"sample-completion-overtakes-taken-sample", "SampleWhen", "sample.tick.unlocked", []event{n(0, 10)}, n(1, 20), []event{cpl(0)}},
}

func runPark(c driver.Case) driver.Result {
	var pl parkPlan
	for _, p := range parkPlans {
		if p.name == c.Get("plan") {
			pl = p
		}
	}
	e := catalog.Get(pl.entry)
	res := driver.Result{Verdict: driver.Held}
	h := setup(e)
	defer h.cleanup()
	for _, ev := range pl.before {
		h.srcs[ev.Src].Send(ev.N)
	}
	arrived, release := sched.Park(pl.point, 1)
	defer sched.ClearParks()
	parkedDone := make(chan struct{})
	go func() {
		defer close(parkedDone)
		defer func() { recover() }()
		h.srcs[pl.parked.Src].Send(pl.parked.N)
	}()
	select {
	case <-arrived:
	case <-time.After(2 * time.Second):
		release()
		<-parkedDone
		return driver.Result{Verdict: driver.Inconclusive, Key: "park-point-not-reached", Msg: pl.name + ": hook point " + pl.point + " was not reached"}
	}
	// the other goroutine has taken its state under the operator's lock and released the lock; it has not emitted yet
	duringDone := make(chan struct{})
	go func() {
		defer close(duringDone)
		defer func() { recover() }()
		for _, ev := range pl.during {
			if h.srcs[ev.Src].IsSubscribed() {
				h.srcs[ev.Src].Send(ev.N)
			}
		}
	}()
	select {
	case <-duringDone:
	case <-time.After(500 * time.Millisecond): // blocked behind the parked goroutine (the operator holds a lock there): release first
	}
	release()
	<-parkedDone
	select {
	case <-duringDone:
	case <-time.After(5 * time.Second):
		return driver.Result{Verdict: driver.Inconclusive, Key: "park-plan-stuck", Dirty: true}
	}
	quiesce.Settle(time.Second)
	per := make([][]cev, e.NSrc)
	for i, s := range h.srcs {
		for _, em := range s.Emissions() {
			per[i] = append(per[i], cev{event{i, em.N}, em.Begin, em.End})
		}
	}
	obs := h.rec.Events()
	res.Events = int64(len(obs)) + 1
	res.Nontrivial = true
	res.Sig = "park/" + pl.name + "→" + h.rec.TraceString()
	res.Sample = map[string]any{"plan": pl.name, "operator": pl.entry, "parked_at": pl.point, "observed": h.rec.TraceString()}
	if gp := h.rec.GrammarProblems(); len(gp) > 0 {
		res.Verdict, res.Key = driver.Violated, "C05/"+canon(e.Family)+"/delivery-after-terminal-under-concurrency"
		res.Msg = fmt.Sprintf("%s (%s): %s", pl.entry, pl.name, strings.Join(gp, "; "))
	} else if !explain(e, per, obs) {
		res.Verdict, res.Key = driver.Violated, "C05/"+canon(e.Family)+"/no-arrival-order-explains-concurrent-output/"+classify(per, obs)
		res.Msg = fmt.Sprintf("%s, deterministic schedule '%s' (one producer parked at %s after taking its state, the other producer runs %v meanwhile): observed [%s] is not the definition's output for any arrival order", pl.entry, pl.name, pl.point, pl.during, h.rec.TraceString())
	}
	return res
}

func runCase(c driver.Case) driver.Result {
	rec.ResetHooks()
	if c.Get("kind") == "park" {
		return runPark(c)
	}
	if c.Get("kind") == "conc" {
		return runConc(c)
	}
	if c.Get("kind") == "spin" {
		return runSpin(c)
	}
	return runSeq(c)
}

func main() {
	driver.Main(driver.Property{
		ID:        "C05",
		Level:     "exploration",
		Rule:      "every multi-source catalogue entry with a small-step definition × every tuple of per-source scripts (values unique per source, length ≤ bound, ending complete/error/silence) × EVERY arrival order of those scripts (enumerated with the definition, each executed on a fresh pipeline over puppet sources, one notification processed to completion/quiescence before the next). Oracle after each single notification: cumulative trace == definition's cumulative output; every source the definition still listens to is subscribed; once the output ended every source is released. Concurrent part: the same kind of scripts played by free-running goroutines (yield/jitter at the hook points); the observed trace must be the definition's output for SOME arrival order compatible with per-source order and real time (emission call/return on a logical clock). Non-trivial: callbacks observed; the evidence counts arrival orders executed. Also: sequences in which one source emits a value inside its subscribe function and goes on afterwards (seq-head<i>), all arrival orders from the state after that value.",
		Assume:    []string{"small-step definitions follow the property statement (merge/concat/combine-latest/zip/race…) and behaviour pinned by the repository's tests for the *Until/*When operators", "the explaining-interleaving search gives up (no verdict) after 200000 nodes"},
		Plan:      plan,
		Run:       runCase,
		CaseWatch: 120 * time.Second,
		Setup: func() {
			rec.Install()
			sched.Install()
			rec.DefaultScribble = true
		},
		Exhaustive: func(tier string) string {
			if tier == "thorough" {
				return "all script tuples with ≤4 values per source (2 sources) / ≤2 (3 sources) × endings {C,E,silence} × all arrival orders"
			}
			return "all script tuples with ≤3 values per source (2 sources) / ≤1 (3 sources) × endings {C,E,silence} × all arrival orders"
		},
	})
}
