package main

import (
	"errors"
	"fmt"
	"time"

	"github.com/samber/ro"
	"verifharness/internal/driver"
)

// Boundary parameters: the documented rejections (panic with the exported error at
// construction) and the accepted boundary values right next to them.
type paramCase struct {
	name  string
	build func()
	want  error // nil = must be accepted
}

func paramCases() []paramCase {
	h := time.Hour
	return []paramCase{
		{"Take(-1)", func() { ro.Take[int](-1) }, ro.ErrTakeWrongCount}, {"Take(0)", func() { ro.Take[int](0) }, nil},
		{"TakeLast(-1)", func() { ro.TakeLast[int](-1) }, ro.ErrTakeLastWrongCount}, {"TakeLast(0)", func() { ro.TakeLast[int](0) }, nil},
		{"Skip(-1)", func() { ro.Skip[int](-1) }, ro.ErrSkipWrongCount}, {"Skip(0)", func() { ro.Skip[int](0) }, nil},
		{"SkipLast(0)", func() { ro.SkipLast[int](0) }, ro.ErrSkipLastWrongCount}, {"SkipLast(1)", func() { ro.SkipLast[int](1) }, nil},
		{"ElementAt(-1)", func() { ro.ElementAt[int](-1) }, ro.ErrElementAtWrongNth}, {"ElementAt(0)", func() { ro.ElementAt[int](0) }, nil},
		{"ElementAtOrDefault(-1)", func() { ro.ElementAtOrDefault[int](-1, 0) }, ro.ErrElementAtOrDefaultWrongNth}, {"ElementAtOrDefault(0)", func() { ro.ElementAtOrDefault[int](0, 0) }, nil},
		{"Clamp(2,1)", func() { ro.Clamp(2, 1) }, ro.ErrClampLowerLessThanUpper}, {"Clamp(1,1)", func() { ro.Clamp(1, 1) }, nil},
		{"BufferWithCount(0)", func() { ro.BufferWithCount[int](0) }, ro.ErrBufferWithCountWrongSize}, {"BufferWithCount(1)", func() { ro.BufferWithCount[int](1) }, nil},
		{"BufferWithTime(0)", func() { ro.BufferWithTime[int](0) }, ro.ErrBufferWithTimeWrongDuration}, {"BufferWithTime(1h)", func() { ro.BufferWithTime[int](h) }, nil},
		{"BufferWithTimeOrCount(0,1h)", func() { ro.BufferWithTimeOrCount[int](0, h) }, ro.ErrBufferWithTimeOrCountWrongSize},
		{"BufferWithTimeOrCount(1,0)", func() { ro.BufferWithTimeOrCount[int](1, 0) }, ro.ErrBufferWithTimeOrCountWrongDuration},
		{"BufferWithTimeOrCount(1,1h)", func() { ro.BufferWithTimeOrCount[int](1, h) }, nil},
		{"RepeatWith(-1)", func() { ro.RepeatWith[int](-1) }, ro.ErrRepeatWithWrongCount}, {"RepeatWith(0)", func() { ro.RepeatWith[int](0) }, nil},
		{"Repeat(1,-1)", func() { ro.Repeat(1, -1) }, ro.ErrRepeatWrongCount}, {"Repeat(1,0)", func() { ro.Repeat(1, 0) }, nil},
		{"RepeatWithInterval(1,-1,1h)", func() { ro.RepeatWithInterval(1, -1, h) }, ro.ErrRepeatWithIntervalWrongCount}, {"RepeatWithInterval(1,0,1h)", func() { ro.RepeatWithInterval(1, 0, h) }, nil},
		{"RangeWithStep(0,2,0)", func() { ro.RangeWithStep(0, 2, 0) }, ro.ErrRangeWithStepWrongStep}, {"RangeWithStep(0,2,1)", func() { ro.RangeWithStep(0, 2, 1) }, nil},
		{"RangeWithStepAndInterval(0,2,0,1h)", func() { ro.RangeWithStepAndInterval(0, 2, 0, h) }, ro.ErrRangeWithStepAndIntervalWrongStep},
		{"ToChannel(-1)", func() { ro.ToChannel[int](-1) }, ro.ErrToChannelWrongSize}, {"ToChannel(0)", func() { ro.ToChannel[int](0) }, nil},
		{"ObserveOn(0)", func() { ro.ObserveOn[int](0) }, ro.ErrObserveOnWrongBufferSize}, {"ObserveOn(1)", func() { ro.ObserveOn[int](1) }, nil},
		{"SubscribeOn(0)", func() { ro.SubscribeOn[int](0) }, ro.ErrSubscribeOnWrongBufferSize}, {"SubscribeOn(1)", func() { ro.SubscribeOn[int](1) }, nil},
		{"ShareWithConfig(no connector)", func() { ro.ShareWithConfig(ro.ShareConfig[int]{}) }, ro.ErrConnectableObservableMissingConnectorFactory},
		{"ConnectableWithConfig(no connector)", func() { ro.ConnectableWithConfig(ro.Just(1), ro.ConnectableConfig[int]{}) }, ro.ErrConnectableObservableMissingConnectorFactory},
	}
}

func runParam(c driver.Case) driver.Result {
	res := driver.Result{Verdict: driver.Held, Events: 1, Nontrivial: true, Sig: "param/" + c.Get("name")}
	for _, pc := range paramCases() {
		if pc.name != c.Get("name") {
			continue
		}
		var pan any
		func() {
			defer func() { pan = recover() }()
			pc.build()
		}()
		switch {
		case pc.want == nil && pan != nil:
			res.Verdict, res.Key = driver.Violated, "C04/parameters/boundary-value-rejected"
			res.Msg = fmt.Sprintf("%s is a documented boundary value but construction panicked: %v", pc.name, pan)
		case pc.want != nil && pan == nil:
			res.Verdict, res.Key = driver.Violated, "C04/parameters/invalid-value-accepted"
			res.Msg = fmt.Sprintf("%s must be rejected with %q but was accepted", pc.name, pc.want)
		case pc.want != nil:
			if err, ok := pan.(error); !ok || !errors.Is(err, pc.want) {
				res.Verdict, res.Key = driver.Violated, "C04/parameters/wrong-rejection-error"
				res.Msg = fmt.Sprintf("%s panicked with %v, documented error is %q", pc.name, pan, pc.want)
			}
		}
		res.Sample = map[string]any{"constructor": pc.name, "rejected": pan != nil}
	}
	return res
}
