// C04 — each operator computes its documented function of the input sequence.
package main

import (
	"fmt"
	"math/rand"
	"strings"
	"time"

	"github.com/samber/ro"

	"verifharness/internal/catalog"
	"verifharness/internal/driver"
	"verifharness/internal/quiesce"
	"verifharness/internal/rec"
	"verifharness/internal/run"
	"verifharness/internal/sched"
	"verifharness/internal/src"
)

func legalFor(e *catalog.Entry, maxVals int) [][]src.Script {
	// every tuple of legal scripts; multi-source entries use a smaller bound per source
	if e.Flags.Has(catalog.Creation) {
		return [][]src.Script{{}}
	}
	n := e.NSrc
	mv := maxVals
	if n == 2 {
		mv = maxVals - 1
	} else if n >= 3 {
		mv = maxVals - 1 // lengths 0..2 (3 thorough) per source: which source is the shortest matters per arity
	}
	alphabet := []int{0, 1, 2}
	if n >= 2 {
		alphabet = []int{1, 2}
	}
	if n >= 3 {
		alphabet = []int{1} // the shape (lengths, endings) is what varies; 9 (13) scripts per source
	}
	one := src.LegalScripts(alphabet, mv)
	var keep []src.Script
	for _, s := range one {
		_, end := s.Values()
		if e.Flags.Has(catalog.Blocks) && end == rec.Next {
			continue // an operator that waits inside Subscribe never returns on a source without terminal
		}
		keep = append(keep, s)
	}
	var out [][]src.Script
	var gen func(prefix []src.Script)
	gen = func(prefix []src.Script) {
		if len(prefix) == n {
			out = append(out, append([]src.Script(nil), prefix...))
			return
		}
		for _, s := range keep {
			gen(append(prefix, s))
		}
	}
	gen(nil)
	return out
}

func scriptsKey(ss []src.Script) string {
	parts := make([]string, len(ss))
	for i, s := range ss {
		parts[i] = s.String()
	}
	return strings.Join(parts, "|")
}

func parseScripts(k string) []src.Script {
	if k == "" {
		return nil
	}
	var out []src.Script
	for _, p := range strings.Split(k, "|") {
		out = append(out, src.Parse(p))
	}
	return out
}

func plan(tier string, seed int64) []driver.Case {
	maxVals := 3
	nChains := 300
	nLong := 200
	if tier == "thorough" {
		maxVals = 5
		nChains = 5000
		nLong = 3000
	}
	var cases []driver.Case
	for _, e := range catalog.All() {
		if e.Model == nil {
			continue
		}
		for _, ss := range legalFor(e, maxVals) {
			for _, mode := range []string{"unsafe", "safe"} {
				if mode == "safe" && len(ss) > 0 && len(ss[0]) > 2 {
					continue // safe-mode sources add nothing for long scripts; keep the product small
				}
				k := scriptsKey(ss)
				cases = append(cases, driver.Case{ID: fmt.Sprintf("op/%s/%s/%s", e.Name, k, mode), P: map[string]string{"kind": "op", "entry": e.Name, "scripts": k, "mode": mode}})
			}
		}
	}
	// the same single-source entries over values outside the small alphabet: negative ones, a large
	// one, and a mix (comparisons, extrema, sums, sign handling, keys)
	for _, e := range catalog.All() {
		if e.Model == nil || e.NSrc != 1 || e.Flags.Has(catalog.Creation) {
			continue
		}
		for _, alphabet := range [][]int{{-3, -1, -2}, {-2, 5, 17}} {
			for _, sc := range src.LegalScripts(alphabet, maxVals) {
				if _, end := sc.Values(); e.Flags.Has(catalog.Blocks) && end == rec.Next {
					continue
				}
				if len(sc) < 2 {
					continue // the short ones say nothing new about values
				}
				cases = append(cases, driver.Case{ID: fmt.Sprintf("opwide/%s/%s", e.Name, sc), P: map[string]string{"kind": "op", "entry": e.Name, "scripts": sc.String(), "mode": "unsafe"}})
			}
		}
	}
	rng := rand.New(rand.NewSource(seed))
	ch := catalog.Chainable()
	var modelled []*catalog.Entry
	for _, e := range ch {
		if e.Model != nil && !e.Flags.Has(catalog.NonDet) && !e.Flags.Has(catalog.Blocks) {
			modelled = append(modelled, e)
		}
	}
	for i := 0; i < nChains; i++ {
		n := 2 + rng.Intn(4)
		names := make([]string, n)
		for j := range names {
			names[j] = modelled[rng.Intn(len(modelled))].Name
		}
		sc := randScript(rng, 1+rng.Intn(8))
		cases = append(cases, driver.Case{ID: fmt.Sprintf("chain/%d/%s/%s", i, strings.Join(names, ">"), sc.String()), P: map[string]string{"kind": "chain", "chain": strings.Join(names, ">"), "scripts": sc.String(), "mode": "unsafe"}})
	}
	// Pipe / PipeN / PipeOp / PipeOpN / manual nesting must be observationally identical, every arity 1..25
	// (synchronous operators only: this differential is about the composition plumbing, and a synchronous
	// chain's trace is complete when Subscribe returns)
	var syncModelled []*catalog.Entry
	for _, e := range modelled {
		if !(e.Flags.Has(catalog.Async) || e.Flags.Has(catalog.HandOff) || e.Flags.Has(catalog.TimeDriven)) {
			syncModelled = append(syncModelled, e)
		}
	}
	for arity := 1; arity <= 25; arity++ {
		reps := 4
		if tier == "thorough" {
			reps = 40
		}
		for k := 0; k < reps; k++ {
			names := make([]string, arity)
			for j := range names {
				names[j] = syncModelled[rng.Intn(len(syncModelled))].Name
			}
			sc := randScript(rng, 1+rng.Intn(6))
			cases = append(cases, driver.Case{ID: fmt.Sprintf("pipe/%d/%d/%s", arity, k, sc.String()), P: map[string]string{"kind": "pipe", "chain": strings.Join(names, ">"), "scripts": sc.String()}})
		}
	}
	for _, pc := range paramCases() {
		cases = append(cases, driver.Case{ID: "param/" + pc.name, P: map[string]string{"kind": "param", "name": pc.name}})
	}
	for i := 0; i < nLong; i++ {
		e := modelled[rng.Intn(len(modelled))]
		sc := randScript(rng, 20+rng.Intn(200))
		cases = append(cases, driver.Case{ID: fmt.Sprintf("long/%d/%s", i, e.Name), P: map[string]string{"kind": "op", "entry": e.Name, "scripts": sc.String(), "mode": "unsafe"}})
	}
	return cases
}

func randScript(rng *rand.Rand, n int) src.Script {
	var s src.Script
	for i := 0; i < n; i++ {
		s = append(s, src.Notif{K: rec.Next, V: rng.Intn(3)})
	}
	switch rng.Intn(4) {
	case 0:
		s = append(s, src.Notif{K: rec.Error})
	case 1, 2:
		s = append(s, src.Notif{K: rec.Complete})
	}
	return s
}

// chainModel composes the models of the chain's parts: the output of one part,
// re-read as a script, is the input of the next.
func chainModel(chain []*catalog.Entry, in src.Script) (catalog.Expect, bool) {
	cur := in
	var exp catalog.Expect
	for _, e := range chain {
		exp = e.Model([]src.Script{cur.Legal()})
		var next src.Script
		for _, v := range exp.Vals {
			var x int
			if _, err := fmt.Sscanf(v, "%d", &x); err != nil {
				return exp, false
			}
			next = append(next, src.Notif{K: rec.Next, V: x})
		}
		switch exp.Term.K {
		case rec.Complete:
			next = append(next, src.Notif{K: rec.Complete})
		case rec.Error:
			if exp.Term.Is != src.ErrSrc {
				// a library/user error entering the next stage: later stages only forward or
				// transform errors by kind, which the per-stage models express via ErrSrc.
				// Keep the identity of the error by stopping composition here when a later
				// stage would have to model a foreign error.
				rest := chain[indexOf(chain, e)+1:]
				for _, r := range rest {
					if !forwardsErrors(r) {
						return exp, false
					}
				}
				// values may still be transformed by the remaining stages
				vals := next
				vals = append(vals, src.Notif{K: rec.Complete})
				sub, ok := chainModel(rest, vals)
				if !ok {
					return exp, false
				}
				if sub.Term.K == rec.Complete && len(rest) > 0 {
					// the rest saw a completion where the real run sees the foreign error:
					// only sound if completion adds no values; checked by comparing with an errored run
					subE, _ := chainModel(rest, append(append(src.Script(nil), next...), src.Notif{K: rec.Error}))
					if subE.Term.K != rec.Error || subE.Term.Is != src.ErrSrc {
						return exp, false
					}
					subE.Term = exp.Term
					return subE, true
				}
				return exp, false
			}
			next = append(next, src.Notif{K: rec.Error})
		}
		cur = next
	}
	return exp, true
}

func indexOf(chain []*catalog.Entry, e *catalog.Entry) int {
	for i, c := range chain {
		if c == e {
			return i
		}
	}
	return -1
}

func forwardsErrors(e *catalog.Entry) bool {
	switch e.Family {
	case "Catch", "OnErrorReturn", "OnErrorResumeNextWith", "RetryWithConfig", "Materialize+Dematerialize":
		return false
	}
	return true
}

func runPipe(c driver.Case) driver.Result {
	var chain []*catalog.Entry
	for _, n := range strings.Split(c.Get("chain"), ">") {
		chain = append(chain, catalog.Get(n))
	}
	sc := src.Parse(c.Get("scripts"))
	forms := []string{"manual nesting", "ro.Pipe (reflective)", "ro.PipeN (typed)", "ro.PipeOp (reflective)", "ro.PipeOpN (typed)"}
	var traces []string
	res := driver.Result{Verdict: driver.Held}
	for f := range forms {
		b := &catalog.B{}
		s := src.New("s", sc)
		b.Srcs = []ro.Observable[int]{s.Observable()}
		ops := make([]iop, len(chain))
		anyOps := make([]any, len(chain))
		for i, e := range chain {
			ops[i] = e.Op(b)
			anyOps[i] = ops[i]
		}
		var o ro.Observable[int]
		var pan any
		func() {
			defer func() { pan = recover() }()
			switch f {
			case 0:
				o = b.S(0)
				for _, op := range ops {
					o = op(o)
				}
			case 1:
				o = ro.Pipe[int, int](b.S(0), anyOps...)
			case 2:
				o = typedPipe(b.S(0), ops)
			case 3:
				o = ro.PipeOp[int, int](anyOps...)(b.S(0))
			case 4:
				o = typedPipeOp(ops)(b.S(0))
			}
		}()
		if pan != nil {
			res.Verdict, res.Key = driver.Violated, "C04/Pipe/composition-panics"
			res.Msg = fmt.Sprintf("%s of %d operators [%s] panicked: %v", forms[f], len(chain), c.Get("chain"), pan)
			return res
		}
		r := rec.New(forms[f])
		sub := o.Subscribe(rec.Raw[int](r))
		traces = append(traces, r.TraceString())
		res.Events += int64(r.Len())
		func() { defer func() { recover() }(); sub.Unsubscribe() }()
	}
	for f := 1; f < len(forms); f++ {
		if traces[f] != traces[0] {
			res.Verdict, res.Key = driver.Violated, fmt.Sprintf("C04/Pipe/arity-%d/%s-differs-from-manual-nesting", len(chain), strings.Fields(forms[f])[0])
			res.Msg = fmt.Sprintf("%d operators [%s] over [%s]: %s delivers [%s], manual nesting delivers [%s]", len(chain), c.Get("chain"), sc, forms[f], traces[f], traces[0])
			return res
		}
	}
	res.Nontrivial = res.Events > 0
	res.Sig = fmt.Sprintf("pipe%d|%s→%s", len(chain), c.Get("chain"), traces[0])
	res.Sample = map[string]any{"arity": len(chain), "operators": c.Get("chain"), "script": sc.String(), "trace_of_all_five_forms": traces[0]}
	return res
}

func runCase(c driver.Case) driver.Result {
	rec.ResetHooks()
	if c.Get("kind") == "pipe" {
		return runPipe(c)
	}
	if c.Get("kind") == "param" {
		return runParam(c)
	}
	scripts := parseScripts(c.Get("scripts"))
	var o run.Opts
	var exp catalog.Expect
	var name string
	hasModel := true
	switch c.Get("kind") {
	case "op":
		e := catalog.Get(c.Get("entry"))
		name = e.Name
		o = run.Opts{Entry: e, Scripts: scripts, Mode: c.Get("mode")}
		legal := make([]src.Script, len(scripts))
		for i, s := range scripts {
			legal[i] = s.Legal()
		}
		exp = e.Model(legal)
	case "chain":
		var chain []*catalog.Entry
		for _, n := range strings.Split(c.Get("chain"), ">") {
			chain = append(chain, catalog.Get(n))
		}
		name = c.Get("chain")
		o = run.Opts{Entry: chain[0], Chain: chain[1:], Scripts: scripts, Mode: c.Get("mode")}
		exp, hasModel = chainModel(chain, scripts[0])
	}
	o.NoWait = true
	res := run.Seq(o)
	defer res.Cleanup()
	dirty := false
	if asyncFlags(o) {
		want := -1
		if hasModel {
			want = len(exp.Vals)
			if exp.Term.K != rec.Next {
				want++
			}
		}
		if want != 0 || !hasModel {
			run.WaitEvents(res.Rec, want, 3*time.Second, 8*time.Second)
		} else {
			run.WaitEvents(res.Rec, 1, 300*time.Millisecond, time.Second) // nothing expected: give surplus callbacks a chance
		}
		_, ok := quiesce.Settle(200 * time.Millisecond)
		dirty = !ok
	}
	ev := res.Rec.Events()
	r := driver.Result{Verdict: driver.Held, Events: int64(len(ev)), Nontrivial: len(ev) > 0, Sig: name + "→" + res.Rec.TraceString(), Dirty: dirty}
	r.Sample = map[string]string{"scripts": c.Get("scripts"), "trace": res.Rec.TraceString(), "expected": exp.String()}
	if res.Panic != nil {
		r.Verdict = driver.Violated
		r.Key = "C04/" + famOf(name) + "/panic-escaped-subscribe"
		r.Msg = fmt.Sprintf("%s over %s: Subscribe panicked: %v", name, c.Get("scripts"), res.Panic)
		return r
	}
	if !hasModel {
		r.Extra = map[string]int64{"chains_without_composed_model": 1}
		return r
	}
	if m := exp.Match(ev); m != "" {
		r.Verdict = driver.Violated
		r.Key = "C04/" + famOf(name) + "/trace-differs-from-model"
		r.Msg = fmt.Sprintf("%s over [%s] (%s sources): %s; observed trace: %s; model: %s", name, c.Get("scripts"), c.Get("mode"), m, res.Rec.TraceString(), exp.String())
		r.Witness = map[string]any{"trace": res.Rec.Trace(), "model": exp.String()}
		return r
	}
	if mut := res.Rec.Mutated(); len(mut) > 0 {
		r.Verdict = driver.Violated
		r.Key = "C04/" + famOf(name) + "/delivered-value-modified-later"
		r.Msg = fmt.Sprintf("%s over [%s]: %s", name, c.Get("scripts"), strings.Join(mut, "; "))
		return r
	}
	return r
}

func asyncFlags(o run.Opts) bool {
	fl := o.Entry.Flags
	for _, c := range o.Chain {
		fl |= c.Flags
	}
	return fl.Has(catalog.Async) || fl.Has(catalog.HandOff) || fl.Has(catalog.TimeDriven)
}

func famOf(name string) string {
	if e := catalog.Get(name); e != nil {
		return e.Family
	}
	return "chain"
}

func main() {
	driver.Main(driver.Property{
		ID:     "C04",
		Level:  "exploration",
		Rule:   "every catalogue entry with an executable reference model × every tuple of legal source scripts (values over a small alphabet, length ≤ bound, endings complete/error/none) × source mode, plus seeded random chains (model = composition of the parts' models) and long random scripts; a case is non-trivial when at least one callback of the recording observer was observed; distinct = distinct (pipeline, observed trace) pairs",
		Assume: []string{"reference models are written from doc comments and pinned examples/tests (DESIGN §7.3)", "sources are synchronous cold sources; arrival-order semantics of multi-source operators are C05's"},
		Plan:   plan,
		Run:    runCase,
		Setup: func() {
			rec.Install()
			sched.Install()
			rec.DefaultScribble = true // the observer appends to the slices it is handed (see rec.Scribble)
		},
		Exhaustive: func(tier string) string {
			if tier == "thorough" {
				return "all legal scripts with ≤5 values over {0,1,2} (≤4 over {1,2} per source for 2-source entries, ≤1 for 3-source) × endings {C,E,none} for every modelled entry"
			}
			return "all legal scripts with ≤3 values over {0,1,2} (≤2 over {1,2} per source for 2-source entries, ≤1 for 3-source) × endings {C,E,none} for every modelled entry"
		},
	})
}
