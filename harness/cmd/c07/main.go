// C07 — errors and panics surface once as an Error notification, never as a crash.
package main

import (
	"context"
	"errors"
	"fmt"
	"math/rand"
	"strings"
	"sync"
	"time"

	"github.com/samber/ro"
	"verifharness/internal/catalog"
	"verifharness/internal/driver"
	"verifharness/internal/quiesce"
	"verifharness/internal/rec"
	"verifharness/internal/run"
	"verifharness/internal/sched"
	"verifharness/internal/src"
)

var ErrInjected = errors.New("injected-fault")

var script = src.Parse("1 2 0 2 C")
var scriptErr = src.Parse("1 2 E")
var scriptEmpty = src.Parse("C")

func scriptFor(scn string) src.Script {
	switch scn {
	case "err":
		return scriptErr
	case "empty":
		return scriptEmpty
	}
	return script
}

// discover runs the entry once without faults and returns how often each callback position is hit.
func discover(e *catalog.Entry, sc src.Script) map[string]int {
	counts := map[string]int{}
	var mu sync.Mutex
	b := &catalog.B{Hit: func(pos string) error { mu.Lock(); counts[pos]++; mu.Unlock(); return nil }}
	for i := 0; i < e.NSrc; i++ {
		s := src.New(fmt.Sprintf("s%d", i), sc)
		b.Srcs = append(b.Srcs, s.Observable())
	}
	r := rec.New("discover")
	done := make(chan struct{})
	go func() {
		defer close(done)
		defer func() { recover() }()
		sub := e.Pipeline(b).Subscribe(context.Background(), r, true)
		time.Sleep(3 * time.Millisecond)
		sub.Unsubscribe()
	}()
	select {
	case <-done:
	case <-time.After(2 * time.Second):
	}
	mu.Lock()
	defer mu.Unlock()
	out := map[string]int{}
	for k, v := range counts {
		out[k] = v
	}
	return out
}

func plan(tier string, seed int64) []driver.Case {
	rec.InstallSilent()
	var cases []driver.Case
	kinds := []string{"panic-err", "panic-str", "panic-int", "err-return"}
	maxIdx := 3
	if tier == "thorough" {
		maxIdx = 6
	}
	for _, e := range catalog.All() {
		for _, scn := range []string{"ok", "err", "empty"} {
			sc := scriptFor(scn)
			if e.Flags.Has(catalog.Creation) && scn != "ok" {
				continue
			}
			pos := discover(e, sc)
			for p, n := range pos {
				if n > maxIdx {
					n = maxIdx
				}
				for k := 0; k < n; k++ {
					for _, kind := range kinds {
						if kind == "err-return" && !(strings.HasPrefix(e.Family, "MapErr") || e.Name == "Future(ok)") {
							continue
						}
						for _, drive := range []string{"sync", "puppet"} {
							if e.Flags.Has(catalog.Creation) && drive == "puppet" {
								continue
							}
							if e.Flags.Has(catalog.Blocks) && drive == "puppet" {
								continue
							}
							cases = append(cases, driver.Case{ID: fmt.Sprintf("cb/%s/%s/%s#%d/%s/%s", e.Name, scn, p, k, kind, drive),
								P: map[string]string{"kind": "cb", "entry": e.Name, "scn": scn, "pos": p, "idx": fmt.Sprint(k), "fault": kind, "drive": drive}})
						}
					}
				}
			}
			// the source's own subscribe function panics after playing its script
			if !e.Flags.Has(catalog.Creation) && !e.Flags.Has(catalog.Blocks) && e.NSrc == 1 && scn == "ok" {
				for _, kind := range kinds[:3] {
					for _, at := range []string{"-", "1", "1 2"} {
						cases = append(cases, driver.Case{ID: fmt.Sprintf("subfn/%s/%s/%s", e.Name, at, kind),
							P: map[string]string{"kind": "subfn", "entry": e.Name, "played": at, "fault": kind}})
					}
				}
			}
			// the final observer's callbacks panic
			for _, cb := range []string{"next", "error", "complete"} {
				if scn == "empty" {
					continue
				}
				if (cb == "error") != (scn == "err") && cb != "next" {
					continue
				}
				for _, kind := range kinds[:3] {
					cases = append(cases, driver.Case{ID: fmt.Sprintf("observer/%s/%s/%s/%s", e.Name, scn, cb, kind),
						P: map[string]string{"kind": "observer", "entry": e.Name, "scn": scn, "cb": cb, "fault": kind}})
				}
			}
		}
	}
	// pairs of faults (thorough)
	if tier == "thorough" {
		rng := rand.New(rand.NewSource(seed))
		var single []driver.Case
		for _, c := range cases {
			if c.Get("kind") == "cb" && c.Get("drive") == "sync" {
				single = append(single, c)
			}
		}
		for i := 0; i < 6000 && len(single) > 0; i++ {
			a := single[rng.Intn(len(single))]
			k2 := rng.Intn(4)
			p := map[string]string{}
			for k, v := range a.P {
				p[k] = v
			}
			p["pos2"], p["idx2"] = a.Get("pos"), fmt.Sprint(a.Int("idx")+1+k2)
			cases = append(cases, driver.Case{ID: fmt.Sprintf("pair/%d/%s", i, a.ID), P: p})
		}
	}
	// subjects and Share with one panicking subscriber among healthy ones
	for _, kind := range []string{"publish", "behavior", "replay", "async", "unicast", "share", "sharereplay"} {
		for _, cb := range []string{"next", "complete", "error"} {
			for _, f := range kinds[:3] {
				cases = append(cases, driver.Case{ID: fmt.Sprintf("hot/%s/%s/%s", kind, cb, f), P: map[string]string{"kind": "hot", "target": kind, "cb": cb, "fault": f}})
			}
		}
	}
	return cases
}

func raise(kind string) error {
	switch kind {
	case "panic-err":
		panic(ErrInjected)
	case "panic-str":
		panic("injected-string-fault")
	case "panic-int":
		panic(424242)
	}
	return ErrInjected
}

func matches(kind string, ev rec.Event) bool {
	switch kind {
	case "panic-err", "err-return":
		return errors.Is(ev.Err, ErrInjected)
	case "panic-str":
		return strings.Contains(ev.ErrS, "injected-string-fault")
	case "panic-int":
		return strings.Contains(ev.ErrS, "424242")
	}
	return false
}

type outcome struct {
	r       *rec.Rec
	escaped any
	// escapedSubscribe: the panic came out of the Subscribe call itself (not out of a later emission)
	escapedSubscribe bool
	atFault          int // recorder events when the fault fired (-1 = never fired)
	srcs             []*src.Source
	sub              ro.Subscription
	hung             string
	dump             string
	unhandled        int
	asyncish         bool
	asyncishReal     bool
	followUpHung     bool
	beforeFollowUp   []string
}

func runEntry(e *catalog.Entry, sc src.Script, drive string, hit func(o *outcome) func(string) error, wrapped bool, panicInSub any, played src.Script, onEvent func(o *outcome, ev *rec.Event)) *outcome {
	o := &outcome{r: rec.New(e.Name), atFault: -1}
	o.asyncish = e.Flags.Has(catalog.Async) || e.Flags.Has(catalog.HandOff) || e.Flags.Has(catalog.TimeDriven) || e.Flags.Has(catalog.MultiFeed) && e.Flags.Has(catalog.Stores)
	o.asyncishReal = o.asyncish
	b := &catalog.B{}
	if hit != nil {
		b.Hit = hit(o)
	}
	if onEvent != nil {
		o.r.OnEvent = func(ev *rec.Event) { onEvent(o, ev) }
	}
	for i := 0; i < e.NSrc; i++ {
		var s *src.Source
		switch {
		case panicInSub != nil && i == 0:
			s = src.New(fmt.Sprintf("s%d", i), played)
			s.PanicInSubscribe = panicInSub
		case drive == "sync":
			s = src.New(fmt.Sprintf("s%d", i), sc)
		default:
			s = src.New(fmt.Sprintf("s%d", i))
		}
		o.srcs = append(o.srcs, s)
		b.Srcs = append(b.Srcs, s.Observable())
	}
	p := e.Pipeline(b)
	st, dump, pan := quiesce.Call(func() { o.sub = p.Subscribe(context.Background(), o.r, wrapped) }, 10*time.Second)
	if pan != nil {
		o.escaped = pan
		o.escapedSubscribe = true
	}
	if st == quiesce.Hung {
		o.hung, o.dump = "Subscribe", dump
		return o
	}
	if drive == "puppet" && panicInSub == nil {
		for i, s := range o.srcs {
			for _, n := range sc {
				if i > 0 && n.K != rec.Next {
					continue
				}
				if !s.IsSubscribed() {
					break
				}
				st, dump, pan := quiesce.Call(func() { s.Send(n) }, 10*time.Second)
				if pan != nil && o.escaped == nil {
					o.escaped = fmt.Sprintf("panic escaped into the goroutine calling %s on source %d: %v", n, i, pan)
				}
				if st == quiesce.Hung {
					o.hung, o.dump = fmt.Sprintf("emitting %s into source %d", n, i), dump
					return o
				}
			}
		}
	}
	if e.Flags.Has(catalog.Async) || e.Flags.Has(catalog.HandOff) || e.Flags.Has(catalog.TimeDriven) {
		// really asynchronous delivery: wait for the terminal (all C07 scripts end with one)
		run.WaitEvents(o.r, -1, 3*time.Second, 10*time.Second)
	}
	o.beforeFollowUp = o.r.Trace()
	// follow-up: a further notification must return (no lock left held) and must not be delivered after an Error
	for _, s := range o.srcs {
		if s.IsSubscribed() {
			st, dump, _ := quiesce.Call(func() { defer func() { recover() }(); s.Send(src.Notif{K: rec.Next, V: 9}) }, 10*time.Second)
			if st == quiesce.Hung {
				o.followUpHung, o.dump = true, dump
				break
			}
		}
	}
	o.unhandled = len(rec.UnhandledEvents())
	return o
}

func runCB(c driver.Case) driver.Result {
	rec.ResetHooks()
	e := catalog.Get(c.Get("entry"))
	sc := scriptFor(c.Get("scn"))
	pos, idx, fault := c.Get("pos"), c.Int("idx"), c.Get("fault")
	pos2, idx2 := c.Get("pos2"), c.Int("idx2")
	var mu sync.Mutex
	counts := map[string]int{}
	fired := 0
	hit := func(o *outcome) func(string) error {
		return func(p string) error {
			mu.Lock()
			k := counts[p]
			counts[p]++
			doFault := (p == pos && k == idx) || (pos2 != "" && p == pos2 && k == idx2)
			if doFault {
				fired++
				if o.atFault < 0 {
					o.atFault = o.r.Len()
				}
			}
			mu.Unlock()
			if doFault {
				return raise(fault)
			}
			return nil
		}
	}
	// reference: the same run without fault
	ref := runEntry(e, sc, c.Get("drive"), nil, true, nil, nil, nil)
	refVals := ref.beforeFollowUp
	cleanup(ref)
	rec.ResetHooks()
	o := runEntry(e, sc, c.Get("drive"), hit, true, nil, nil, nil)
	defer cleanup(o)
	res := driver.Result{Verdict: driver.Held}
	what := fmt.Sprintf("%s (%s sources playing [%s]) with %s injected at invocation #%d of callback %q", e.Name, c.Get("drive"), sc, fault, idx, pos)
	return judge(c, e, o, refVals, what, fault, "callback "+posClass(pos), &res)
}

func posClass(pos string) string {
	switch pos {
	case "onError", "onComplete", "selector", "factory", "condition", "onFinalize", "onSubscribe":
		return pos
	}
	return "value-position"
}

func cleanup(o *outcome) {
	defer func() { recover() }()
	if o.sub != nil {
		o.sub.Unsubscribe()
	}
}

func judge(c driver.Case, e *catalog.Entry, o *outcome, refVals []string, what, fault, site string, res *driver.Result) driver.Result {
	ev := o.r.Events()
	res.Events = int64(len(ev)) + 1
	res.Nontrivial = o.atFault >= 0
	res.Sig = fmt.Sprintf("%s|%s→%s", e.Name, site, o.r.TraceString())
	res.Sample = map[string]any{"case": what, "trace": o.r.TraceString(), "fault_free_trace": strings.Join(refVals, " "), "unhandled_hook_calls": o.unhandled}
	fam := e.Family
	fail := func(key, msg string) driver.Result {
		res.Verdict, res.Key = driver.Violated, "C07/"+fam+"/"+site+"/"+key
		res.Msg = what + ": " + msg + "; trace: [" + o.r.TraceString() + "], fault-free trace: [" + strings.Join(refVals, " ") + "]"
		res.Witness = o.r.Trace()
		return *res
	}
	if o.hung != "" {
		res.Dirty = true
		res.Witness = o.dump
		return fail("call-never-returns", o.hung+" never returned; all goroutines blocked ("+quiesce.BlockedSite(o.dump)+")")
	}
	if site == "callback onFinalize" {
		// a finalize callback is a teardown: C03 prescribes that its panic is re-raised to whoever closes the
		// subscription (here the goroutine delivering the terminal notification); only hangs are judged.
		if o.followUpHung {
			res.Dirty = true
			return fail("lock-left-held", "a follow-up notification after the fault never returns")
		}
		// ... but never out of Subscribe: a teardown that runs while the subscription is being set up (the
		// source ended inside its subscribe function) fails inside the library's own recovering block
		if o.escapedSubscribe {
			return fail("panic-escaped", fmt.Sprintf("panic reached the caller of Subscribe: %v", o.escaped))
		}
		return *res
	}
	if o.escaped != nil {
		return fail("panic-escaped", fmt.Sprintf("panic reached the caller: %v", o.escaped))
	}
	if o.atFault < 0 {
		res.Extra = map[string]int64{"fault_position_not_reached": 1}
		return *res
	}
	if o.followUpHung {
		res.Dirty = true
		res.Witness = o.dump
		return fail("lock-left-held", "a follow-up notification after the fault never returns; all goroutines blocked ("+quiesce.BlockedSite(o.dump)+")")
	}
	if gp := o.r.GrammarProblems(); len(gp) > 0 {
		return fail("delivery-after-terminal", strings.Join(gp, "; "))
	}
	var vals []rec.Event
	var term *rec.Event
	for i := range ev {
		if ev[i].Kind == rec.Next {
			vals = append(vals, ev[i])
		} else if term == nil {
			term = &ev[i]
		}
	}
	// a fault that fires after the stream had already terminated cannot be delivered: it must go to the hook
	refTerminated := len(refVals) > 0 && (strings.HasPrefix(refVals[len(refVals)-1], "E(") || refVals[len(refVals)-1] == "C")
	if term != nil && o.atFault >= len(ev) && refTerminated && o.atFault >= len(refVals) {
		if o.unhandled == 0 && !droppedMentions(fault) {
			return fail("late-failure-not-reported-to-any-hook", "the fault fired after the terminal notification and was reported neither to OnUnhandledError nor (as a dropped Error notification) to OnDroppedNotification")
		}
		return *res
	}
	if term == nil {
		return fail("no-error-notification", "the subscriber received neither Error nor Complete")
	}
	if term.Kind != rec.Error {
		return fail("completed-instead-of-error", "the subscriber received Complete, the failure was lost")
	}
	if !matches(fault, *term) {
		return fail("error-does-not-match-cause", "Error notification does not match the injected cause: "+term.ErrS)
	}
	// values before the Error: exactly those delivered before the fault fired (synchronous operators),
	// and always a prefix of the fault-free run
	if !o.asyncish && len(vals) != o.atFault {
		return fail("values-after-fault", fmt.Sprintf("%d values were delivered, %d had been delivered when the fault fired", len(vals), o.atFault))
	}
	for i, v := range vals {
		if i >= len(refVals) || refVals[i] != v.Val {
			if !e.Flags.Has(catalog.NonDet) {
				return fail("values-before-error-differ", fmt.Sprintf("value #%d is %s, the fault-free run delivers %v", i, v.Val, refVals))
			}
		}
	}
	return *res
}

// droppedMentions reports whether OnDroppedNotification received an Error notification carrying the injected cause.
func droppedMentions(fault string) bool {
	needle := map[string]string{"panic-err": "injected-fault", "err-return": "injected-fault", "panic-str": "injected-string-fault", "panic-int": "424242"}[fault]
	for _, d := range rec.DroppedEvents() {
		if strings.Contains(d.What, needle) {
			return true
		}
	}
	return false
}

func runSubFn(c driver.Case) driver.Result {
	rec.ResetHooks()
	e := catalog.Get(c.Get("entry"))
	played := src.Parse(c.Get("played"))
	fault := c.Get("fault")
	var pv any
	switch fault {
	case "panic-err":
		pv = ErrInjected
	case "panic-str":
		pv = "injected-string-fault"
	default:
		pv = 424242
	}
	ref := runEntry(e, played, "sync", nil, true, nil, nil, nil)
	refVals := ref.beforeFollowUp
	cleanup(ref)
	rec.ResetHooks()
	o := runEntry(e, nil, "sync", nil, true, pv, played, nil)
	defer cleanup(o)
	o.atFault = len(refVals)
	res := driver.Result{Verdict: driver.Held}
	what := fmt.Sprintf("%s over a source whose subscribe function panics (%s) after playing [%s]", e.Name, fault, played)
	// operators that re-subscribe or substitute on error legitimately transform the failure
	switch e.Family {
	case "Catch", "OnErrorReturn", "OnErrorResumeNextWith", "RetryWithConfig", "Materialize", "Iif(false)", "ToChannel":
		res.Events, res.Nontrivial = int64(o.r.Len())+1, true
		res.Sig = e.Name + "|subfn→" + o.r.TraceString()
		if o.escaped != nil {
			res.Verdict, res.Key = driver.Violated, "C07/"+e.Family+"/subscribe-function/panic-escaped"
			res.Msg = what + fmt.Sprintf(": panic reached the caller: %v", o.escaped)
		}
		return res
	}
	if e.Flags.Has(catalog.NoSrcOnZero) || e.Name == "While(false)" || e.Name == "Iif(false)" {
		return driver.Result{Verdict: driver.Held, Events: 1, Nontrivial: true, Sig: e.Name + "|subfn-not-subscribed"}
	}
	return judgeSubFn(c, e, o, refVals, what, fault, &res)
}

func judgeSubFn(c driver.Case, e *catalog.Entry, o *outcome, refVals []string, what, fault string, res *driver.Result) driver.Result {
	ev := o.r.Events()
	res.Events, res.Nontrivial = int64(len(ev))+1, true
	res.Sig = e.Name + "|subfn→" + o.r.TraceString()
	res.Sample = map[string]any{"case": what, "trace": o.r.TraceString(), "fault_free_trace": strings.Join(refVals, " ")}
	fail := func(key, msg string) driver.Result {
		res.Verdict, res.Key = driver.Violated, "C07/"+e.Family+"/subscribe-function/"+key
		res.Msg = what + ": " + msg + "; trace: [" + o.r.TraceString() + "], trace without the panic: [" + strings.Join(refVals, " ") + "]"
		return *res
	}
	if o.hung != "" || o.followUpHung {
		res.Dirty = true
		res.Witness = o.dump
		return fail("call-never-returns", "a call never returned ("+quiesce.BlockedSite(o.dump)+")")
	}
	if o.escaped != nil {
		return fail("panic-escaped", fmt.Sprintf("panic reached the caller: %v", o.escaped))
	}
	if gp := o.r.GrammarProblems(); len(gp) > 0 {
		return fail("delivery-after-terminal", strings.Join(gp, "; "))
	}
	refTerminated := len(refVals) > 0 && (strings.HasPrefix(refVals[len(refVals)-1], "E(") || refVals[len(refVals)-1] == "C")
	got := o.beforeFollowUp
	if refTerminated {
		// the operator ended the stream by itself before the subscribe function panicked: nothing changes
		if strings.Join(got, " ") != strings.Join(refVals, " ") && !e.Flags.Has(catalog.NonDet) && !o.asyncishReal {
			return fail("trace-changed-although-stream-had-ended", "the stream had already ended when the subscribe function panicked, yet the trace differs")
		}
		return *res
	}
	if len(got) == 0 || !strings.HasPrefix(got[len(got)-1], "E(") {
		return fail("no-error-notification", "the panic of the subscribe function did not reach the subscriber as an Error notification")
	}
	var term rec.Event
	for _, x := range ev {
		if x.Kind == rec.Error {
			term = x
			break
		}
	}
	if !matches(fault, term) {
		return fail("error-does-not-match-cause", "Error notification does not match the cause: "+term.ErrS)
	}
	vals := got[:len(got)-1]
	for i, v := range vals {
		if (i >= len(refVals) || refVals[i] != v) && !e.Flags.Has(catalog.NonDet) {
			return fail("values-before-error-differ", fmt.Sprintf("value #%d is %s", i, v))
		}
	}
	if !o.asyncishReal && len(vals) != len(refVals) {
		return fail("values-missing-before-error", fmt.Sprintf("%d values before the Error, %d without the panic", len(vals), len(refVals)))
	}
	return *res
}

func runObserver(c driver.Case) driver.Result {
	rec.ResetHooks()
	e := catalog.Get(c.Get("entry"))
	sc := scriptFor(c.Get("scn"))
	cb, fault := c.Get("cb"), c.Get("fault")
	fired := false
	onEvent := func(o *outcome, ev *rec.Event) {
		if fired {
			return
		}
		if (cb == "next" && ev.Kind == rec.Next) || (cb == "error" && ev.Kind == rec.Error) || (cb == "complete" && ev.Kind == rec.Complete) {
			fired = true
			o.atFault = o.r.Len() // the panicking callback itself is recorded when it exits
			raise(fault)
		}
	}
	o := runEntry(e, sc, "sync", nil, true, nil, nil, onEvent)
	defer cleanup(o)
	res := driver.Result{Verdict: driver.Held}
	what := fmt.Sprintf("%s over [%s] with an observer (ro.NewObserver) whose %s callback panics (%s)", e.Name, sc, cb, fault)
	ev := o.r.Events()
	res.Events = int64(len(ev)) + 1
	res.Nontrivial = fired
	res.Sig = fmt.Sprintf("%s|observer-%s→%s", e.Name, cb, o.r.TraceString())
	res.Sample = map[string]any{"case": what, "trace": o.r.TraceString(), "unhandled_hook_calls": o.unhandled}
	fail := func(key, msg string) driver.Result {
		res.Verdict, res.Key = driver.Violated, "C07/observer-"+cb+"-callback/"+key
		res.Msg = what + ": " + msg + "; trace: [" + o.r.TraceString() + "]"
		return res
	}
	if o.hung != "" || o.followUpHung {
		res.Dirty = true
		res.Witness = o.dump
		return fail("call-never-returns", "a call never returned after the observer panicked ("+quiesce.BlockedSite(o.dump)+")")
	}
	if o.escaped != nil {
		return fail("panic-escaped", fmt.Sprintf("panic reached the caller of Subscribe: %v", o.escaped))
	}
	if !fired {
		return res
	}
	switch cb {
	case "next":
		// the panicking Next is event #atFault; an Error matching the cause must follow, and nothing after it
		idx := -1
		for i, x := range ev {
			if x.Kind == rec.Error && matches(fault, x) {
				idx = i
				break
			}
		}
		if idx < 0 {
			return fail("no-error-notification", "the observer's Error callback never received the failure of its Next callback")
		}
		if idx != len(ev)-1 {
			return fail("notifications-after-error", fmt.Sprintf("%d notification(s) were delivered after the Error that reported the observer's own panic", len(ev)-1-idx))
		}
	case "error", "complete":
		// nobody can receive it: it must reach the unhandled-error hook, and nothing may follow
		if o.unhandled == 0 {
			return fail("unreceivable-failure-not-reported", "the panic of the terminal callback was not reported to OnUnhandledError")
		}
		if gp := o.r.GrammarProblems(); len(gp) > 0 {
			return fail("delivery-after-terminal", strings.Join(gp, "; "))
		}
	}
	return res
}

func runHot(c driver.Case) driver.Result {
	rec.ResetHooks()
	target, cb, fault := c.Get("target"), c.Get("cb"), c.Get("fault")
	res := driver.Result{Verdict: driver.Held}
	var obs ro.Observable[int]
	var feed ro.Observer[int]
	switch target {
	case "share", "sharereplay":
		s := ro.NewPublishSubject[int]()
		feed = s
		if target == "share" {
			obs = ro.Share[int]()(s)
		} else {
			obs = ro.ShareReplay[int](2)(s)
		}
	default:
		var s ro.Subject[int]
		switch target {
		case "publish":
			s = ro.NewPublishSubject[int]()
		case "behavior":
			s = ro.NewBehaviorSubject(0)
		case "replay":
			s = ro.NewReplaySubject[int](2)
		case "async":
			s = ro.NewAsyncSubject[int]()
		default:
			s = ro.NewUnicastSubject[int](4)
		}
		obs, feed = s, s
	}
	healthy1, bad, healthy2 := rec.New("healthy1"), rec.New("bad"), rec.New("healthy2")
	fired := false
	bad.OnEvent = func(ev *rec.Event) {
		if fired {
			return
		}
		if (cb == "next" && ev.Kind == rec.Next) || (cb == "error" && ev.Kind == rec.Error) || (cb == "complete" && ev.Kind == rec.Complete) {
			fired = true
			raise(fault)
		}
	}
	var escaped any
	call := func(what string, f func()) bool {
		st, dump, pan := quiesce.Call(f, 10*time.Second)
		if pan != nil && escaped == nil {
			escaped = fmt.Sprintf("%s: %v", what, pan)
		}
		if st == quiesce.Hung {
			res.Verdict, res.Key, res.Dirty = driver.Violated, "C07/hot-"+target+"/call-never-returns", true
			res.Msg = fmt.Sprintf("%s with a subscriber whose %s callback panics: %s never returned (%s)", target, cb, what, quiesce.BlockedSite(dump))
			res.Witness = dump
			return false
		}
		return true
	}
	if target != "unicast" {
		if !call("Subscribe", func() { obs.Subscribe(rec.Wrapped[int](healthy1)) }) {
			return res
		}
	}
	if !call("Subscribe", func() { obs.Subscribe(rec.Wrapped[int](bad)) }) {
		return res
	}
	if target != "unicast" {
		if !call("Subscribe", func() { obs.Subscribe(rec.Wrapped[int](healthy2)) }) {
			return res
		}
	}
	for v := 1; v <= 3; v++ {
		v := v
		if !call("Next", func() { feed.Next(v) }) {
			return res
		}
	}
	if cb == "error" {
		if !call("Error", func() { feed.Error(src.ErrSrc) }) {
			return res
		}
	} else if !call("Complete", func() { feed.Complete() }) {
		return res
	}
	res.Events = int64(healthy1.Len() + bad.Len() + healthy2.Len())
	res.Nontrivial = fired
	res.Sig = fmt.Sprintf("%s|%s→%s/%s/%s", target, cb, healthy1.TraceString(), bad.TraceString(), healthy2.TraceString())
	res.Sample = map[string]any{"target": target, "panicking_callback": cb, "healthy1": healthy1.TraceString(), "panicking_subscriber": bad.TraceString(), "healthy2": healthy2.TraceString()}
	if escaped != nil {
		res.Verdict, res.Key = driver.Violated, "C07/hot-"+target+"/panic-escaped"
		res.Msg = fmt.Sprintf("%s with a subscriber whose %s callback panics: %v", target, cb, escaped)
		return res
	}
	// the healthy subscribers are unaffected
	if target != "unicast" {
		want := "1 2 3 C"
		if cb == "error" {
			want = "1 2 3 E(src-error)"
		}
		if target == "behavior" {
			want = "0 " + want
		}
		if target == "async" {
			want = "3 C"
			if cb == "error" {
				want = "E(src-error)"
			}
		}
		for _, h := range []*rec.Rec{healthy1, healthy2} {
			if h.TraceString() != want {
				res.Verdict, res.Key = driver.Violated, "C07/hot-"+target+"/healthy-subscriber-disturbed"
				res.Msg = fmt.Sprintf("%s: subscriber %s received [%s] instead of [%s] because another subscriber's %s callback panicked", target, h.Name, h.TraceString(), want, cb)
				return res
			}
		}
	}
	return res
}

func runCase(c driver.Case) driver.Result {
	switch c.Get("kind") {
	case "subfn":
		return runSubFn(c)
	case "observer":
		return runObserver(c)
	case "hot":
		return runHot(c)
	}
	return runCB(c)
}

func main() {
	driver.Main(driver.Property{
		ID:        "C07",
		Level:     "fault_enumeration",
		Rule:      "fault injector wrapped around every user-supplied function of every catalogue entry: each callback position (discovered by a fault-free run) × invocation index (≤3 quick, ≤6 thorough) × fault kind {panic(error), panic(string), panic(int), error return for error-aware callbacks} × source drive {synchronous script inside Subscribe, puppet after Subscribe}, over a completing and an erroring input; the source's own subscribe function panicking after each prefix; the final observer's (ro.NewObserver) three callbacks; subjects/Share with one panicking subscriber among healthy ones; seeded pairs of faults (thorough). Oracle: exactly one Error matching the cause, values before it = those delivered when the fault fired (and a prefix of the fault-free run), nothing after it, no panic reaching the harness's recover around Subscribe/Next, a follow-up notification returns (hang = all goroutines blocked), unreceivable failures reach OnUnhandledError. Non-trivial: the fault position was reached.",
		Assume:    []string{"asynchronous / storing operators are only held to the prefix relation with the fault-free run", "operators that substitute or retry on error (Catch, OnErrorReturn, Retry…) are exempt from the subscribe-function-panic expectation"},
		Plan:      plan,
		Run:       runCase,
		CaseWatch: 60 * time.Second,
		OnCrash: func(c driver.Case, out string) driver.Result {
			if i := strings.Index(out, "panic: "); i >= 0 && strings.Contains(out, "/repo/") {
				msg := out[i:]
				if j := strings.Index(msg, "\n"); j > 0 {
					msg = msg[:j]
				}
				fam := "unknown"
				if e := catalog.Get(c.Get("entry")); e != nil {
					fam = e.Family
				}
				return driver.Result{Verdict: driver.Violated, Key: "C07/" + fam + "/process-crashed", Msg: fmt.Sprintf("case %s crashed the process: %s", c.ID, msg), Witness: out[max(0, len(out)-4000):], Events: 1, Nontrivial: true}
			}
			return driver.Result{Verdict: driver.Inconclusive, Key: "worker-died", Msg: "worker died without a library panic"}
		},
		Setup: func() {
			rec.Install()
			sched.Install()
		},
	})
}
