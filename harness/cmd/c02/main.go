// C02 — an observer's callbacks never overlap.
package main

import (
	"context"
	"fmt"
	"math/rand"
	"os"
	"runtime"
	"strings"
	"sync"
	"time"

	"github.com/samber/ro"
	"verifharness/internal/catalog"
	"verifharness/internal/driver"
	"verifharness/internal/quiesce"
	"verifharness/internal/rec"
	"verifharness/internal/sched"
	"verifharness/internal/src"
)

// multiFeed lists the catalogue entries whose inputs can emit concurrently.
func multiFeed() []*catalog.Entry {
	var out []*catalog.Entry
	for _, e := range catalog.All() {
		if e.NSrc >= 2 && !e.Flags.Has(catalog.Blocks) {
			out = append(out, e)
		}
	}
	return out
}

// special targets built here (timers, hand-off, subjects, share, multi-goroutine producers)
var specials = []string{
	"multi-safe", "multi-serialize", "multi-eventually",
	"delay", "timeout", "observeon", "subscribeon", "throwonctxcancel",
	"buffertime", "buffertimeorcount", "sampletime", "mergemap-async", "merge-intervals",
	"subject-publish", "subject-behavior", "subject-replay", "subject-async", "subject-unicast",
	"share", "sharereplay", "connectable", "tochannel", "windowwhen-inner", "groupby-inner",
	"subscribe-panics",
}

func plan(tier string, seed int64) []driver.Case {
	reps := 10
	if tier == "thorough" {
		reps = 150
	}
	rng := rand.New(rand.NewSource(seed))
	var post []string
	for _, e := range catalog.Chainable() {
		if e.Flags.Has(catalog.Blocks) || e.Flags.Has(catalog.TimeDriven) || e.Flags.Has(catalog.HandOff) {
			continue
		}
		post = append(post, e.Name)
	}
	var pass []string
	for _, e := range catalog.Chainable() {
		if e.Flags.Has(catalog.PassThrough) {
			pass = append(pass, e.Name)
		}
	}
	var cases []driver.Case
	add := func(kind, target string, rep int) {
		// variants: alone; each pass-through operator directly below; random sync chain below
		variants := []string{""}
		for _, p := range pass {
			variants = append(variants, p)
		}
		for k := 0; k < 2; k++ {
			n := 1 + rng.Intn(2)
			var names []string
			for j := 0; j < n; j++ {
				names = append(names, post[rng.Intn(len(post))])
			}
			variants = append(variants, strings.Join(names, ">"))
		}
		for vi, v := range variants {
			if rep > 0 && vi > 0 && vi <= len(pass) && rep%3 != 0 {
				continue // pass-through variants every third repetition
			}
			k := []int{2, 3, 4, 8}[rng.Intn(4)]
			cases = append(cases, driver.Case{
				ID:   fmt.Sprintf("%s/%s/%s/r%d", kind, target, v, rep),
				Race: tier == "thorough" && rep%2 == 1,
				P: map[string]string{"kind": kind, "target": target, "below": v, "k": fmt.Sprint(k), "yield": fmt.Sprint(rng.Intn(3)),
					"seed": fmt.Sprint(rng.Int63()), "concurrent": "1"},
			})
		}
	}
	for rep := 0; rep < reps; rep++ {
		for _, e := range multiFeed() {
			add("entry", e.Name, rep)
		}
		for _, s := range specials {
			add("special", s, rep)
		}
	}
	return cases
}

func longScript(rng *rand.Rand, n int, end rec.Kind, base int) src.Script {
	var s src.Script
	for i := 0; i < n; i++ {
		s = append(s, src.Notif{K: rec.Next, V: base + i})
	}
	if end != rec.Next {
		s = append(s, src.Notif{K: end})
	}
	return s
}

func newRec(name string, rng *rand.Rand) *rec.Rec {
	r := rec.New(name)
	mode := rng.Intn(3)
	r.Dwell = func() {
		switch mode {
		case 0:
			runtime.Gosched()
			runtime.Gosched()
		case 1:
			time.Sleep(20 * time.Microsecond)
		default:
			for i := 0; i < 200; i++ {
				_ = i * i
			}
			runtime.Gosched()
		}
	}
	return r
}

func applyBelow(obs ro.Observable[int], below string) ro.Observable[int] {
	if below == "" {
		return obs
	}
	b := &catalog.B{}
	for _, n := range strings.Split(below, ">") {
		obs = catalog.Get(n).Op(b)(obs)
	}
	return obs
}

type waiter interface{ WaitTimeout(time.Duration) bool }

func runCase(c driver.Case) driver.Result {
	rec.ResetHooks()
	seed, _ := fmt.Sscan(c.Get("seed"))
	_ = seed
	var sd int64
	fmt.Sscan(c.Get("seed"), &sd)
	rng := rand.New(rand.NewSource(sd))
	switch c.Int("yield") {
	case 1:
		sched.Set(sched.Yield, 40)
	case 2:
		sched.Set(sched.Jitter, 15)
	default:
		sched.Set(sched.Off, 0)
	}
	defer sched.Set(sched.Off, 0)
	sched.ResetGauge()

	k := c.Int("k")
	start := make(chan struct{})
	var recs []*rec.Rec
	var subs []ro.Subscription
	var asyncSrcs []*src.Source
	var extraWait []func()
	res := driver.Result{Verdict: driver.Held}
	below := c.Get("below")
	target := c.Get("target")

	mkAsync := func(name string, n int, end rec.Kind, base int) *src.Source {
		s := src.New(name, longScript(rng, n, end, base))
		s.Async = true
		s.Start = start
		s.Yield = true
		asyncSrcs = append(asyncSrcs, s)
		return s
	}
	subscribe := func(p catalog.Pipeline, name string) *rec.Rec {
		r := newRec(name, rng)
		recs = append(recs, r)
		func() {
			defer func() { recover() }()
			subs = append(subs, p.Subscribe(context.Background(), r, false))
		}()
		return r
	}
	subscribeInt := func(obs ro.Observable[int], name string) *rec.Rec {
		return subscribe(catalog.P(applyBelow(obs, below)), name)
	}

	switch c.Get("kind") {
	case "entry":
		e := catalog.Get(target)
		b := &catalog.B{}
		for i := 0; i < e.NSrc; i++ {
			end := rec.Complete
			if rng.Intn(6) == 0 {
				end = rec.Error
			}
			b.Srcs = append(b.Srcs, mkAsync(fmt.Sprintf("s%d", i), 8+rng.Intn(25), end, 1000*(i+1)).Observable())
		}
		if e.Op != nil {
			subscribeInt(e.Op(b)(b.S(0)), e.Name)
		} else {
			// non-int output: "below" operators cannot be applied; use pass-through-free pipeline
			subscribe(e.Pipeline(b), e.Name)
		}
	case "special":
		runSpecial(target, k, rng, start, mkAsync, subscribeInt, subscribe, &extraWait, &recs, &subs)
	}
	close(start)
	for _, s := range asyncSrcs {
		if !s.WaitTimeout(5*time.Second) && os.Getenv("VERIF_DEBUG_SETTLE") != "" {
			for _, g := range quiesce.Dump() {
				if g.Lib {
					fmt.Fprintln(os.Stderr, "STUCK", g.Stack)
				}
			}
		}
	}
	for _, w := range extraWait {
		if st, _, _ := quiesce.Call(w, 8*time.Second); st != quiesce.Returned {
			return driver.Result{Verdict: driver.Inconclusive, Key: "producer-blocked-in-library", Msg: "a producer goroutine never returned from the library (hang: see C03/C14 findings) — " + target + " below " + below, Dirty: true}
		}
	}
	_, settled := quiesce.Settle(3 * time.Second)
	res.Dirty = !settled
	var sigs []string
	for _, r := range recs {
		res.Events += int64(r.Len())
		if r.Overlaps.Load() > 0 {
			res.Verdict = driver.Violated
			site := target
			if below != "" {
				site += " below " + classify(below)
			}
			res.Key = "C02/" + site + "/callbacks-overlap"
			res.Msg = fmt.Sprintf("%s (below: %q, %d producers): %d callback entries found another callback of the same observer in progress (max %d at once)", target, below, k, r.Overlaps.Load(), r.MaxInside.Load())
			res.Witness = map[string]any{"recorder": r.Name, "trace_len": r.Len()}
		}
		sigs = append(sigs, r.TraceString())
	}
	for _, s := range subs {
		func() { defer func() { recover() }(); s.Unsubscribe() }()
	}
	res.Extra = map[string]int64{"max_producers_in_flight": int64(sched.MaxInNext.Load())}
	res.Nontrivial = res.Events > 0 && sched.MaxInNext.Load() >= 2
	res.Sig = target + "|" + below + "→" + strings.Join(sigs, "/")
	if len(recs) > 0 && res.Events > 0 {
		tr := recs[0].Trace()
		if len(tr) > 24 {
			tr = append(tr[:24], "…")
		}
		res.Sample = map[string]any{"target": target, "below": below, "producers": k, "delivery_order": strings.Join(tr, " "), "max_producers_in_flight": sched.MaxInNext.Load()}
	}
	return res
}

func classify(below string) string {
	for _, n := range strings.Split(below, ">") {
		if e := catalog.Get(n); e != nil && e.Flags.Has(catalog.PassThrough) {
			return "pass-through " + e.Family
		}
	}
	return "sync chain"
}

func runSpecial(target string, k int, rng *rand.Rand, start chan struct{},
	mkAsync func(string, int, rec.Kind, int) *src.Source,
	subscribeInt func(ro.Observable[int], string) *rec.Rec,
	subscribe func(catalog.Pipeline, string) *rec.Rec,
	extraWait *[]func(), recs *[]*rec.Rec, subs *[]ro.Subscription) {

	multi := func(mode string) *src.Multi {
		m := &src.Multi{Name: "m", Mode: mode, Yield: true}
		for g := 0; g < k; g++ {
			end := rec.Next
			if g == 0 {
				end = rec.Complete
			}
			m.Scripts = append(m.Scripts, longScript(rng, 8+rng.Intn(20), end, 1000*(g+1)))
		}
		*extraWait = append(*extraWait, m.Wait)
		return m
	}
	feed := func(dest ro.Observer[int], terminalBy int) {
		// k goroutines feeding one observer (subjects)
		var wg sync.WaitGroup
		for g := 0; g < k; g++ {
			g := g
			sc := longScript(rng, 8+rng.Intn(20), rec.Next, 1000*(g+1))
			wg.Add(1)
			go func() {
				defer wg.Done()
				<-start
				for _, n := range sc {
					dest.Next(n.V)
					runtime.Gosched()
				}
				if g == terminalBy {
					dest.Complete()
				}
			}()
		}
		*extraWait = append(*extraWait, wg.Wait)
	}
	d := time.Duration(100+rng.Intn(300)) * time.Microsecond
	switch target {
	case "subscribe-panics":
		// the subscribe function hands the emission to workers and then panics while they are
		// delivering: the Error that reports the panic is one more notification of this observable and
		// must wait for the callback in progress like any other
		obs := ro.NewObservable(func(dest ro.Observer[int]) ro.Teardown {
			var wg sync.WaitGroup
			entered := make(chan struct{}, 1)
			for g := 0; g < k; g++ {
				g := g
				wg.Add(1)
				go func() {
					defer wg.Done()
					defer func() { recover() }()
					for i := 0; i < 25; i++ {
						select {
						case entered <- struct{}{}:
						default:
						}
						dest.Next(1000*(g+1) + i)
					}
				}()
			}
			*extraWait = append(*extraWait, wg.Wait)
			<-entered
			for i := 0; i < 1+rng.Intn(4); i++ {
				runtime.Gosched()
			}
			panic("subscribe function panics while its workers are delivering")
		})
		subscribeInt(obs, target)
	case "multi-safe":
		subscribeInt(multi("safe").Observable(), target)
	case "multi-eventually":
		subscribeInt(multi("eventually").Observable(), target)
	case "multi-serialize":
		// an unsafe observable fed by several goroutines is a contract breach; Serialize of a safe one must stay serialized
		subscribeInt(ro.Serialize[int]()(multi("safe").Observable()), target)
	case "delay":
		subscribeInt(ro.Delay[int](d)(mkAsync("s0", 30, rec.Complete, 0).Observable()), target)
	case "timeout":
		subscribeInt(ro.Timeout[int](d)(mkAsync("s0", 30, rec.Next, 0).Observable()), target)
	case "observeon":
		subscribeInt(ro.ObserveOn[int](1+rng.Intn(3))(ro.Merge(mkAsync("s0", 20, rec.Complete, 0).Observable(), mkAsync("s1", 20, rec.Complete, 1000).Observable())), target)
	case "subscribeon":
		s0 := mkAsync("s0", 20, rec.Complete, 0)
		obs := ro.SubscribeOn[int](1 + rng.Intn(3))(s0.Observable())
		done := make(chan struct{})
		r := rec.New(target)
		*recs = append(*recs, r)
		go func() {
			defer close(done)
			defer func() { recover() }()
			obs.Subscribe(rec.Raw[int](r))
		}()
		*extraWait = append(*extraWait, func() {
			select {
			case <-done:
			case <-time.After(5 * time.Second):
			}
		})
	case "throwonctxcancel":
		ctx, cancel := context.WithCancel(context.Background())
		obs := ro.ThrowOnContextCancel[int]()(mkAsync("s0", 40, rec.Next, 0).Observable())
		r := rec.New(target)
		r.Dwell = runtime.Gosched
		*recs = append(*recs, r)
		*subs = append(*subs, obs.SubscribeWithContext(ctx, rec.Raw[int](r)))
		go func() { <-start; time.Sleep(d); cancel() }()
		*extraWait = append(*extraWait, func() { time.Sleep(2 * d); cancel() })
	case "buffertime":
		subscribe(catalog.P(ro.BufferWithTime[int](d)(mkAsync("s0", 60, rec.Complete, 0).Observable())), target)
	case "buffertimeorcount":
		subscribe(catalog.P(ro.BufferWithTimeOrCount[int](2, d)(mkAsync("s0", 60, rec.Complete, 0).Observable())), target)
	case "sampletime":
		subscribeInt(ro.SampleTime[int](d)(mkAsync("s0", 80, rec.Complete, 0).Observable()), target)
	case "mergemap-async":
		inner := make([]*src.Source, k)
		for i := range inner {
			inner[i] = mkAsync(fmt.Sprintf("in%d", i), 10+rng.Intn(10), rec.Complete, 1000*(i+1))
		}
		var outer src.Script
		for i := 0; i < k; i++ {
			outer = append(outer, src.Notif{K: rec.Next, V: i})
		}
		outer = append(outer, src.Notif{K: rec.Complete})
		o := src.New("outer", outer)
		subscribeInt(ro.MergeMap(func(i int) ro.Observable[int] { return inner[i].Observable() })(o.Observable()), target)
	case "merge-intervals":
		var ins []ro.Observable[int64]
		for i := 0; i < k; i++ {
			ins = append(ins, ro.Take[int64](15)(ro.Interval(d)))
		}
		r := rec.New(target)
		r.Dwell = func() { time.Sleep(30 * time.Microsecond) }
		*recs = append(*recs, r)
		*subs = append(*subs, ro.Merge(ins...).Subscribe(rec.Raw[int64](r)))
		*extraWait = append(*extraWait, func() {
			deadline := time.Now().Add(3 * time.Second)
			for r.Terminal() == rec.Next && time.Now().Before(deadline) {
				time.Sleep(time.Millisecond)
			}
		})
	case "subject-publish", "subject-behavior", "subject-replay", "subject-async", "subject-unicast":
		var s ro.Subject[int]
		switch target {
		case "subject-publish":
			s = ro.NewPublishSubject[int]()
		case "subject-behavior":
			s = ro.NewBehaviorSubject(0)
		case "subject-replay":
			s = ro.NewReplaySubject[int](3)
		case "subject-async":
			s = ro.NewAsyncSubject[int]()
		default:
			s = ro.NewUnicastSubject[int](8)
		}
		n := 3
		if target == "subject-unicast" {
			n = 1
		}
		for i := 0; i < n; i++ {
			subscribeInt(s, fmt.Sprintf("%s-sub%d", target, i))
		}
		feed(s, 0)
	case "share", "sharereplay":
		srcs := mkAsync("s0", 40, rec.Complete, 0)
		var obs ro.Observable[int]
		if target == "share" {
			obs = ro.Share[int]()(ro.Merge(srcs.Observable(), mkAsync("s1", 40, rec.Complete, 1000).Observable()))
		} else {
			obs = ro.ShareReplay[int](2)(ro.Merge(srcs.Observable(), mkAsync("s1", 40, rec.Complete, 1000).Observable()))
		}
		for i := 0; i < 3; i++ {
			subscribeInt(obs, fmt.Sprintf("%s-sub%d", target, i))
		}
	case "connectable":
		c := ro.Connectable(ro.Merge(mkAsync("s0", 30, rec.Complete, 0).Observable(), mkAsync("s1", 30, rec.Complete, 1000).Observable()))
		for i := 0; i < 3; i++ {
			subscribeInt(c, fmt.Sprintf("connectable-sub%d", i))
		}
		*subs = append(*subs, c.Connect())
	case "tochannel":
		// the observer of ToChannel receives one channel and a completion; its callbacks must not overlap either
		obs := ro.ToChannel[int](2)(ro.Merge(mkAsync("s0", 15, rec.Complete, 0).Observable(), mkAsync("s1", 15, rec.Complete, 1000).Observable()))
		r := rec.New(target)
		*recs = append(*recs, r)
		inner := rec.New(target + "-chan")
		*recs = append(*recs, inner)
		done := make(chan struct{})
		*subs = append(*subs, obs.Subscribe(rec.RawWith[<-chan ro.Notification[int]](r, func(ch <-chan ro.Notification[int]) string {
			go func() {
				defer close(done)
				for range ch {
				}
			}()
			return "chan"
		})))
		*extraWait = append(*extraWait, func() {
			select {
			case <-done:
			case <-time.After(3 * time.Second):
			}
		})
	case "windowwhen-inner", "groupby-inner":
		// recorders on every inner window / group: their callbacks must not overlap either
		var outer ro.Observable[ro.Observable[int]]
		if target == "windowwhen-inner" {
			outer = ro.WindowWhen[int](mkAsync("b", 10, rec.Next, 0).Observable())(ro.Merge(mkAsync("s0", 30, rec.Complete, 0).Observable(), mkAsync("s1", 30, rec.Complete, 1000).Observable()))
		} else {
			outer = ro.GroupBy(func(x int) int { return x % 3 })(ro.Merge(mkAsync("s0", 30, rec.Complete, 0).Observable(), mkAsync("s1", 30, rec.Complete, 1000).Observable()))
		}
		r := rec.New(target)
		*recs = append(*recs, r)
		var mu sync.Mutex
		n := 0
		*subs = append(*subs, outer.Subscribe(rec.RawWith[ro.Observable[int]](r, func(in ro.Observable[int]) string {
			mu.Lock()
			n++
			ir := rec.New(fmt.Sprintf("%s-inner%d", target, n))
			ir.Dwell = runtime.Gosched
			*recs = append(*recs, ir)
			mu.Unlock()
			in.Subscribe(rec.Raw[int](ir))
			return "obs"
		})))
	}
}

func main() {
	driver.Main(driver.Property{
		ID:        "C02",
		Level:     "exploration",
		Rule:      "every multi-input catalogue entry and every special multi-goroutine construct (k goroutines into safe/eventually-safe observables and Serialize, Delay, Timeout, ObserveOn, SubscribeOn, ThrowOnContextCancel, time buffers/samplers, MergeMap over async inners, merged Intervals, five subjects, Share, ShareReplay, Connectable, ToChannel, inner windows and groups) — alone, directly above each pass-through operator and above random synchronous chains — driven by 2-8 sequential asynchronous sources released by a start barrier, with seeded yield/jitter at the library's lock boundaries. Oracle: an enter/exit counter in every recorder callback (dwelling while inside) must never exceed 1. Non-trivial: callbacks observed AND ≥2 producers simultaneously inside subscriber.Next (measured at the hook points); distinct = distinct delivery orders.",
		Assume:    []string{"every harness source emits from exactly one goroutine", "the dwell inside a callback never calls back into the library"},
		Plan:      plan,
		Run:       runCase,
		CaseWatch: 20 * time.Second,
		Setup: func() {
			rec.Install()
			sched.Install()
		},
	})
}
