// C01 — values, then at most one terminal, then silence.
package main

import (
	"context"
	"fmt"
	"math/rand"
	"runtime"
	"strings"
	"sync"
	"time"

	"github.com/samber/ro"
	"verifharness/internal/catalog"
	"verifharness/internal/driver"
	"verifharness/internal/quiesce"
	"verifharness/internal/rec"
	"verifharness/internal/run"
	"verifharness/internal/sched"
	"verifharness/internal/src"
)

var benign = src.Parse("1 C")

func hostileScripts(maxLen int) []src.Script { return src.AllScripts([]int{1, 2}, maxLen) }

func plan(tier string, seed int64) []driver.Case {
	maxLen, nChains, nConc := 3, 300, 400
	if tier == "thorough" {
		maxLen, nChains, nConc = 5, 4000, 6000
	}
	var cases []driver.Case
	hs := hostileScripts(maxLen)
	for _, e := range catalog.All() {
		if e.Flags.Has(catalog.Creation) {
			cases = append(cases, driver.Case{ID: "op/" + e.Name, P: map[string]string{"kind": "op", "entry": e.Name, "hostile": "-1", "script": "-", "mode": "unsafe"}})
			continue
		}
		for h := 0; h < e.NSrc; h++ {
			for _, sc := range hs {
				if e.Flags.Has(catalog.Blocks) {
					if _, end := sc.Legal().Values(); end == rec.Next {
						continue
					}
				}
				modes := []string{"unsafe", "safe"}
				if e.Name == "Bare" {
					modes = []string{"unsafe", "safe", "eventually"}
				}
				if len(sc) == maxLen && e.NSrc > 1 {
					modes = modes[:1]
				}
				for _, m := range modes {
					cases = append(cases, driver.Case{ID: fmt.Sprintf("op/%s/h%d/%s/%s", e.Name, h, sc.String(), m),
						P: map[string]string{"kind": "op", "entry": e.Name, "hostile": fmt.Sprint(h), "script": sc.String(), "mode": m}})
				}
				// an observer built by ro.NewObserver whose TERMINAL callback panics: whatever the library does with
				// that panic, the callbacks of this observer have seen values, one terminal, and see nothing more.
				// (A panicking Next callback is C07's business: the observer then gets the Error reporting its own
				// panic and stays open - recorded there as a known finding, pinned by the repository's own test.)
				if e.Name == "Bare" {
					for _, m := range modes {
						for _, f := range []string{"complete", "error"} {
							cases = append(cases, driver.Case{ID: fmt.Sprintf("op/%s/h%d/%s/%s/observer-%s-panics", e.Name, h, sc.String(), m, f),
								P: map[string]string{"kind": "op", "entry": e.Name, "hostile": fmt.Sprint(h), "script": sc.String(), "mode": m, "obspanic": f}})
						}
					}
				}
				// a producer that, on top of its script, panics: in its subscribe function after playing, or in the
				// teardown it returned (which runs inside Subscribe when the script ended the subscription) - one more
				// notification after the terminal, to be discarded like the others
				if e.Name == "Bare" {
					for _, m := range modes {
						for _, f := range []string{"subscribe-panics", "teardown-panics"} {
							cases = append(cases, driver.Case{ID: fmt.Sprintf("op/%s/h%d/%s/%s/%s", e.Name, h, sc.String(), m, f),
								P: map[string]string{"kind": "op", "entry": e.Name, "hostile": fmt.Sprint(h), "script": sc.String(), "mode": m, "fault": f}})
						}
					}
				}
			}
		}
	}
	// subjects fed by hostile scripts
	for _, kind := range []string{"publish", "behavior", "replay", "async", "unicast"} {
		for _, sc := range hs {
			for _, late := range []string{"0", "1"} {
				cases = append(cases, driver.Case{ID: fmt.Sprintf("subject/%s/%s/late%s", kind, sc.String(), late),
					P: map[string]string{"kind": "subject", "subject": kind, "script": sc.String(), "late": late}})
			}
		}
	}
	rng := rand.New(rand.NewSource(seed))
	ch := catalog.Chainable()
	var usable []*catalog.Entry
	for _, e := range ch {
		if !e.Flags.Has(catalog.Blocks) {
			usable = append(usable, e)
		}
	}
	for i := 0; i < nChains; i++ {
		n := 2 + rng.Intn(4)
		names := make([]string, n)
		for j := range names {
			names[j] = usable[rng.Intn(len(usable))].Name
		}
		sc := hs[rng.Intn(len(hs))]
		cases = append(cases, driver.Case{ID: fmt.Sprintf("chain/%d/%s/%s", i, strings.Join(names, ">"), sc.String()),
			P: map[string]string{"kind": "chain", "chain": strings.Join(names, ">"), "script": sc.String(), "mode": []string{"unsafe", "safe"}[rng.Intn(2)]}})
	}
	// concurrent producers
	targets := []string{"bare-safe", "bare-eventually", "serialize", "publish", "behavior", "replay", "async", "unicast", "chain", "ctxcancel", "takeuntil"}
	for i := 0; i < nConc; i++ {
		g := []int{2, 4, 8}[rng.Intn(3)]
		var scs []string
		for k := 0; k < g; k++ {
			scs = append(scs, randHostile(rng).String())
		}
		t := targets[i%len(targets)]
		p := map[string]string{"kind": "conc", "target": t, "scripts": strings.Join(scs, "|"), "yield": fmt.Sprint(rng.Intn(3)), "concurrent": "1"}
		if t == "chain" {
			n := 1 + rng.Intn(3)
			names := make([]string, n)
			for j := range names {
				names[j] = usable[rng.Intn(len(usable))].Name
			}
			p["chain"] = strings.Join(names, ">")
		}
		cases = append(cases, driver.Case{ID: fmt.Sprintf("conc/%d/%s/g%d", i, t, g), P: p, Race: tier == "thorough" && i%2 == 0})
	}
	return cases
}

func randHostile(rng *rand.Rand) src.Script {
	n := 1 + rng.Intn(6)
	var s src.Script
	for i := 0; i < n; i++ {
		switch r := rng.Intn(10); {
		case r < 7:
			s = append(s, src.Notif{K: rec.Next, V: 1 + rng.Intn(2)})
		case r < 8:
			s = append(s, src.Notif{K: rec.Error})
		default:
			s = append(s, src.Notif{K: rec.Complete})
		}
	}
	return s
}

func grammar(r *rec.Rec, key string, what string, res *driver.Result) bool {
	if gp := r.GrammarProblems(); len(gp) > 0 {
		res.Verdict = driver.Violated
		res.Key = key
		res.Msg = fmt.Sprintf("%s: %s; trace: %s", what, strings.Join(gp, "; "), r.TraceString())
		res.Witness = r.Trace()
		return false
	}
	return true
}

func runOp(c driver.Case) driver.Result {
	rec.ResetHooks()
	var o run.Opts
	var name string
	var e0 *catalog.Entry
	if c.Get("kind") == "chain" {
		var chain []*catalog.Entry
		for _, n := range strings.Split(c.Get("chain"), ">") {
			chain = append(chain, catalog.Get(n))
		}
		e0 = chain[0]
		name = c.Get("chain")
		o = run.Opts{Entry: chain[0], Chain: chain[1:], Scripts: []src.Script{src.Parse(c.Get("script"))}, Mode: c.Get("mode")}
	} else {
		e0 = catalog.Get(c.Get("entry"))
		name = e0.Name
		h := c.Int("hostile")
		scripts := make([]src.Script, e0.NSrc)
		for i := range scripts {
			scripts[i] = benign
			if i == h {
				scripts[i] = src.Parse(c.Get("script"))
			}
		}
		o = run.Opts{Entry: e0, Scripts: scripts, Mode: c.Get("mode")}
		if f := c.Get("obspanic"); f != "" {
			r := rec.New(e0.Name)
			fired := false
			r.OnEvent = func(ev *rec.Event) {
				if !fired && ((f == "next" && ev.Kind == rec.Next) || (f == "complete" && ev.Kind == rec.Complete) || (f == "error" && ev.Kind == rec.Error)) {
					fired = true
					panic("the observer's " + f + " callback panics")
				}
			}
			o.Rec, o.Wrapped = r, true
		}
		switch c.Get("fault") {
		case "subscribe-panics":
			o.Tweak = func(_ int, s *src.Source) {
				s.PanicInSubscribe = "the subscribe function panics after playing its script"
			}
		case "teardown-panics":
			o.Tweak = func(_ int, s *src.Source) { s.PanicInTeardown = "the teardown of the producer panics" }
		}
	}
	res := run.Seq(o)
	defer res.Cleanup()
	dirty := !res.Settled
	ev := res.Rec.Events()
	fam := "chain"
	if c.Get("kind") != "chain" {
		fam = e0.Family
	}
	r := driver.Result{Verdict: driver.Held, Events: int64(len(ev)), Nontrivial: len(ev) > 0, Sig: name + "→" + res.Rec.TraceString(), Dirty: dirty}
	r.Sample = map[string]string{"pipeline": name, "hostile_script": c.Get("script"), "trace": res.Rec.TraceString()}
	r.Extra = map[string]int64{"dropped_hook_events": int64(len(rec.DroppedEvents()))}
	if res.Panic != nil {
		r.Verdict, r.Key = driver.Violated, "C01/"+fam+"/panic-escaped-subscribe"
		r.Msg = fmt.Sprintf("%s: Subscribe panicked: %v", name, res.Panic)
		return r
	}
	if !grammar(res.Rec, "C01/"+fam+"/delivery-after-terminal", fmt.Sprintf("%s over hostile script [%s] (%s%s)", name, c.Get("script"), c.Get("mode"), c.Get("fault")+c.Get("obspanic")), &r) {
		return r
	}
	// conservation on the bare observable: issued = delivered + dropped (by emission tag)
	if c.Get("kind") == "op" && e0.Name == "Bare" {
		if msg := conservation(res.Srcs[0].Emissions(), ev, false); msg != "" {
			r.Verdict, r.Key = driver.Violated, "C01/Bare/notification-neither-delivered-nor-dropped"
			r.Msg = fmt.Sprintf("bare %s observable over [%s]: %s", c.Get("mode"), c.Get("script"), msg)
			return r
		}
	}
	return r
}

// conservation: every emission tag is seen exactly once, either in the trace or in the dropped hook.
func conservation(em []src.Emission, ev []rec.Event, allowDupDrop bool) string {
	seen := map[string]int{}
	for _, e := range ev {
		if e.Item != "" {
			seen[e.Item]++
		}
	}
	drop := map[string]int{}
	for _, d := range rec.DroppedEvents() {
		if d.Item != "" {
			drop[d.Item]++
		}
	}
	for _, e := range em {
		n := seen[e.Tag] + drop[e.Tag]
		if n == 0 {
			return fmt.Sprintf("emission %s (%s) was neither delivered nor reported to OnDroppedNotification", e.Tag, e.N)
		}
		if seen[e.Tag] > 1 || (seen[e.Tag] == 1 && drop[e.Tag] > 0) {
			return fmt.Sprintf("emission %s (%s) delivered %d times and dropped %d times", e.Tag, e.N, seen[e.Tag], drop[e.Tag])
		}
	}
	return ""
}

func newSubject(kind string) ro.Subject[int] {
	switch kind {
	case "publish":
		return ro.NewPublishSubject[int]()
	case "behavior":
		return ro.NewBehaviorSubject(0)
	case "replay":
		return ro.NewReplaySubject[int](2)
	case "async":
		return ro.NewAsyncSubject[int]()
	}
	return ro.NewUnicastSubject[int](4)
}

func play(dest ro.Observer[int], ctx context.Context, tag string, n src.Notif) {
	ictx := context.WithValue(ctx, rec.ItemKey, tag)
	switch n.K {
	case rec.Next:
		dest.NextWithContext(ictx, n.V)
	case rec.Error:
		dest.ErrorWithContext(ictx, src.ErrSrc)
	default:
		dest.CompleteWithContext(ictx)
	}
}

func runSubject(c driver.Case) driver.Result {
	rec.ResetHooks()
	kind := c.Get("subject")
	s := newSubject(kind)
	sc := src.Parse(c.Get("script"))
	r1 := rec.New("early")
	s.Subscribe(rec.Raw[int](r1))
	var afterTerm []string
	termSeen := false
	for k, n := range sc {
		tag := fmt.Sprintf("p#%d", k)
		if termSeen {
			afterTerm = append(afterTerm, tag)
		}
		play(s, context.Background(), tag, n)
		if n.K != rec.Next {
			termSeen = true
		}
	}
	recs := []*rec.Rec{r1}
	if c.Get("late") == "1" {
		r2 := rec.New("late")
		s.Subscribe(rec.Raw[int](r2))
		recs = append(recs, r2)
	}
	var total int64
	res := driver.Result{Verdict: driver.Held}
	for _, r := range recs {
		total += int64(r.Len())
		if !grammar(r, "C01/subject-"+kind+"/delivery-after-terminal", fmt.Sprintf("%s subject fed [%s], subscriber %s", kind, sc, r.Name), &res) {
			return res
		}
	}
	// rule (ii): every notification issued after the accepted terminal is reported to the hook exactly once and delivered to nobody
	drop := map[string]int{}
	for _, d := range rec.DroppedEvents() {
		drop[d.Item]++
	}
	for _, tag := range afterTerm {
		if drop[tag] != 1 {
			res.Verdict, res.Key = driver.Violated, "C01/subject-"+kind+"/late-notification-not-reported-once"
			res.Msg = fmt.Sprintf("%s subject fed [%s]: notification %s issued after the terminal was reported %d times to OnDroppedNotification", kind, sc, tag, drop[tag])
			return res
		}
		for _, r := range recs {
			for _, e := range r.Events() {
				if e.Item == tag {
					res.Verdict, res.Key = driver.Violated, "C01/subject-"+kind+"/late-notification-delivered"
					res.Msg = fmt.Sprintf("%s subject fed [%s]: notification %s issued after the terminal was delivered", kind, sc, tag)
					return res
				}
			}
		}
	}
	// rule (iii): a subscriber that arrives after the terminal is replayed, at most, values that were issued
	// before that terminal - a late notification leaves no trace in what the subject hands out later
	if termSeen && len(recs) == 2 {
		before := map[string]bool{}
		for k, n := range sc {
			if n.K != rec.Next {
				break
			}
			before[fmt.Sprintf("p#%d", k)] = true
		}
		for _, e := range recs[1].Events() {
			if e.Kind == rec.Next && !before[e.Item] {
				res.Verdict, res.Key = driver.Violated, "C01/subject-"+kind+"/late-notification-delivered"
				res.Msg = fmt.Sprintf("%s subject fed [%s]: a subscriber arriving afterwards received %s (context item %q), which is none of the values issued before the terminal; its trace: [%s]", kind, sc, e.String(), e.Item, recs[1].TraceString())
				return res
			}
		}
	}
	res.Events = total + int64(len(afterTerm))
	res.Nontrivial = res.Events > 0
	res.Sig = kind + "→" + r1.TraceString()
	res.Sample = map[string]string{"subject": kind, "script": sc.String(), "early_subscriber_trace": r1.TraceString()}
	return res
}

func runConc(c driver.Case) driver.Result {
	rec.ResetHooks()
	var scripts []src.Script
	for _, p := range strings.Split(c.Get("scripts"), "|") {
		scripts = append(scripts, src.Parse(p))
	}
	switch c.Int("yield") {
	case 1:
		sched.Set(sched.Yield, 30)
	case 2:
		sched.Set(sched.Jitter, 10)
	default:
		sched.Set(sched.Off, 0)
	}
	defer sched.Set(sched.Off, 0)
	sched.ResetGauge()
	target := c.Get("target")
	r := rec.New(target)
	r.Dwell = func() {
		for i := 0; i < 3; i++ {
			// widen the window: a second callback entering now would be seen
			time.Sleep(0)
		}
	}
	res := driver.Result{Verdict: driver.Held}
	var recs []*rec.Rec
	recs = append(recs, r)
	var emissions []src.Emission
	switch target {
	case "bare-safe", "bare-eventually", "serialize", "chain", "ctxcancel", "takeuntil":
		m := &src.Multi{Name: "m", Scripts: scripts, Yield: c.Int("yield") > 0}
		m.Mode = "safe"
		if target == "bare-eventually" {
			m.Mode = "eventually"
		}
		obs := m.Observable()
		if target == "serialize" {
			m.Mode = "safe"
			obs = ro.Serialize[int]()(m.Observable())
		}
		if target == "chain" {
			b := &catalog.B{Srcs: []ro.Observable[int]{obs}}
			for _, n := range strings.Split(c.Get("chain"), ">") {
				obs = catalog.Get(n).Op(b)(obs)
			}
		}
		var sub ro.Subscription
		if target == "ctxcancel" {
			// the error raised by ThrowOnContextCancel's watcher goroutine is one more producer: cancelled
			// while the others are delivering, it must still be the last thing the observer gets
			ctx, cancel := context.WithCancel(context.Background())
			sub = ro.ThrowOnContextCancel[int]()(obs).SubscribeWithContext(ctx, rec.Raw[int](r))
			go func() {
				for i := 0; i < 1+len(scripts); i++ {
					runtime.Gosched()
				}
				cancel()
			}()
			defer cancel()
		} else if target == "takeuntil" {
			// the completion TakeUntil makes when its signal fires comes from one more goroutine: fired while
			// the producers are delivering, it must still be the last thing the observer gets
			signal := ro.NewPublishSubject[int]()
			sub = ro.TakeUntil[int](signal)(obs).Subscribe(rec.Raw[int](r))
			go func() {
				for i := 0; i < 1+len(scripts); i++ {
					runtime.Gosched()
				}
				signal.Next(1)
			}()
		} else {
			sub = obs.Subscribe(rec.Raw[int](r))
		}
		if st, _, _ := quiesce.Call(m.Wait, 8*time.Second); st != quiesce.Returned {
			// a producer is blocked inside the library for good: that is a hang, judged by C03/C06/C14, not a grammar verdict
			return driver.Result{Verdict: driver.Inconclusive, Key: "producer-blocked-in-library", Msg: "a producer goroutine never returned from the library (hang: see C03/C14 findings) — chain " + c.Get("chain"), Dirty: true}
		}
		quiesce.Settle(2 * time.Second)
		emissions = m.Emissions()
		defer func() { defer func() { recover() }(); sub.Unsubscribe() }()
	default:
		s := newSubject(target)
		s.Subscribe(rec.Raw[int](r))
		if target != "unicast" {
			r2 := rec.New(target + "-2")
			s.Subscribe(rec.Raw[int](r2))
			recs = append(recs, r2)
		}
		var wg sync.WaitGroup
		start := make(chan struct{})
		var mu sync.Mutex
		for g, sc := range scripts {
			g, sc := g, sc
			wg.Add(1)
			go func() {
				defer wg.Done()
				<-start
				for k, n := range sc {
					tag := fmt.Sprintf("g%d#%d", g, k)
					play(s, context.Background(), tag, n)
					mu.Lock()
					emissions = append(emissions, src.Emission{Tag: tag, N: n})
					mu.Unlock()
				}
			}()
		}
		close(start)
		wg.Wait()
		quiesce.Settle(2 * time.Second)
	}
	for _, rr := range recs {
		res.Events += int64(rr.Len())
		if !grammar(rr, "C01/conc-"+target+"/delivery-after-terminal", fmt.Sprintf("%d goroutines playing [%s] into %s %s", len(scripts), c.Get("scripts"), target, c.Get("chain")), &res) {
			return res
		}
	}
	if target == "bare-safe" || target == "bare-eventually" {
		if msg := conservation(emissions, r.Events(), false); msg != "" {
			res.Verdict, res.Key = driver.Violated, "C01/conc-"+target+"/notification-neither-delivered-nor-dropped"
			res.Msg = fmt.Sprintf("%d goroutines playing [%s] into a %s observable: %s", len(scripts), c.Get("scripts"), target, msg)
			var evs, drs, ems []string
			for _, e := range r.Events() {
				evs = append(evs, fmt.Sprintf("%s{%s seq=%d gid=%d late=%v}", e.String(), e.Item, e.Seq, e.GID, e.Late))
			}
			for _, d := range rec.DroppedEvents() {
				drs = append(drs, fmt.Sprintf("%s{%s seq=%d}", d.What, d.Item, d.Seq))
			}
			for _, e := range emissions {
				ems = append(ems, fmt.Sprintf("%s=%s[%d,%d]", e.Tag, e.N, e.Begin, e.End))
			}
			res.Witness = map[string]any{"emissions": ems, "observer_events": evs, "dropped_hook_events": drs, "dropped_hook_calls_total": rec.DroppedN.Load()}
			return res
		}
	}
	res.Nontrivial = res.Events > 0 && sched.MaxInNext.Load() >= 2
	res.Extra = map[string]int64{"max_producers_in_flight": int64(sched.MaxInNext.Load()), "dropped_hook_events": int64(len(rec.DroppedEvents()))}
	res.Sig = target + "→" + r.TraceString()
	if res.Events > 0 {
		res.Sample = map[string]string{"target": target, "producer_scripts": c.Get("scripts"), "trace": r.TraceString()}
	}
	return res
}

func runCase(c driver.Case) driver.Result {
	switch c.Get("kind") {
	case "subject":
		return runSubject(c)
	case "conc":
		return runConc(c)
	}
	return runOp(c)
}

func main() {
	driver.Main(driver.Property{
		ID:        "C01",
		Level:     "exploration",
		Rule:      "every catalogue entry × each input in turn fed by a hostile source playing every script over {1,2,Error,Complete} up to the bound (illegal suffixes after a terminal included) × source modes; five subject kinds fed the same scripts with an early and a late subscriber; random chains; 2-8 goroutines playing random hostile scripts concurrently into safe/eventually-safe observables, Serialize, subjects and chains, also below ThrowOnContextCancel (context cancelled meanwhile) and TakeUntil (signal fired meanwhile from one more goroutine): the operator-made terminal is the last thing delivered. Oracle: grammar automaton in a hand-written recording observer (any callback after a terminal), conservation issued = delivered + dropped on bare observables, late notifications of subjects reported exactly once. Non-trivial: at least one callback observed (concurrent cases: additionally ≥2 producers inside subscriber.Next at once).",
		Assume:    []string{"unsafe observables are never driven from several goroutines", "observer panics are C07's subject"},
		Plan:      plan,
		Run:       runCase,
		CaseWatch: 10 * time.Second,
		Setup: func() {
			rec.Install()
			sched.Install()
		},
		Exhaustive: func(tier string) string {
			n := 3
			if tier == "thorough" {
				n = 5
			}
			return fmt.Sprintf("sequential part: all scripts over {1,2,E,C} of length ≤ %d at each input of each catalogue entry and into each subject kind", n)
		},
	})
}
