// C11 — sharing keeps one upstream subscription and follows the reference count.
package main

import (
	"context"
	"fmt"
	"math/rand"
	"runtime"
	"strings"
	"sync"
	"sync/atomic"
	"time"

	"github.com/samber/ro"
	"verifharness/internal/driver"
	"verifharness/internal/quiesce"
	"verifharness/internal/rec"
	"verifharness/internal/sched"
	"verifharness/internal/src"
	sm "verifharness/internal/subjmodel"
)

type config struct {
	Form      string // share | sharereplay | sharereplaycfg | connectable
	Conn      string // publish | behavior | replay1 | replay2
	ROnErr    bool
	ROnComp   bool
	ROnZero   bool
	ROnDiscon bool
}

func (c config) String() string {
	return fmt.Sprintf("%s[%s,err=%v,comp=%v,zero=%v,disc=%v]", c.Form, c.Conn, c.ROnErr, c.ROnComp, c.ROnZero, c.ROnDiscon)
}

func (c config) key() string {
	return fmt.Sprintf("%s|%s|%v|%v|%v|%v", c.Form, c.Conn, c.ROnErr, c.ROnComp, c.ROnZero, c.ROnDiscon)
}

func parseConfig(s string) config {
	p := strings.Split(s, "|")
	return config{p[0], p[1], p[2] == "true", p[3] == "true", p[4] == "true", p[5] == "true"}
}

func configs() []config {
	var out []config
	for _, conn := range []string{"publish", "behavior", "replay0", "replay1", "replay2"} {
		for m := 0; m < 8; m++ {
			out = append(out, config{Form: "share", Conn: conn, ROnErr: m&1 != 0, ROnComp: m&2 != 0, ROnZero: m&4 != 0})
		}
		for _, d := range []bool{true, false} {
			out = append(out, config{Form: "connectable", Conn: conn, ROnDiscon: d})
		}
	}
	out = append(out, config{Form: "sharereplay", Conn: "replay2", ROnErr: true})
	out = append(out, config{Form: "sharereplaycfg", Conn: "replay2", ROnErr: true, ROnZero: true})
	out = append(out, config{Form: "sharereplaycfg", Conn: "replay2", ROnErr: true, ROnZero: false})
	out = append(out, config{Form: "sharedefault", Conn: "publish", ROnErr: true, ROnComp: true, ROnZero: true})
	out = append(out, config{Form: "connectabledefault", Conn: "publish", ROnDiscon: true})
	return out
}

func connector(conn string) func() ro.Subject[int] {
	return func() ro.Subject[int] {
		switch conn {
		case "behavior":
			return ro.NewBehaviorSubject(-1)
		case "replay0":
			return ro.NewReplaySubject[int](0)
		case "replay1":
			return ro.NewReplaySubject[int](1)
		case "replay2":
			return ro.NewReplaySubject[int](2)
		}
		return ro.NewPublishSubject[int]()
	}
}

func connModel(conn string) *sm.State {
	switch conn {
	case "behavior":
		return sm.New(sm.Behavior, 0, -1)
	case "replay0":
		return sm.New(sm.Replay, 0, 0)
	case "replay1":
		return sm.New(sm.Replay, 1, 0)
	case "replay2":
		return sm.New(sm.Replay, 2, 0)
	}
	return sm.New(sm.Publish, 0, 0)
}

// ---------------------------------------------------------------- reference model

type exec struct {
	subj  *sm.State
	live  bool // source connected
	ended bool // source terminated
}

type model struct {
	cfg       config
	cur       *exec         // current execution (share) / current subject (connectable)
	attached  map[int]*exec // subscriber → execution it is attached to
	subCount  int           // source subscriptions so far
	connected bool          // connectable: connection open
	armed     *int          // the next source subscription emits this value and completes inside its subscribe function
}

func newModel(cfg config) *model {
	m := &model{cfg: cfg, attached: map[int]*exec{}}
	if strings.HasPrefix(cfg.Form, "connectable") {
		m.cur = &exec{subj: connModel(cfg.Conn)}
	}
	return m
}

func (m *model) isConnectable() bool { return strings.HasPrefix(m.cfg.Form, "connectable") }

func (m *model) sub(id int) {
	if m.isConnectable() {
		m.cur.subj.Subscribe(id)
		m.attached[id] = m.cur
		return
	}
	created := false
	if m.cur == nil {
		m.cur = &exec{subj: connModel(m.cfg.Conn)}
		created = true
	}
	m.cur.subj.Subscribe(id)
	m.attached[id] = m.cur
	if created {
		m.subCount++
		m.cur.live = true
		m.playArmed()
	}
}

// playArmed: the source plays "value, completion" inside the subscribe function of the subscription just made.
func (m *model) playArmed() {
	if m.armed == nil {
		return
	}
	v := *m.armed
	m.armed = nil
	m.srcNext(v)
	m.srcTerminal(false)
}

func (m *model) unsub(id int) {
	e, ok := m.attached[id]
	if !ok {
		return
	}
	e.subj.Unsubscribe(id)
	if m.isConnectable() {
		return
	}
	if m.cfg.ROnZero && e == m.cur && !e.ended && m.refCount(e) == 0 {
		e.live = false
		m.cur = nil
	}
}

// refCount: subscribers of execution e that are still active
func (m *model) refCount(e *exec) int { return e.subj.Count() }

func (m *model) liveExec() *exec {
	if m.cur != nil && m.cur.live {
		return m.cur
	}
	return nil
}

func (m *model) srcNext(v int) {
	if e := m.liveExec(); e != nil {
		e.subj.Next(v)
	}
}

func (m *model) srcTerminal(isErr bool) {
	e := m.liveExec()
	if e == nil {
		return
	}
	e.live = false
	if m.isConnectable() {
		m.connected = false
		if m.cfg.ROnDiscon {
			m.cur = &exec{subj: connModel(m.cfg.Conn)}
		} else {
			e.ended = true
		}
	} else {
		reset := (isErr && m.cfg.ROnErr) || (!isErr && m.cfg.ROnComp)
		if reset {
			m.cur = nil
		} else {
			e.ended = true
		}
	}
	if isErr {
		e.subj.Error()
	} else {
		e.subj.Complete()
	}
}

func (m *model) connect() {
	if m.connected {
		return
	}
	m.connected = true
	m.subCount++
	m.cur.live = true
	m.playArmed()
}

func (m *model) disconnect() {
	if !m.connected {
		return
	}
	m.connected = false
	m.cur.live = false
	if m.cfg.ROnDiscon {
		m.cur = &exec{subj: connModel(m.cfg.Conn)}
	}
}

func (m *model) sourceLive() bool { return m.liveExec() != nil }

// ---------------------------------------------------------------- system under test

type sut struct {
	cfg     config
	source  *src.Source
	obs     ro.Observable[int]
	conn    ro.ConnectableObservable[int]
	connSub ro.Subscription
	recs    []*rec.Rec
	subs    []ro.Subscription
	doubled atomic.Int64 // source subscribed while another subscription was live
	val     int
}

func newSUT(cfg config) *sut {
	s := &sut{cfg: cfg, source: src.New("src")}
	s.source.OnSubscribe = func(idx int, liveOthers int64, _ context.Context) {
		if liveOthers > 0 {
			s.doubled.Add(1)
		}
	}
	o := s.source.Observable()
	switch cfg.Form {
	case "share":
		s.obs = ro.ShareWithConfig(ro.ShareConfig[int]{Connector: connector(cfg.Conn), ResetOnError: cfg.ROnErr, ResetOnComplete: cfg.ROnComp, ResetOnRefCountZero: cfg.ROnZero})(o)
	case "sharedefault":
		s.obs = ro.Share[int]()(o)
	case "sharereplay":
		s.obs = ro.ShareReplay[int](2)(o)
	case "sharereplaycfg":
		s.obs = ro.ShareReplayWithConfig[int](2, ro.ShareReplayConfig{ResetOnRefCountZero: cfg.ROnZero})(o)
	case "connectable":
		s.conn = ro.ConnectableWithConfig(o, ro.ConnectableConfig[int]{Connector: connector(cfg.Conn), ResetOnDisconnect: cfg.ROnDiscon})
		s.obs = s.conn
	case "connectabledefault":
		s.conn = ro.Connectable(o)
		s.obs = s.conn
	}
	return s
}

var shareOps = []string{"S", "U0", "U1", "U2", "N", "E", "C"}
var connOps = []string{"S", "U0", "U1", "N", "E", "C", "K", "D"} // K = Connect, D = disconnect

func (s *sut) apply(op string) {
	switch {
	case op == "S":
		r := rec.New(fmt.Sprintf("sub%d", len(s.recs)))
		s.recs = append(s.recs, r)
		s.subs = append(s.subs, s.obs.Subscribe(rec.Raw[int](r)))
	case op[0] == 'U':
		if i := int(op[1] - '0'); i < len(s.subs) {
			s.subs[i].Unsubscribe()
		}
	case op == "N", op == "E", op == "C":
		if s.source.IsSubscribed() && s.source.Live.Load() > 0 {
			switch op {
			case "N":
				s.val++
				s.source.Next(s.val)
			case "E":
				s.source.Error()
			default:
				s.source.Complete()
			}
		} else if op == "N" {
			s.val++ // keep the value numbering aligned with the model
		}
	case op == "A":
		// arm: the next subscription of the source gets "value, completion" inside the subscribe function;
		// the ones after it are puppets again
		s.val++
		n := int(s.source.Subscribed.Load())
		scripts := make([]src.Script, n+2)
		scripts[n] = src.Script{{K: rec.Next, V: s.val}, {K: rec.Complete}}
		s.source.Scripts = scripts
	case op == "K":
		s.connSub = s.conn.Connect()
	case op == "D":
		if s.connSub != nil {
			s.connSub.Unsubscribe()
		}
	}
}

func applyModel(m *model, op string, val *int, nsubs *int) {
	switch {
	case op == "S":
		m.sub(*nsubs)
		*nsubs++
	case op[0] == 'U':
		if i := int(op[1] - '0'); i < *nsubs {
			m.unsub(i)
		}
	case op == "N":
		*val++
		m.srcNext(*val)
	case op == "E":
		m.srcTerminal(true)
	case op == "C":
		m.srcTerminal(false)
	case op == "A":
		*val++
		v := *val
		m.armed = &v
	case op == "K":
		m.connect()
	case op == "D":
		m.disconnect()
	}
}

func trace(r *rec.Rec) string {
	var out []string
	for _, e := range r.Events() {
		switch e.Kind {
		case rec.Next:
			out = append(out, e.Val)
		case rec.Error:
			out = append(out, "E")
		default:
			out = append(out, "C")
		}
	}
	return strings.Join(out, " ")
}

func plan(tier string, seed int64) []driver.Case {
	maxLen, nConc := 5, 300
	if tier == "thorough" {
		maxLen, nConc = 7, 8000
	}
	var cases []driver.Case
	for _, cfg := range configs() {
		ops := shareOps
		if strings.HasPrefix(cfg.Form, "connectable") {
			ops = connOps
		}
		for _, a := range ops {
			cases = append(cases, driver.Case{ID: fmt.Sprintf("seq/%s/%s", cfg, a), P: map[string]string{"kind": "seq", "cfg": cfg.key(), "prefix": a, "len": fmt.Sprint(maxLen)}})
		}
		// the same with a source that can be armed (A) to emit one value and complete INSIDE the subscribe
		// function of its next subscription: the execution is over before Subscribe / Connect returns
		for _, a := range append(append([]string{}, ops...), "A") {
			cases = append(cases, driver.Case{ID: fmt.Sprintf("seq-armed/%s/%s", cfg, a), P: map[string]string{"kind": "seq", "armed": "1", "cfg": cfg.key(), "prefix": a, "len": fmt.Sprint(maxLen - 1)}})
		}
	}
	rng := rand.New(rand.NewSource(seed))
	cs := configs()
	for i := 0; i < nConc; i++ {
		cfg := cs[rng.Intn(len(cs))]
		cases = append(cases, driver.Case{ID: fmt.Sprintf("conc/%d/%s", i, cfg), Race: tier == "thorough" && i%2 == 0,
			P: map[string]string{"kind": "conc", "cfg": cfg.key(), "seed": fmt.Sprint(rng.Int63()), "clients": fmt.Sprint(2 + rng.Intn(3)), "yield": fmt.Sprint(rng.Intn(3)), "concurrent": "1"}})
	}
	// several goroutines call Connect on a connectable that is not connected - and nobody
	// disconnects meanwhile: exactly one upstream subscription may result
	for _, cfg := range cs {
		if !strings.HasPrefix(cfg.Form, "connectable") {
			continue
		}
		for _, k := range []int{2, 4, 8} {
			for _, slow := range []string{"0", "1"} {
				cases = append(cases, driver.Case{ID: fmt.Sprintf("connrace/%s/k%d/slow%s", cfg, k, slow),
					P: map[string]string{"kind": "connrace", "cfg": cfg.key(), "k": fmt.Sprint(k), "slow": slow, "rounds": "20"}})
			}
		}
	}
	return cases
}

// runConnRace: k goroutines call Connect at once, nobody disconnects until all have returned.
func runConnRace(c driver.Case) driver.Result {
	cfg := parseConfig(c.Get("cfg"))
	k, rounds, slow := c.Int("k"), c.Int("rounds"), c.Get("slow") == "1"
	res := driver.Result{Verdict: driver.Held}
	for round := 0; round < rounds; round++ {
		s := newSUT(cfg)
		count := s.source.OnSubscribe
		s.source.OnSubscribe = func(idx int, liveOthers int64, ctx context.Context) {
			count(idx, liveOthers, ctx)
			if slow {
				time.Sleep(300 * time.Microsecond) // a source that takes a moment to set itself up
			}
		}
		r := rec.New("sub")
		sub := s.obs.Subscribe(rec.Raw[int](r))
		handles := make([]ro.Subscription, k)
		var gate atomic.Int64
		var wg sync.WaitGroup
		for g := 0; g < k; g++ {
			g := g
			wg.Add(1)
			go func() {
				defer wg.Done()
				defer func() { recover() }()
				gate.Add(1)
				for gate.Load() < int64(k) {
					runtime.Gosched()
				}
				handles[g] = s.conn.Connect()
			}()
		}
		st, dump, _ := quiesce.Call(wg.Wait, 15*time.Second)
		where := fmt.Sprintf("%s: %d goroutines call Connect at once (round %d)", cfg, k, round)
		if st == quiesce.Hung {
			res.Verdict, res.Key, res.Dirty, res.Witness = driver.Violated, "C11/"+canonForm(cfg.Form)+"/hang/"+quiesce.BlockedSite(dump), true, dump
			res.Msg = where + ": the calls never return; all goroutines blocked"
			return res
		}
		if st != quiesce.Returned {
			return driver.Result{Verdict: driver.Inconclusive, Key: "connect-did-not-return", Dirty: true}
		}
		res.Events += int64(k)
		if n := s.source.Subscribed.Load(); n != 1 || s.doubled.Load() > 0 {
			res.Verdict, res.Key = driver.Violated, "C11/"+canonForm(cfg.Form)+"/concurrent-connects-subscribe-the-source-more-than-once"
			res.Msg = fmt.Sprintf("%s: the source was subscribed %d times, %d of them while another subscription was live (nobody disconnected): %s", where, n, s.doubled.Load(), s.source.Summary())
			return res
		}
		// one value reaches the subscriber once
		s.source.Next(7)
		if got := r.TraceString(); !strings.HasSuffix(got, "7") || strings.Count(got, "7") != 1 {
			res.Verdict, res.Key = driver.Violated, "C11/"+canonForm(cfg.Form)+"/value-not-delivered-exactly-once-after-concurrent-connects"
			res.Msg = fmt.Sprintf("%s: after Next(7) the subscriber has [%s]", where, got)
			return res
		}
		// disconnecting through the handles stops delivery and releases the source
		for _, h := range handles {
			if h != nil {
				h.Unsubscribe()
			}
		}
		if s.source.Live.Load() != 0 {
			res.Verdict, res.Key = driver.Violated, "C11/"+canonForm(cfg.Form)+"/source-still-subscribed-after-disconnecting-every-handle"
			res.Msg = fmt.Sprintf("%s: every handle returned by Connect was unsubscribed, the source is still subscribed: %s", where, s.source.Summary())
			return res
		}
		sub.Unsubscribe()
	}
	res.Nontrivial = true
	res.Sig = fmt.Sprintf("connrace/%s/%d/%v", cfg, k, slow)
	res.Sample = map[string]any{"config": cfg.String(), "concurrent_connect_callers": k, "rounds": rounds, "slow_source_setup": slow}
	return res
}

func runSeq(c driver.Case) driver.Result {
	cfg := parseConfig(c.Get("cfg"))
	maxLen := c.Int("len")
	ops := shareOps
	if strings.HasPrefix(cfg.Form, "connectable") {
		ops = connOps
	}
	armed := c.Get("armed") == "1"
	if armed {
		ops = append(append([]string{}, ops...), "A")
	}
	res := driver.Result{Verdict: driver.Held}
	var sequences int64
	check := func(seq []string) *driver.Result {
		if armed && !strings.Contains(strings.Join(seq, ""), "A") {
			return nil // covered by the unarmed cases
		}
		s := newSUT(cfg)
		m := newModel(cfg)
		val, nsubs := 0, 0
		for step, op := range seq {
			if op == "S" && nsubs >= 3 {
				return nil
			}
			st, dump, pan := quiesce.Call(func() { s.apply(op) }, 10*time.Second)
			where := fmt.Sprintf("%s after [%s]", cfg, strings.Join(seq[:step+1], " "))
			if st == quiesce.Hung {
				return &driver.Result{Verdict: driver.Violated, Key: "C11/" + canonForm(cfg.Form) + "/hang/" + quiesce.BlockedSite(dump), Dirty: true, Witness: dump, Msg: where + ": the operation never returns; all goroutines blocked"}
			}
			if pan != nil {
				return &driver.Result{Verdict: driver.Violated, Key: "C11/" + canonForm(cfg.Form) + "/panic", Msg: fmt.Sprintf("%s: panic %v", where, pan)}
			}
			applyModel(m, op, &val, &nsubs)
			if s.doubled.Load() > 0 {
				return &driver.Result{Verdict: driver.Violated, Key: "C11/" + canonForm(cfg.Form) + "/two-live-upstream-subscriptions", Msg: where + ": the source was subscribed while a previous subscription to it was still live"}
			}
			for i, r := range s.recs {
				res.Events++
				if got, want := trace(r), strings.Join(m.attached[i].subj.Subs[i].Trace, " "); got != want {
					return &driver.Result{Verdict: driver.Violated, Key: "C11/" + canonForm(cfg.Form) + "/subscriber-trace-differs/" + lastKind(op),
						Msg: fmt.Sprintf("%s: subscriber %d received [%s], the definition gives [%s]", where, i, got, want)}
				}
			}
			if got, want := int(s.source.Subscribed.Load()), m.subCount; got != want {
				return &driver.Result{Verdict: driver.Violated, Key: "C11/" + canonForm(cfg.Form) + "/upstream-subscription-count/" + lastKind(op), Msg: fmt.Sprintf("%s: the source has been subscribed %d times, the definition says %d", where, got, want)}
			}
			if got, want := s.source.Live.Load() > 0, m.sourceLive(); got != want {
				return &driver.Result{Verdict: driver.Violated, Key: "C11/" + canonForm(cfg.Form) + "/upstream-liveness/" + lastKind(op), Msg: fmt.Sprintf("%s: source live = %v, the definition says %v (%s)", where, got, want, s.source.Summary())}
			}
		}
		sequences++
		return nil
	}
	var gen func(seq []string) *driver.Result
	gen = func(seq []string) *driver.Result {
		if len(seq) == maxLen {
			return check(seq)
		}
		for _, a := range ops {
			if r := gen(append(append([]string(nil), seq...), a)); r != nil {
				return r
			}
		}
		return nil
	}
	if r := gen([]string{c.Get("prefix")}); r != nil {
		return *r
	}
	res.Nontrivial = sequences > 0
	res.Extra = map[string]int64{"event_sequences": sequences}
	res.Sig = cfg.String() + "/" + c.Get("prefix")
	res.Sample = map[string]any{"configuration": cfg.String(), "sequences_starting_with": c.Get("prefix"), "executed": sequences, "length": maxLen}
	return res
}

func canonForm(f string) string {
	switch {
	case strings.HasPrefix(f, "connectable"):
		return "connectable"
	case strings.HasPrefix(f, "sharereplay"):
		return "sharereplay"
	}
	return "share"
}

func lastKind(op string) string {
	switch {
	case op == "S":
		return "on-subscribe"
	case op[0] == 'U':
		return "on-unsubscribe"
	case op == "N":
		return "on-source-next"
	case op == "E", op == "C":
		return "on-source-terminal"
	case op == "K":
		return "on-connect"
	}
	return "on-disconnect"
}

func runConc(c driver.Case) driver.Result {
	cfg := parseConfig(c.Get("cfg"))
	var sd int64
	fmt.Sscan(c.Get("seed"), &sd)
	rng := rand.New(rand.NewSource(sd))
	switch c.Int("yield") {
	case 1:
		sched.Set(sched.Yield, 50)
	case 2:
		sched.Set(sched.Jitter, 20)
	default:
		sched.Set(sched.Off, 0)
	}
	defer sched.Set(sched.Off, 0)
	s := newSUT(cfg)
	// an asynchronous emitter feeds whichever source subscription is live
	stop := make(chan struct{})
	var emitted atomic.Int64
	var wg sync.WaitGroup
	wg.Add(1)
	go func() {
		defer wg.Done()
		for {
			select {
			case <-stop:
				return
			default:
			}
			func() {
				defer func() { recover() }()
				if s.source.IsSubscribed() && s.source.Live.Load() > 0 {
					s.source.Next(int(emitted.Add(1)))
				}
			}()
			time.Sleep(time.Duration(rng.Intn(40)) * time.Microsecond)
		}
	}()
	clients := c.Int("clients")
	var mu sync.Mutex
	var recs []*rec.Rec
	var cwg sync.WaitGroup
	start := make(chan struct{})
	var ops atomic.Int64
	for cl := 0; cl < clients; cl++ {
		seed := rng.Int63()
		cwg.Add(1)
		go func() {
			defer cwg.Done()
			defer func() { recover() }()
			r := rand.New(rand.NewSource(seed))
			<-start
			var mine []ro.Subscription
			for k := 0; k < 12; k++ {
				ops.Add(1)
				switch x := r.Intn(10); {
				case x < 5:
					rc := rec.New("c")
					mu.Lock()
					recs = append(recs, rc)
					mu.Unlock()
					mine = append(mine, s.obs.Subscribe(rec.Raw[int](rc)))
				case x < 8 && len(mine) > 0:
					i := r.Intn(len(mine))
					mine[i].Unsubscribe()
				case s.conn != nil && x == 8:
					sub := s.conn.Connect()
					if r.Intn(2) == 0 {
						sub.Unsubscribe()
					}
				default:
					time.Sleep(time.Duration(r.Intn(60)) * time.Microsecond)
				}
			}
			for _, sub := range mine {
				sub.Unsubscribe()
			}
		}()
	}
	close(start)
	st, dump, _ := quiesce.Call(cwg.Wait, 15*time.Second)
	close(stop)
	wg.Wait()
	res := driver.Result{Verdict: driver.Held}
	if st == quiesce.Hung {
		res.Verdict, res.Key, res.Dirty = driver.Violated, "C11/"+canonForm(cfg.Form)+"/hang/"+quiesce.BlockedSite(dump), true
		res.Msg = cfg.String() + ": concurrent subscribe/unsubscribe/connect clients never finish; all goroutines blocked"
		res.Witness = dump
		return res
	}
	quiesce.Settle(2 * time.Second)
	var events int64
	mu.Lock()
	defer mu.Unlock()
	for i, r := range recs {
		events += int64(r.Len())
		if gp := r.GrammarProblems(); len(gp) > 0 {
			res.Verdict, res.Key = driver.Violated, "C11/"+canonForm(cfg.Form)+"/delivery-after-terminal"
			res.Msg = fmt.Sprintf("%s concurrent: subscriber %d: %s", cfg, i, strings.Join(gp, "; "))
			return res
		}
		if r.Overlaps.Load() > 0 {
			res.Verdict, res.Key = driver.Violated, "C11/"+canonForm(cfg.Form)+"/callbacks-overlap"
			res.Msg = fmt.Sprintf("%s concurrent: subscriber %d had overlapping callbacks", cfg, i)
			return res
		}
		// values of one execution arrive in increasing order (all subscribers see the same order)
		last := -1 << 30
		for _, e := range r.Events() {
			if e.Kind == rec.Next {
				var v int
				fmt.Sscan(e.Val, &v)
				if v != -1 && v < last && !strings.HasPrefix(cfg.Conn, "replay") && cfg.Conn != "behavior" {
					res.Verdict, res.Key = driver.Violated, "C11/"+canonForm(cfg.Form)+"/order-not-shared"
					res.Msg = fmt.Sprintf("%s concurrent: subscriber %d received %d after %d", cfg, i, v, last)
					return res
				}
				if v != -1 {
					last = v
				}
			}
		}
	}
	if s.doubled.Load() > 0 {
		res.Verdict, res.Key = driver.Violated, "C11/"+canonForm(cfg.Form)+"/two-live-upstream-subscriptions"
		res.Msg = fmt.Sprintf("%s concurrent: the source was subscribed %d time(s) while another subscription to it was live (%s)", cfg, s.doubled.Load(), s.source.Summary())
		return res
	}
	// every client unsubscribed: with the reference count at zero a resetting Share must have released the source
	if strings.HasPrefix(cfg.Form, "share") && cfg.ROnZero && s.source.Live.Load() != 0 {
		res.Verdict, res.Key = driver.Violated, "C11/"+canonForm(cfg.Form)+"/upstream-not-released-at-refcount-zero"
		res.Msg = fmt.Sprintf("%s concurrent: all subscribers left but the source is still subscribed (%s)", cfg, s.source.Summary())
		return res
	}
	res.Events = events + ops.Load()
	res.Nontrivial = events > 0
	res.Sig = fmt.Sprintf("%s|%d|%d", cfg, s.source.Subscribed.Load(), events)
	res.Sample = map[string]any{"configuration": cfg.String(), "clients": clients, "upstream_subscriptions": s.source.Subscribed.Load(), "max_live_upstream": s.source.MaxLive.Load(), "values_delivered": events}
	res.Extra = map[string]int64{"max_live_upstream_subscriptions": s.source.MaxLive.Load()}
	return res
}

func runCase(c driver.Case) driver.Result {
	rec.ResetHooks()
	switch c.Get("kind") {
	case "conc":
		return runConc(c)
	case "connrace":
		return runConnRace(c)
	}
	return runSeq(c)
}

func main() {
	driver.Main(driver.Property{
		ID:        "C11",
		Level:     "exploration",
		Rule:      "sequential: Share/ShareWithConfig (8 reset-flag combinations × connectors publish, behavior, replay 1, replay 2), Share, ShareReplay, ShareReplayWithConfig, Connectable/ConnectableWithConfig (ResetOnDisconnect on/off × connectors): EVERY sequence over {Subscribe (≤3 subscribers), Unsubscribe i, source Next/Error/Complete, Connect, disconnect} up to the bound on a fresh instance over an instrumented puppet source; after each event the per-subscriber traces, the number of upstream subscriptions and the upstream liveness are compared with the reference model, and the source asserts inside its subscribe function that no other subscription to it is live. Concurrent: 2-4 clients subscribing/unsubscribing/connecting while an emitter goroutine feeds the live upstream subscription, yields at the Share/connectable hook points; invariants: ≤1 live upstream subscription, grammar, no overlap, shared order, upstream released at reference count zero. Non-trivial: sequences executed / values delivered. Also connrace: k ∈ {2,4,8} goroutines call Connect at once on an unconnected connectable (source set-up instantaneous or 300 µs), nobody disconnects: exactly one source subscription, a value delivered once, every handle disconnects.",
		Assume:    []string{"reference model written from the ShareConfig/ConnectableConfig documentation and the property statement (DESIGN Appendix B)"},
		Plan:      plan,
		Run:       runCase,
		CaseWatch: 120 * time.Second,
		Setup: func() {
			rec.Install()
			sched.Install()
		},
		Exhaustive: func(tier string) string {
			if tier == "thorough" {
				return "all event sequences of length 7 (every prefix checked) for 45 configurations"
			}
			return "all event sequences of length 5 (every prefix checked) for 45 configurations"
		},
	})
}
