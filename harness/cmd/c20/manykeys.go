package main

import (
	"fmt"
	"math/rand"
	"sync"
	"time"

	"github.com/samber/ro"

	"verifharness/internal/driver"
)

// Hundreds of distinct keys in one window: "every key is limited on its own" also when the key space is large
// (user ids, addresses). The window is one hour, so the clock plays no role: each key gets exactly its first q
// items, whatever the other keys do. Key shapes: short counters, long common prefixes, keys differing in one
// byte, the empty key.

func manyKeysPlan(tier string) []driver.Case {
	var cases []driver.Case
	sizes := []int{300, 1000}
	if tier == "thorough" {
		sizes = []int{300, 1000, 4000}
	}
	for _, lim := range limiters {
		for q := 1; q <= 3; q++ {
			for _, n := range sizes {
				for _, order := range []string{"by-key", "round-robin", "shuffled"} {
					cases = append(cases, driver.Case{ID: fmt.Sprintf("manykeys/%s/q%d/n%d/%s", lim, q, n, order),
						P: map[string]string{"kind": "manykeys", "lim": lim, "q": fmt.Sprint(q), "n": fmt.Sprint(n), "order": order}})
				}
			}
		}
	}
	return cases
}

func manyKey(i int) string {
	switch i % 4 {
	case 0:
		return fmt.Sprintf("user-%d", i)
	case 1:
		return fmt.Sprintf("tenant/0000000000000000/account/%08d", i)
	case 2:
		return string([]byte{byte(i), byte(i >> 8), 'x'})
	}
	if i == 3 {
		return ""
	}
	return fmt.Sprint(i)
}

func runManyKeys(c driver.Case) driver.Result {
	lim, q, n, order := c.Get("lim"), c.Int("q"), c.Int("n"), c.Get("order")
	res := driver.Result{Verdict: driver.Held, Nontrivial: true}
	perKey := q + 2
	var items []item
	switch order {
	case "by-key":
		for k := 0; k < n; k++ {
			for s := 0; s < perKey; s++ {
				items = append(items, item{Key: manyKey(k), Seq: s})
			}
		}
	default:
		for s := 0; s < perKey; s++ {
			for k := 0; k < n; k++ {
				items = append(items, item{Key: manyKey(k), Seq: s})
			}
		}
		if order == "shuffled" {
			// a shuffle that keeps each key's items in their order: shuffle positions, then renumber per key
			rng := rand.New(rand.NewSource(int64(n*10 + q)))
			rng.Shuffle(len(items), func(i, j int) { items[i], items[j] = items[j], items[i] })
			next := map[string]int{}
			for i := range items {
				items[i].Seq = next[items[i].Key]
				next[items[i].Key]++
			}
		}
	}
	what := fmt.Sprintf("%s limiter, %d per hour, %d distinct keys × %d items (%s)", lim, q, n, perKey, order)
	source := ro.NewObservable(func(dest ro.Observer[item]) ro.Teardown {
		for _, it := range items {
			dest.Next(it)
		}
		dest.Complete()
		return nil
	})
	var mu sync.Mutex
	passed := map[string][]int{}
	terminal := ""
	done := make(chan struct{})
	var once sync.Once
	sub := operator(lim, q, time.Hour)(source).Subscribe(ro.NewObserver(
		func(it item) { mu.Lock(); passed[it.Key] = append(passed[it.Key], it.Seq); mu.Unlock() },
		func(err error) { mu.Lock(); terminal = "E(" + err.Error() + ")"; mu.Unlock(); once.Do(func() { close(done) }) },
		func() { mu.Lock(); terminal = "C"; mu.Unlock(); once.Do(func() { close(done) }) },
	))
	defer func() { defer func() { recover() }(); sub.Unsubscribe() }()
	select {
	case <-done:
	case <-time.After(30 * time.Second):
		res.Verdict, res.Key, res.Dirty = driver.Inconclusive, "manykeys-no-terminal-within-30s", true
		return res
	}
	mu.Lock()
	defer mu.Unlock()
	res.Sig = c.ID
	total := 0
	for _, s := range passed {
		total += len(s)
	}
	res.Events = int64(total)
	res.Sample = map[string]any{"scenario": what, "keys": n, "items_passed": total, "items_expected": n * q, "terminal": terminal}
	for k := 0; k < n; k++ {
		key := manyKey(k)
		got := passed[key]
		ok := len(got) == q
		for i := 0; ok && i < q; i++ {
			ok = got[i] == i
		}
		if !ok {
			res.Verdict, res.Key = driver.Violated, "C20/"+lim+"/many-keys-not-limited-independently"
			res.Msg = fmt.Sprintf("%s: key %q passed items %v, its own first %d are due whatever the other keys do (%d of %d items passed in total)", what, key, got, q, total, n*q)
			return res
		}
	}
	if terminal != "C" {
		res.Verdict, res.Key = driver.Violated, "C20/"+lim+"/many-keys-terminal"
		res.Msg = fmt.Sprintf("%s: the source completed, the output ended with %q", what, terminal)
	}
	return res
}
