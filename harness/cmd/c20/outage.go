package main

import (
	"context"
	"errors"
	"fmt"
	"sync/atomic"
	"time"

	"github.com/samber/ro"
	roulule "github.com/samber/ro/plugins/ratelimit/ulule"
	"github.com/ulule/limiter/v3"
	"github.com/ulule/limiter/v3/drivers/store/memory"

	"verifharness/internal/driver"
)

// A limiter store that starts failing (fault injection at the store boundary: a redis outage): whatever the
// operator does with the failure, it lets no more than the quota of a key through in the window - the window
// is one hour, so at most q items per key ever - and passes them in order without duplicates.

var errStoreDown = errors.New("c20: the limiter store is down")

type flakyStore struct {
	limiter.Store
	gets      atomic.Int64
	failAfter int64 // Get number failAfter+1 and all later ones fail (until recoverAt, if > 0)
	recoverAt int64
}

func (s *flakyStore) Get(ctx context.Context, key string, rate limiter.Rate) (limiter.Context, error) {
	n := s.gets.Add(1)
	if n > s.failAfter && (s.recoverAt == 0 || n <= s.recoverAt) {
		return limiter.Context{}, errStoreDown
	}
	return s.Store.Get(ctx, key, rate)
}

func outagePlan(tier string) []driver.Case {
	var cases []driver.Case
	for q := 1; q <= 3; q++ {
		for _, after := range []int{0, 1, 2, 5, 9} {
			for _, rec := range []int{0, 4} {
				cases = append(cases, driver.Case{ID: fmt.Sprintf("ulule-outage/q%d/after%d/recover%d", q, after, rec),
					P: map[string]string{"kind": "outage", "q": fmt.Sprint(q), "after": fmt.Sprint(after), "recover": fmt.Sprint(rec)}})
			}
		}
	}
	return cases
}

func runOutage(c driver.Case) driver.Result {
	q, after, recov := c.Int("q"), c.Int("after"), c.Int("recover")
	res := driver.Result{Verdict: driver.Held, Nontrivial: true}
	store := &flakyStore{Store: memory.NewStoreWithOptions(limiter.StoreOptions{Prefix: "c20o", CleanUpInterval: 0}), failAfter: int64(after)}
	if recov > 0 {
		store.recoverAt = int64(after + recov)
	}
	op := roulule.NewRateLimiter[item](limiter.New(store, limiter.Rate{Period: time.Hour, Limit: int64(q)}), keyOf)
	const perKey, nk = 10, 2
	what := fmt.Sprintf("ulule limiter (limit %d per hour), store failing from its Get #%d on (recovering after %d failures: %v), %d keys × %d items", q, after+1, recov, recov > 0, nk, perKey)
	source := ro.NewObservable(func(dest ro.Observer[item]) ro.Teardown {
		for i := 0; i < perKey; i++ {
			for k := 0; k < nk; k++ {
				dest.Next(item{Key: keyName(k), Seq: i})
			}
		}
		dest.Complete()
		return nil
	})
	passed := map[string][]int{}
	var terminal string
	op(source).Subscribe(ro.NewObserver(
		func(it item) { passed[it.Key] = append(passed[it.Key], it.Seq) },
		func(err error) { terminal = "E(" + err.Error() + ")" },
		func() { terminal = "C" },
	))
	res.Sig = c.ID
	res.Sample = map[string]any{"scenario": what, "passed_per_key": passed, "terminal": terminal, "store_gets": store.gets.Load()}
	for k, seqs := range passed {
		res.Events += int64(len(seqs))
		if len(seqs) > q {
			res.Verdict, res.Key = driver.Violated, "C20/ulule/quota-exceeded-while-the-store-fails"
			res.Msg = fmt.Sprintf("%s: %d items of key %q passed within one window (%v), the limit is %d; the stream ended with %s", what, len(seqs), k, seqs, q, terminal)
			return res
		}
		for i := 1; i < len(seqs); i++ {
			if seqs[i] <= seqs[i-1] {
				res.Verdict, res.Key = driver.Violated, "C20/ulule/order-broken-or-item-duplicated"
				res.Msg = fmt.Sprintf("%s: key %q passed %v", what, k, seqs)
				return res
			}
		}
	}
	return res
}
