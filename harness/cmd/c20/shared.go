package main

import (
	"fmt"
	"runtime"
	"sync"
	"sync/atomic"
	"time"

	"github.com/samber/ro"
	roulule "github.com/samber/ro/plugins/ratelimit/ulule"
	"github.com/ulule/limiter/v3"
	"github.com/ulule/limiter/v3/drivers/store/memory"
	"verifharness/internal/driver"
)

// One ulule limiter (one store, one rate) in front of several streams that are fed from different
// goroutines at the same time: the quota is the limiter's, so what passes for a key in the window -
// summed over the streams - is bounded by it. The window is one hour: the clock plays no role, the
// bound is exact (the first q items of a key pass, wherever they arrive).

func sharedPlan(tier string) []driver.Case {
	rounds := 30
	if tier == "thorough" {
		rounds = 300
	}
	var cases []driver.Case
	for q := 1; q <= 3; q++ {
		for _, streams := range []int{2, 4, 8} {
			for _, nk := range []int{1, 2} {
				cases = append(cases, driver.Case{ID: fmt.Sprintf("ulule-shared/q%d/streams%d/k%d", q, streams, nk),
					P: map[string]string{"kind": "shared", "q": fmt.Sprint(q), "streams": fmt.Sprint(streams), "nk": fmt.Sprint(nk), "rounds": fmt.Sprint(rounds)}})
			}
		}
	}
	return cases
}

// One native rate-limited observable (a recipe: GroupBy, windows and counters per subscription)
// subscribed by two consumers at the same time over a cold asynchronous source. The window is one
// hour: each consumer gets exactly the first q items of every key of ITS run, in order, no duplicates.
func twicePlan(tier string) []driver.Case {
	rounds := 10
	if tier == "thorough" {
		rounds = 100
	}
	var cases []driver.Case
	for q := 1; q <= 3; q++ {
		for _, nk := range []int{1, 3} {
			cases = append(cases, driver.Case{ID: fmt.Sprintf("native-twice/q%d/k%d", q, nk), P: map[string]string{"kind": "twice", "q": fmt.Sprint(q), "nk": fmt.Sprint(nk), "rounds": fmt.Sprint(rounds)}})
		}
	}
	return cases
}

func runTwice(c driver.Case) driver.Result {
	q, nk, rounds := c.Int("q"), c.Int("nk"), c.Int("rounds")
	res := driver.Result{Verdict: driver.Held}
	const perKey = 8
	what := fmt.Sprintf("one native limiter observable (quota %d per hour) subscribed by two consumers at once, %d key(s), %d items per key and run", q, nk, perKey)
	for round := 0; round < rounds; round++ {
		var gate atomic.Int64
		cold := ro.NewObservable(func(dest ro.Observer[item]) ro.Teardown {
			go func() {
				defer func() { recover() }()
				gate.Add(1)
				for gate.Load() < 2 {
					runtime.Gosched()
				}
				for i := 0; i < perKey; i++ {
					for k := 0; k < nk; k++ {
						dest.Next(item{Key: keyName(k), Seq: i})
						runtime.Gosched()
					}
				}
				dest.Complete()
			}()
			return nil
		})
		limited := operator("native", q, time.Hour)(cold)
		var mu sync.Mutex
		got := [2][]item{}
		var wg sync.WaitGroup
		for s := 0; s < 2; s++ {
			s := s
			wg.Add(1)
			limited.Subscribe(ro.NewObserver(
				func(it item) { mu.Lock(); got[s] = append(got[s], it); mu.Unlock() },
				func(error) { wg.Done() },
				func() { wg.Done() },
			))
		}
		done := make(chan struct{})
		go func() { wg.Wait(); close(done) }()
		select {
		case <-done:
		case <-time.After(20 * time.Second):
			res.Verdict, res.Key, res.Dirty = driver.Inconclusive, "consumers-not-finished", true
			return res
		}
		for s := 0; s < 2; s++ {
			next := map[string]int{}
			for _, it := range got[s] {
				res.Events++
				if it.Seq != next[it.Key] {
					res.Verdict, res.Key = driver.Violated, "C20/native/overlapping-subscriptions-influence-each-other"
					res.Msg = fmt.Sprintf("%s: round %d: consumer %d received %v; of each key it must get items 0..%d once, in order (consumer 0 got %v, consumer 1 got %v)", what, round, s, it, q-1, got[0], got[1])
					return res
				}
				next[it.Key]++
			}
			for k := 0; k < nk; k++ {
				if next[keyName(k)] != q {
					res.Verdict, res.Key = driver.Violated, "C20/native/overlapping-subscriptions-influence-each-other"
					res.Msg = fmt.Sprintf("%s: round %d: consumer %d received %d items of key %q, the quota is %d and %d were offered (consumer 0 got %v, consumer 1 got %v)", what, round, s, next[keyName(k)], keyName(k), q, perKey, got[0], got[1])
					return res
				}
			}
		}
	}
	res.Nontrivial = true
	res.Sig = fmt.Sprintf("twice/%d/%d", q, nk)
	res.Sample = map[string]any{"limiter": "native", "quota": q, "keys": nk, "rounds": rounds}
	return res
}

// Windows that rotate every few hundred microseconds under a fast asynchronous source and a consumer
// that takes a moment per item: items of a key that were queued for the new window and items that
// arrive while that window is being taken over must still come out in their original order, once.
// (Quota formulas say nothing at this window length; order, duplicates and the terminal are judged.)
func rotationPlan(tier string) []driver.Case {
	reps := 4
	if tier == "thorough" {
		reps = 40
	}
	var cases []driver.Case
	for i := 0; i < reps; i++ {
		for _, w := range []int{300, 800} {
			cases = append(cases, driver.Case{ID: fmt.Sprintf("native-rotation/w%dus/%d", w, i), P: map[string]string{"kind": "rotation", "w": fmt.Sprint(w), "rep": fmt.Sprint(i)}})
		}
	}
	return cases
}

func runRotation(c driver.Case) driver.Result {
	w := time.Duration(c.Int("w")) * time.Microsecond
	res := driver.Result{Verdict: driver.Held}
	const perKey, nk = 1500, 2
	what := fmt.Sprintf("native limiter, quota 100000 per %v (windows rotate constantly), %d keys × %d items from a goroutine, consumer busy ~30µs per item", w, nk, perKey)
	var mu sync.Mutex
	var got []item
	term := make(chan string, 1)
	cold := ro.NewObservable(func(dest ro.Observer[item]) ro.Teardown {
		go func() {
			defer func() { recover() }()
			for i := 0; i < perKey; i++ {
				for k := 0; k < nk; k++ {
					dest.Next(item{Key: keyName(k), Seq: i})
				}
			}
			dest.Complete()
		}()
		return nil
	})
	sub := operator("native", 100000, w)(cold).Subscribe(ro.NewObserver(
		func(it item) {
			mu.Lock()
			got = append(got, it)
			mu.Unlock()
			t0 := time.Now()
			for time.Since(t0) < 30*time.Microsecond {
			}
		},
		func(err error) { term <- "E:" + err.Error() },
		func() { term <- "C" },
	))
	defer sub.Unsubscribe()
	ended := ""
	select {
	case ended = <-term:
	case <-time.After(30 * time.Second):
	}
	mu.Lock()
	defer mu.Unlock()
	res.Events = int64(len(got))
	res.Nontrivial = len(got) > 0
	res.Sig = "rotation/" + c.Get("w") + "/" + c.Get("rep")
	last := map[string]int{}
	for k := 0; k < nk; k++ {
		last[keyName(k)] = -1
	}
	for i, it := range got {
		if it.Seq <= last[it.Key] {
			res.Verdict, res.Key = driver.Violated, "C20/native/order-broken-or-item-duplicated"
			res.Msg = fmt.Sprintf("%s: delivery #%d is %v after item %d of that key had been delivered", what, i, it, last[it.Key])
			return res
		}
		last[it.Key] = it.Seq
	}
	res.Sample = map[string]any{"limiter": "native", "window": w.String(), "items_delivered": len(got), "ended": ended}
	if ended == "" {
		// the recorded WindowWhen defects (a window missed by a racing completion) can keep the limiter from completing
		res.Verdict, res.Key = driver.Violated, "C20/native/completion-not-propagated-under-constant-rotation"
		res.Msg = what + ": the source completed, the output did not within 30 s"
	}
	return res
}

func runShared(c driver.Case) driver.Result {
	q, streams, nk, rounds := c.Int("q"), c.Int("streams"), c.Int("nk"), c.Int("rounds")
	res := driver.Result{Verdict: driver.Held}
	const perStream = 6
	what := fmt.Sprintf("ulule limiter (limit %d per hour) shared by %d streams fed concurrently, %d key(s), %d items per stream and key", q, streams, nk, perStream)
	worst, worstRound := int64(0), -1
	for round := 0; round < rounds; round++ {
		store := memory.NewStoreWithOptions(limiter.StoreOptions{Prefix: "c20s", CleanUpInterval: 0})
		op := roulule.NewRateLimiter[item](limiter.New(store, limiter.Rate{Period: time.Hour, Limit: int64(q)}), keyOf)
		passed := make([]atomic.Int64, nk)
		var gate atomic.Int64
		var wg sync.WaitGroup
		var failed atomic.Value
		for s := 0; s < streams; s++ {
			wg.Add(1)
			go func() {
				defer wg.Done()
				source := ro.NewObservable(func(dest ro.Observer[item]) ro.Teardown {
					gate.Add(1)
					for gate.Load() < int64(streams) {
						runtime.Gosched()
					}
					for i := 0; i < perStream; i++ {
						for k := 0; k < nk; k++ {
							dest.Next(item{Key: keyName(k), Seq: i})
						}
					}
					dest.Complete()
					return nil
				})
				op(source).Subscribe(ro.NewObserver(
					func(it item) {
						for k := 0; k < nk; k++ {
							if it.Key == keyName(k) {
								passed[k].Add(1)
							}
						}
					},
					func(err error) { failed.Store(err.Error()) },
					func() {},
				))
			}()
		}
		wg.Wait()
		if f := failed.Load(); f != nil {
			res.Verdict, res.Key = driver.Violated, "C20/ulule/error-instead-of-limiting"
			res.Msg = fmt.Sprintf("%s: a stream ended with the error %v", what, f)
			return res
		}
		for k := 0; k < nk; k++ {
			n := passed[k].Load()
			res.Events += n
			if n > int64(q) && n > worst {
				worst, worstRound = n, round
			}
			if n < int64(q) {
				res.Verdict, res.Key = driver.Violated, "C20/ulule/items-within-quota-dropped"
				res.Msg = fmt.Sprintf("%s: round %d: only %d items of key %s passed although %d were offered", what, round, n, keyName(k), streams*perStream)
				return res
			}
		}
	}
	res.Nontrivial = true
	res.Sig = fmt.Sprintf("shared/%d/%d/%d", q, streams, nk)
	res.Sample = map[string]any{"limiter": "ulule", "limit_per_window": q, "streams": streams, "keys": nk, "rounds": rounds, "max_passed_for_one_key_in_one_round": max(worst, int64(q))}
	if worst > 0 {
		res.Verdict, res.Key = driver.Violated, "C20/ulule/quota-exceeded-across-streams-sharing-the-limiter"
		res.Msg = fmt.Sprintf("%s: in round %d, %d items of one key passed within the window; the limit is %d", what, worstRound, worst, q)
	}
	return res
}
