// C20 — the rate-limiting operators never let more than the configured number
// of items of one key through in one window, pass the items of a key in their
// original order without duplicating any, treat different keys independently,
// and propagate the completion and the error of the source.
//
// Technique: runtime monitoring. Every item is a {Key, Seq} struct; the harness
// timestamps each emission just before the Next call (tb) and each delivery at
// the entry of the recording observer (td), then does per-key bookkeeping.
// Time is only ever used as a lower bound.
package main

import (
	"errors"
	"fmt"
	"math/rand"
	"strconv"
	"strings"
	"sync"
	"sync/atomic"
	"time"

	"github.com/samber/ro"
	ronative "github.com/samber/ro/plugins/ratelimit/native"
	roulule "github.com/samber/ro/plugins/ratelimit/ulule"
	"github.com/ulule/limiter/v3"
	"github.com/ulule/limiter/v3/drivers/store/memory"

	"verifharness/internal/driver"
	"verifharness/internal/quiesce"
	"verifharness/internal/rec"
)

var (
	limiters  = []string{"native", "ulule"}
	timelines = []string{"burst", "bursts", "steady", "sparse"}
)

// ---------------------------------------------------------------- plan

func plan(tier string, seed int64) []driver.Case {
	rng := rand.New(rand.NewSource(seed*7919 + 20))
	windows := []string{"20ms", "40ms", "1h"}
	reps := 6
	if tier == "thorough" {
		windows = []string{"5ms", "20ms", "40ms", "1h"} // 5 ms: clock-free oracles only
		reps = 52
	}
	var cases []driver.Case
	for _, lim := range limiters {
		for q := 1; q <= 3; q++ {
			for _, w := range windows {
				for _, tl := range timelines {
					for i := 0; i < reps; i++ {
						nk := 1 + rng.Intn(4)
						dist := []string{"uniform", "skewed"}[rng.Intn(2)]
						end := "complete"
						switch x := rng.Intn(20); {
						case x < 8:
							end = "complete"
						case x < 13:
							end = "error"
						case x < 17:
							end = "unsub" // the source emits everything and stays open; then Unsubscribe
						default:
							end = "unsubmid" // Unsubscribe while the (asynchronous) source is still emitting
						}
						source := []string{"sync", "async"}[rng.Intn(2)]
						if end == "unsubmid" {
							source = "async"
						}
						if source == "sync" && end == "complete" && tl == "burst" && rng.Intn(2) == 0 {
							source = "fromslice" // ro.FromSlice: the library's own synchronous source
						}
						id := fmt.Sprintf("%s/q%d/w%s/%s/k%d-%s/%s/%s/%d", lim, q, w, tl, nk, dist, source, end, i)
						cases = append(cases, driver.Case{ID: id, P: map[string]string{
							"lim": lim, "q": fmt.Sprint(q), "w": w, "tl": tl, "nk": fmt.Sprint(nk), "dist": dist,
							"src": source, "end": end, "seed": fmt.Sprint(rng.Int63()), "widen": fmt.Sprint(rng.Intn(2)),
						}})
					}
				}
			}
		}
	}
	// the consumer stalls once for 40 windows inside its first callback; a fast, long stream follows
	for q := 1; q <= 2; q++ {
		for i := 0; i < 2; i++ {
			id := fmt.Sprintf("native/q%d/w20ms/stall-burst/k1-uniform/async/complete/%d", q, i)
			cases = append(cases, driver.Case{ID: id, P: map[string]string{
				"lim": "native", "q": fmt.Sprint(q), "w": "20ms", "tl": "stall-burst", "nk": "1", "dist": "uniform",
				"src": "async", "end": "complete", "seed": fmt.Sprint(rng.Int63()), "widen": "0",
			}})
		}
	}
	cases = append(cases, sharedPlan(tier)...)
	cases = append(cases, twicePlan(tier)...)
	cases = append(cases, rotationPlan(tier)...)
	cases = append(cases, outagePlan(tier)...)
	cases = append(cases, manyKeysPlan(tier)...)
	return cases
}

// ---------------------------------------------------------------- workload

type params struct {
	lim, tl, dist, src, end string
	q, nk                   int
	w                       time.Duration
}

// keyName: the fourth key is the empty string - a key like any other for the limiter.
func keyName(i int) string {
	if i == 3 {
		return ""
	}
	return "k" + strconv.Itoa(i)
}

// buildSteps derives the arrival timeline from the case's PRNG.
func buildSteps(rng *rand.Rand, p params) []step {
	u := p.w // time unit of the timeline
	if p.w >= time.Hour {
		// the clock plays no role with a 1-hour window: the unit only shapes interleavings
		u = []time.Duration{0, time.Millisecond, 2 * time.Millisecond}[rng.Intn(3)]
	}
	pick := func() int {
		if p.dist == "skewed" && rng.Intn(10) < 7 {
			return 0
		}
		return rng.Intn(p.nk)
	}
	seq := make([]int, p.nk)
	var steps []step
	add := func(gap time.Duration) {
		k := pick()
		steps = append(steps, step{Gap: gap, It: item{Key: keyName(k), Seq: seq[k]}})
		seq[k]++
	}
	switch p.tl {
	case "burst":
		n := p.q + 1 + rng.Intn(3*p.q+6)
		for i := 0; i < n; i++ {
			add(0)
		}
	case "bursts":
		nb := 3 + rng.Intn(2)
		for b := 0; b < nb; b++ {
			size := 1 + rng.Intn(2*p.q+3)
			for i := 0; i < size; i++ {
				if b > 0 && i == 0 {
					add(u + u/2)
				} else {
					add(0)
				}
			}
		}
	case "steady":
		n := 6 + rng.Intn(11)
		for i := 0; i < n; i++ {
			if i == 0 {
				add(0)
			} else {
				add(u / time.Duration(2*p.q))
			}
		}
	case "stall-burst":
		// a fast stream that lasts a few windows beyond the stall (the stall happens inside the first delivery)
		for i := 0; i < 40000; i++ {
			if i == 0 {
				add(0)
			} else {
				add(5 * time.Microsecond)
			}
		}
	case "sparse":
		n := 3 + rng.Intn(3)
		for i := 0; i < n; i++ {
			if i == 0 {
				add(0)
			} else {
				add(2 * u)
			}
		}
	}
	return steps
}

func keyOf(it item) string { return it.Key }

// operator builds a fresh limiter (a fresh store for ulule) for one run.
//
// ulule: the in-memory store is created without its cleaner goroutine
// (CleanUpInterval 0), which only garbage-collects expired counters; counting
// is the same as with memory.NewStore().
func operator(lim string, q int, w time.Duration) func(ro.Observable[item]) ro.Observable[item] {
	if lim == "native" {
		return ronative.NewRateLimiter[item](int64(q), w, keyOf)
	}
	store := memory.NewStoreWithOptions(limiter.StoreOptions{Prefix: "c20", CleanUpInterval: 0})
	l := limiter.New(store, limiter.Rate{Period: w, Limit: int64(q)})
	return roulule.NewRateLimiter[item](l, keyOf)
}

// ---------------------------------------------------------------- oracles

type finding struct {
	class, msg string
	wit        any
}

type delivered struct {
	key string
	seq int
	td  int64 // monotonic ns at the entry of the observer callback
	ls  int64 // logical clock at the entry of the observer callback
}

func parseVal(v string) (string, int, bool) {
	i := strings.LastIndexByte(v, ':')
	if i < 0 {
		return "", 0, false
	}
	n, err := strconv.Atoi(v[i+1:])
	return v[:i], n, err == nil
}

func ms(ns int64) string { return fmt.Sprintf("%.3fms", float64(ns)/1e6) }

type stats struct {
	passed, dropped, pairs, tight int64
	maxTightPermille              int64
	excused                       []string // formula exceeded, explained by late ticks (native only)
}

// checkStream applies the per-key oracles (1: subsequence, 2: quota bound,
// 3: long-window exactness) to what was emitted and what was delivered.
//   - tuStart / tu: logical clock before Unsubscribe was called / after it
//     returned (0 = no Unsubscribe before the end of the stream).
func checkStream(p params, emitted []emission, events []rec.Event, tuStart, tu int64, st *stats) []finding {
	var out []finding
	emByKey := map[string][]emission{}
	var keys []string
	for _, e := range emitted {
		if _, ok := emByKey[e.It.Key]; !ok {
			keys = append(keys, e.It.Key)
		}
		emByKey[e.It.Key] = append(emByKey[e.It.Key], e)
	}
	delByKey := map[string][]delivered{}
	for _, e := range events {
		if e.Kind != rec.Next {
			continue
		}
		k, s, ok := parseVal(e.Val)
		if !ok {
			out = append(out, finding{"invented-item", "delivered value " + e.Val + " is not an item", nil})
			continue
		}
		if _, known := emByKey[k]; !known {
			out = append(out, finding{"invented-item", fmt.Sprintf("delivered item %s: key %s was never emitted", e.Val, k), nil})
			continue
		}
		delByKey[k] = append(delByKey[k], delivered{k, s, e.T, e.Seq})
	}
	trace := func(k string) string {
		var em, dl []string
		for _, e := range emByKey[k] {
			em = append(em, strconv.Itoa(e.It.Seq))
		}
		for _, d := range delByKey[k] {
			dl = append(dl, strconv.Itoa(d.seq))
		}
		return fmt.Sprintf("key %s emitted [%s] delivered [%s]", k, strings.Join(em, " "), strings.Join(dl, " "))
	}
	for _, k := range keys {
		em, dl := emByKey[k], delByKey[k]
		st.passed += int64(len(dl))
		st.dropped += int64(len(em) - len(dl))
		// ---- oracle 1: order-preserving, duplicate-free subsequence of the key's emissions
		idx := map[int]int{}
		for i, e := range em {
			idx[e.It.Seq] = i
		}
		seen := map[int]bool{}
		last := -1
		sound := true
		tbOf := make([]int64, len(dl))
		for n, d := range dl {
			i, ok := idx[d.seq]
			switch {
			case !ok:
				out = append(out, finding{"invented-item", fmt.Sprintf("item %s:%d was delivered but never emitted; %s", k, d.seq, trace(k)), nil})
				sound = false
			case seen[d.seq]:
				out = append(out, finding{"item-duplicated", fmt.Sprintf("item %s:%d was delivered twice; %s", k, d.seq, trace(k)), nil})
				sound = false
			case i < last:
				out = append(out, finding{"per-key-order-not-preserved", fmt.Sprintf("item %s:%d was delivered after a later item of the same key; %s", k, d.seq, trace(k)), nil})
				sound = false
			case d.ls < em[i].Begin:
				out = append(out, finding{"invented-item", fmt.Sprintf("item %s:%d was delivered before its emission began; %s", k, d.seq, trace(k)), nil})
				sound = false
			}
			if ok {
				seen[d.seq] = true
				if i > last {
					last = i
				}
				tbOf[n] = em[i].TB
				// core contract: nothing of an emission that began after Unsubscribe returned
				if tu != 0 && em[i].Begin > tu {
					out = append(out, finding{"delivered-after-unsubscribe", fmt.Sprintf("item %s:%d, whose emission began after Unsubscribe had returned, was delivered", k, d.seq), nil})
				}
			}
		}
		if !sound {
			continue
		}
		// ---- oracle 2: quota bound, sound for any alignment of the windows
		if p.w < time.Hour && p.w >= 20*time.Millisecond {
			q, w := int64(p.q), int64(p.w)
			reported := false
			var bs map[int64][]int64
			for i := 0; i < len(dl) && !reported; i++ {
				for j := i; j < len(dl); j++ {
					cnt := int64(j - i + 1)
					L := dl[j].td - tbOf[i]
					bound := q * (L/w + 2)
					st.pairs++
					if cnt == bound {
						st.tight++
					}
					// margin in time: need = the shortest span for which cnt items are allowed;
					// L − need is how much later than "at once" the span could have been cut, i.e.
					// how late a window boundary would have to be processed to raise an alarm.
					// Reported as the share of one window's worth of margin that was used up
					// (0 = a whole window or more to spare, 1000 = at the edge, > 1000 = violation).
					if need := ((cnt+q-1)/q - 2) * w; need > 0 {
						used := 1000 - (L-need)*1000/w
						if used < 0 {
							used = 0
						}
						if used > st.maxTightPermille {
							st.maxTightPermille = used
						}
					}
					if cnt > bound {
						var tl []string
						for x := i; x <= j; x++ {
							tl = append(tl, fmt.Sprintf("%s:%d emitted@%s delivered@%s", k, dl[x].seq, ms(tbOf[x]-tbOf[i]), ms(dl[x].td-tbOf[i])))
						}
						if p.lim == "native" {
							if bs == nil {
								bs = boundaries()
							}
							if ok, why := lateTicksExplainWith(bs, p.q, p.w, cnt, tbOf[i], dl[j].td, emitted[0].TB); ok {
								// excused - every other span is examined all the same
								if len(st.excused) < 3 {
									st.excused = append(st.excused, fmt.Sprintf("key %s: %d items passed within %s (formula allows %d) — %s: windows compressed by ticks processed late, at most %d items in each of the limiter's own windows; timeline: %v", k, cnt, ms(L), bound, why, p.q, tl))
								}
								continue
							}
						}
						out = append(out, finding{"quota-exceeded", fmt.Sprintf("key %s: %d items passed within a span of %s (from the emission of %s:%d to the delivery of %s:%d); quota %d per %v allows at most %d×(⌊%s/%v⌋+2) = %d", k, cnt, ms(L), k, dl[i].seq, k, dl[j].seq, p.q, p.w, p.q, ms(L), p.w, bound), tl})
						reported = true
						break
					}
				}
			}
		}
		// ---- oracle 3: with a 1-hour window each key gets exactly its first q items,
		// whatever the other keys do
		if p.w >= time.Hour {
			var expMax, expMin []int
			for _, e := range em {
				if len(expMax) < p.q {
					expMax = append(expMax, e.It.Seq)
				}
				if len(expMin) < p.q && e.End != 0 && (tuStart == 0 || e.End < tuStart) {
					expMin = append(expMin, e.It.Seq)
				}
			}
			okPrefix := len(dl) <= len(expMax) && len(dl) >= len(expMin)
			if okPrefix {
				for i, d := range dl {
					if d.seq != expMax[i] {
						okPrefix = false
					}
				}
			}
			if !okPrefix {
				class := "first-items-not-passed"
				msg := ""
				if len(dl) > p.q {
					class = "quota-exceeded"
					msg = fmt.Sprintf("1-hour window: %d items of key %s passed, quota is %d; %s", len(dl), k, p.q, trace(k))
				} else {
					// differential control: the same key's items alone through a fresh limiter
					alone, ok := runAlone(p, em)
					if ok && len(keys) > 1 && equalInts(alone, expMax) {
						class = "keys-not-independent"
						msg = fmt.Sprintf("1-hour window, quota %d: %s, expected exactly the first %d; the same items alone (no other key) give %v, so the other keys changed the outcome", p.q, trace(k), len(expMax), alone)
					} else {
						msg = fmt.Sprintf("1-hour window, quota %d: %s, expected exactly the first %d %v (control run with this key alone: %v)", p.q, trace(k), len(expMax), expMax, alone)
					}
				}
				out = append(out, finding{class, msg, nil})
			}
		}
	}
	return out
}

func equalInts(a, b []int) bool {
	if len(a) != len(b) {
		return false
	}
	for i := range a {
		if a[i] != b[i] {
			return false
		}
	}
	return true
}

// runAlone pushes the items of one key, alone and at once, through a fresh limiter.
func runAlone(p params, em []emission) ([]int, bool) {
	items := make([]item, len(em))
	for i, e := range em {
		items[i] = e.It
	}
	var got []item
	st, _, pan := quiesce.Call(func() {
		got, _ = ro.Collect(operator(p.lim, p.q, p.w)(ro.FromSlice(items)))
	}, 10*time.Second)
	if st != quiesce.Returned || pan != nil {
		return nil, false
	}
	out := make([]int, len(got))
	for i, g := range got {
		out[i] = g.Seq
	}
	return out, true
}

// ---------------------------------------------------------------- one case

func runCase(c driver.Case) driver.Result {
	if c.Get("kind") == "manykeys" {
		return runManyKeys(c)
	}
	if c.Get("kind") == "outage" {
		return runOutage(c)
	}
	if c.Get("kind") == "shared" {
		return runShared(c)
	}
	if c.Get("kind") == "twice" {
		return runTwice(c)
	}
	if c.Get("kind") == "rotation" {
		return runRotation(c)
	}
	rec.ResetHooks()
	hookReset()
	widen.Store(c.Get("widen") == "1")
	var sd int64
	fmt.Sscan(c.Get("seed"), &sd)
	rng := rand.New(rand.NewSource(sd))
	w, _ := time.ParseDuration(c.Get("w"))
	p := params{lim: c.Get("lim"), tl: c.Get("tl"), dist: c.Get("dist"), src: c.Get("src"), end: c.Get("end"), q: c.Int("q"), nk: c.Int("nk"), w: w}
	steps := buildSteps(rng, p)

	res := driver.Result{Verdict: driver.Held}
	var findings []finding
	add := func(class, msg string, wit any) { findings = append(findings, finding{class, msg, wit}) }
	finish := func() driver.Result {
		for i, f := range findings {
			key := "C20/" + p.lim + "/" + f.class
			msg := fmt.Sprintf("%s limiter, quota %d per %v, %d key(s) %s, %s timeline, %s source, ending %s: %s", p.lim, p.q, p.w, p.nk, p.dist, p.tl, p.src, p.end, f.msg)
			if i == 0 {
				res.Verdict, res.Key, res.Msg, res.Witness = driver.Violated, key, msg, f.wit
			} else {
				res.More = append(res.More, driver.Finding{Key: key, Msg: msg, Witness: f.wit})
			}
		}
		return res
	}

	r := rec.New("c20")
	termCh := make(chan struct{})
	var termOnce sync.Once
	var stalled atomic.Bool
	r.OnEvent = func(e *rec.Event) {
		if e.Kind != rec.Next {
			termOnce.Do(func() { close(termCh) })
		} else if p.tl == "stall-burst" && r.Len() >= 2 && stalled.CompareAndSwap(false, true) {
			// (not in the first deliveries: the limiter subscribes its time base after the first item went through)
			time.Sleep(40 * p.w)
		}
	}
	observer := rec.RawWith[item](r, func(it item) string { return it.String() })

	// the source
	var s *source
	var srcObs ro.Observable[item]
	srcEnd := p.end
	if srcEnd == "unsub" || srcEnd == "unsubmid" {
		srcEnd = "none"
	}
	reachAt := 0
	if p.end == "unsubmid" {
		reachAt = 1 + rng.Intn(len(steps))
	}
	if p.src == "fromslice" {
		items := make([]item, len(steps))
		for i, st := range steps {
			items[i] = st.It
		}
		srcObs = ro.FromSlice(items)
	} else {
		s = newSource(steps, srcEnd, p.src == "async", reachAt)
		srcObs = s.observable()
	}
	obs := operator(p.lim, p.q, p.w)(srcObs)

	timed := p.w < time.Hour
	var probe *lagProbe
	if timed {
		probe = startProbe()
	}
	stopProbe := func() {
		if probe != nil {
			lag := probe.Stop()
			probe = nil
			if res.Extra == nil {
				res.Extra = map[string]int64{}
			}
			res.Extra["max_probe_lag_us"] = lag / 1000
		}
	}

	// ---- run: subscribe, let the source play, wait for the terminal. A hang is
	// decided by quiesce.Call (every goroutine blocked), never by a deadline.
	var sub ro.Subscription
	var phase atomic.Int32
	subBegin := rec.Tick()
	tsub := rec.Mono()
	st, dump, pan := quiesce.Call(func() {
		sub = obs.Subscribe(observer)
		phase.Store(1)
		if s != nil {
			if p.end == "unsubmid" {
				<-s.reached
			} else {
				<-s.done
			}
		}
		phase.Store(2)
		if p.end == "complete" || p.end == "error" {
			<-termCh
		}
		phase.Store(3)
	}, 60*time.Second)
	switch {
	case pan != nil:
		stopProbe()
		res.Dirty = true
		add("panic", fmt.Sprintf("Subscribe panicked: %v", pan), nil)
		return finish()
	case st == quiesce.Hung:
		stopProbe()
		res.Dirty = true
		switch {
		case phase.Load() == 2 && s != nil && s.termSent.Load() || phase.Load() == 2 && s == nil:
			what := "completion"
			if p.end == "error" {
				what = "error"
			}
			where := "a goroutine of the library is blocked in " + quiesce.BlockedSite(dump)
			if strings.TrimSpace(dump) == "" {
				where = "no goroutine of the library is left: the notification was lost, not delayed"
			}
			add(what+"-not-propagated", fmt.Sprintf("the source's %s call returned, every goroutine of the process is blocked, and the output never received a terminal notification; delivered [%s] (%s)", what, r.TraceString(), where), dump)
		default:
			add("hang/"+quiesce.BlockedSite(dump), fmt.Sprintf("phase %d (0 = in Subscribe, 1 = source playing, 2 = waiting for the terminal): every goroutine is blocked; delivered [%s]", phase.Load(), r.TraceString()), dump)
		}
		return finish()
	case st == quiesce.TimedOut:
		stopProbe()
		res.Dirty = true
		res.Verdict, res.Key, res.Msg = driver.Inconclusive, "timeout", fmt.Sprintf("no verdict within the budget (phase %d)", phase.Load())
		return res
	}

	// ---- ending
	var tuStart, tu int64
	unsubscribe := func() bool {
		st, dump, pan := quiesce.Call(func() { sub.Unsubscribe() }, 20*time.Second)
		if pan != nil {
			add("panic", fmt.Sprintf("Unsubscribe panicked: %v", pan), nil)
			return false
		}
		if st == quiesce.Hung {
			res.Dirty = true
			add("unsubscribe-never-returns/"+quiesce.BlockedSite(dump), "Unsubscribe never returned; every goroutine of the process is blocked", dump)
			return false
		}
		if st == quiesce.TimedOut {
			res.Dirty = true
			res.Verdict, res.Key, res.Msg = driver.Inconclusive, "timeout", "Unsubscribe: no verdict within the budget"
			return false
		}
		return true
	}
	switch p.end {
	case "complete":
		if k := r.Terminal(); k != rec.Complete {
			add("completion-not-propagated", fmt.Sprintf("the source completed; the output ended with [%s]", lastEvent(r)), nil)
		}
	case "error":
		if r.Terminal() != rec.Error {
			add("error-not-propagated", fmt.Sprintf("the source failed with %q; the output ended with [%s]", errSource, lastEvent(r)), nil)
		} else {
			for _, e := range r.Events() {
				if e.Kind == rec.Error && !errors.Is(e.Err, errSource) {
					add("error-not-propagated", fmt.Sprintf("the source failed with %q; the output received another error: %q", errSource, e.ErrS), nil)
				}
			}
		}
	case "unsub", "unsubmid":
		tuStart = rec.Tick()
		if !unsubscribe() {
			stopProbe()
			if res.Verdict == driver.Inconclusive {
				return res
			}
			return finish()
		}
		tu = rec.Tick()
	}
	if s != nil {
		// the emitter stops by itself once released (or plays its script to the end)
		if st, dump, _ := quiesce.Call(func() { <-s.done }, 20*time.Second); st != quiesce.Returned {
			stopProbe()
			res.Dirty = true
			if st == quiesce.Hung {
				add("hang/"+quiesce.BlockedSite(dump), "after Unsubscribe the source's pending Next call never returns; every goroutine is blocked", dump)
				return finish()
			}
			res.Verdict, res.Key, res.Msg = driver.Inconclusive, "timeout", "emitter did not stop within the budget"
			return res
		}
	}
	if p.end == "complete" || p.end == "error" {
		// harmless cleanup; must not hang either
		if !unsubscribe() {
			stopProbe()
			if res.Verdict == driver.Inconclusive {
				return res
			}
			return finish()
		}
	}
	quiesce.Settle(time.Second)
	stopProbe()

	// ---- core contract: source released, grammar, no panic swallowed by the emitter
	if s != nil {
		if pv := s.panicValue(); pv != nil {
			add("panic", fmt.Sprintf("a notification of the source panicked inside the limiter: %v", pv), nil)
		}
		if n := s.subscribed.Load(); n != 1 {
			add("source-subscribed-"+strconv.Itoa(int(n))+"-times", fmt.Sprintf("the source was subscribed %d times by one subscription", n), nil)
		}
		if s.released.Load() < 1 {
			when := "the stream ended (" + p.end + ")"
			if tu != 0 {
				when = "Unsubscribe returned"
			}
			add("source-not-released", "the source's teardown had not been called after "+when+" and the process settled", nil)
		}
	}
	for _, g := range r.GrammarProblems() {
		add("notification-after-terminal", g, nil)
	}

	// ---- per-key oracles
	var emitted []emission
	if s != nil {
		emitted = s.emissions()
	} else {
		// ro.FromSlice: the emissions are not observable; the subscription instant
		// is a valid lower bound of every pass time.
		for _, stp := range steps {
			emitted = append(emitted, emission{It: stp.It, TB: tsub, TE: tsub, Begin: subBegin, End: subBegin + 1})
		}
	}
	events := r.Events()
	var stt stats
	findings = append(findings, checkStream(p, emitted, events, tuStart, tu, &stt)...)

	// ---- bookkeeping
	res.Events = int64(len(events))
	res.Nontrivial = stt.passed > 0
	res.Sig = fmt.Sprintf("%s/q%d/%v/%s/k%d/%s/%s/%s", p.lim, p.q, p.w, p.tl, p.nk, p.dist, p.src, p.end)
	if res.Extra == nil {
		res.Extra = map[string]int64{}
	}
	res.Extra["items_emitted"] = int64(len(emitted))
	res.Extra["items_passed"] = stt.passed
	res.Extra["items_dropped"] = stt.dropped
	res.Extra["quota_pairs_checked"] = stt.pairs
	res.Extra["quota_pairs_at_bound"] = stt.tight
	res.Extra["max_quota_margin_used_permille"] = stt.maxTightPermille
	if stt.dropped > 0 {
		res.Extra["cases_where_limiter_dropped"] = 1
	}
	if p.w >= time.Hour {
		res.Extra["long_window_cases"] = 1
	}
	var em []string
	for _, e := range emitted {
		em = append(em, e.It.String())
	}
	res.Sample = map[string]any{
		"limiter": p.lim, "quota": p.q, "window": p.w.String(), "keys": p.nk, "distribution": p.dist, "timeline": p.tl,
		"source": p.src, "ending": p.end, "emitted": strings.Join(em, " "), "delivered": r.TraceString(),
	}
	if len(findings) == 0 && len(stt.excused) > 0 {
		// The property's formula was exceeded, but every excess is accounted for by window
		// boundaries the limiter really processed in the span (ticks processed late under
		// load): not an alarm, and not silently accepted either.
		res.Verdict, res.Key = driver.Inconclusive, "C20/native/quota-formula-exceeded-windows-compressed-by-late-ticks"
		res.Msg = fmt.Sprintf("native limiter, quota %d per %v, %s timeline (probe lag %dµs): %s", p.q, p.w, p.tl, res.Extra["max_probe_lag_us"], strings.Join(stt.excused, " | "))
		res.Extra["quota_formula_exceeded_late_ticks"] = int64(len(stt.excused))
		return res
	}
	return finish()
}

func lastEvent(r *rec.Rec) string {
	ev := r.Events()
	if len(ev) == 0 {
		return "nothing"
	}
	return ev[len(ev)-1].String()
}

func main() {
	driver.Main(driver.Property{
		ID:    "C20",
		Level: "exploration",
		Rule:  "limiter {native NewRateLimiter(count, interval, key), ulule NewRateLimiter(limiter over a fresh in-memory store, key)} × quota {1,2,3} × window {20 ms, 40 ms, 1 h; thorough adds 5 ms for the clock-free oracles} × timeline {one burst, 3–4 bursts 1.5 w apart, steady with gap w/(2q), sparse with gap 2w} × seeded repetitions drawing 1–4 keys (uniform / 70 % on one key), the source {scripted synchronous (emits inside Subscribe), scripted asynchronous (goroutine with sleeps), ro.FromSlice} and the ending {complete, error, Unsubscribe after the last item, Unsubscribe in mid-stream}. Items are {Key, Seq}; the harness timestamps each emission just before Next (tb) and each delivery at observer entry (td). Oracles: (1) per key the delivered items are an order-preserving duplicate-free subsequence of the emitted ones; (2) windows ≥ 20 ms: for all i ≤ j of a key's delivered list, j−i+1 ≤ q·(⌊(td(j)−tb(i))/w⌋+2); (3) 1-hour window: each key gets exactly its first q items (native: Take(q) of the only window; ulule memory store: Reached ⇔ count > Limit, one counter per key), with a single-key control run to tell dependence between keys from a wrong count; (4) completion / the source's error value reach the output, a missing terminal being decided by a blocked-process proof; (5) grammar, source subscribed once and released after the end or after Unsubscribe, nothing delivered of an emission begun after Unsubscribe returned. Half of the cases add a 300 µs pause (delay only, on the emitting goroutine) at WindowWhen's unlock-then-emit hook point. Native limiter only: when formula (2) fires, the window boundaries recorded at the hook point window.flush.unlocked are consulted; if one Interval goroutine really processed enough boundaries inside the span (B boundaries ⇒ at most B+2 windows ⇒ q·(B+2) items) and none of them came before n·w, the case is reported INCONCLUSIVE (windows compressed by ticks processed late), otherwise VIOLATED. Non-trivial: at least one item passed. Also manykeys/*: 300 / 1000 (thorough 4000) distinct keys of four shapes, q+2 items each, in one 1-hour window, emitted key by key, round-robin or shuffled: every key gets exactly its own first q items. Also ulule-shared: one ulule limiter (1-hour window) in front of 2-8 streams fed concurrently from a spin barrier, 30 rounds: per key exactly `limit` items pass, summed over the streams.",
		Assume: []string{
			"machine load can only delay emissions and deliveries: time is used only as a lower bound of the number of windows a span can touch",
			"native limiter: the quota bound q·(⌊L/w⌋+2) presumes that the Interval ticks cutting the windows are processed less than one window late (windows ≥ 20 ms, instantaneous consumer); the lag of a 1 ms ticker goroutine is measured alongside (max_probe_lag_us) and reported with any alarm",
		},
		Plan:      plan,
		Run:       runCase,
		CaseWatch: 120 * time.Second,
		Setup:     func() { rec.Install(); hookInstall() },
	})
}
