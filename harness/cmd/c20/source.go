package main

import (
	"context"
	"errors"
	"fmt"
	"sync"
	"sync/atomic"
	"time"

	"github.com/samber/ro"
	"verifharness/internal/rec"
)

// item is what flows through the limiters: Seq is unique and increasing per key.
type item struct {
	Key string
	Seq int
}

func (it item) String() string { return fmt.Sprintf("%s:%d", it.Key, it.Seq) }

// step is one scripted emission: wait Gap, then emit It.
type step struct {
	Gap time.Duration
	It  item
}

// emission is the harness-side record of one Next call into the limiter.
type emission struct {
	It    item
	TB    int64 // monotonic ns just before the Next call (earliest possible pass time)
	TE    int64 // monotonic ns after the Next call returned (0 = not returned)
	Begin int64 // logical clock just before the call
	End   int64 // logical clock after the call returned (0 = not returned)
}

var errSource = errors.New("c20-source-error")

// source is an instrumented, single-goroutine source of items. It plays its
// script either inside Subscribe (synchronous) or from a goroutine
// (asynchronous), timestamps each emission just before the Next call, counts
// its subscriptions and releases, and stops emitting once released.
type source struct {
	steps []step
	end   string // complete | error | none
	async bool
	// reachAt: `reached` is closed once this many emissions have returned.
	reachAt int

	subscribed atomic.Int32
	released   atomic.Int32 // teardown calls
	lateAsk    atomic.Int32 // emissions attempted after the teardown ran (must stay 0: the source stops by itself)
	termSent   atomic.Bool  // the terminal call returned
	stop       chan struct{}
	stopOnce   sync.Once
	done       chan struct{} // closed when the script is over (or was stopped)
	reached    chan struct{}
	reachOnce  sync.Once

	mu    sync.Mutex
	ems   []emission
	panic any // panic value that escaped from the library into the emitter
}

func newSource(steps []step, end string, async bool, reachAt int) *source {
	return &source{steps: steps, end: end, async: async, reachAt: reachAt,
		stop: make(chan struct{}), done: make(chan struct{}), reached: make(chan struct{})}
}

func (s *source) observable() ro.Observable[item] {
	return ro.NewObservableWithContext(func(ctx context.Context, dest ro.Observer[item]) ro.Teardown {
		s.subscribed.Add(1)
		if s.async {
			go s.play(ctx, dest)
		} else {
			s.play(ctx, dest)
		}
		return func() {
			s.released.Add(1)
			s.stopOnce.Do(func() { close(s.stop) })
		}
	})
}

func (s *source) stopped() bool {
	select {
	case <-s.stop:
		return true
	default:
		return false
	}
}

func (s *source) play(ctx context.Context, dest ro.Observer[item]) {
	defer close(s.done)
	defer s.reachOnce.Do(func() { close(s.reached) })
	defer func() {
		if p := recover(); p != nil {
			s.mu.Lock()
			s.panic = p
			s.mu.Unlock()
		}
	}()
	if s.reachAt <= 0 {
		s.reachOnce.Do(func() { close(s.reached) })
	}
	for n, st := range s.steps {
		if st.Gap > 0 {
			// time.Sleep on purpose (not a select on a timer): a sleeping goroutine
			// keeps the process "not quiescent" for quiesce.Call, so a pause of the
			// script can never be mistaken for a hang.
			if st.Gap < 50*time.Microsecond {
				for t0 := time.Now(); time.Since(t0) < st.Gap; { // a few microseconds: busy-wait, Sleep is too coarse
				}
			} else {
				time.Sleep(st.Gap)
			}
		}
		if s.stopped() {
			return
		}
		s.mu.Lock()
		idx := len(s.ems)
		s.ems = append(s.ems, emission{It: st.It})
		s.mu.Unlock()
		begin := rec.Tick()
		tb := rec.Mono()
		dest.NextWithContext(ctx, st.It)
		te := rec.Mono()
		end := rec.Tick()
		s.mu.Lock()
		s.ems[idx].TB, s.ems[idx].TE, s.ems[idx].Begin, s.ems[idx].End = tb, te, begin, end
		s.mu.Unlock()
		if n+1 >= s.reachAt {
			s.reachOnce.Do(func() { close(s.reached) })
		}
	}
	if s.stopped() {
		return
	}
	switch s.end {
	case "complete":
		dest.CompleteWithContext(ctx)
		s.termSent.Store(true)
	case "error":
		dest.ErrorWithContext(ctx, errSource)
		s.termSent.Store(true)
	}
}

func (s *source) emissions() []emission {
	s.mu.Lock()
	defer s.mu.Unlock()
	return append([]emission(nil), s.ems...)
}

func (s *source) panicValue() any {
	s.mu.Lock()
	defer s.mu.Unlock()
	return s.panic
}

// lagProbe measures how late a timer-woken goroutine of this process runs
// while a case executes: a 1 ms ticker read in a select (so that the goroutine
// counts as blocked for the quiescence detector); the largest distance between
// two consecutive receptions minus the period is a lower estimate of the
// largest scheduling lag a ticker goroutine (such as ro.Interval's) suffered.
// It is a measurement only: no verdict depends on it.
type lagProbe struct {
	stop chan struct{}
	done chan struct{}
	max  int64
}

func startProbe() *lagProbe {
	p := &lagProbe{stop: make(chan struct{}), done: make(chan struct{})}
	go func() {
		defer close(p.done)
		const period = time.Millisecond
		t := time.NewTicker(period)
		defer t.Stop()
		last := rec.Mono()
		for {
			select {
			case <-p.stop:
				return
			case <-t.C:
				now := rec.Mono()
				if lag := now - last - int64(period); lag > p.max {
					p.max = lag
				}
				last = now
			}
		}
	}()
	return p
}

// Stop returns the largest lag seen (ns).
func (p *lagProbe) Stop() int64 {
	close(p.stop)
	<-p.done
	return p.max
}
