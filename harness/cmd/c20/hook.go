package main

import (
	"fmt"
	"sort"
	"sync"
	"sync/atomic"
	"time"

	"github.com/samber/ro"
	"verifharness/internal/rec"
)

// Triage data for the native limiter's timing bound.
//
// The native limiter cuts each key's stream into windows with ro.Interval: a
// goroutine receives the ticker's ticks and WindowWhen switches windows when
// it processes one. A tick that is *processed* late (machine load) shortens
// the following window, so the property's formula q·(⌊L/w⌋+2) — sound for any
// alignment of windows of length w — can be exceeded without the limiter
// passing more than q items in any of its windows. The library's `verif` hook
// points "interval.goroutine-start" and "window.flush.unlocked" are recorded
// here (goroutine id + monotonic time) and consulted ONLY when the formula
// fires, to tell "more than q items in one window" (violation) from "windows
// compressed by late ticks" (reported as inconclusive, never as an alarm).
type flushEv struct{ gid, t int64 }

var hook struct {
	mu      sync.Mutex
	starts  map[int64]int64 // Interval goroutines started during this case → start time
	flushes []flushEv
}

func hookHandler(point string) {
	switch point {
	case "interval.goroutine-start":
		g, t := rec.GID(), rec.Mono()
		hook.mu.Lock()
		if hook.starts == nil {
			hook.starts = map[int64]int64{}
		}
		hook.starts[g] = t
		hook.mu.Unlock()
	case "window.flush.unlocked":
		g, t := rec.GID(), rec.Mono()
		hook.mu.Lock()
		hook.flushes = append(hook.flushes, flushEv{g, t})
		_, ticker := hook.starts[g]
		hook.mu.Unlock()
		if !ticker && widen.Load() {
			// Schedule perturbation (delay only): WindowWhen has just released its lock on
			// the emitting goroutine (first window of a key, or the final flush at the
			// source's completion/error) and has not notified downstream yet. Pausing here
			// gives a concurrent tick the chance to interleave at this unlock-then-emit
			// point. It never touches the Interval goroutines, so it cannot compress windows.
			time.Sleep(300 * time.Microsecond)
		}
	}
}

// widen enables the pause at WindowWhen's unlock-then-emit point (set per case).
var widen atomic.Bool

func hookInstall() { ro.VerifSetHandler(hookHandler) }

func hookReset() {
	hook.mu.Lock()
	hook.starts = map[int64]int64{}
	hook.flushes = nil
	hook.mu.Unlock()
}

// boundaries returns, per Interval goroutine started during this case, the
// times at which it switched a window (ascending).
func boundaries() map[int64][]int64 {
	hook.mu.Lock()
	defer hook.mu.Unlock()
	out := map[int64][]int64{}
	for _, f := range hook.flushes {
		if _, ok := hook.starts[f.gid]; ok { // flushes on the emitting goroutine (first window, final flush) are not boundaries
			out[f.gid] = append(out[f.gid], f.t)
		}
	}
	for _, ts := range out {
		sort.Slice(ts, func(i, j int) bool { return ts[i] < ts[j] })
	}
	return out
}

// lateTicksExplain reports whether cnt items of one key passed between a and b
// (monotonic ns) can be explained by window boundaries that one Interval
// goroutine actually processed in that span: with B boundaries recorded in
// (a, b], plus one whose hook timestamp may not have been taken yet at b, the
// items touch at most B+2 windows. The goroutine's boundaries must themselves
// respect the ticker's lower bound (its n-th tick cannot be processed before
// n·w after the first emission of the case: the ticker was created later than
// that), so that a limiter cutting windows too often is not excused.
func lateTicksExplain(q int, w time.Duration, cnt, a, b, firstTB int64) (bool, string) {
	return lateTicksExplainWith(boundaries(), q, w, cnt, a, b, firstTB)
}

func lateTicksExplainWith(bs map[int64][]int64, q int, w time.Duration, cnt, a, b, firstTB int64) (bool, string) {
	best := ""
	for g, ts := range bs {
		legal := true
		in := int64(0)
		for n, t := range ts {
			if t < firstTB+int64(n+1)*int64(w) {
				legal = false
			}
			if t > a && t <= b {
				in++
			}
		}
		// a ticker delivers at most one tick per period plus one that was waiting in its channel: the boundaries
		// processed inside a span of length L are at most ⌊L/w⌋+2 (one more is granted for a timestamp taken
		// late) - a time base that replays overdue ticks back to back is not excused
		if in > (b-a)/int64(w)+3 {
			legal = false
		}
		if legal && int64(q)*(in+2) >= cnt {
			var rel []string
			for _, t := range ts {
				rel = append(rel, ms(t-a))
			}
			best = fmt.Sprintf("Interval goroutine %d processed %d window boundaries inside the span (all its boundaries, relative to the span start: %v)", g, in, rel)
			return true, best
		}
	}
	return false, best
}
