// Package rec holds the recording observer and its online monitors:
// grammar automaton (C01), overlap counter (C02), logical clock (C06),
// context facts (C09), value snapshots (C04/C18).
package rec

import (
	"context"
	"fmt"
	"runtime"
	"strconv"
	"strings"
	"sync"
	"sync/atomic"
	"time"

	"github.com/samber/ro"
)

// Clock is the process-wide logical clock shared by recorder events and
// harness call/return events.
var Clock atomic.Int64

func Tick() int64 { return Clock.Add(1) }

type Kind uint8

const (
	Next Kind = iota
	Error
	Complete
)

func (k Kind) String() string { return [...]string{"N", "E", "C"}[k] }

// context marker keys
type subKey struct{}
type midKey struct{}
type itemKey struct{}
type upKey struct{}

var (
	SubKey  = subKey{}
	MidKey  = midKey{}
	ItemKey = itemKey{}
	UpKey   = upKey{}
)

// Event is one observed callback.
type Event struct {
	Seq    int64  // logical clock at callback entry
	End    int64  // logical clock at callback exit
	Kind   Kind   //
	Val    string // value rendered at delivery
	Err    error  `json:"-"`
	ErrS   string
	CtxNil bool
	Sub    string // subscription marker seen in ctx ("" = absent)
	Mid    string
	Item   string
	Up     string // marker attached by a context operator upstream of the operator under test
	GID    int64
	T      int64 // monotonic ns at entry
	TE     int64 // monotonic ns at exit
	Late   bool  // delivered after a terminal (grammar violation)
	orig   any
}

func (e Event) String() string {
	switch e.Kind {
	case Next:
		return e.Val
	case Error:
		return "E(" + e.ErrS + ")"
	}
	return "C"
}

// Rec is an untyped recorder. Typed observers are created with Observer[T].
type Rec struct {
	Name string

	inside    atomic.Int32
	MaxInside atomic.Int32
	Overlaps  atomic.Int64

	mu       sync.Mutex
	events   []Event
	terminal Kind // 0 = open (Next), else Error/Complete
	problems []string

	// Dwell, when set, is executed while the callback is "inside" to widen
	// the overlap window. Must not call back into the library.
	Dwell func()
	// OnEvent is called at the end of each callback (still inside) with the
	// event; scripted behaviour (panic injection, unsubscribe-from-inside, gates).
	OnEvent func(e *Event)
	// Silent disables all synchronisation (C13 mode): nothing is recorded.
	Silent bool
	// Scribble makes the observer a consumer that APPENDS to the slices it has been handed (they are its own):
	// at every later callback - and whenever the harness calls ScribbleAll - a sentinel is written into the
	// spare capacity (between len and cap) of every slice received so far. An operator that goes on using
	// the backing array of a slice it has delivered then sees its pending data overwritten.
	Scribble bool
	// NoDwellOnTerminal etc. could be added as needed.

	start time.Time
}

func New(name string) *Rec { return &Rec{Name: name, start: time.Now(), Scribble: DefaultScribble} }

// DefaultScribble is the Scribble setting of recorders made by New (set once by a check's Setup).
var DefaultScribble bool

// ScribbleAll appends (in place) one sentinel element to every slice delivered so far that has spare capacity.
func (r *Rec) ScribbleAll() {
	r.mu.Lock()
	defer r.mu.Unlock()
	for i := range r.events {
		scribble(r.events[i].orig)
	}
}

func scribble(orig any) {
	switch x := orig.(type) {
	case []int:
		if cap(x) > len(x) {
			_ = append(x, -777)
		}
	case []int64:
		if cap(x) > len(x) {
			_ = append(x, -777)
		}
	case []float64:
		if cap(x) > len(x) {
			_ = append(x, -777)
		}
	case []string:
		if cap(x) > len(x) {
			_ = append(x, "scribbled")
		}
	case []any:
		if cap(x) > len(x) {
			_ = append(x, any("scribbled"))
		}
	}
}

var epoch = time.Now()

// Mono returns monotonic nanoseconds since process start.
func Mono() int64 { return int64(time.Since(epoch)) }

func gid() int64 {
	var buf [64]byte
	n := runtime.Stack(buf[:], false)
	s := string(buf[:n])
	s = strings.TrimPrefix(s, "goroutine ")
	if i := strings.IndexByte(s, ' '); i > 0 {
		id, _ := strconv.ParseInt(s[:i], 10, 64)
		return id
	}
	return -1
}

// GID exposes the goroutine id helper to other packages.
func GID() int64 { return gid() }

func mark(ctx context.Context, k any) string {
	if ctx == nil {
		return ""
	}
	if v := ctx.Value(k); v != nil {
		return fmt.Sprint(v)
	}
	return ""
}

func (r *Rec) enter(kind Kind, ctx context.Context, val string, orig any, err error) *Event {
	n := r.inside.Add(1)
	if n > 1 {
		r.Overlaps.Add(1)
		for {
			m := r.MaxInside.Load()
			if n <= m || r.MaxInside.CompareAndSwap(m, n) {
				break
			}
		}
	} else if r.MaxInside.Load() == 0 {
		r.MaxInside.CompareAndSwap(0, 1)
	}
	e := &Event{Kind: kind, Val: val, Err: err, CtxNil: ctx == nil, GID: gid(), T: Mono(), orig: orig}
	if err != nil {
		e.ErrS = err.Error()
	}
	e.Sub, e.Mid, e.Item, e.Up = mark(ctx, SubKey), mark(ctx, MidKey), mark(ctx, ItemKey), mark(ctx, UpKey)
	if r.Scribble {
		r.ScribbleAll()
	}
	r.mu.Lock()
	e.Seq = Tick() // entry order and the grammar check are decided atomically
	if r.terminal != Next {
		e.Late = true
		r.problems = append(r.problems, fmt.Sprintf("%s delivered after terminal %s (event #%d)", e.String(), r.terminal, len(r.events)))
	}
	if kind != Next && r.terminal == Next {
		r.terminal = kind
	}
	r.mu.Unlock()
	if r.Dwell != nil {
		r.Dwell()
	}
	return e
}

func (r *Rec) exit(e *Event) {
	// the event is appended at exit-time position but carries its entry Seq;
	// Events() sorts by Seq.
	if r.OnEvent != nil {
		defer func() {
			// OnEvent may panic on purpose (fault injection): keep the books straight.
			if x := recover(); x != nil {
				e.End, e.TE = Tick(), Mono()
				r.mu.Lock()
				r.events = append(r.events, *e)
				r.mu.Unlock()
				r.inside.Add(-1)
				panic(x)
			}
		}()
		r.OnEvent(e)
	}
	e.End, e.TE = Tick(), Mono()
	r.mu.Lock()
	r.events = append(r.events, *e)
	r.mu.Unlock()
	r.inside.Add(-1)
}

// Events returns a copy of the recorded events ordered by entry clock.
func (r *Rec) Events() []Event {
	r.mu.Lock()
	out := make([]Event, len(r.events))
	copy(out, r.events)
	r.mu.Unlock()
	// insertion sort by Seq (almost sorted)
	for i := 1; i < len(out); i++ {
		for j := i; j > 0 && out[j].Seq < out[j-1].Seq; j-- {
			out[j], out[j-1] = out[j-1], out[j]
		}
	}
	return out
}

// Len returns the number of completed callbacks.
func (r *Rec) Len() int {
	r.mu.Lock()
	defer r.mu.Unlock()
	return len(r.events)
}

// Trace renders the events as strings ("1", "E(msg)", "C").
func (r *Rec) Trace() []string {
	ev := r.Events()
	out := make([]string, len(ev))
	for i, e := range ev {
		out[i] = e.String()
	}
	return out
}

func (r *Rec) TraceString() string { return strings.Join(r.Trace(), " ") }

// GrammarProblems returns the deliveries made after a terminal.
func (r *Rec) GrammarProblems() []string {
	r.mu.Lock()
	defer r.mu.Unlock()
	return append([]string(nil), r.problems...)
}

// Terminal returns the first terminal observed (Next = none).
func (r *Rec) Terminal() Kind {
	r.mu.Lock()
	defer r.mu.Unlock()
	return r.terminal
}

// Mutated re-renders every delivered value and reports those whose rendering
// changed since delivery (aliasing of delivered slices/maps).
func (r *Rec) Mutated() []string {
	var out []string
	for i, e := range r.Events() {
		if e.Kind == Next && e.orig != nil {
			if now := Render(e.orig); now != e.Val {
				out = append(out, fmt.Sprintf("event #%d delivered as %s now reads %s", i, e.Val, now))
			}
		}
	}
	return out
}

// Render is the canonical value rendering.
func Render(v any) string {
	switch x := v.(type) {
	case string:
		return strconv.Quote(x)
	case []byte:
		return "b" + strconv.Quote(string(x))
	case error:
		return "err(" + x.Error() + ")"
	}
	return fmt.Sprintf("%v", v)
}

// rawObserver is a hand-written ro.Observer: no status word of its own, so the
// library's subscriber is the only thing between a producer and the monitors.
type rawObserver[T any] struct {
	r      *Rec
	render func(T) (string, any)
}

func (o *rawObserver[T]) Next(v T)      { o.NextWithContext(context.Background(), v) }
func (o *rawObserver[T]) Error(e error) { o.ErrorWithContext(context.Background(), e) }
func (o *rawObserver[T]) Complete()     { o.CompleteWithContext(context.Background()) }
func (o *rawObserver[T]) NextWithContext(ctx context.Context, v T) {
	if o.r.Silent {
		return
	}
	s, orig := o.render(v)
	e := o.r.enter(Next, ctx, s, orig, nil)
	o.r.exit(e)
}
func (o *rawObserver[T]) ErrorWithContext(ctx context.Context, err error) {
	if o.r.Silent {
		return
	}
	e := o.r.enter(Error, ctx, "", nil, err)
	o.r.exit(e)
}
func (o *rawObserver[T]) CompleteWithContext(ctx context.Context) {
	if o.r.Silent {
		return
	}
	e := o.r.enter(Complete, ctx, "", nil, nil)
	o.r.exit(e)
}
func (o *rawObserver[T]) IsClosed() bool    { return !o.r.Silent && o.r.Terminal() != Next }
func (o *rawObserver[T]) HasThrown() bool   { return !o.r.Silent && o.r.Terminal() == Error }
func (o *rawObserver[T]) IsCompleted() bool { return !o.r.Silent && o.r.Terminal() == Complete }

// Raw returns a hand-written observer feeding r.
func Raw[T any](r *Rec) ro.Observer[T] {
	return &rawObserver[T]{r: r, render: func(v T) (string, any) { return Render(v), any(v) }}
}

// RawWith lets the caller supply the rendering (e.g. to subscribe inner observables).
func RawWith[T any](r *Rec, render func(T) string) ro.Observer[T] {
	return &rawObserver[T]{r: r, render: func(v T) (string, any) { return render(v), nil }}
}

// Wrapped returns an observer built with ro.NewObserverWithContext feeding r.
func Wrapped[T any](r *Rec) ro.Observer[T] {
	raw := Raw[T](r)
	return ro.NewObserverWithContext(raw.NextWithContext, raw.ErrorWithContext, raw.CompleteWithContext)
}

// WrappedWith is Wrapped with custom rendering.
func WrappedWith[T any](r *Rec, render func(T) string) ro.Observer[T] {
	raw := RawWith[T](r, render)
	return ro.NewObserverWithContext(raw.NextWithContext, raw.ErrorWithContext, raw.CompleteWithContext)
}

// ------------------------------------------------------------- hook capture

// Dropped / Unhandled capture the two public library hooks. Install() must be
// called once at process start before any goroutine uses the library.
type HookEvent struct {
	Seq  int64
	What string
	Item string // item marker from ctx, if any
	Sub  string
}

var (
	hookMu    sync.Mutex
	dropped   []HookEvent
	unhandled []HookEvent
	DroppedN  atomic.Int64
	UnhandN   atomic.Int64
	hookQuiet atomic.Bool
)

// Install sets ro.OnDroppedNotification and ro.OnUnhandledError.
func Install() {
	ro.OnDroppedNotification = func(ctx context.Context, n fmt.Stringer) {
		DroppedN.Add(1)
		if hookQuiet.Load() {
			return
		}
		he := HookEvent{Seq: Tick(), What: n.String(), Item: mark(ctx, ItemKey), Sub: mark(ctx, SubKey)}
		hookMu.Lock()
		dropped = append(dropped, he)
		hookMu.Unlock()
	}
	ro.OnUnhandledError = func(ctx context.Context, err error) {
		UnhandN.Add(1)
		if hookQuiet.Load() {
			return
		}
		s := "<nil>"
		if err != nil {
			s = err.Error()
		}
		he := HookEvent{Seq: Tick(), What: s, Item: mark(ctx, ItemKey), Sub: mark(ctx, SubKey)}
		hookMu.Lock()
		unhandled = append(unhandled, he)
		hookMu.Unlock()
	}
}

// InstallSilent installs sync-free hook functions (C13 mode).
func InstallSilent() {
	ro.OnDroppedNotification = func(ctx context.Context, n fmt.Stringer) {}
	ro.OnUnhandledError = func(ctx context.Context, err error) {}
}

// ResetHooks clears the captured hook events (between cases).
func ResetHooks() {
	hookMu.Lock()
	dropped = nil
	unhandled = nil
	hookMu.Unlock()
}

func DroppedEvents() []HookEvent {
	hookMu.Lock()
	defer hookMu.Unlock()
	return append([]HookEvent(nil), dropped...)
}

func UnhandledEvents() []HookEvent {
	hookMu.Lock()
	defer hookMu.Unlock()
	return append([]HookEvent(nil), unhandled...)
}
