// Package quiesce detects quiescence of the process (every goroutine but the
// caller blocked or gone) and scans goroutine stacks for library frames.
package quiesce

import (
	"fmt"
	"os"
	"regexp"
	"runtime"
	"strings"
	"sync"
	"time"
)

// G is one parsed goroutine.
type G struct {
	ID    string
	State string
	Stack string
	Lib   bool // has a frame in github.com/samber/ro (non-harness)
}

var (
	bufMu    sync.Mutex
	stackBuf []byte
)

var hdr = regexp.MustCompile(`^goroutine (\d+) \[([^\]]+)\]:`)

// Dump returns the parsed goroutines other than the caller.
func Dump() []G {
	bufMu.Lock()
	if stackBuf == nil {
		stackBuf = make([]byte, 256<<10)
	}
	var n int
	for {
		n = runtime.Stack(stackBuf, true)
		if n < len(stackBuf) {
			break
		}
		stackBuf = make([]byte, 2*len(stackBuf))
	}
	text := string(stackBuf[:n])
	bufMu.Unlock()
	blocks := strings.Split(text, "\n\n")
	var out []G
	for i, b := range blocks {
		m := hdr.FindStringSubmatch(b)
		if m == nil {
			continue
		}
		if i == 0 { // the caller is always first
			continue
		}
		g := G{ID: m[1], State: m[2], Stack: b}
		g.Lib = strings.Contains(b, "github.com/samber/ro")
		out = append(out, g)
	}
	return out
}

func blocked(state string) bool {
	s := state
	if i := strings.IndexByte(s, ','); i >= 0 {
		s = s[:i]
	}
	switch s {
	case "chan receive", "chan send", "select", "sync.Mutex.Lock", "sync.Cond.Wait", "semacquire", "sync.WaitGroup.Wait", "sync.RWMutex.Lock", "sync.RWMutex.RLock", "select (no cases)", "chan receive (nil chan)", "chan send (nil chan)", "IO wait", "GC worker (idle)", "GC sweep wait", "GC scavenge wait", "finalizer wait", "force gc (idle)", "debug call", "syscall", "trace reader (blocked)":
		return true
	}
	return false
}

func isRuntimeHelper(g G) bool {
	return strings.Contains(g.Stack, "runtime.gcBgMarkWorker") || strings.Contains(g.Stack, "runtime.bgsweep") ||
		strings.Contains(g.Stack, "runtime.bgscavenge") || strings.Contains(g.Stack, "runtime.runfinq") ||
		strings.Contains(g.Stack, "runtime.forcegchelper") || strings.Contains(g.Stack, "os/signal.") ||
		strings.Contains(g.Stack, "runtime.ensureSigM") || strings.Contains(g.Stack, "driver.runOne") ||
		strings.Contains(g.Stack, "driver.runWorker") || strings.Contains(g.Stack, "runtime.ReadTrace")
}

func signature(gs []G) string {
	var b strings.Builder
	for _, g := range gs {
		b.WriteString(g.ID)
		b.WriteByte(':')
		b.WriteString(g.State[:min(len(g.State), 12)])
		b.WriteByte(';')
	}
	return b.String()
}

// Settle waits until all other goroutines are blocked (or gone) and the set is
// stable on 3 consecutive samples. It returns the final sample and whether the
// process settled within the budget. Goroutines in state "sleep" count as not
// settled (a timer is pending).
func Settle(budget time.Duration) ([]G, bool) {
	deadline := time.Now().Add(budget)
	pause := 200 * time.Microsecond
	stable := 0
	last := ""
	for {
		runtime.Gosched()
		gs := Dump()
		ok := true
		var rel []G
		for _, g := range gs {
			if isRuntimeHelper(g) {
				continue
			}
			rel = append(rel, g)
			if !blocked(g.State) {
				ok = false
			}
		}
		sig := signature(rel)
		if ok && sig == last {
			stable++
			if stable >= 1 {
				return rel, true
			}
		} else {
			stable = 0
		}
		last = sig
		if time.Now().After(deadline) {
			if os.Getenv("VERIF_DEBUG_SETTLE") != "" {
				for _, g := range rel {
					if !blocked(g.State) {
						fmt.Fprintf(os.Stderr, "UNSETTLED %s\n", g.Stack)
					}
				}
			}
			return rel, false
		}
		time.Sleep(pause)
		if pause < 5*time.Millisecond {
			pause *= 2
		}
	}
}

// LibGoroutines filters goroutines that have a frame of the library under test.
func LibGoroutines(gs []G) []G {
	var out []G
	for _, g := range gs {
		if g.Lib {
			out = append(out, g)
		}
	}
	return out
}
