// Package quiesce detects quiescence of the process (every goroutine but the
// caller blocked or gone) and scans goroutine stacks for library frames.
package quiesce

import (
	"fmt"
	"os"
	"regexp"
	"runtime"
	"strings"
	"sync"
	"time"
)

// G is one parsed goroutine.
type G struct {
	ID    string
	State string
	Stack string
	Lib   bool // has a frame in github.com/samber/ro (non-harness)
}

var (
	bufMu    sync.Mutex
	stackBuf []byte
)

var hdr = regexp.MustCompile(`^goroutine (\d+) \[([^\]]+)\]:`)

// Dump returns the parsed goroutines other than the caller.
func Dump() []G {
	bufMu.Lock()
	if stackBuf == nil {
		stackBuf = make([]byte, 256<<10)
	}
	var n int
	for {
		n = runtime.Stack(stackBuf, true)
		if n < len(stackBuf) {
			break
		}
		stackBuf = make([]byte, 2*len(stackBuf))
	}
	text := string(stackBuf[:n])
	bufMu.Unlock()
	blocks := strings.Split(text, "\n\n")
	var out []G
	for i, b := range blocks {
		m := hdr.FindStringSubmatch(b)
		if m == nil {
			continue
		}
		if i == 0 { // the caller is always first
			continue
		}
		g := G{ID: m[1], State: m[2], Stack: b}
		g.Lib = strings.Contains(b, "github.com/samber/ro")
		out = append(out, g)
	}
	return out
}

func blocked(state string) bool {
	s := state
	if i := strings.IndexByte(s, ','); i >= 0 {
		s = s[:i]
	}
	switch s {
	case "chan receive", "chan send", "select", "sync.Mutex.Lock", "sync.Cond.Wait", "semacquire", "sync.WaitGroup.Wait", "sync.RWMutex.Lock", "sync.RWMutex.RLock", "select (no cases)", "chan receive (nil chan)", "chan send (nil chan)", "IO wait", "GC worker (idle)", "GC sweep wait", "GC scavenge wait", "finalizer wait", "force gc (idle)", "debug call", "syscall", "trace reader (blocked)":
		return true
	}
	return false
}

func isRuntimeHelper(g G) bool {
	return strings.Contains(g.Stack, "runtime.gcBgMarkWorker") || strings.Contains(g.Stack, "runtime.bgsweep") ||
		strings.Contains(g.Stack, "runtime.bgscavenge") || strings.Contains(g.Stack, "runtime.runfinq") ||
		strings.Contains(g.Stack, "runtime.forcegchelper") || strings.Contains(g.Stack, "os/signal.") ||
		strings.Contains(g.Stack, "runtime.ensureSigM") || strings.Contains(g.Stack, "driver.runOne") ||
		strings.Contains(g.Stack, "driver.runWorker") || strings.Contains(g.Stack, "runtime.ReadTrace")
}

func signature(gs []G) string {
	var b strings.Builder
	for _, g := range gs {
		b.WriteString(g.ID)
		b.WriteByte(':')
		b.WriteString(g.State[:min(len(g.State), 12)])
		b.WriteByte(';')
	}
	return b.String()
}

// Settle waits until all other goroutines are blocked (or gone) and the set is
// stable on 3 consecutive samples. It returns the final sample and whether the
// process settled within the budget. Goroutines in state "sleep" count as not
// settled (a timer is pending).
func Settle(budget time.Duration) ([]G, bool) {
	deadline := time.Now().Add(budget)
	pause := 200 * time.Microsecond
	stable := 0
	last := ""
	for {
		runtime.Gosched()
		gs := Dump()
		ok := true
		var rel []G
		for _, g := range gs {
			if isRuntimeHelper(g) {
				continue
			}
			rel = append(rel, g)
			if !blocked(g.State) {
				ok = false
			}
		}
		sig := signature(rel)
		if ok && sig == last {
			stable++
			if stable >= 1 {
				return rel, true
			}
		} else {
			stable = 0
		}
		last = sig
		if time.Now().After(deadline) {
			if os.Getenv("VERIF_DEBUG_SETTLE") != "" {
				for _, g := range rel {
					if !blocked(g.State) {
						fmt.Fprintf(os.Stderr, "UNSETTLED %s\n", g.Stack)
					}
				}
			}
			return rel, false
		}
		time.Sleep(pause)
		if pause < 5*time.Millisecond {
			pause *= 2
		}
	}
}

// LibGoroutines filters goroutines that have a frame of the library under test.
func LibGoroutines(gs []G) []G {
	var out []G
	for _, g := range gs {
		if g.Lib {
			out = append(out, g)
		}
	}
	return out
}

// CallResult of Call.
type CallResult int

const (
	Returned CallResult = iota
	Hung                // logical proof: every goroutine blocked on consecutive samples while f had not returned
	TimedOut            // wall-clock budget exhausted without a proof: inconclusive
)

// Call runs f on its own goroutine and decides, without relying on a
// deadline, whether it hangs: f has not returned and every goroutine of the
// process is blocked (no timer-driven goroutine, nothing runnable) on several
// consecutive samples spread over at least 250 ms. Catalogue timers are ≤ a few
// ms or ≥ 1 h, so nothing can wake the process up in between. The panic value
// of f, if any, is returned.
func Call(f func(), budget time.Duration) (res CallResult, dump string, pan any) {
	done := make(chan any, 1)
	go func() {
		defer func() { done <- recover() }()
		f()
	}()
	start := time.Now()
	consecutive := 0
	samples, spinSamples, spinDump := 0, 0, ""
	for {
		select {
		case p := <-done:
			return Returned, "", p
		case <-time.After(5 * time.Millisecond):
		}
		gs, ok := Settle(30 * time.Millisecond)
		if ok {
			consecutive++
		} else {
			consecutive = 0
		}
		// livelock evidence: a goroutine busy in the library's spinlock
		samples++
		if sp := spinning(gs); sp != "" {
			spinSamples++
			spinDump = sp
		}
		if consecutive >= 4 && time.Since(start) >= 250*time.Millisecond {
			select {
			case p := <-done:
				return Returned, "", p
			default:
			}
			var b strings.Builder
			for _, g := range Dump() {
				if g.Lib || strings.Contains(g.Stack, "/repo/") {
					b.WriteString(g.Stack)
					b.WriteString("\n\n")
				}
			}
			return Hung, b.String(), nil
		}
		if time.Since(start) > budget {
			// Not a deadline verdict: f has not returned, and on (nearly) every one of the many samples
			// taken over the whole budget a goroutine was busy inside the library's spinlock - it is not
			// waiting for anything that could still happen, it burns a core waiting for a lock that is
			// never released (livelock). Reported like a hang, with the spinning goroutine as witness.
			if samples >= 40 && spinSamples*10 >= samples*9 && budget >= 5*time.Second {
				return Hung, spinDump, nil
			}
			return TimedOut, "", nil
		}
		time.Sleep(20 * time.Millisecond)
	}
}

// spinning returns the stacks of goroutines that are running or runnable inside the library's
// spinlock (MutexWithSpinlock.Lock is a busy loop).
func spinning(gs []G) string {
	var b strings.Builder
	for _, g := range gs {
		if (strings.HasPrefix(g.State, "running") || strings.HasPrefix(g.State, "runnable")) && strings.Contains(g.Stack, "xsync.(*MutexWithSpinlock).Lock") {
			b.WriteString(g.Stack)
			b.WriteString("\n\n")
		}
	}
	return b.String()
}

var frameRe = regexp.MustCompile(`github\.com/samber/ro[^\s(]*?\.((?:\(\*?[A-Za-z0-9_]+(?:\[\.\.\.\])?\)\.)?[A-Za-z0-9_]+)`)

// BlockedSite names the innermost library function in which a goroutine of the
// dump is blocked (used to key hang findings by call site, not by scenario).
func BlockedSite(dump string) string {
	best := ""
	for _, blk := range strings.Split(dump, "\n\n") {
		m := hdr.FindStringSubmatch(blk)
		if m == nil {
			continue
		}
		st := m[2]
		if (strings.HasPrefix(st, "running") || strings.HasPrefix(st, "runnable")) && strings.Contains(blk, "xsync.(*MutexWithSpinlock).Lock") {
			st = "spinlock" // livelock witness of Call
		}
		if !(st == "spinlock" || strings.HasPrefix(st, "sync.Mutex.Lock") || strings.HasPrefix(st, "chan") || strings.HasPrefix(st, "select") || strings.HasPrefix(st, "semacquire") || strings.HasPrefix(st, "sync.")) {
			continue
		}
		for _, line := range strings.Split(blk, "\n") {
			if strings.HasPrefix(line, "\t") {
				continue
			}
			if strings.Contains(line, "github.com/samber/ro") && !strings.Contains(line, "internal/xsync") {
				if fm := frameRe.FindStringSubmatch(line); fm != nil {
					site := strings.ReplaceAll(fm[1], "[...]", "")
					site = strings.NewReplacer("(*", "", "(", "", ")", "").Replace(site)
					if strings.HasPrefix(st, "sync.Mutex.Lock") {
						return site + "(mutex)"
					}
					if best == "" {
						best = site + "(" + strings.Fields(st)[0] + ")"
					}
					break
				}
			}
		}
	}
	if best == "" {
		return "unknown-site"
	}
	return best
}
