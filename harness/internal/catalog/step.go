package catalog

import (
	"fmt"
	"strings"

	"verifharness/internal/rec"
	"verifharness/internal/src"
)

// Step is a small-step sequential specification of a multi-source operator:
// state × (source, notification) → outputs. It contains no locks, no
// subscribers, no goroutines.
type Step interface {
	// Live reports whether source i is subscribed and may still influence the output.
	Live(i int) bool
	// On consumes one notification of source i and returns the values it
	// produces and, possibly, the terminal it produces.
	On(i int, n src.Notif) (out []string, term *Term)
	// Done reports whether the output has terminated.
	Done() bool
	// Clone copies the state (for the interleaving search).
	Clone() Step
}

// SyncModel derives the expected trace for synchronous cold sources subscribed
// in order 0..n-1, each playing its whole legal script inside Subscribe.
func SyncModel(mk func(n int) Step, order []int) func(in []src.Script) Expect {
	return func(in []src.Script) Expect {
		st := mk(len(in))
		var e Expect
		for k := range in {
			i := k
			if order != nil {
				i = order[k]
			}
			sc := in[i]
			for _, n := range sc {
				if st.Done() || !st.Live(i) {
					break
				}
				out, t := st.On(i, n)
				e.Vals = append(e.Vals, out...)
				if t != nil {
					e.Term = *t
				}
			}
		}
		return e
	}
}

type base struct {
	n      int
	ended  []bool // source i delivered a terminal
	done   bool
	closed []bool // source i released by the operator
}

func newBase(n int) base {
	return base{n: n, ended: make([]bool, n), closed: make([]bool, n)}
}
func (b *base) Done() bool { return b.done }
func (b *base) Live(i int) bool {
	return !b.done && !b.ended[i] && !b.closed[i]
}
func (b *base) cloneBase() base {
	c := *b
	c.ended = append([]bool(nil), b.ended...)
	c.closed = append([]bool(nil), b.closed...)
	return c
}
func (b *base) fail() *Term {
	b.done = true
	t := tE(src.ErrSrc)
	return &t
}
func (b *base) complete() *Term {
	b.done = true
	t := tC
	return &t
}

// ---------------------------------------------------------------- merge

type mergeStep struct{ base }

func NewMerge(n int) Step        { return &mergeStep{newBase(n)} }
func (s *mergeStep) Clone() Step { c := *s; c.base = s.cloneBase(); return &c }
func (s *mergeStep) On(i int, n src.Notif) ([]string, *Term) {
	switch n.K {
	case rec.Next:
		return ri([]int{n.V}), nil
	case rec.Error:
		s.ended[i] = true
		return nil, s.fail()
	}
	s.ended[i] = true
	for _, e := range s.ended {
		if !e {
			return nil, nil
		}
	}
	return nil, s.complete()
}

// ---------------------------------------------------------------- concat

type concatStep struct {
	base
	cur int
}

func NewConcat(n int) Step            { return &concatStep{base: newBase(n)} }
func (s *concatStep) Clone() Step     { c := *s; c.base = s.cloneBase(); return &c }
func (s *concatStep) Live(i int) bool { return !s.done && i == s.cur && !s.ended[i] }
func (s *concatStep) On(i int, n src.Notif) ([]string, *Term) {
	switch n.K {
	case rec.Next:
		return ri([]int{n.V}), nil
	case rec.Error:
		s.ended[i] = true
		return nil, s.fail()
	}
	s.ended[i] = true
	s.cur++
	if s.cur >= s.n {
		return nil, s.complete()
	}
	return nil, nil
}

// ---------------------------------------------------------------- combineLatest

type combineStep struct {
	base
	latest []*int
	slice  bool // render as slice (CombineLatestAll) instead of tuple
}

func NewCombine(n int) Step { return &combineStep{base: newBase(n), latest: make([]*int, n)} }
func NewCombineSlice(n int) Step {
	return &combineStep{base: newBase(n), latest: make([]*int, n), slice: true}
}
func (s *combineStep) Clone() Step {
	c := *s
	c.base = s.cloneBase()
	c.latest = append([]*int(nil), s.latest...)
	return &c
}
func tuple(vs []int, slice bool) string {
	parts := make([]string, len(vs))
	for i, v := range vs {
		parts[i] = fmt.Sprint(v)
	}
	if slice {
		return "[" + strings.Join(parts, " ") + "]"
	}
	return "{" + strings.Join(parts, " ") + "}"
}
func (s *combineStep) On(i int, n src.Notif) ([]string, *Term) {
	switch n.K {
	case rec.Next:
		v := n.V
		s.latest[i] = &v
		vs := make([]int, s.n)
		for k, p := range s.latest {
			if p == nil {
				return nil, nil
			}
			vs[k] = *p
		}
		return []string{tuple(vs, s.slice)}, nil
	case rec.Error:
		s.ended[i] = true
		return nil, s.fail()
	}
	s.ended[i] = true
	for _, e := range s.ended {
		if !e {
			return nil, nil
		}
	}
	return nil, s.complete()
}

// ---------------------------------------------------------------- zip

type zipStep struct {
	base
	q     [][]int
	slice bool
}

func NewZip(n int) Step      { return &zipStep{base: newBase(n), q: make([][]int, n)} }
func NewZipSlice(n int) Step { return &zipStep{base: newBase(n), q: make([][]int, n), slice: true} }
func (s *zipStep) Clone() Step {
	c := *s
	c.base = s.cloneBase()
	c.q = make([][]int, len(s.q))
	for i := range s.q {
		c.q[i] = append([]int(nil), s.q[i]...)
	}
	return &c
}
func (s *zipStep) On(i int, n src.Notif) ([]string, *Term) {
	switch n.K {
	case rec.Next:
		s.q[i] = append(s.q[i], n.V)
		for _, q := range s.q {
			if len(q) == 0 {
				return nil, nil
			}
		}
		vs := make([]int, s.n)
		for k := range s.q {
			vs[k] = s.q[k][0]
			s.q[k] = s.q[k][1:]
		}
		out := []string{tuple(vs, s.slice)}
		for k := range s.q {
			if s.ended[k] && len(s.q[k]) == 0 {
				return out, s.complete()
			}
		}
		return out, nil
	case rec.Error:
		s.ended[i] = true
		return nil, s.fail()
	}
	s.ended[i] = true
	if len(s.q[i]) == 0 {
		return nil, s.complete()
	}
	return nil, nil
}

// ---------------------------------------------------------------- race

type raceStep struct {
	base
	winner int
}

func NewRace(n int) Step        { return &raceStep{base: newBase(n), winner: -1} }
func (s *raceStep) Clone() Step { c := *s; c.base = s.cloneBase(); return &c }
func (s *raceStep) Live(i int) bool {
	return !s.done && !s.ended[i] && (s.winner == -1 || s.winner == i)
}
func (s *raceStep) On(i int, n src.Notif) ([]string, *Term) {
	if s.winner == -1 {
		s.winner = i
	}
	if s.winner != i {
		return nil, nil
	}
	switch n.K {
	case rec.Next:
		return ri([]int{n.V}), nil
	case rec.Error:
		s.ended[i] = true
		return nil, s.fail()
	}
	s.ended[i] = true
	return nil, s.complete()
}

// ---------------------------------------------------------------- takeUntil / skipUntil
// source 0 = main, source 1 = signal. Signal errors and completions are
// ignored (pinned by TestOperatorFilterTakeUntil / SkipUntil).

type untilStep struct {
	base
	take  bool
	ready bool
}

func NewTakeUntil(n int) Step    { return &untilStep{base: newBase(2), take: true} }
func NewSkipUntil(n int) Step    { return &untilStep{base: newBase(2)} }
func (s *untilStep) Clone() Step { c := *s; c.base = s.cloneBase(); return &c }
func (s *untilStep) On(i int, n src.Notif) ([]string, *Term) {
	if i == 1 {
		if n.K == rec.Next {
			s.ready = true
			if s.take {
				return nil, s.complete()
			}
		} else {
			s.ended[1] = true
		}
		return nil, nil
	}
	switch n.K {
	case rec.Next:
		if s.take != s.ready { // take: forward until ready; skip: forward once ready
			return ri([]int{n.V}), nil
		}
		return nil, nil
	case rec.Error:
		s.ended[0] = true
		return nil, s.fail()
	}
	s.ended[0] = true
	return nil, s.complete()
}

// ---------------------------------------------------------------- bufferWhen (0 = source, 1 = boundary)

type bufferStep struct {
	base
	buf []int
}

func NewBufferWhen(n int) Step { return &bufferStep{base: newBase(2)} }
func (s *bufferStep) Clone() Step {
	c := *s
	c.base = s.cloneBase()
	c.buf = append([]int(nil), s.buf...)
	return &c
}
func (s *bufferStep) flush() []string {
	b := s.buf
	if b == nil {
		b = []int{}
	}
	s.buf = nil
	return []string{rec.Render(b)}
}
func (s *bufferStep) On(i int, n src.Notif) ([]string, *Term) {
	switch {
	case n.K == rec.Error:
		s.ended[i] = true
		return nil, s.fail()
	case n.K == rec.Complete:
		s.ended[i] = true
		return s.flush(), s.complete()
	case i == 0:
		s.buf = append(s.buf, n.V)
		return nil, nil
	}
	return s.flush(), nil
}

// ---------------------------------------------------------------- windowWhen flattened by MergeAll (0 = source, 1 = boundary)

type windowStep struct{ base }

func NewWindowMerged(n int) Step  { return &windowStep{newBase(2)} }
func (s *windowStep) Clone() Step { c := *s; c.base = s.cloneBase(); return &c }
func (s *windowStep) On(i int, n src.Notif) ([]string, *Term) {
	switch {
	case n.K == rec.Error:
		s.ended[i] = true
		return nil, s.fail()
	case n.K == rec.Complete:
		s.ended[i] = true
		return nil, s.complete()
	case i == 0:
		return ri([]int{n.V}), nil
	}
	return nil, nil
}

// windowWhen with the windows marked (0 = source, 1 = boundary): a boundary value completes window k and
// opens window k+1; a terminal of either input completes the current window and opens none.
type windowMarkedStep struct {
	base
	k int
}

func NewWindowMarked(n int) Step        { return &windowMarkedStep{base: newBase(2)} }
func (s *windowMarkedStep) Clone() Step { c := *s; c.base = s.cloneBase(); return &c }
func (s *windowMarkedStep) On(i int, n src.Notif) ([]string, *Term) {
	switch {
	case n.K == rec.Error:
		s.ended[i] = true
		return ri([]int{-200 - s.k}), s.fail()
	case n.K == rec.Complete:
		s.ended[i] = true
		return ri([]int{-200 - s.k}), s.complete()
	case i == 0:
		return ri([]int{n.V}), nil
	}
	s.k++
	return ri([]int{-200 - (s.k - 1), -100 - s.k}), nil
}

// ---------------------------------------------------------------- sampleWhen (0 = source, 1 = tick)

type sampleStep struct {
	base
	last int
	has  bool
}

func NewSampleWhen(n int) Step    { return &sampleStep{base: newBase(2)} }
func (s *sampleStep) Clone() Step { c := *s; c.base = s.cloneBase(); return &c }
func (s *sampleStep) On(i int, n src.Notif) ([]string, *Term) {
	switch {
	case n.K == rec.Error:
		s.ended[i] = true
		return nil, s.fail()
	case n.K == rec.Complete:
		s.ended[i] = true
		return nil, s.complete()
	case i == 0:
		s.last, s.has = n.V, true
		return nil, nil
	}
	if s.has {
		s.has = false
		return ri([]int{s.last}), nil
	}
	return nil, nil
}

// ---------------------------------------------------------------- throttleWhen (0 = source, 1 = tick)
// As implemented and pinned by its tests: a tick opens the gate, the next source
// value passes and closes it.

type throttleStep struct {
	base
	open bool
}

func NewThrottleWhen(n int) Step    { return &throttleStep{base: newBase(2)} }
func (s *throttleStep) Clone() Step { c := *s; c.base = s.cloneBase(); return &c }
func (s *throttleStep) On(i int, n src.Notif) ([]string, *Term) {
	switch {
	case n.K == rec.Error:
		s.ended[i] = true
		return nil, s.fail()
	case n.K == rec.Complete:
		s.ended[i] = true
		return nil, s.complete()
	case i == 0:
		if s.open {
			s.open = false
			return ri([]int{n.V}), nil
		}
		return nil, nil
	}
	s.open = true
	return nil, nil
}

// ---------------------------------------------------------------- sequenceEqual (zip of 2, compare)

type seqEqStep struct {
	base
	z *zipStep
}

func NewSequenceEqual(n int) Step {
	return &seqEqStep{base: newBase(2), z: NewZip(2).(*zipStep)}
}
func (s *seqEqStep) Clone() Step {
	c := *s
	c.base = s.cloneBase()
	c.z = s.z.Clone().(*zipStep)
	return &c
}
func (s *seqEqStep) Live(i int) bool { return !s.done && s.z.Live(i) }
func (s *seqEqStep) On(i int, n src.Notif) ([]string, *Term) {
	// peek the pair the zip would emit
	var pair []int
	if n.K == rec.Next {
		ok := true
		for k, q := range s.z.q {
			if k != i && len(q) == 0 {
				ok = false
			}
		}
		if ok {
			pair = make([]int, 2)
			for k, q := range s.z.q {
				if k == i {
					if len(q) > 0 {
						pair[k] = q[0]
					} else {
						pair[k] = n.V
					}
				} else {
					pair[k] = q[0]
				}
			}
		}
	}
	_, t := s.z.On(i, n)
	if pair != nil && pair[0] != pair[1] {
		s.done = true
		tt := tC
		return rs(false), &tt
	}
	if t != nil {
		s.done = true
		if t.K == rec.Complete {
			return rs(true), t
		}
		return nil, t
	}
	return nil, nil
}
