package catalog

import (
	"time"

	"github.com/samber/ro"
	"verifharness/internal/rec"
	"verifharness/internal/src"
)

func cEntry[T any](name string, flags Flags, vals []any, term Term, mk func(b *B) ro.Observable[T], exports ...string) {
	var model func([]src.Script) Expect
	if vals != nil || term.K != rec.Next || !flags.Has(NonDet) {
		exp := Expect{Vals: rs(vals...), Term: term}
		model = func([]src.Script) Expect { return exp }
	}
	if flags.Has(NonDet) {
		model = nil
	}
	reg(&Entry{Name: name, Build: func(b *B) Pipeline { return P(mk(b)) }, Model: model, Flags: flags | Creation, Exports: exports})
}

func init() {
	cEntry("Of", 0, []any{1, 2, 3}, tC, func(b *B) ro.Observable[int] { return ro.Of(1, 2, 3) })
	cEntry("Of()", 0, []any{}, tC, func(b *B) ro.Observable[int] { return ro.Of[int]() }, "Of")
	cEntry("Just", 0, []any{1, 2, 3}, tC, func(b *B) ro.Observable[int] { return ro.Just(1, 2, 3) })
	cEntry("Start", 0, []any{7}, tC, func(b *B) ro.Observable[int] { return ro.Start(func() int { b.hit("factory"); return 7 }) })
	cEntry("Range(0,3)", 0, []any{int64(0), int64(1), int64(2)}, tC, func(b *B) ro.Observable[int64] { return ro.Range(0, 3) }, "Range")
	cEntry("Range(3,0)", 0, []any{int64(3), int64(2), int64(1)}, tC, func(b *B) ro.Observable[int64] { return ro.Range(3, 0) }, "Range")
	cEntry("Range(2,2)", 0, []any{}, tC, func(b *B) ro.Observable[int64] { return ro.Range(2, 2) }, "Range")
	cEntry("Range(-1,1)", 0, []any{int64(-1), int64(0)}, tC, func(b *B) ro.Observable[int64] { return ro.Range(-1, 1) }, "Range")
	cEntry("RangeWithStep(0,1,0.5)", 0, []any{0.0, 0.5}, tC, func(b *B) ro.Observable[float64] { return ro.RangeWithStep(0, 1, 0.5) }, "RangeWithStep")
	cEntry("RangeWithStep(2,0,1)", 0, []any{2.0, 1.0}, tC, func(b *B) ro.Observable[float64] { return ro.RangeWithStep(2, 0, 1) }, "RangeWithStep")
	// descending / ascending ranges whose span is no multiple of the step: the last partial step counts
	cEntry("RangeWithStep(10,1,2)", 0, []any{10.0, 8.0, 6.0, 4.0, 2.0}, tC, func(b *B) ro.Observable[float64] { return ro.RangeWithStep(10, 1, 2) }, "RangeWithStep")
	cEntry("RangeWithStep(0,-1,1.5)", 0, []any{0.0}, tC, func(b *B) ro.Observable[float64] { return ro.RangeWithStep(0, -1, 1.5) }, "RangeWithStep")
	cEntry("RangeWithStep(1,10,4)", 0, []any{1.0, 5.0, 9.0}, tC, func(b *B) ro.Observable[float64] { return ro.RangeWithStep(1, 10, 4) }, "RangeWithStep")
	cEntry("RangeWithStep(-1,-2.5,0.5)", 0, []any{-1.0, -1.5, -2.0}, tC, func(b *B) ro.Observable[float64] { return ro.RangeWithStep(-1, -2.5, 0.5) }, "RangeWithStep")
	cEntry("RangeWithStep(1,1,1)", 0, []any{}, tC, func(b *B) ro.Observable[float64] { return ro.RangeWithStep(1, 1, 1) }, "RangeWithStep")
	cEntry("Repeat(7,3)", 0, []any{7, 7, 7}, tC, func(b *B) ro.Observable[int] { return ro.Repeat(7, 3) }, "Repeat")
	cEntry("Repeat(7,0)", 0, []any{}, tC, func(b *B) ro.Observable[int] { return ro.Repeat(7, 0) }, "Repeat")
	cEntry("FromSlice", 0, []any{1, 2, 3}, tC, func(b *B) ro.Observable[int] { return ro.FromSlice([]int{1}, []int{}, []int{2, 3}) })
	cEntry("FromSlice()", 0, []any{}, tC, func(b *B) ro.Observable[int] { return ro.FromSlice[int]() }, "FromSlice")
	cEntry("Empty", 0, []any{}, tC, func(b *B) ro.Observable[int] { return ro.Empty[int]() })
	cEntry("Throw", 0, []any{}, tE(ErrUser), func(b *B) ro.Observable[int] { return ro.Throw[int](ErrUser) })
	cEntry("Defer(Just)", PassThrough, []any{1, 2}, tC, func(b *B) ro.Observable[int] {
		return ro.Defer(func() ro.Observable[int] { b.hit("factory"); return ro.Just(1, 2) })
	}, "Defer")
	cEntry("Future(ok)", Async, []any{5}, tC, func(b *B) ro.Observable[int] {
		return ro.Future(func() (int, error) {
			if err := b.hit("factory"); err != nil {
				return 0, err
			}
			return 5, nil
		})
	}, "Future")
	cEntry("Future(err)", Async, []any{}, tE(ErrUser), func(b *B) ro.Observable[int] {
		return ro.Future(func() (int, error) { b.hit("factory"); return 0, ErrUser })
	}, "Future")
	cEntry("Timer(1ms)", TimeDriven|Blocks, []any{time.Millisecond}, tC, func(b *B) ro.Observable[time.Duration] { return ro.Timer(time.Millisecond) }, "Timer")
	cEntry("Interval(1ms)+Take(3)", TimeDriven|Async|MultiFeed, []any{int64(0), int64(1), int64(2)}, tC, func(b *B) ro.Observable[int64] {
		return ro.Take[int64](3)(ro.Interval(time.Millisecond))
	}, "Interval")
	cEntry("IntervalWithInitial(1ms,1ms)+Take(3)", TimeDriven|Async|MultiFeed, []any{int64(0), int64(1), int64(2)}, tC, func(b *B) ro.Observable[int64] {
		return ro.Take[int64](3)(ro.IntervalWithInitial(time.Millisecond, time.Millisecond))
	}, "IntervalWithInitial")
	cEntry("IntervalWithInitial(0,1ms)+Take(3)", TimeDriven|Async|MultiFeed, []any{int64(0), int64(1), int64(2)}, tC, func(b *B) ro.Observable[int64] {
		return ro.Take[int64](3)(ro.IntervalWithInitial(0, time.Millisecond))
	}, "IntervalWithInitial")
	cEntry("RangeWithInterval(0,3,1ms)", TimeDriven|Async|MultiFeed, []any{int64(0), int64(1), int64(2)}, tC, func(b *B) ro.Observable[int64] {
		return ro.RangeWithInterval(0, 3, time.Millisecond)
	}, "RangeWithInterval")
	cEntry("RangeWithInterval(3,1,1ms)", TimeDriven|Async|MultiFeed, []any{int64(3), int64(2)}, tC, func(b *B) ro.Observable[int64] {
		return ro.RangeWithInterval(3, 1, time.Millisecond)
	}, "RangeWithInterval")
	cEntry("RangeWithStepAndInterval(0,1,0.5,1ms)", TimeDriven|Async|MultiFeed, []any{0.0, 0.5}, tC, func(b *B) ro.Observable[float64] {
		return ro.RangeWithStepAndInterval(0, 1, 0.5, time.Millisecond)
	}, "RangeWithStepAndInterval")
	cEntry("RepeatWithInterval(7,3,1ms)", TimeDriven|Async|MultiFeed, []any{7, 7, 7}, tC, func(b *B) ro.Observable[int] {
		return ro.RepeatWithInterval(7, 3, time.Millisecond)
	}, "RepeatWithInterval")
	cEntry("FromChannel", Async, []any{1, 2, 3}, tC, func(b *B) ro.Observable[int] {
		return ro.Defer(func() ro.Observable[int] {
			ch := make(chan int, 3)
			ch <- 1
			ch <- 2
			ch <- 3
			close(ch)
			return ro.FromChannel((<-chan int)(ch))
		})
	}, "FromChannel")
	cEntry("RandIntN(5,4)", NonDet, nil, Term{}, func(b *B) ro.Observable[int] { return ro.RandIntN(5, 4) }, "RandIntN")
	cEntry("RandFloat64(4)", NonDet, nil, Term{}, func(b *B) ro.Observable[float64] { return ro.RandFloat64(4) }, "RandFloat64")
}
