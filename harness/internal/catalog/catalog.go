// Package catalog is the machine-readable catalogue of samber/ro operators in
// a normalised form (int sources, rendered outputs) together with executable
// reference models written from the operators' documentation.
package catalog

import (
	"context"
	"errors"
	"fmt"
	"math"
	"sort"
	"strconv"
	"strings"
	"sync"

	"github.com/samber/ro"
	"verifharness/internal/rec"
	"verifharness/internal/src"
)

// Term is an expected terminal notification.
type Term struct {
	K   rec.Kind // rec.Next = none
	Is  error    // errors.Is target (nil = don't care)
	Has string   // substring of the message ("" = don't care)
}

// Expect is the expected trace of a pipeline.
type Expect struct {
	Vals []string
	Term Term
	// Unordered: values may arrive in any order (map iteration etc.) — unused so far.
}

func (e Expect) String() string {
	s := strings.Join(e.Vals, " ")
	switch e.Term.K {
	case rec.Complete:
		s += " C"
	case rec.Error:
		m := e.Term.Has
		if e.Term.Is != nil {
			m = e.Term.Is.Error()
		}
		s += " E(" + m + ")"
	}
	return strings.TrimSpace(s)
}

// Match compares an observed trace with the expectation; "" = match.
func (e Expect) Match(ev []rec.Event) string {
	var vals []rec.Event
	var terms []rec.Event
	for _, x := range ev {
		if x.Kind == rec.Next {
			if len(terms) > 0 {
				return "value after terminal"
			}
			vals = append(vals, x)
		} else {
			terms = append(terms, x)
		}
	}
	if len(vals) != len(e.Vals) {
		return fmt.Sprintf("expected %d values %v, observed %d %v", len(e.Vals), e.Vals, len(vals), renderVals(vals))
	}
	for i := range vals {
		if vals[i].Val != e.Vals[i] && !approxEqual(e.Vals[i], vals[i].Val) {
			return fmt.Sprintf("value #%d: expected %s, observed %s (expected %v, observed %v)", i, e.Vals[i], vals[i].Val, e.Vals, renderVals(vals))
		}
	}
	if e.Term.K == rec.Next {
		if len(terms) != 0 {
			return fmt.Sprintf("expected no terminal, observed %s", terms[0].String())
		}
		return ""
	}
	if len(terms) == 0 {
		return fmt.Sprintf("expected terminal %s, observed none", e.Term.K)
	}
	if len(terms) > 1 {
		return "more than one terminal"
	}
	t := terms[0]
	if t.Kind != e.Term.K {
		return fmt.Sprintf("expected terminal %s, observed %s", e.Term.K, t.String())
	}
	if t.Kind == rec.Error {
		if e.Term.Is != nil && !errors.Is(t.Err, e.Term.Is) {
			return fmt.Sprintf("expected error matching %q, observed %q", e.Term.Is.Error(), t.ErrS)
		}
		if e.Term.Has != "" && !strings.Contains(t.ErrS, e.Term.Has) {
			return fmt.Sprintf("expected error containing %q, observed %q", e.Term.Has, t.ErrS)
		}
	}
	return ""
}

// approxEqual: an expectation written "~x" matches a float within 1e-9 relative
// error (decimal scaling in floating point is not bit-exact by nature).
func approxEqual(want, got string) bool {
	if !strings.HasPrefix(want, "~") {
		return false
	}
	w, err1 := strconv.ParseFloat(want[1:], 64)
	g, err2 := strconv.ParseFloat(got, 64)
	if err1 != nil || err2 != nil {
		return false
	}
	d := math.Abs(w - g)
	return d <= 1e-9*math.Max(1, math.Abs(w))
}

func renderVals(ev []rec.Event) []string {
	out := make([]string, len(ev))
	for i, e := range ev {
		out[i] = e.Val
	}
	return out
}

// B is the per-build environment handed to an entry.
type B struct {
	Srcs []ro.Observable[int]
	// Hit is called at the start of every user-supplied callback with the
	// position name. It may panic (fault injection) or return an error that
	// error-aware callbacks return.
	Hit func(pos string) error
	// Notes collects side observations of user callbacks (Tap etc.).
	Notes *[]string
	// D scales the durations of time-driven entries (default 1ms).
}

func (b *B) S(i int) ro.Observable[int] {
	if i >= len(b.Srcs) {
		panic(fmt.Sprintf("catalog: source %d requested, %d given", i, len(b.Srcs)))
	}
	return b.Srcs[i]
}

func (b *B) hit(pos string) error {
	if b != nil && b.Hit != nil {
		return b.Hit(pos)
	}
	return nil
}

func (b *B) note(s string) {
	if b != nil && b.Notes != nil {
		*b.Notes = append(*b.Notes, s)
	}
}

var (
	midMu      sync.Mutex
	midApplied = map[string]bool{}
)

// Mid derives the mid-pipeline marker context and remembers the item tag of
// the context it was applied to (C09 checks that it stays visible downstream).
func Mid(ctx context.Context) context.Context {
	if ctx == nil {
		return nil
	}
	if t := ctx.Value(rec.ItemKey); t != nil {
		midMu.Lock()
		midApplied[fmt.Sprint(t)] = true
		midMu.Unlock()
	}
	return context.WithValue(ctx, rec.MidKey, "mid")
}

// MidApplied returns and resets the set of item tags Mid was applied to.
func MidApplied() map[string]bool {
	midMu.Lock()
	defer midMu.Unlock()
	out := midApplied
	midApplied = map[string]bool{}
	return out
}

// Pipeline is a built, untyped pipeline.
type Pipeline interface {
	// Subscribe subscribes a recorder. wrapped selects an observer made with
	// ro.NewObserverWithContext instead of the hand-written raw observer.
	Subscribe(ctx context.Context, r *rec.Rec, wrapped bool) ro.Subscription
	// Counted appends a library operator with unsynchronised per-subscription state (Count) to
	// the pipeline, whatever its element type: if the pipeline delivers from two goroutines at
	// once, the conflicting accesses are in library memory (C13).
	Counted() Pipeline
}

func (p pipe[T]) Counted() Pipeline { return P(ro.Count[T]()(p.obs)) }

type pipe[T any] struct{ obs ro.Observable[T] }

func (p pipe[T]) Subscribe(ctx context.Context, r *rec.Rec, wrapped bool) ro.Subscription {
	var o ro.Observer[T]
	if wrapped {
		o = rec.Wrapped[T](r)
	} else {
		o = rec.Raw[T](r)
	}
	if ctx == nil {
		return p.obs.Subscribe(o)
	}
	return p.obs.SubscribeWithContext(ctx, o)
}

// P wraps a typed observable as a Pipeline.
func P[T any](obs ro.Observable[T]) Pipeline { return pipe[T]{obs} }

type Flags uint32

const (
	MultiFeed   Flags = 1 << iota // can be fed from several goroutines
	TimeDriven                    // uses timers; exact traces are not compared
	HandOff                       // moves delivery to another goroutine
	Blocks                        // waits inside Subscribe for its source(s) to end
	PassThrough                   // hands its destination to the upstream Subscribe
	Stores                        // keeps notifications (ctx of one of the contributing notifications)
	NoChain                       // not usable inside random chains
	Async                         // delivery may continue after Subscribe returned even with sync sources
	CtxExempt                     // replaces the context by definition (ContextReset, DefaultIfEmptyWithContext)
	Resub                         // re-subscribes its source by definition
	Creation                      // takes no source
	NonDet                        // output values are not deterministic (random, timestamps)
	NoSrcOnZero                   // documented: source never subscribed (Take(0), TakeLast(0), RepeatWith(0))
	KeepsSource                   // hot by configuration: keeps its upstream subscription when the last subscriber leaves (ShareReplay)
	Hot                           // shares one upstream execution between subscribers (Share*, connectable)
	AggCtx                        // emits derived values at completion (ctx of the completion or any contributing item)
)

func (f Flags) Has(x Flags) bool { return f&x != 0 }

// Entry is one catalogue entry.
type Entry struct {
	Name   string
	Family string
	NSrc   int
	// Op is set for chainable int→int operators.
	Op func(b *B) func(ro.Observable[int]) ro.Observable[int]
	// Build builds the pipeline (derived from Op when nil).
	Build func(b *B) Pipeline
	// IntObs is set for entries without Op whose output is an observable of int
	// (multi-source operators): lets a scenario put further operators downstream.
	IntObs func(b *B) ro.Observable[int]
	// Model computes the expected trace from the legal prefixes of the source
	// scripts (nil = no exact model).
	Model func(in []src.Script) Expect
	// Step is the small-step specification for multi-source operators (C05).
	Step func(n int) Step
	// Order is the order in which the operator subscribes its sources (nil = 0..n-1).
	Order []int
	Flags Flags
	// Exports lists the exported ro identifiers this entry exercises.
	Exports []string
}

func (e *Entry) Pipeline(b *B) Pipeline {
	if e.Build != nil {
		return e.Build(b)
	}
	return P(e.Op(b)(b.S(0)))
}

var all []*Entry
var byName = map[string]*Entry{}

func reg(e *Entry) {
	if _, dup := byName[e.Name]; dup {
		panic("duplicate catalogue entry " + e.Name)
	}
	if e.Family == "" {
		e.Family = e.Name
		if i := strings.IndexAny(e.Name, "(/"); i > 0 {
			e.Family = e.Name[:i]
		}
	}
	if len(e.Exports) == 0 {
		e.Exports = []string{e.Family}
	}
	if e.NSrc == 0 && !e.Flags.Has(Creation) {
		e.NSrc = 1
	}
	all = append(all, e)
	byName[e.Name] = e
}

// All returns every entry, sorted by name.
func All() []*Entry {
	out := append([]*Entry(nil), all...)
	sort.Slice(out, func(i, j int) bool { return out[i].Name < out[j].Name })
	return out
}

func Get(name string) *Entry { return byName[name] }

// Chainable returns the int→int single-source entries usable in random chains.
func Chainable() []*Entry {
	var out []*Entry
	for _, e := range All() {
		if e.Op != nil && e.NSrc == 1 && !e.Flags.Has(NoChain) {
			out = append(out, e)
		}
	}
	return out
}

// ------------------------------------------------------------------ model helpers

func fwd(end rec.Kind) Term {
	switch end {
	case rec.Error:
		return Term{K: rec.Error, Is: src.ErrSrc}
	case rec.Complete:
		return Term{K: rec.Complete}
	}
	return Term{}
}

var tC = Term{K: rec.Complete}

func tE(err error) Term { return Term{K: rec.Error, Is: err} }

func rs(vs ...any) []string {
	out := make([]string, len(vs))
	for i, v := range vs {
		out[i] = rec.Render(v)
	}
	return out
}

func ri(vs []int) []string {
	out := make([]string, len(vs))
	for i, v := range vs {
		out[i] = rec.Render(v)
	}
	return out
}

// m1 lifts a single-source model.
func m1(f func(vs []int, end rec.Kind) ([]string, Term)) func([]src.Script) Expect {
	return func(in []src.Script) Expect {
		vs, end := in[0].Values()
		out, t := f(vs, end)
		return Expect{Vals: out, Term: t}
	}
}

// mmap: value-wise mapping with forwarded terminal.
func mmap(f func(x, i int) any) func([]src.Script) Expect {
	return m1(func(vs []int, end rec.Kind) ([]string, Term) {
		out := make([]string, len(vs))
		for i, v := range vs {
			out[i] = rec.Render(f(v, i))
		}
		return out, fwd(end)
	})
}

// mmapApprox: value-wise float mapping compared within 1e-9 relative error.
func mmapApprox(f func(x, i int) float64) func([]src.Script) Expect {
	return m1(func(vs []int, end rec.Kind) ([]string, Term) {
		out := make([]string, len(vs))
		for i, v := range vs {
			out[i] = "~" + strconv.FormatFloat(f(v, i), 'g', -1, 64)
		}
		return out, fwd(end)
	})
}

// mfilter: keep values satisfying pred, terminal forwarded.
func mfilter(pred func(x, i int) bool) func([]src.Script) Expect {
	return m1(func(vs []int, end rec.Kind) ([]string, Term) {
		var out []string
		for i, v := range vs {
			if pred(v, i) {
				out = append(out, rec.Render(v))
			}
		}
		return out, fwd(end)
	})
}

// magg: emits one derived value on completion.
func magg(f func(vs []int) []any) func([]src.Script) Expect {
	return m1(func(vs []int, end rec.Kind) ([]string, Term) {
		if end == rec.Complete {
			return rs(f(vs)...), tC
		}
		return nil, fwd(end)
	})
}

// ErrUser is the sentinel returned by error-aware user callbacks / thrown by factories.
var ErrUser = errors.New("user-error")
