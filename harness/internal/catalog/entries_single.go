package catalog

import (
	"context"
	"errors"
	"fmt"
	"math"
	"strings"
	"time"

	"github.com/samber/ro"
	"verifharness/internal/rec"
	"verifharness/internal/src"
)

type op = func(ro.Observable[int]) ro.Observable[int]

func opEntry(name string, flags Flags, model func([]src.Script) Expect, mk func(b *B) op, exports ...string) {
	reg(&Entry{Name: name, Op: mk, Model: model, Flags: flags, Exports: exports})
}

func bEntry[T any](name string, flags Flags, model func([]src.Script) Expect, mk func(b *B) ro.Observable[T], exports ...string) {
	reg(&Entry{Name: name, Build: func(b *B) Pipeline { return P(mk(b)) }, Model: model, Flags: flags, Exports: exports})
}

var errMap = errors.New("map-error")
var errEmpty = errors.New("empty-error")

func init() {
	// ------------------------------------------------------------ Map family
	f := func(x int) int { return x*10 + 1 }
	g := func(x, i int) int { return x*10 + i }
	opEntry("Map", 0, mmap(func(x, i int) any { return f(x) }), func(b *B) op {
		return ro.Map(func(x int) int { b.hit("project"); return f(x) })
	})
	opEntry("MapWithContext", 0, mmap(func(x, i int) any { return f(x) }), func(b *B) op {
		return ro.MapWithContext(func(ctx context.Context, x int) (context.Context, int) { b.hit("project"); return Mid(ctx), f(x) })
	})
	opEntry("MapI", 0, mmap(func(x, i int) any { return g(x, i) }), func(b *B) op {
		return ro.MapI(func(x int, i int64) int { b.hit("project"); return g(x, int(i)) })
	})
	opEntry("MapIWithContext", 0, mmap(func(x, i int) any { return g(x, i) }), func(b *B) op {
		return ro.MapIWithContext(func(ctx context.Context, x int, i int64) (context.Context, int) {
			b.hit("project")
			return Mid(ctx), g(x, int(i))
		})
	})
	opEntry("MapTo", 0, mmap(func(x, i int) any { return 7 }), func(b *B) op { return ro.MapTo[int](7) })

	// MapErr: error on value 2
	mapErrModel := func(h func(x, i int) int) func([]src.Script) Expect {
		return m1(func(vs []int, end rec.Kind) ([]string, Term) {
			var out []string
			for i, v := range vs {
				if v == 2 {
					return out, tE(errMap)
				}
				out = append(out, rec.Render(h(v, i)))
			}
			return out, fwd(end)
		})
	}
	opEntry("MapErr", 0, mapErrModel(func(x, i int) int { return f(x) }), func(b *B) op {
		return ro.MapErr(func(x int) (int, error) {
			if err := b.hit("project"); err != nil {
				return 0, err
			}
			if x == 2 {
				return 0, errMap
			}
			return f(x), nil
		})
	})
	opEntry("MapErrWithContext", 0, mapErrModel(func(x, i int) int { return f(x) }), func(b *B) op {
		return ro.MapErrWithContext(func(ctx context.Context, x int) (int, context.Context, error) {
			if err := b.hit("project"); err != nil {
				return 0, ctx, err
			}
			if x == 2 {
				return 0, Mid(ctx), errMap
			}
			return f(x), Mid(ctx), nil
		})
	})
	opEntry("MapErrI", 0, mapErrModel(g), func(b *B) op {
		return ro.MapErrI(func(x int, i int64) (int, error) {
			if err := b.hit("project"); err != nil {
				return 0, err
			}
			if x == 2 {
				return 0, errMap
			}
			return g(x, int(i)), nil
		})
	})
	opEntry("MapErrIWithContext", 0, mapErrModel(g), func(b *B) op {
		return ro.MapErrIWithContext(func(ctx context.Context, x int, i int64) (int, context.Context, error) {
			if err := b.hit("project"); err != nil {
				return 0, ctx, err
			}
			if x == 2 {
				return 0, Mid(ctx), errMap
			}
			return g(x, int(i)), Mid(ctx), nil
		})
	})

	// ------------------------------------------------------------ Scan / Reduce
	scanModel := func(h func(acc, x, i int) int) func([]src.Script) Expect {
		return m1(func(vs []int, end rec.Kind) ([]string, Term) {
			acc := 100
			var out []string
			for i, v := range vs {
				acc = h(acc, v, i)
				out = append(out, rec.Render(acc))
			}
			return out, fwd(end)
		})
	}
	sum := func(acc, x, i int) int { return acc + x }
	sumI := func(acc, x, i int) int { return acc + x*(i+1) }
	opEntry("Scan", 0, scanModel(sum), func(b *B) op {
		return ro.Scan(func(acc, x int) int { b.hit("reduce"); return acc + x }, 100)
	})
	opEntry("ScanWithContext", 0, scanModel(sum), func(b *B) op {
		return ro.ScanWithContext(func(ctx context.Context, acc, x int) (context.Context, int) {
			b.hit("reduce")
			return Mid(ctx), acc + x
		}, 100)
	})
	opEntry("ScanI", 0, scanModel(sumI), func(b *B) op {
		return ro.ScanI(func(acc, x int, i int64) int { b.hit("reduce"); return sumI(acc, x, int(i)) }, 100)
	})
	opEntry("ScanIWithContext", 0, scanModel(sumI), func(b *B) op {
		return ro.ScanIWithContext(func(ctx context.Context, acc, x int, i int64) (context.Context, int) {
			b.hit("reduce")
			return Mid(ctx), sumI(acc, x, int(i))
		}, 100)
	})
	redModel := func(h func(acc, x, i int) int) func([]src.Script) Expect {
		return magg(func(vs []int) []any {
			acc := 100
			for i, v := range vs {
				acc = h(acc, v, i)
			}
			return []any{acc}
		})
	}
	opEntry("Reduce", Stores|AggCtx, redModel(sum), func(b *B) op {
		return ro.Reduce(func(acc, x int) int { b.hit("reduce"); return acc + x }, 100)
	})
	opEntry("ReduceWithContext", Stores|AggCtx, redModel(sum), func(b *B) op {
		return ro.ReduceWithContext(func(ctx context.Context, acc, x int) (context.Context, int) {
			b.hit("reduce")
			return Mid(ctx), acc + x
		}, 100)
	})
	opEntry("ReduceI", Stores|AggCtx, redModel(sumI), func(b *B) op {
		return ro.ReduceI(func(acc, x int, i int64) int { b.hit("reduce"); return sumI(acc, x, int(i)) }, 100)
	})
	opEntry("ReduceIWithContext", Stores|AggCtx, redModel(sumI), func(b *B) op {
		return ro.ReduceIWithContext(func(ctx context.Context, acc, x int, i int64) (context.Context, int) {
			b.hit("reduce")
			return Mid(ctx), sumI(acc, x, int(i))
		}, 100)
	})

	// ------------------------------------------------------------ Filter family
	keep := func(x int) bool { return x != 1 }
	keepI := func(x, i int) bool { return (x+i)%2 == 0 }
	opEntry("Filter", 0, mfilter(func(x, i int) bool { return keep(x) }), func(b *B) op {
		return ro.Filter(func(x int) bool { b.hit("predicate"); return keep(x) })
	})
	opEntry("FilterWithContext", 0, mfilter(func(x, i int) bool { return keep(x) }), func(b *B) op {
		return ro.FilterWithContext(func(ctx context.Context, x int) (context.Context, bool) { b.hit("predicate"); return Mid(ctx), keep(x) })
	})
	opEntry("FilterI", 0, mfilter(keepI), func(b *B) op {
		return ro.FilterI(func(x int, i int64) bool { b.hit("predicate"); return keepI(x, int(i)) })
	})
	opEntry("FilterIWithContext", 0, mfilter(keepI), func(b *B) op {
		return ro.FilterIWithContext(func(ctx context.Context, x int, i int64) (context.Context, bool) {
			b.hit("predicate")
			return Mid(ctx), keepI(x, int(i))
		})
	})
	distinctModel := func(key func(int) int) func([]src.Script) Expect {
		return m1(func(vs []int, end rec.Kind) ([]string, Term) {
			seen := map[int]bool{}
			var out []string
			for _, v := range vs {
				if !seen[key(v)] {
					seen[key(v)] = true
					out = append(out, rec.Render(v))
				}
			}
			return out, fwd(end)
		})
	}
	opEntry("Distinct", 0, distinctModel(func(x int) int { return x }), func(b *B) op { return ro.Distinct[int]() })
	opEntry("DistinctBy", 0, distinctModel(func(x int) int { return x % 2 }), func(b *B) op {
		return ro.DistinctBy(func(x int) int { b.hit("key"); return x % 2 })
	})
	opEntry("DistinctByWithContext", 0, distinctModel(func(x int) int { return x % 2 }), func(b *B) op {
		return ro.DistinctByWithContext(func(ctx context.Context, x int) (context.Context, int) { b.hit("key"); return Mid(ctx), x % 2 })
	})
	opEntry("IgnoreElements", 0, mfilter(func(x, i int) bool { return false }), func(b *B) op { return ro.IgnoreElements[int]() })

	for _, n := range []int{0, 1, 2, 3} {
		n := n
		opEntry(fmt.Sprintf("Skip(%d)", n), 0, mfilter(func(x, i int) bool { return i >= n }), func(b *B) op { return ro.Skip[int](int64(n)) })
	}
	skipWhileModel := func(p func(x, i int) bool) func([]src.Script) Expect {
		return m1(func(vs []int, end rec.Kind) ([]string, Term) {
			var out []string
			skipping := true
			for i, v := range vs {
				if skipping && p(v, i) {
					continue
				}
				skipping = false
				out = append(out, rec.Render(v))
			}
			return out, fwd(end)
		})
	}
	lt2 := func(x, i int) bool { return x < 2 }
	lt2I := func(x, i int) bool { return x+i < 2 }
	opEntry("SkipWhile", 0, skipWhileModel(lt2), func(b *B) op {
		return ro.SkipWhile(func(x int) bool { b.hit("predicate"); return x < 2 })
	})
	opEntry("SkipWhileWithContext", 0, skipWhileModel(lt2), func(b *B) op {
		return ro.SkipWhileWithContext(func(ctx context.Context, x int) (context.Context, bool) { b.hit("predicate"); return Mid(ctx), x < 2 })
	})
	opEntry("SkipWhileI", 0, skipWhileModel(lt2I), func(b *B) op {
		return ro.SkipWhileI(func(x int, i int64) bool { b.hit("predicate"); return lt2I(x, int(i)) })
	})
	opEntry("SkipWhileIWithContext", 0, skipWhileModel(lt2I), func(b *B) op {
		return ro.SkipWhileIWithContext(func(ctx context.Context, x int, i int64) (context.Context, bool) {
			b.hit("predicate")
			return Mid(ctx), lt2I(x, int(i))
		})
	})
	for _, n := range []int{1, 2, 3} {
		n := n
		opEntry(fmt.Sprintf("SkipLast(%d)", n), Stores, m1(func(vs []int, end rec.Kind) ([]string, Term) {
			if len(vs) <= n {
				return nil, fwd(end)
			}
			return ri(vs[:len(vs)-n]), fwd(end)
		}), func(b *B) op { return ro.SkipLast[int](n) })
	}
	for _, n := range []int{0, 1, 2, 5} {
		n := n
		fl := Flags(0)
		if n == 0 {
			fl = NoSrcOnZero
		}
		opEntry(fmt.Sprintf("Take(%d)", n), fl, m1(func(vs []int, end rec.Kind) ([]string, Term) {
			if n == 0 {
				return nil, tC
			}
			if len(vs) >= n {
				return ri(vs[:n]), tC
			}
			return ri(vs), fwd(end)
		}), func(b *B) op { return ro.Take[int](int64(n)) })
	}
	takeWhileModel := func(p func(x, i int) bool) func([]src.Script) Expect {
		return m1(func(vs []int, end rec.Kind) ([]string, Term) {
			var out []string
			for i, v := range vs {
				if !p(v, i) {
					return out, tC
				}
				out = append(out, rec.Render(v))
			}
			return out, fwd(end)
		})
	}
	opEntry("TakeWhile", 0, takeWhileModel(lt2), func(b *B) op {
		return ro.TakeWhile(func(x int) bool { b.hit("predicate"); return x < 2 })
	})
	opEntry("TakeWhileWithContext", 0, takeWhileModel(lt2), func(b *B) op {
		return ro.TakeWhileWithContext(func(ctx context.Context, x int) (context.Context, bool) { b.hit("predicate"); return Mid(ctx), x < 2 })
	})
	opEntry("TakeWhileI", 0, takeWhileModel(lt2I), func(b *B) op {
		return ro.TakeWhileI(func(x int, i int64) bool { b.hit("predicate"); return lt2I(x, int(i)) })
	})
	opEntry("TakeWhileIWithContext", 0, takeWhileModel(lt2I), func(b *B) op {
		return ro.TakeWhileIWithContext(func(ctx context.Context, x int, i int64) (context.Context, bool) {
			b.hit("predicate")
			return Mid(ctx), lt2I(x, int(i))
		})
	})
	for _, n := range []int{0, 1, 2, 5} {
		n := n
		fl := Stores
		if n == 0 {
			fl |= NoSrcOnZero
		}
		opEntry(fmt.Sprintf("TakeLast(%d)", n), fl, m1(func(vs []int, end rec.Kind) ([]string, Term) {
			if n == 0 {
				return nil, tC
			}
			if end != rec.Complete {
				return nil, fwd(end)
			}
			if len(vs) > n {
				vs = vs[len(vs)-n:]
			}
			return ri(vs), tC
		}), func(b *B) op { return ro.TakeLast[int](n) })
	}
	opEntry("Head", 0, m1(func(vs []int, end rec.Kind) ([]string, Term) {
		if len(vs) > 0 {
			return ri(vs[:1]), tC
		}
		if end == rec.Complete {
			return nil, tE(ro.ErrHeadEmpty)
		}
		return nil, fwd(end)
	}), func(b *B) op { return ro.Head[int]() })
	opEntry("Tail", Stores, m1(func(vs []int, end rec.Kind) ([]string, Term) {
		if end != rec.Complete {
			return nil, fwd(end)
		}
		if len(vs) == 0 {
			return nil, tE(ro.ErrTailEmpty)
		}
		return ri(vs[len(vs)-1:]), tC
	}), func(b *B) op { return ro.Tail[int]() })
	firstModel := func(p func(x, i int) bool) func([]src.Script) Expect {
		return m1(func(vs []int, end rec.Kind) ([]string, Term) {
			for i, v := range vs {
				if p(v, i) {
					return ri([]int{v}), tC
				}
			}
			if end == rec.Complete {
				return nil, tE(ro.ErrFirstEmpty)
			}
			return nil, fwd(end)
		})
	}
	gt0 := func(x, i int) bool { return x > 0 }
	gt0I := func(x, i int) bool { return x > 0 && i > 0 }
	opEntry("First", 0, firstModel(gt0), func(b *B) op {
		return ro.First(func(x int) bool { b.hit("predicate"); return x > 0 })
	})
	opEntry("FirstWithContext", 0, firstModel(gt0), func(b *B) op {
		return ro.FirstWithContext(func(ctx context.Context, x int) (context.Context, bool) { b.hit("predicate"); return Mid(ctx), x > 0 })
	})
	opEntry("FirstI", 0, firstModel(gt0I), func(b *B) op {
		return ro.FirstI(func(x int, i int64) bool { b.hit("predicate"); return gt0I(x, int(i)) })
	})
	opEntry("FirstIWithContext", 0, firstModel(gt0I), func(b *B) op {
		return ro.FirstIWithContext(func(ctx context.Context, x int, i int64) (context.Context, bool) {
			b.hit("predicate")
			return Mid(ctx), gt0I(x, int(i))
		})
	})
	lastModel := func(p func(x, i int) bool) func([]src.Script) Expect {
		return m1(func(vs []int, end rec.Kind) ([]string, Term) {
			if end != rec.Complete {
				return nil, fwd(end)
			}
			found := -1
			for i, v := range vs {
				if p(v, i) {
					found = i
				}
			}
			if found < 0 {
				return nil, tE(ro.ErrLastEmpty)
			}
			return ri([]int{vs[found]}), tC
		})
	}
	opEntry("Last", Stores, lastModel(gt0), func(b *B) op {
		return ro.Last(func(x int) bool { b.hit("predicate"); return x > 0 })
	})
	opEntry("LastWithContext", Stores, lastModel(gt0), func(b *B) op {
		return ro.LastWithContext(func(ctx context.Context, x int) (context.Context, bool) { b.hit("predicate"); return Mid(ctx), x > 0 })
	})
	opEntry("LastI", Stores, lastModel(gt0I), func(b *B) op {
		return ro.LastI(func(x int, i int64) bool { b.hit("predicate"); return gt0I(x, int(i)) })
	})
	opEntry("LastIWithContext", Stores, lastModel(gt0I), func(b *B) op {
		return ro.LastIWithContext(func(ctx context.Context, x int, i int64) (context.Context, bool) {
			b.hit("predicate")
			return Mid(ctx), gt0I(x, int(i))
		})
	})
	for _, n := range []int{0, 1, 3} {
		n := n
		opEntry(fmt.Sprintf("ElementAt(%d)", n), 0, m1(func(vs []int, end rec.Kind) ([]string, Term) {
			if len(vs) > n {
				return ri(vs[n : n+1]), tC
			}
			if end == rec.Complete {
				return nil, tE(ro.ErrElementAtNotFound)
			}
			return nil, fwd(end)
		}), func(b *B) op { return ro.ElementAt[int](n) })
		opEntry(fmt.Sprintf("ElementAtOrDefault(%d)", n), 0, m1(func(vs []int, end rec.Kind) ([]string, Term) {
			if len(vs) > n {
				return ri(vs[n : n+1]), tC
			}
			if end == rec.Complete {
				return ri([]int{99}), tC
			}
			return nil, fwd(end)
		}), func(b *B) op { return ro.ElementAtOrDefault[int](int64(n), 99) })
	}

	// ------------------------------------------------------------ conditional
	allModel := func(p func(x, i int) bool) func([]src.Script) Expect {
		return magg(func(vs []int) []any {
			for i, v := range vs {
				if !p(v, i) {
					return []any{false}
				}
			}
			return []any{true}
		})
	}
	bEntry("All", AggCtx, allModel(lt2), func(b *B) ro.Observable[bool] {
		return ro.All(func(x int) bool { b.hit("predicate"); return x < 2 })(b.S(0))
	})
	bEntry("AllWithContext", AggCtx, allModel(lt2), func(b *B) ro.Observable[bool] {
		return ro.AllWithContext(func(ctx context.Context, x int) bool { b.hit("predicate"); return x < 2 })(b.S(0))
	})
	bEntry("AllI", AggCtx, allModel(lt2I), func(b *B) ro.Observable[bool] {
		return ro.AllI(func(x int, i int64) bool { b.hit("predicate"); return lt2I(x, int(i)) })(b.S(0))
	})
	bEntry("AllIWithContext", AggCtx, allModel(lt2I), func(b *B) ro.Observable[bool] {
		return ro.AllIWithContext(func(ctx context.Context, x int, i int64) bool { b.hit("predicate"); return lt2I(x, int(i)) })(b.S(0))
	})
	containsModel := func(p func(x, i int) bool) func([]src.Script) Expect {
		return m1(func(vs []int, end rec.Kind) ([]string, Term) {
			for i, v := range vs {
				if p(v, i) {
					return rs(true), tC
				}
			}
			if end == rec.Complete {
				return rs(false), tC
			}
			return nil, fwd(end)
		})
	}
	eq2 := func(x, i int) bool { return x == 2 }
	eq2I := func(x, i int) bool { return x == 2 && i >= 1 }
	bEntry("Contains", AggCtx, containsModel(eq2), func(b *B) ro.Observable[bool] {
		return ro.Contains(func(x int) bool { b.hit("predicate"); return x == 2 })(b.S(0))
	})
	bEntry("ContainsWithContext", AggCtx, containsModel(eq2), func(b *B) ro.Observable[bool] {
		return ro.ContainsWithContext(func(ctx context.Context, x int) bool { b.hit("predicate"); return x == 2 })(b.S(0))
	})
	bEntry("ContainsI", AggCtx, containsModel(eq2I), func(b *B) ro.Observable[bool] {
		return ro.ContainsI(func(x int, i int64) bool { b.hit("predicate"); return eq2I(x, int(i)) })(b.S(0))
	})
	bEntry("ContainsIWithContext", AggCtx, containsModel(eq2I), func(b *B) ro.Observable[bool] {
		return ro.ContainsIWithContext(func(ctx context.Context, x int, i int64) bool { b.hit("predicate"); return eq2I(x, int(i)) })(b.S(0))
	})
	findModel := func(p func(x, i int) bool) func([]src.Script) Expect {
		return m1(func(vs []int, end rec.Kind) ([]string, Term) {
			for i, v := range vs {
				if p(v, i) {
					return ri([]int{v}), tC
				}
			}
			return nil, fwd(end)
		})
	}
	opEntry("Find", 0, findModel(eq2), func(b *B) op {
		return ro.Find(func(x int) bool { b.hit("predicate"); return x == 2 })
	})
	opEntry("FindWithContext", 0, findModel(eq2), func(b *B) op {
		return ro.FindWithContext(func(ctx context.Context, x int) bool { b.hit("predicate"); return x == 2 })
	})
	opEntry("FindI", 0, findModel(eq2I), func(b *B) op {
		return ro.FindI(func(x int, i int64) bool { b.hit("predicate"); return eq2I(x, int(i)) })
	})
	opEntry("FindIWithContext", 0, findModel(eq2I), func(b *B) op {
		return ro.FindIWithContext(func(ctx context.Context, x int, i int64) bool { b.hit("predicate"); return eq2I(x, int(i)) })
	})
	defModel := m1(func(vs []int, end rec.Kind) ([]string, Term) {
		if len(vs) == 0 && end == rec.Complete {
			return ri([]int{42}), tC
		}
		return ri(vs), fwd(end)
	})
	opEntry("DefaultIfEmpty", 0, defModel, func(b *B) op { return ro.DefaultIfEmpty(42) })
	opEntry("DefaultIfEmptyWithContext", CtxExempt, defModel, func(b *B) op {
		return ro.DefaultIfEmptyWithContext(context.WithValue(context.Background(), rec.MidKey, "default"), 42)
	})

	// ------------------------------------------------------------ math
	bEntry("Count", AggCtx, magg(func(vs []int) []any { return []any{int64(len(vs))} }), func(b *B) ro.Observable[int64] {
		return ro.Count[int]()(b.S(0))
	})
	opEntry("Sum", AggCtx, magg(func(vs []int) []any {
		s := 0
		for _, v := range vs {
			s += v
		}
		return []any{s}
	}), func(b *B) op { return ro.Sum[int]() })
	opEntry("Min", Stores, magg(func(vs []int) []any {
		if len(vs) == 0 {
			return nil
		}
		m := vs[0]
		for _, v := range vs {
			if v < m {
				m = v
			}
		}
		return []any{m}
	}), func(b *B) op { return ro.Min[int]() })
	// Max of an empty source emits the zero value: pinned by the repository's tests.
	opEntry("Max", Stores, magg(func(vs []int) []any {
		m := 0
		for i, v := range vs {
			if i == 0 || v > m {
				m = v
			}
		}
		return []any{m}
	}), func(b *B) op { return ro.Max[int]() })
	bEntry("Average", AggCtx, magg(func(vs []int) []any {
		if len(vs) == 0 {
			return []any{math.NaN()}
		}
		s := 0.0
		for _, v := range vs {
			s += float64(v)
		}
		return []any{s / float64(len(vs))}
	}), func(b *B) ro.Observable[float64] { return ro.Average[int]()(b.S(0)) })
	// narrow element types: the mean is representable although the sum of the elements is not
	bEntry("Average[int8](×60)", AggCtx, magg(func(vs []int) []any {
		if len(vs) == 0 {
			return []any{math.NaN()}
		}
		s := 0.0
		for _, v := range vs {
			s += float64(int8(v * 60))
		}
		return []any{s / float64(len(vs))}
	}), func(b *B) ro.Observable[float64] {
		return ro.Average[int8]()(ro.Map(func(x int) int8 { return int8(x * 60) })(b.S(0)))
	})
	bEntry("Average[uint8](×100)", AggCtx, magg(func(vs []int) []any {
		if len(vs) == 0 {
			return []any{math.NaN()}
		}
		s := 0.0
		for _, v := range vs {
			s += float64(uint8(v * 100))
		}
		return []any{s / float64(len(vs))}
	}), func(b *B) ro.Observable[float64] {
		return ro.Average[uint8]()(ro.Map(func(x int) uint8 { return uint8(x * 100) })(b.S(0)))
	})
	f32 := func(x int) float32 {
		if x == 1 {
			return 16777216
		}
		return float32(x)
	}
	bEntry("Average[float32](2^24)", AggCtx, magg(func(vs []int) []any {
		if len(vs) == 0 {
			return []any{math.NaN()}
		}
		s := 0.0
		for _, v := range vs {
			s += float64(f32(v))
		}
		return []any{s / float64(len(vs))}
	}), func(b *B) ro.Observable[float64] {
		return ro.Average[float32]()(ro.Map(f32)(b.S(0)))
	})
	bEntry("Average[int64](max)", AggCtx, magg(func(vs []int) []any {
		if len(vs) == 0 {
			return []any{math.NaN()}
		}
		s := 0.0
		for _, v := range vs {
			s += float64(int64(math.MaxInt64) - int64(v))
		}
		return []any{s / float64(len(vs))}
	}), func(b *B) ro.Observable[float64] {
		return ro.Average[int64]()(ro.Map(func(x int) int64 { return math.MaxInt64 - int64(x) })(b.S(0)))
	})
	opEntry("Clamp", 0, mmap(func(x, i int) any {
		if x < 1 {
			return 1
		}
		if x > 1 {
			return 1
		}
		return x
	}), func(b *B) op { return ro.Clamp(1, 1) })
	opEntry("Clamp(0,1)", 0, mmap(func(x, i int) any {
		if x > 1 {
			return 1
		}
		if x < 0 {
			return 0
		}
		return x
	}), func(b *B) op { return ro.Clamp(0, 1) })
	toF := func(x int) float64 { return float64(x)*1.5 - 1.75 } // -1.75, -0.25, 1.25, ...
	fops := []struct {
		name string
		mk   func() func(ro.Observable[float64]) ro.Observable[float64]
		f    func(float64) float64
	}{
		{"Round", ro.Round, math.Round}, {"Abs", ro.Abs, math.Abs}, {"Floor", ro.Floor, math.Floor},
		{"Ceil", ro.Ceil, math.Ceil}, {"Trunc", ro.Trunc, math.Trunc},
		{"FloorWithPrecision(0)", func() func(ro.Observable[float64]) ro.Observable[float64] { return ro.FloorWithPrecision(0) }, math.Floor},
		{"CeilWithPrecision(0)", func() func(ro.Observable[float64]) ro.Observable[float64] { return ro.CeilWithPrecision(0) }, math.Ceil},
		{"FloorWithPrecision(1)", func() func(ro.Observable[float64]) ro.Observable[float64] { return ro.FloorWithPrecision(1) }, func(x float64) float64 { return math.Floor(x*10) / 10 }},
		{"CeilWithPrecision(1)", func() func(ro.Observable[float64]) ro.Observable[float64] { return ro.CeilWithPrecision(1) }, func(x float64) float64 { return math.Ceil(x*10) / 10 }},
		{"FloorWithPrecision(-1)", func() func(ro.Observable[float64]) ro.Observable[float64] { return ro.FloorWithPrecision(-1) }, func(x float64) float64 { return math.Floor(x/10) * 10 }},
		{"CeilWithPrecision(-1)", func() func(ro.Observable[float64]) ro.Observable[float64] { return ro.CeilWithPrecision(-1) }, func(x float64) float64 { return math.Ceil(x/10) * 10 }},
		// more decimal places than a float64 has: the arbitrary-precision path; the value is unchanged
		{"FloorWithPrecision(400)", func() func(ro.Observable[float64]) ro.Observable[float64] { return ro.FloorWithPrecision(400) }, func(x float64) float64 { return x }},
		{"CeilWithPrecision(400)", func() func(ro.Observable[float64]) ro.Observable[float64] { return ro.CeilWithPrecision(400) }, func(x float64) float64 { return x }},
	}
	for _, fo := range fops {
		fo := fo
		model := mmap(func(x, i int) any { return fo.f(toF(x)) })
		if strings.Contains(fo.name, "Precision") && !strings.Contains(fo.name, "(0)") {
			model = mmapApprox(func(x, i int) float64 { return fo.f(toF(x)) })
		}
		bEntry(fo.name, 0, model, func(b *B) ro.Observable[float64] {
			return fo.mk()(ro.Map(toF)(b.S(0)))
		})
	}

	// values so large that value*10^places overflows a float64: the arbitrary-precision rounding helper
	// (makeRoundWithFactor), which the ordinary magnitudes above never reach; such floats are whole numbers,
	// so rounding to 10 decimal places leaves them unchanged
	toHuge := func(x int) float64 { return (float64(x)*1.5 - 1.75) * 1e300 }
	for _, fo := range []struct {
		name string
		mk   func() func(ro.Observable[float64]) ro.Observable[float64]
	}{
		{"FloorWithPrecision(10)/huge", func() func(ro.Observable[float64]) ro.Observable[float64] { return ro.FloorWithPrecision(10) }},
		{"CeilWithPrecision(10)/huge", func() func(ro.Observable[float64]) ro.Observable[float64] { return ro.CeilWithPrecision(10) }},
	} {
		fo := fo
		bEntry(fo.name, 0, mmapApprox(func(x, i int) float64 { return toHuge(x) }), func(b *B) ro.Observable[float64] {
			return fo.mk()(ro.Map(toHuge)(b.S(0)))
		})
	}

	// ------------------------------------------------------------ combining with constants
	opEntry("StartWith", PassThrough, m1(func(vs []int, end rec.Kind) ([]string, Term) {
		return append(ri([]int{8, 9}), ri(vs)...), fwd(end)
	}), func(b *B) op { return ro.StartWith(8, 9) })
	opEntry("StartWith()", PassThrough, mmap(func(x, i int) any { return x }), func(b *B) op { return ro.StartWith[int]() }, "StartWith")
	opEntry("EndWith", 0, m1(func(vs []int, end rec.Kind) ([]string, Term) {
		if end == rec.Complete {
			return append(ri(vs), ri([]int{8, 9})...), tC
		}
		return ri(vs), fwd(end)
	}), func(b *B) op { return ro.EndWith(8, 9) })
	opEntry("EndWith()", 0, mmap(func(x, i int) any { return x }), func(b *B) op { return ro.EndWith[int]() }, "EndWith")
	bEntry("Pairwise", 0, m1(func(vs []int, end rec.Kind) ([]string, Term) {
		var out []string
		for i := 1; i < len(vs); i++ {
			out = append(out, rec.Render([]int{vs[i-1], vs[i]}))
		}
		return out, fwd(end)
	}), func(b *B) ro.Observable[[]int] { return ro.Pairwise[int]()(b.S(0)) })
	for _, n := range []int{1, 2, 3} {
		n := n
		bEntry(fmt.Sprintf("BufferWithCount(%d)", n), 0, m1(func(vs []int, end rec.Kind) ([]string, Term) {
			var out []string
			i := 0
			for ; i+n <= len(vs); i += n {
				out = append(out, rec.Render(vs[i:i+n]))
			}
			if end == rec.Complete && i < len(vs) {
				out = append(out, rec.Render(vs[i:]))
			}
			return out, fwd(end)
		}), func(b *B) ro.Observable[[]int] { return ro.BufferWithCount[int](n)(b.S(0)) })
	}
	bEntry("Flatten", 0, m1(func(vs []int, end rec.Kind) ([]string, Term) {
		var out []string
		for _, v := range vs {
			for k := 0; k < flatLen(v); k++ {
				out = append(out, rec.Render(v*10+k))
			}
		}
		return out, fwd(end)
	}), func(b *B) ro.Observable[int] {
		return ro.Flatten[int]()(ro.Map(func(x int) []int {
			s := make([]int, flatLen(x))
			for k := range s {
				s[k] = x*10 + k
			}
			return s
		})(b.S(0)))
	})
	bEntry("Cast(ok)", 0, mmap(func(x, i int) any { return x }), func(b *B) ro.Observable[int] {
		return ro.Cast[any, int]()(ro.Map(func(x int) any { return x })(b.S(0)))
	}, "Cast")
	bEntry("Cast(fail on 2)", 0, m1(func(vs []int, end rec.Kind) ([]string, Term) {
		var out []string
		for _, v := range vs {
			if v == 2 {
				return out, Term{K: rec.Error, Has: "unable to cast"}
			}
			out = append(out, rec.Render(v))
		}
		return out, fwd(end)
	}), func(b *B) ro.Observable[int] {
		return ro.Cast[any, int]()(ro.Map(func(x int) any {
			if x == 2 {
				return "two"
			}
			return x
		})(b.S(0)))
	}, "Cast")

	// ------------------------------------------------------------ error handling (single source)
	opEntry("Catch", PassThrough|Resub, m1(func(vs []int, end rec.Kind) ([]string, Term) {
		if end == rec.Error {
			return append(ri(vs), ri([]int{7, 8})...), tC
		}
		return ri(vs), fwd(end)
	}), func(b *B) op {
		return ro.Catch(func(err error) ro.Observable[int] { b.hit("selector"); return ro.Just(7, 8) })
	})
	opEntry("OnErrorReturn", 0, m1(func(vs []int, end rec.Kind) ([]string, Term) {
		if end == rec.Error {
			return append(ri(vs), ri([]int{77})...), tC
		}
		return ri(vs), fwd(end)
	}), func(b *B) op { return ro.OnErrorReturn(77) })
	opEntry("OnErrorResumeNextWith", Blocks|Resub, m1(func(vs []int, end rec.Kind) ([]string, Term) {
		return append(ri(vs), ri([]int{7, 8})...), tC
	}), func(b *B) op { return ro.OnErrorResumeNextWith(ro.Just(7, 8)) })
	// the last source of the list fails: its error - and the context it travels with - ends the output
	opEntry("OnErrorResumeNextWith(Throw)", Blocks|Resub, m1(func(vs []int, end rec.Kind) ([]string, Term) {
		return ri(vs), tE(errFactory)
	}), func(b *B) op { return ro.OnErrorResumeNextWith(ro.Throw[int](errFactory)) }, "OnErrorResumeNextWith")
	opEntry("OnErrorResumeNextWith()", 0, mmap(func(x, i int) any { return x }), func(b *B) op { return ro.OnErrorResumeNextWith[int]() }, "OnErrorResumeNextWith")
	opEntry("ThrowIfEmpty", 0, m1(func(vs []int, end rec.Kind) ([]string, Term) {
		if len(vs) == 0 && end == rec.Complete {
			return nil, tE(errEmpty)
		}
		return ri(vs), fwd(end)
	}), func(b *B) op { return ro.ThrowIfEmpty[int](func() error { b.hit("factory"); return errEmpty }) })
	for _, n := range []int{1, 2} {
		n := n
		opEntry(fmt.Sprintf("RetryWithConfig(max=%d)", n), Blocks|Resub, m1(func(vs []int, end rec.Kind) ([]string, Term) {
			if end == rec.Error {
				var out []string
				for k := 0; k <= n; k++ {
					out = append(out, ri(vs)...)
				}
				return out, tE(src.ErrSrc)
			}
			return ri(vs), fwd(end)
		}), func(b *B) op { return ro.RetryWithConfig[int](ro.RetryConfig{MaxRetries: uint64(n)}) })
	}
	for _, n := range []int{0, 1, 2} {
		n := n
		fl := Blocks | Resub
		if n == 0 {
			fl = NoSrcOnZero
		}
		opEntry(fmt.Sprintf("RepeatWith(%d)", n), fl, m1(func(vs []int, end rec.Kind) ([]string, Term) {
			if n == 0 {
				return nil, tC
			}
			if end == rec.Error {
				return ri(vs), tE(src.ErrSrc)
			}
			var out []string
			for k := 0; k < n; k++ {
				out = append(out, ri(vs)...)
			}
			return out, tC
		}), func(b *B) op { return ro.RepeatWith[int](int64(n)) })
	}
	// DoWhile: run once, then again while condition(index) holds: index 0 → true, 1 → false: two runs.
	loopModel := func(runs int) func([]src.Script) Expect {
		return m1(func(vs []int, end rec.Kind) ([]string, Term) {
			if end == rec.Error {
				return ri(vs), tE(src.ErrSrc)
			}
			var out []string
			for k := 0; k < runs; k++ {
				out = append(out, ri(vs)...)
			}
			return out, tC
		})
	}
	opEntry("DoWhileI", Blocks|Resub, loopModel(2), func(b *B) op {
		return ro.DoWhileI[int](func(i int64) bool { b.hit("condition"); return i < 1 })
	})
	opEntry("DoWhileIWithContext", Blocks|Resub, loopModel(2), func(b *B) op {
		return ro.DoWhileIWithContext[int](func(ctx context.Context, i int64) (context.Context, bool) { b.hit("condition"); return Mid(ctx), i < 1 })
	})
	opEntry("DoWhile", Blocks|Resub, loopModel(3), func(b *B) op {
		n := 0
		_ = n
		return func(s ro.Observable[int]) ro.Observable[int] {
			// the condition closure keeps its own per-pipeline counter: it is user state,
			// so it is re-created per Defer'd build to stay a cold recipe.
			return ro.Defer(func() ro.Observable[int] {
				k := 0
				return ro.DoWhile[int](func() bool { b.hit("condition"); k++; return k < 3 })(s)
			})
		}
	})
	opEntry("DoWhileWithContext", Blocks|Resub, loopModel(3), func(b *B) op {
		return func(s ro.Observable[int]) ro.Observable[int] {
			return ro.Defer(func() ro.Observable[int] {
				k := 0
				return ro.DoWhileWithContext[int](func(ctx context.Context) (context.Context, bool) { b.hit("condition"); k++; return Mid(ctx), k < 3 })(s)
			})
		}
	})
	opEntry("WhileI", Blocks|Resub, loopModel(2), func(b *B) op {
		return ro.WhileI[int](func(i int64) bool { b.hit("condition"); return i < 2 })
	})
	opEntry("WhileIWithContext", Blocks|Resub, loopModel(2), func(b *B) op {
		return ro.WhileIWithContext[int](func(ctx context.Context, i int64) (context.Context, bool) { b.hit("condition"); return Mid(ctx), i < 2 })
	})
	opEntry("While", Blocks|Resub, loopModel(1), func(b *B) op {
		return func(s ro.Observable[int]) ro.Observable[int] {
			return ro.Defer(func() ro.Observable[int] {
				k := 0
				return ro.While[int](func() bool { b.hit("condition"); k++; return k < 2 })(s)
			})
		}
	})
	opEntry("WhileWithContext", Blocks|Resub, loopModel(1), func(b *B) op {
		return func(s ro.Observable[int]) ro.Observable[int] {
			return ro.Defer(func() ro.Observable[int] {
				k := 0
				return ro.WhileWithContext[int](func(ctx context.Context) (context.Context, bool) { b.hit("condition"); k++; return Mid(ctx), k < 2 })(s)
			})
		}
	})
	opEntry("While(false)", 0, m1(func(vs []int, end rec.Kind) ([]string, Term) { return nil, tC }), func(b *B) op {
		return ro.While[int](func() bool { return false })
	}, "While")

	// ------------------------------------------------------------ utility
	ident := mmap(func(x, i int) any { return x })
	tap3 := func(b *B) (func(int), func(error), func()) {
		return func(x int) { b.hit("onNext"); b.note(fmt.Sprint("n", x)) },
			func(e error) { b.hit("onError"); b.note("e") },
			func() { b.hit("onComplete"); b.note("c") }
	}
	tap3c := func(b *B) (func(context.Context, int), func(context.Context, error), func(context.Context)) {
		return func(_ context.Context, x int) { b.hit("onNext"); b.note(fmt.Sprint("n", x)) },
			func(_ context.Context, e error) { b.hit("onError"); b.note("e") },
			func(_ context.Context) { b.hit("onComplete"); b.note("c") }
	}
	opEntry("Tap", 0, ident, func(b *B) op { n, e, c := tap3(b); return ro.Tap(n, e, c) })
	opEntry("Do", 0, ident, func(b *B) op { n, e, c := tap3(b); return ro.Do(n, e, c) })
	opEntry("TapWithContext", 0, ident, func(b *B) op { n, e, c := tap3c(b); return ro.TapWithContext(n, e, c) })
	opEntry("DoWithContext", 0, ident, func(b *B) op { n, e, c := tap3c(b); return ro.DoWithContext(n, e, c) })
	opEntry("TapOnNext", 0, ident, func(b *B) op { n, _, _ := tap3(b); return ro.TapOnNext(n) })
	opEntry("DoOnNext", 0, ident, func(b *B) op { n, _, _ := tap3(b); return ro.DoOnNext(n) })
	opEntry("TapOnNextWithContext", 0, ident, func(b *B) op { n, _, _ := tap3c(b); return ro.TapOnNextWithContext(n) })
	opEntry("DoOnNextWithContext", 0, ident, func(b *B) op { n, _, _ := tap3c(b); return ro.DoOnNextWithContext(n) })
	opEntry("TapOnError", 0, ident, func(b *B) op { _, e, _ := tap3(b); return ro.TapOnError[int](e) })
	opEntry("DoOnError", 0, ident, func(b *B) op { _, e, _ := tap3(b); return ro.DoOnError[int](e) })
	opEntry("TapOnErrorWithContext", 0, ident, func(b *B) op { _, e, _ := tap3c(b); return ro.TapOnErrorWithContext[int](e) })
	opEntry("DoOnErrorWithContext", 0, ident, func(b *B) op { _, e, _ := tap3c(b); return ro.DoOnErrorWithContext[int](e) })
	opEntry("TapOnComplete", 0, ident, func(b *B) op { _, _, c := tap3(b); return ro.TapOnComplete[int](c) })
	opEntry("DoOnComplete", 0, ident, func(b *B) op { _, _, c := tap3(b); return ro.DoOnComplete[int](c) })
	opEntry("TapOnCompleteWithContext", 0, ident, func(b *B) op { _, _, c := tap3c(b); return ro.TapOnCompleteWithContext[int](c) })
	opEntry("DoOnCompleteWithContext", 0, ident, func(b *B) op { _, _, c := tap3c(b); return ro.DoOnCompleteWithContext[int](c) })
	opEntry("TapOnSubscribe", PassThrough, ident, func(b *B) op {
		return ro.TapOnSubscribe[int](func() { b.hit("onSubscribe"); b.note("s") })
	})
	opEntry("DoOnSubscribe", PassThrough, ident, func(b *B) op {
		return ro.DoOnSubscribe[int](func() { b.hit("onSubscribe"); b.note("s") })
	})
	opEntry("TapOnSubscribeWithContext", PassThrough, ident, func(b *B) op {
		return ro.TapOnSubscribeWithContext[int](func(context.Context) { b.hit("onSubscribe"); b.note("s") })
	})
	opEntry("DoOnSubscribeWithContext", PassThrough, ident, func(b *B) op {
		return ro.DoOnSubscribeWithContext[int](func(context.Context) { b.hit("onSubscribe"); b.note("s") })
	})
	opEntry("TapOnFinalize", PassThrough, ident, func(b *B) op {
		return ro.TapOnFinalize[int](func() { b.hit("onFinalize"); b.note("f") })
	})
	opEntry("DoOnFinalize", PassThrough, ident, func(b *B) op {
		return ro.DoOnFinalize[int](func() { b.hit("onFinalize"); b.note("f") })
	})
	opEntry("Serialize", PassThrough, ident, func(b *B) op { return ro.Serialize[int]() })
	bEntry("Materialize", 0, m1(func(vs []int, end rec.Kind) ([]string, Term) {
		var out []string
		for _, v := range vs {
			out = append(out, rec.Render(ro.NewNotificationNext(v)))
		}
		switch end {
		case rec.Complete:
			return append(out, rec.Render(ro.NewNotificationComplete[int]())), tC
		case rec.Error:
			return append(out, rec.Render(ro.NewNotificationError[int](src.ErrSrc))), tC
		}
		return out, Term{}
	}), func(b *B) ro.Observable[ro.Notification[int]] { return ro.Materialize[int]()(b.S(0)) })
	opEntry("Materialize+Dematerialize", 0, ident, func(b *B) op {
		return func(s ro.Observable[int]) ro.Observable[int] {
			return ro.Dematerialize[int]()(ro.Materialize[int]()(s))
		}
	}, "Materialize", "Dematerialize")
	bEntry("TimeInterval", NonDet, nil, func(b *B) ro.Observable[int] {
		return ro.Map(func(v ro.IntervalValue[int]) int { return v.Value })(ro.TimeInterval[int]()(b.S(0)))
	})
	bEntry("Timestamp", NonDet, nil, func(b *B) ro.Observable[int] {
		return ro.Map(func(v ro.TimestampValue[int]) int { return v.Value })(ro.Timestamp[int]()(b.S(0)))
	})
	byName["TimeInterval"].Model = ident
	byName["Timestamp"].Model = ident
	opEntry("DelayEach(0)", 0, ident, func(b *B) op { return ro.DelayEach[int](0) }, "DelayEach")
	opEntry("Delay(1ms)", TimeDriven|Async|Stores|MultiFeed, ident, func(b *B) op { return ro.Delay[int](time.Millisecond) }, "Delay")
	opEntry("Timeout(1h)", TimeDriven|MultiFeed, ident, func(b *B) op { return ro.Timeout[int](time.Hour) }, "Timeout")
	opEntry("ObserveOn(2)", HandOff|Async|Stores|MultiFeed, ident, func(b *B) op { return ro.ObserveOn[int](2) }, "ObserveOn")
	opEntry("SubscribeOn(2)", HandOff|Blocks|Stores|MultiFeed, ident, func(b *B) op { return ro.SubscribeOn[int](2) }, "SubscribeOn")

	// ------------------------------------------------------------ context operators
	opEntry("ContextWithValue", 0, ident, func(b *B) op { return ro.ContextWithValue[int](rec.MidKey, "mid") })
	opEntry("ContextWithTimeout(1h)", 0, ident, func(b *B) op { return ro.ContextWithTimeout[int](time.Hour) }, "ContextWithTimeout")
	opEntry("ContextWithDeadline(far)", 0, ident, func(b *B) op { return ro.ContextWithDeadline[int](time.Now().Add(24 * time.Hour)) }, "ContextWithDeadline")
	opEntry("ContextReset", CtxExempt, ident, func(b *B) op {
		return ro.ContextReset[int](context.WithValue(context.Background(), rec.MidKey, "reset"))
	})
	opEntry("ContextMap", 0, ident, func(b *B) op {
		return ro.ContextMap[int](func(ctx context.Context) context.Context { b.hit("project"); return Mid(ctx) })
	})
	opEntry("ContextMapI", 0, ident, func(b *B) op {
		return ro.ContextMapI[int](func(ctx context.Context, i int64) context.Context { b.hit("project"); return Mid(ctx) })
	})
	opEntry("ThrowOnContextCancel", MultiFeed, ident, func(b *B) op { return ro.ThrowOnContextCancel[int]() })

	// ------------------------------------------------------------ sinks
	bEntry("ToSlice", AggCtx, magg(func(vs []int) []any {
		if vs == nil {
			vs = []int{}
		}
		return []any{vs}
	}), func(b *B) ro.Observable[[]int] { return ro.ToSlice[int]()(b.S(0)) })
	toMapModel := func(k func(x, i int) int) func([]src.Script) Expect {
		return magg(func(vs []int) []any {
			m := map[int]int{}
			for i, v := range vs {
				m[k(v, i)] = v*10 + i
			}
			return []any{m}
		})
	}
	kx := func(x, i int) int { return x % 2 }
	kxi := func(x, i int) int { return (x + i) % 2 }
	bEntry("ToMap", AggCtx, toMapModel(kx), func(b *B) ro.Observable[map[int]int] {
		i := 0
		_ = i
		return ro.Defer(func() ro.Observable[map[int]int] {
			n := 0
			return ro.ToMap(func(x int) (int, int) { b.hit("project"); v := x*10 + n; n++; return x % 2, v })(b.S(0))
		})
	})
	bEntry("ToMapWithContext", AggCtx, toMapModel(kx), func(b *B) ro.Observable[map[int]int] {
		return ro.Defer(func() ro.Observable[map[int]int] {
			n := 0
			return ro.ToMapWithContext(func(_ context.Context, x int) (int, int) { b.hit("project"); v := x*10 + n; n++; return x % 2, v })(b.S(0))
		})
	})
	bEntry("ToMapI", AggCtx, toMapModel(kxi), func(b *B) ro.Observable[map[int]int] {
		return ro.ToMapI(func(x int, i int64) (int, int) { b.hit("project"); return (x + int(i)) % 2, x*10 + int(i) })(b.S(0))
	})
	bEntry("ToMapIWithContext", AggCtx, toMapModel(kxi), func(b *B) ro.Observable[map[int]int] {
		return ro.ToMapIWithContext(func(_ context.Context, x int, i int64) (int, int) {
			b.hit("project")
			return (x + int(i)) % 2, x*10 + int(i)
		})(b.S(0))
	})
}

func init() {
	// The bare source itself (NewObservable* built by the harness): identity.
	opEntry("Bare", NoChain, mmap(func(x, i int) any { return x }), func(b *B) op {
		return func(s ro.Observable[int]) ro.Observable[int] { return s }
	}, "NewObservableWithConcurrencyMode", "NewObservable", "NewSafeObservable", "NewUnsafeObservable", "NewEventuallySafeObservable")
}

type chanPipe struct {
	obs ro.Observable[<-chan ro.Notification[int]]
}

func (p chanPipe) Counted() Pipeline { return P(ro.Count[<-chan ro.Notification[int]]()(p.obs)) }

func (p chanPipe) Subscribe(ctx context.Context, r *rec.Rec, wrapped bool) ro.Subscription {
	render := func(ch <-chan ro.Notification[int]) string {
		go func() { // drain so that the producer side is never blocked by the harness
			for range ch {
			}
		}()
		return "chan"
	}
	var o ro.Observer[<-chan ro.Notification[int]]
	if wrapped {
		o = rec.WrappedWith[<-chan ro.Notification[int]](r, render)
	} else {
		o = rec.RawWith[<-chan ro.Notification[int]](r, render)
	}
	if ctx == nil {
		return p.obs.Subscribe(o)
	}
	return p.obs.SubscribeWithContext(ctx, o)
}

func init() {
	// ToChannel: the subscriber receives exactly one channel, then Complete once the source ended (content: C17).
	for _, n := range []int{0, 2} {
		n := n
		reg(&Entry{Name: fmt.Sprintf("ToChannel(%d)", n), Family: "ToChannel", Flags: HandOff | Async | NoChain | MultiFeed | Stores,
			Build: func(b *B) Pipeline { return chanPipe{ro.ToChannel[int](n)(b.S(0))} },
			Model: m1(func(vs []int, end rec.Kind) ([]string, Term) {
				if end == rec.Next {
					return []string{"chan"}, Term{}
				}
				return []string{"chan"}, tC
			})})
	}
}

// flatLen: length of the slice the Flatten entry's projection builds for value x (any int).
func flatLen(x int) int {
	if x < 0 {
		x = -x
	}
	return x % 4
}
