package catalog

import (
	"context"
	"errors"
	"fmt"
	"time"

	"github.com/samber/lo"
	"github.com/samber/ro"
	"verifharness/internal/rec"
	"verifharness/internal/src"
)

func mEntry[T any](name string, nsrc int, flags Flags, step func(n int) Step, mk func(b *B) ro.Observable[T], exports ...string) {
	mEntryO(name, nsrc, flags, step, nil, mk, exports...)
}

func mEntryO[T any](name string, nsrc int, flags Flags, step func(n int) Step, order []int, mk func(b *B) ro.Observable[T], exports ...string) {
	e := &Entry{Name: name, NSrc: nsrc, Build: func(b *B) Pipeline { return P(mk(b)) }, Flags: flags | MultiFeed, Exports: exports, Order: order}
	if f, ok := any(mk).(func(b *B) ro.Observable[int]); ok {
		e.IntObs = f
	}
	if step != nil {
		e.Step = step
		e.Model = SyncModel(step, order)
	}
	reg(e)
}

func t2s(t lo.Tuple2[int, int]) string { return fmt.Sprintf("{%d %d}", t.A, t.B) }

var errFactory = errors.New("factory-error")

func init() {
	// ------------------------------------------------------------ merge
	mEntry("MergeWith", 2, 0, NewMerge, func(b *B) ro.Observable[int] { return ro.MergeWith(b.S(1))(b.S(0)) })
	mEntry("MergeWith1", 2, 0, NewMerge, func(b *B) ro.Observable[int] { return ro.MergeWith1(b.S(1))(b.S(0)) })
	mEntry("MergeWith2", 3, 0, NewMerge, func(b *B) ro.Observable[int] { return ro.MergeWith2(b.S(1), b.S(2))(b.S(0)) })
	mEntry("MergeWith3", 3, 0, NewMerge, func(b *B) ro.Observable[int] { return ro.MergeWith3(b.S(1), ro.Empty[int](), b.S(2))(b.S(0)) })
	mEntry("MergeWith4", 3, 0, NewMerge, func(b *B) ro.Observable[int] {
		return ro.MergeWith4(b.S(1), ro.Empty[int](), ro.Empty[int](), b.S(2))(b.S(0))
	})
	mEntry("MergeWith5", 3, 0, NewMerge, func(b *B) ro.Observable[int] {
		return ro.MergeWith5(ro.Empty[int](), b.S(1), ro.Empty[int](), ro.Empty[int](), b.S(2))(b.S(0))
	})
	mEntry("Merge", 2, 0, NewMerge, func(b *B) ro.Observable[int] { return ro.Merge(b.S(0), b.S(1)) })
	mEntry("Merge(3)", 3, 0, NewMerge, func(b *B) ro.Observable[int] { return ro.Merge(b.S(0), b.S(1), b.S(2)) }, "Merge")
	mEntry("MergeAll", 2, 0, NewMerge, func(b *B) ro.Observable[int] { return ro.MergeAll[int]()(ro.Just(b.S(0), b.S(1))) })

	// MergeMap / FlatMap: x → Just(x*10, x*10+1)
	inner := func(x int) ro.Observable[int] { return ro.Just(x*10, x*10+1) }
	innerI := func(x, i int) ro.Observable[int] { return ro.Just(x*10, i) }
	fm := func(h func(x, i int) []int) func([]src.Script) Expect {
		return m1(func(vs []int, end rec.Kind) ([]string, Term) {
			var out []string
			for i, v := range vs {
				out = append(out, ri(h(v, i))...)
			}
			return out, fwd(end)
		})
	}
	pl := func(x, i int) []int { return []int{x * 10, x*10 + 1} }
	plI := func(x, i int) []int { return []int{x * 10, i} }
	opEntry("MergeMap", MultiFeed, fm(pl), func(b *B) op {
		return ro.MergeMap(func(x int) ro.Observable[int] { b.hit("project"); return inner(x) })
	})
	opEntry("MergeMapWithContext", MultiFeed, fm(pl), func(b *B) op {
		return ro.MergeMapWithContext(func(_ context.Context, x int) ro.Observable[int] { b.hit("project"); return inner(x) })
	})
	opEntry("MergeMapI", MultiFeed, fm(plI), func(b *B) op {
		return ro.MergeMapI(func(x int, i int64) ro.Observable[int] { b.hit("project"); return innerI(x, int(i)) })
	})
	opEntry("MergeMapIWithContext", MultiFeed, fm(plI), func(b *B) op {
		return ro.MergeMapIWithContext(func(ctx context.Context, x int, i int64) (context.Context, ro.Observable[int]) {
			b.hit("project")
			return Mid(ctx), innerI(x, int(i))
		})
	})
	opEntry("FlatMap", 0, fm(pl), func(b *B) op {
		return ro.FlatMap(func(x int) ro.Observable[int] { b.hit("project"); return inner(x) })
	})
	opEntry("FlatMapWithContext", 0, fm(pl), func(b *B) op {
		return ro.FlatMapWithContext(func(_ context.Context, x int) ro.Observable[int] { b.hit("project"); return inner(x) })
	})
	opEntry("FlatMapI", 0, fm(plI), func(b *B) op {
		return ro.FlatMapI(func(x int, i int64) ro.Observable[int] { b.hit("project"); return innerI(x, int(i)) })
	})
	opEntry("FlatMapIWithContext", 0, fm(plI), func(b *B) op {
		return ro.FlatMapIWithContext(func(_ context.Context, x int, i int64) ro.Observable[int] { b.hit("project"); return innerI(x, int(i)) })
	})

	// ------------------------------------------------------------ concat
	mEntry("ConcatWith", 2, Blocks|Resub, NewConcat, func(b *B) ro.Observable[int] { return ro.ConcatWith(b.S(1))(b.S(0)) })
	mEntry("Concat", 2, Blocks|Resub, NewConcat, func(b *B) ro.Observable[int] { return ro.Concat(b.S(0), b.S(1)) })
	mEntry("Concat(3)", 3, Blocks|Resub, NewConcat, func(b *B) ro.Observable[int] { return ro.Concat(b.S(0), b.S(1), b.S(2)) }, "Concat")
	mEntry("ConcatAll", 2, Blocks|Resub, NewConcat, func(b *B) ro.Observable[int] { return ro.ConcatAll[int]()(ro.Just(b.S(0), b.S(1))) })

	// ------------------------------------------------------------ combineLatest
	mEntry("CombineLatestWith", 2, Stores, NewCombine, func(b *B) ro.Observable[lo.Tuple2[int, int]] { return ro.CombineLatestWith[int](b.S(1))(b.S(0)) })
	mEntry("CombineLatestWith1", 2, Stores, NewCombine, func(b *B) ro.Observable[lo.Tuple2[int, int]] { return ro.CombineLatestWith1[int](b.S(1))(b.S(0)) })
	mEntry("CombineLatest2", 2, Stores, NewCombine, func(b *B) ro.Observable[lo.Tuple2[int, int]] { return ro.CombineLatest2(b.S(0), b.S(1)) })
	mEntry("CombineLatestWith2", 3, Stores, NewCombine, func(b *B) ro.Observable[lo.Tuple3[int, int, int]] {
		return ro.CombineLatestWith2[int](b.S(1), b.S(2))(b.S(0))
	})
	mEntry("CombineLatest3", 3, Stores, NewCombine, func(b *B) ro.Observable[lo.Tuple3[int, int, int]] {
		return ro.CombineLatest3(b.S(0), b.S(1), b.S(2))
	})
	// arities 4 and 5: the extra inputs are constant single-value sources placed first
	// (a sync constant source has delivered its value and completed before the others start).
	k := func(v int) ro.Observable[int] { return ro.Just(v) }
	prefixed := func(consts []int, mk func(n int) Step) func(n int) Step {
		return func(n int) Step { return &prefixStep{inner: mk(n + len(consts)), consts: consts} }
	}
	mEntry("CombineLatestWith3", 3, Stores, prefixed([]int{5}, NewCombine), func(b *B) ro.Observable[lo.Tuple4[int, int, int, int]] {
		return ro.CombineLatestWith3[int](b.S(0), b.S(1), b.S(2))(k(5))
	})
	mEntry("CombineLatest4", 3, Stores, prefixed([]int{5}, NewCombine), func(b *B) ro.Observable[lo.Tuple4[int, int, int, int]] {
		return ro.CombineLatest4(k(5), b.S(0), b.S(1), b.S(2))
	})
	mEntry("CombineLatestWith4", 3, Stores, prefixed([]int{5, 6}, NewCombine), func(b *B) ro.Observable[lo.Tuple5[int, int, int, int, int]] {
		return ro.CombineLatestWith4[int](k(6), b.S(0), b.S(1), b.S(2))(k(5))
	})
	mEntry("CombineLatest5", 3, Stores, prefixed([]int{5, 6}, NewCombine), func(b *B) ro.Observable[lo.Tuple5[int, int, int, int, int]] {
		return ro.CombineLatest5(k(5), k(6), b.S(0), b.S(1), b.S(2))
	})
	mEntry("CombineLatestAll", 2, Stores, NewCombineSlice, func(b *B) ro.Observable[[]int] {
		return ro.CombineLatestAll[int]()(ro.Just(b.S(0), b.S(1)))
	})
	anyOf := func(o ro.Observable[int]) ro.Observable[any] { return ro.Map(func(x int) any { return x })(o) }
	mEntry("CombineLatestAllAny", 2, Stores, NewCombineSlice, func(b *B) ro.Observable[[]any] {
		return ro.CombineLatestAllAny()(ro.Just(anyOf(b.S(0)), anyOf(b.S(1))))
	})
	mEntry("CombineLatestAny", 2, Stores, NewCombineSlice, func(b *B) ro.Observable[[]any] {
		return ro.CombineLatestAny(anyOf(b.S(0)), anyOf(b.S(1)))
	})

	// ------------------------------------------------------------ zip
	mEntry("ZipWith", 2, Stores, NewZip, func(b *B) ro.Observable[lo.Tuple2[int, int]] { return ro.ZipWith[int](b.S(1))(b.S(0)) })
	mEntry("ZipWith1", 2, Stores, NewZip, func(b *B) ro.Observable[lo.Tuple2[int, int]] { return ro.ZipWith1[int](b.S(1))(b.S(0)) })
	mEntry("Zip2", 2, Stores, NewZip, func(b *B) ro.Observable[lo.Tuple2[int, int]] { return ro.Zip2(b.S(0), b.S(1)) })
	mEntry("ZipWith2", 3, Stores, NewZip, func(b *B) ro.Observable[lo.Tuple3[int, int, int]] { return ro.ZipWith2[int](b.S(1), b.S(2))(b.S(0)) })
	mEntry("Zip3", 3, Stores, NewZip, func(b *B) ro.Observable[lo.Tuple3[int, int, int]] { return ro.Zip3(b.S(0), b.S(1), b.S(2)) })
	// higher arities: the extra inputs are never-ending constant streams of the same value
	rep := func(v int) ro.Observable[int] { return ro.Repeat(v, 64) }
	zipPad := func(consts []int) func(n int) Step {
		return func(n int) Step { return &zipPadStep{inner: NewZip(n).(*zipStep), consts: consts} }
	}
	mEntry("ZipWith3", 3, Stores, zipPad([]int{5}), func(b *B) ro.Observable[lo.Tuple4[int, int, int, int]] {
		return ro.ZipWith3[int](b.S(0), b.S(1), b.S(2))(rep(5))
	})
	mEntry("Zip4", 3, Stores, zipPad([]int{5}), func(b *B) ro.Observable[lo.Tuple4[int, int, int, int]] {
		return ro.Zip4(rep(5), b.S(0), b.S(1), b.S(2))
	})
	mEntry("ZipWith4", 3, Stores, zipPad([]int{5, 6}), func(b *B) ro.Observable[lo.Tuple5[int, int, int, int, int]] {
		return ro.ZipWith4[int](rep(6), b.S(0), b.S(1), b.S(2))(rep(5))
	})
	mEntry("Zip5", 3, Stores, zipPad([]int{5, 6}), func(b *B) ro.Observable[lo.Tuple5[int, int, int, int, int]] {
		return ro.Zip5(rep(5), rep(6), b.S(0), b.S(1), b.S(2))
	})
	mEntry("ZipWith5", 3, Stores, zipPad([]int{5, 6, 7}), func(b *B) ro.Observable[lo.Tuple6[int, int, int, int, int, int]] {
		return ro.ZipWith5[int](rep(6), rep(7), b.S(0), b.S(1), b.S(2))(rep(5))
	})
	mEntry("Zip6", 3, Stores, zipPad([]int{5, 6, 7}), func(b *B) ro.Observable[lo.Tuple6[int, int, int, int, int, int]] {
		return ro.Zip6(rep(5), rep(6), rep(7), b.S(0), b.S(1), b.S(2))
	})
	mEntry("Zip", 2, Stores, NewZipSlice, func(b *B) ro.Observable[[]int] { return ro.Zip(b.S(0), b.S(1)) })
	mEntry("ZipAll", 2, Stores, NewZipSlice, func(b *B) ro.Observable[[]int] { return ro.ZipAll[int]()(ro.Just(b.S(0), b.S(1))) })

	// ------------------------------------------------------------ race
	mEntry("RaceWith", 2, 0, NewRace, func(b *B) ro.Observable[int] { return ro.RaceWith(b.S(1))(b.S(0)) })
	mEntry("Race", 2, 0, NewRace, func(b *B) ro.Observable[int] { return ro.Race(b.S(0), b.S(1)) })
	mEntry("Race(3)", 3, 0, NewRace, func(b *B) ro.Observable[int] { return ro.Race(b.S(0), b.S(1), b.S(2)) }, "Race")
	mEntry("Amb", 2, 0, NewRace, func(b *B) ro.Observable[int] { return ro.Amb(b.S(0), b.S(1)) })
	opEntry("RaceWith()", 0, mmap(func(x, i int) any { return x }), func(b *B) op { return ro.RaceWith[int]() }, "RaceWith")

	// ------------------------------------------------------------ until / when
	mEntry("TakeUntil", 2, 0, NewTakeUntil, func(b *B) ro.Observable[int] { return ro.TakeUntil[int](b.S(1))(b.S(0)) })
	mEntry("SkipUntil", 2, 0, NewSkipUntil, func(b *B) ro.Observable[int] { return ro.SkipUntil[int](b.S(1))(b.S(0)) })
	mEntry("BufferWhen", 2, Stores, NewBufferWhen, func(b *B) ro.Observable[[]int] { return ro.BufferWhen[int](b.S(1))(b.S(0)) })
	mEntry("WindowWhen+MergeAll", 2, Stores, NewWindowMerged, func(b *B) ro.Observable[int] {
		return ro.MergeAll[int]()(ro.WindowWhen[int](b.S(1))(b.S(0)))
	}, "WindowWhen")
	// the windows themselves made visible: window k (k >= 1) announces itself with -100-k as it is delivered,
	// every window says -200-k when it completes
	mEntry("WindowWhen(marked)", 2, Stores, NewWindowMarked, func(b *B) ro.Observable[int] {
		return ro.MergeAll[int]()(ro.MapI(func(w ro.Observable[int], k int64) ro.Observable[int] {
			if k == 0 {
				return ro.EndWith(-200)(w)
			}
			return ro.StartWith(-100 - int(k))(ro.EndWith(-200 - int(k))(w))
		})(ro.WindowWhen[int](b.S(1))(b.S(0))))
	}, "WindowWhen")
	mEntry("SampleWhen", 2, Stores, NewSampleWhen, func(b *B) ro.Observable[int] { return ro.SampleWhen[int](b.S(1))(b.S(0)) })
	mEntryO("ThrottleWhen", 2, 0, NewThrottleWhen, []int{1, 0}, func(b *B) ro.Observable[int] { return ro.ThrottleWhen[int](b.S(1))(b.S(0)) })
	mEntry("SequenceEqual", 2, Stores, NewSequenceEqual, func(b *B) ro.Observable[bool] { return ro.SequenceEqual(b.S(1))(b.S(0)) })

	// ------------------------------------------------------------ groupBy (flattened)
	ident := mmap(func(x, i int) any { return x })
	opEntry("GroupBy+MergeAll", Stores, ident, func(b *B) op {
		return func(s ro.Observable[int]) ro.Observable[int] {
			return ro.MergeAll[int]()(ro.GroupBy(func(x int) int { b.hit("key"); return x % 2 })(s))
		}
	}, "GroupBy")
	opEntry("GroupByWithContext+MergeAll", Stores, ident, func(b *B) op {
		return func(s ro.Observable[int]) ro.Observable[int] {
			return ro.MergeAll[int]()(ro.GroupByWithContext(func(ctx context.Context, x int) (context.Context, int) { b.hit("key"); return Mid(ctx), x % 2 })(s))
		}
	}, "GroupByWithContext")
	opEntry("GroupByI+MergeAll", Stores, ident, func(b *B) op {
		return func(s ro.Observable[int]) ro.Observable[int] {
			return ro.MergeAll[int]()(ro.GroupByI(func(x int, i int64) int { b.hit("key"); return (x + int(i)) % 2 })(s))
		}
	}, "GroupByI")
	opEntry("GroupByIWithContext+MergeAll", Stores, ident, func(b *B) op {
		return func(s ro.Observable[int]) ro.Observable[int] {
			return ro.MergeAll[int]()(ro.GroupByIWithContext(func(ctx context.Context, x int, i int64) (context.Context, int) {
				b.hit("key")
				return Mid(ctx), (x + int(i)) % 2
			})(s))
		}
	}, "GroupByIWithContext")

	// ------------------------------------------------------------ time-driven forms of the When operators (long period: the timer never fires)
	bEntry("BufferWithTime(1h)", TimeDriven|MultiFeed|Stores, m1(func(vs []int, end rec.Kind) ([]string, Term) {
		if end == rec.Complete {
			if vs == nil {
				vs = []int{}
			}
			return rs(vs), tC
		}
		return nil, fwd(end)
	}), func(b *B) ro.Observable[[]int] { return ro.BufferWithTime[int](time.Hour)(b.S(0)) }, "BufferWithTime")
	bEntry("BufferWithTimeOrCount(2,1h)", TimeDriven|MultiFeed|Stores, m1(func(vs []int, end rec.Kind) ([]string, Term) {
		var out []string
		i := 0
		for ; i+2 <= len(vs); i += 2 {
			out = append(out, rec.Render(vs[i:i+2]))
		}
		if end == rec.Complete {
			rest := vs[i:]
			if rest == nil || len(rest) == 0 {
				rest = []int{}
			}
			out = append(out, rec.Render(rest))
		}
		return out, fwd(end)
	}), func(b *B) ro.Observable[[]int] { return ro.BufferWithTimeOrCount[int](2, time.Hour)(b.S(0)) }, "BufferWithTimeOrCount")
	opEntry("SampleTime(1h)", TimeDriven|MultiFeed|Stores, mfilter(func(x, i int) bool { return false }), func(b *B) op { return ro.SampleTime[int](time.Hour) }, "SampleTime")
	opEntry("ThrottleTime(1h)", TimeDriven|MultiFeed, mfilter(func(x, i int) bool { return i == 0 }), func(b *B) op { return ro.ThrottleTime[int](time.Hour) }, "ThrottleTime")
	opEntry("ThrottleTime(0)", TimeDriven|MultiFeed, nil, func(b *B) op { return ro.ThrottleTime[int](0) }, "ThrottleTime")

	// ------------------------------------------------------------ connectable / share over a cold source, single subscriber
	opEntry("Share", MultiFeed|NoChain|Hot, ident, func(b *B) op { return ro.Share[int]() })
	opEntry("ShareReplay(2)", MultiFeed|NoChain|KeepsSource|Hot, ident, func(b *B) op { return ro.ShareReplay[int](2) }, "ShareReplay")
	opEntry("ShareWithConfig(behavior)", MultiFeed|NoChain|Hot, m1(func(vs []int, end rec.Kind) ([]string, Term) {
		return append(ri([]int{-1}), ri(vs)...), fwd(end)
	}), func(b *B) op {
		return ro.ShareWithConfig(ro.ShareConfig[int]{Connector: func() ro.Subject[int] { return ro.NewBehaviorSubject(-1) }, ResetOnError: true, ResetOnComplete: true, ResetOnRefCountZero: true})
	}, "ShareWithConfig")
	opEntry("ShareReplayWithConfig(2)", MultiFeed|NoChain|Hot, ident, func(b *B) op {
		return ro.ShareReplayWithConfig[int](2, ro.ShareReplayConfig{ResetOnRefCountZero: true})
	}, "ShareReplayWithConfig")

	// ------------------------------------------------------------ Defer / Iif over given sources
	opEntry("Defer", PassThrough, ident, func(b *B) op {
		return func(s ro.Observable[int]) ro.Observable[int] {
			return ro.Defer(func() ro.Observable[int] { b.hit("factory"); return s })
		}
	})
	mEntry("Iif(true)", 2, 0, func(n int) Step { return &pickStep{base: newBase(2), pick: 0} }, func(b *B) ro.Observable[int] {
		return ro.Defer(ro.Iif(func() bool { b.hit("predicate"); return true }, b.S(0), b.S(1)))
	}, "Iif")
	mEntry("Iif(false)", 2, 0, func(n int) Step { return &pickStep{base: newBase(2), pick: 1} }, func(b *B) ro.Observable[int] {
		return ro.Defer(ro.Iif(func() bool { b.hit("predicate"); return false }, b.S(0), b.S(1)))
	}, "Iif")
}

// pickStep: only source `pick` is ever subscribed and is mirrored.
type pickStep struct {
	base
	pick int
}

func (s *pickStep) Clone() Step     { c := *s; c.base = s.cloneBase(); return &c }
func (s *pickStep) Live(i int) bool { return !s.done && i == s.pick && !s.ended[i] }
func (s *pickStep) On(i int, n src.Notif) ([]string, *Term) {
	switch n.K {
	case rec.Next:
		return ri([]int{n.V}), nil
	case rec.Error:
		s.ended[i] = true
		return nil, s.fail()
	}
	s.ended[i] = true
	return nil, s.complete()
}

// prefixStep adapts a combine step to leading constant single-value completed sources.
type prefixStep struct {
	inner  Step
	consts []int
	init   bool
}

func (p *prefixStep) ensure() {
	if p.init {
		return
	}
	p.init = true
	for i, c := range p.consts {
		p.inner.On(i, src.Notif{K: rec.Next, V: c})
		p.inner.On(i, src.Notif{K: rec.Complete})
	}
}
func (p *prefixStep) Live(i int) bool { p.ensure(); return p.inner.Live(i + len(p.consts)) }
func (p *prefixStep) Done() bool      { p.ensure(); return p.inner.Done() }
func (p *prefixStep) Clone() Step {
	p.ensure()
	return &prefixStep{inner: p.inner.Clone(), consts: p.consts, init: true}
}
func (p *prefixStep) On(i int, n src.Notif) ([]string, *Term) {
	p.ensure()
	return p.inner.On(i+len(p.consts), n)
}

// zipPadStep: zip whose leading inputs are inexhaustible constant streams.
type zipPadStep struct {
	inner  *zipStep
	consts []int
}

func (p *zipPadStep) Live(i int) bool { return p.inner.Live(i) }
func (p *zipPadStep) Done() bool      { return p.inner.Done() }
func (p *zipPadStep) Clone() Step {
	return &zipPadStep{inner: p.inner.Clone().(*zipStep), consts: p.consts}
}
func (p *zipPadStep) On(i int, n src.Notif) ([]string, *Term) {
	out, t := p.inner.On(i, n)
	for k, o := range out {
		// "{a b c}" → "{5 6 a b c}"
		pre := ""
		for _, c := range p.consts {
			pre += fmt.Sprint(c) + " "
		}
		out[k] = "{" + pre + o[1:]
	}
	return out, t
}
