// Package racelog reads the Go race detector's log file (GORACE log_path) and
// turns report blocks into findings keyed by the pair of racing library functions.
package racelog

import (
	"fmt"
	"os"
	"regexp"
	"sort"
	"strings"
)

type Report struct {
	Text    string
	A, B    string // racing access sites (function @ file), "" if not in the library
	InRepo  bool   // at least one racing access (frame #0) lies in a /repo file
	Harness bool   // both racing accesses lie in harness files
}

// Path returns this process's race log file ("" when not running under the driver's race mode).
func Path() string {
	p := os.Getenv("VERIF_RACE_LOG")
	if p == "" {
		return ""
	}
	return fmt.Sprintf("%s.%d", p, os.Getpid())
}

var accessRe = regexp.MustCompile(`^(Read|Write|Previous read|Previous write|Atomic read|Atomic write|Previous atomic read|Previous atomic write) at 0x[0-9a-f]+ by `)

// function names of generic instantiations contain spaces ("pipe[go.shape.struct { A int; B int }]")
var funcRe = regexp.MustCompile(`^  (\S.*)\(\)\s*$`)
var fileRe = regexp.MustCompile(`^      (\S+?):(\d+)`)

var genericRe = regexp.MustCompile(`\[[^\]]*\]`)

// clean reduces a frame's function name to the library function it belongs to:
// generic instantiation suffixes, package paths, harness closure prefixes and
// closure counters are removed ("…catalog.init.2.func73.1.GroupByI[…].5.6.5" → "GroupByI").
func clean(fn string) string {
	fn = genericRe.ReplaceAllString(fn, "")
	if i := strings.LastIndex(fn, "/"); i >= 0 {
		fn = fn[i+1:]
	}
	segs := strings.Split(fn, ".")
	var keep []string
	started := false
	for _, sg := range segs {
		if sg == "" {
			continue
		}
		c := sg[0]
		isName := (c >= 'A' && c <= 'Z') || c == '('
		if !started {
			if !isName {
				continue // package name, init, funcN, counters
			}
			started = true
		}
		if c >= '0' && c <= '9' {
			continue
		}
		if strings.HasPrefix(sg, "func") {
			continue
		}
		keep = append(keep, sg)
	}
	if len(keep) == 0 {
		return fn
	}
	if len(keep) >= 2 && !strings.HasPrefix(keep[0], "(") {
		return keep[len(keep)-1] // innermost library function (ObserveOn.detachOn → detachOn)
	}
	return strings.Join(keep, ".")
}

// Read parses the reports appended to the log since *offset.
func Read(path string, offset *int64) []Report {
	if path == "" {
		return nil
	}
	b, err := os.ReadFile(path)
	if err != nil || int64(len(b)) <= *offset {
		return nil
	}
	text := string(b[*offset:])
	// only consume complete blocks
	last := strings.LastIndex(text, "==================\n")
	if last < 0 {
		return nil
	}
	consumed := text[:last+len("==================\n")]
	*offset += int64(len(consumed))
	var out []Report
	for _, blk := range strings.Split(consumed, "==================\n") {
		if !strings.Contains(blk, "WARNING: DATA RACE") {
			continue
		}
		r := Report{Text: blk}
		lines := strings.Split(blk, "\n")
		var sites []string
		var inRepo []bool
		for i := 0; i < len(lines); i++ {
			if !accessRe.MatchString(lines[i]) {
				continue
			}
			// frame #0 of this access; if it is runtime/sync internals walk down to the first non-runtime frame
			site, repo := "", false
			for j := i + 1; j+1 < len(lines); j += 2 {
				fm := funcRe.FindStringSubmatch(lines[j])
				fl := fileRe.FindStringSubmatch(lines[j+1])
				if fm == nil || fl == nil {
					break
				}
				if strings.HasPrefix(fm[1], "runtime.") || strings.HasPrefix(fm[1], "sync.") || strings.HasPrefix(fm[1], "sync/atomic.") || strings.HasPrefix(fl[1], "/usr/lib/go") {
					continue
				}
				file := fl[1]
				if k := strings.LastIndex(file, "/"); k >= 0 {
					file = file[k+1:]
				}
				site = clean(fm[1]) + "@" + file
				repo = strings.Contains(fl[1], "/repo/") // /repo itself, or a scratch copy …/repo/ (scripts/mutrun.sh)
				break
			}
			sites = append(sites, site)
			inRepo = append(inRepo, repo)
			if len(sites) == 2 {
				break
			}
		}
		for len(sites) < 2 {
			sites = append(sites, "")
			inRepo = append(inRepo, false)
		}
		sort.Strings(sites)
		r.A, r.B = sites[0], sites[1]
		r.InRepo = inRepo[0] || inRepo[1]
		r.Harness = !r.InRepo
		out = append(out, r)
	}
	return out
}

// Key is the finding key of a report.
func (r Report) Key() string { return r.A + "×" + r.B }
