// Package sched is the handler for the library's `verif` hook points:
// seeded yields / jitter to widen interleavings, deterministic park/release,
// and hit counting for evidence.
package sched

import (
	"math/rand/v2"
	"runtime"
	"sync"
	"sync/atomic"
	"time"

	"github.com/samber/ro"
)

type Policy int

const (
	Off Policy = iota
	Count
	Yield
	Jitter
)

var (
	policy  atomic.Int32
	prob    atomic.Int32 // percent
	hitsMu  sync.Mutex
	hits    = map[string]int64{}
	parkMu  sync.Mutex
	parks   = map[string]*park{}
	counted atomic.Bool

	inNext    atomic.Int32
	MaxInNext atomic.Int32
)

type park struct {
	nth     int
	seen    int
	arrived chan struct{}
	release chan struct{}
	used    bool
}

// Install registers the handler once per process.
func Install() {
	ro.VerifSetHandler(handle)
}

// InstallSilent registers a handler with no synchronisation at all (C13).
func InstallSilent(pct int) {
	ro.VerifSetHandler(func(string) {
		if pct > 0 && rand.IntN(100) < pct {
			runtime.Gosched()
		}
	})
}

// Set selects the policy for the following case. pct is the yield probability.
func Set(p Policy, pct int) {
	policy.Store(int32(p))
	prob.Store(int32(pct))
}

// CountHits enables hit counting (mutex: not for C13 mode).
func CountHits(on bool) { counted.Store(on) }

func handle(point string) {
	switch point {
	case "subscriber.next.enter":
		n := inNext.Add(1)
		for {
			m := MaxInNext.Load()
			if n <= m || MaxInNext.CompareAndSwap(m, n) {
				break
			}
		}
	case "subscriber.next.exit":
		inNext.Add(-1)
	}
	if counted.Load() {
		hitsMu.Lock()
		hits[point]++
		hitsMu.Unlock()
	}
	parkMu.Lock()
	pk := parks[point]
	if pk != nil && !pk.used {
		pk.seen++
		if pk.seen == pk.nth {
			pk.used = true
			parkMu.Unlock()
			close(pk.arrived)
			<-pk.release
			return
		}
	}
	parkMu.Unlock()
	switch Policy(policy.Load()) {
	case Yield:
		if rand.IntN(100) < int(prob.Load()) {
			runtime.Gosched()
		}
	case Jitter:
		if rand.IntN(100) < int(prob.Load()) {
			time.Sleep(time.Duration(rand.IntN(200)) * time.Microsecond)
		}
	}
}

// Park arms a park at the nth arrival (1-based) at point. It returns a channel
// closed on arrival and a release function.
func Park(point string, nth int) (arrived <-chan struct{}, release func()) {
	pk := &park{nth: nth, arrived: make(chan struct{}), release: make(chan struct{})}
	parkMu.Lock()
	parks[point] = pk
	parkMu.Unlock()
	var once sync.Once
	return pk.arrived, func() { once.Do(func() { close(pk.release) }) }
}

// ClearParks removes all armed parks (releasing any parked goroutine).
func ClearParks() {
	parkMu.Lock()
	for k, pk := range parks {
		select {
		case <-pk.release:
		default:
			close(pk.release)
		}
		delete(parks, k)
	}
	parkMu.Unlock()
}

// Hits returns and resets the hit counters.
func Hits() map[string]int64 {
	hitsMu.Lock()
	defer hitsMu.Unlock()
	out := hits
	hits = map[string]int64{}
	return out
}

// ResetGauge resets the producers-in-flight gauge.
func ResetGauge() {
	MaxInNext.Store(0)
}
