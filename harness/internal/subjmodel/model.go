// Package subjmodel is the sequential definition of the five subject kinds
// (DESIGN Appendix B): pure state machine, no locks, no goroutines.
package subjmodel

import (
	"fmt"
	"sort"
	"strings"
)

type Kind string

const (
	Publish  Kind = "publish"
	Behavior Kind = "behavior"
	Replay   Kind = "replay"
	Async    Kind = "async"
	Unicast  Kind = "unicast"
)

const (
	Open      = 0
	Errored   = 1
	Completed = 2
)

// Sub is the model of one subscriber.
type Sub struct {
	Active bool
	Trace  []string
	// Auto: the subscriber unsubscribes itself inside the first callback it gets.
	Auto bool
}

// State of a subject. Values are ints rendered as strings; terminal "C" / "E".
type State struct {
	Kind   Kind
	N      int // replay size / unicast buffer (-1 unlimited)
	Status int
	ErrTag string // which error terminated the subject (Status == Errored)
	Mem    []int  // replay buffer / unicast queue / [last] for behavior & async
	HasMem bool   // behavior: always true; async: a value was published
	Subs   map[int]*Sub
	// DropBacklog reproduces the known unicast defect (queued values discarded when the
	// subject terminates without a subscriber); used only to classify violations.
	DropBacklog bool
}

func New(k Kind, n int, initial int) *State {
	s := &State{Kind: k, N: n, Subs: map[int]*Sub{}}
	if k == Behavior {
		s.Mem, s.HasMem = []int{initial}, true
	}
	return s
}

func (s *State) Clone() *State {
	c := *s
	c.Mem = append([]int(nil), s.Mem...)
	c.Subs = map[int]*Sub{}
	for k, v := range s.Subs {
		c.Subs[k] = &Sub{Active: v.Active, Auto: v.Auto, Trace: append([]string(nil), v.Trace...)}
	}
	return &c
}

func (s *State) Key() string {
	var b strings.Builder
	fmt.Fprintf(&b, "%s/%d/%d%s/%v/%v|", s.Kind, s.N, s.Status, s.ErrTag, s.Mem, s.HasMem)
	ids := make([]int, 0, len(s.Subs))
	for id := range s.Subs {
		ids = append(ids, id)
	}
	sort.Ints(ids)
	for _, id := range ids {
		fmt.Fprintf(&b, "%d:%v%v:%s;", id, s.Subs[id].Active, s.Subs[id].Auto, strings.Join(s.Subs[id].Trace, ","))
	}
	return b.String()
}

func (s *State) active() []int {
	var ids []int
	for id, sub := range s.Subs {
		if sub.Active {
			ids = append(ids, id)
		}
	}
	sort.Ints(ids)
	return ids
}

func (s *State) deliver(id int, what string) {
	sub := s.Subs[id]
	if !sub.Active {
		return
	}
	sub.Trace = append(sub.Trace, what)
	if sub.Auto {
		sub.Active = false // it unsubscribed itself inside that callback
	}
}

func (s *State) terminate(what string) {
	for _, id := range s.active() {
		s.deliver(id, what)
		s.Subs[id].Active = false
	}
}

// Next publishes v.
func (s *State) Next(v int) {
	if s.Status != Open {
		return
	}
	val := fmt.Sprint(v)
	switch s.Kind {
	case Publish:
		for _, id := range s.active() {
			s.deliver(id, val)
		}
	case Behavior:
		s.Mem = []int{v}
		for _, id := range s.active() {
			s.deliver(id, val)
		}
	case Replay:
		s.Mem = append(s.Mem, v)
		if s.N >= 0 && len(s.Mem) > s.N {
			s.Mem = s.Mem[len(s.Mem)-s.N:]
		}
		for _, id := range s.active() {
			s.deliver(id, val)
		}
	case Async:
		s.Mem, s.HasMem = []int{v}, true
	case Unicast:
		if a := s.active(); len(a) > 0 {
			s.deliver(a[0], val)
		} else {
			s.Mem = append(s.Mem, v)
			if s.N >= 0 && len(s.Mem) > s.N {
				s.Mem = s.Mem[len(s.Mem)-s.N:]
			}
		}
	}
}

// Error terminates the subject with the error named tag (an ignored second Error leaves the first one in place).
func (s *State) Error(tag ...string) {
	if s.Status != Open {
		return
	}
	s.Status = Errored
	s.ErrTag = strings.Join(tag, "")
	if s.DropBacklog && s.Kind == Unicast && len(s.active()) == 0 {
		s.Mem = nil
	}
	s.terminate("E" + s.ErrTag)
}

func (s *State) Complete() {
	if s.Status != Open {
		return
	}
	s.Status = Completed
	if s.DropBacklog && s.Kind == Unicast && len(s.active()) == 0 {
		s.Mem = nil
	}
	if s.Kind == Async && s.HasMem {
		for _, id := range s.active() {
			s.deliver(id, fmt.Sprint(s.Mem[0]))
		}
	}
	s.terminate("C")
}

// Subscribe attaches subscriber id (a fresh id per call).
func (s *State) Subscribe(id int) {
	sub := &Sub{}
	s.Subs[id] = sub
	term := ""
	switch s.Status {
	case Errored:
		term = "E" + s.ErrTag
	case Completed:
		term = "C"
	}
	switch s.Kind {
	case Publish:
	case Behavior:
		if s.Status == Open {
			sub.Trace = append(sub.Trace, fmt.Sprint(s.Mem[0]))
		}
	case Replay:
		for _, v := range s.Mem {
			sub.Trace = append(sub.Trace, fmt.Sprint(v))
		}
	case Async:
		if s.Status == Completed && s.HasMem {
			sub.Trace = append(sub.Trace, fmt.Sprint(s.Mem[0]))
		}
	case Unicast:
		if s.Status == Open && len(s.active()) > 0 {
			sub.Trace = append(sub.Trace, "E(concurrent)")
			return
		}
		for _, v := range s.Mem {
			sub.Trace = append(sub.Trace, fmt.Sprint(v))
		}
		s.Mem = nil
	}
	if term != "" {
		sub.Trace = append(sub.Trace, term)
		return
	}
	sub.Active = true
}

// SubscribeAuto attaches a subscriber that unsubscribes itself inside the first callback it gets:
// of whatever the subscription replays it keeps the first notification only (the rest of a replay
// is dropped by the closed subscriber - a unicast backlog is consumed all the same), and it is not
// an observer of the subject afterwards.
func (s *State) SubscribeAuto(id int) {
	s.Subscribe(id)
	sub := s.Subs[id]
	sub.Auto = true
	if len(sub.Trace) > 0 {
		sub.Trace = sub.Trace[:1]
		sub.Active = false
	}
}

func (s *State) Unsubscribe(id int) {
	if sub, ok := s.Subs[id]; ok {
		sub.Active = false
	}
}

func (s *State) Count() int { return len(s.active()) }
