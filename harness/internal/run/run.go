// Package run executes catalogue entries over instrumented sources.
package run

import (
	"context"
	"fmt"
	"sync/atomic"
	"time"

	"github.com/samber/ro"
	"verifharness/internal/catalog"
	"verifharness/internal/patience"
	"verifharness/internal/quiesce"
	"verifharness/internal/rec"
	"verifharness/internal/src"
)

type Opts struct {
	Entry   *catalog.Entry
	Chain   []*catalog.Entry // optional: further chainable operators applied after Entry.Op
	Scripts []src.Script     // one per source
	Mode    string           // source concurrency mode
	Wrapped bool
	Ctx     context.Context
	Hit     func(pos string) error
	Async   bool // sources play from their own goroutines
	// Settle forces waiting for quiescence even when a terminal has been seen.
	Settle bool
	// NoWait returns right after Subscribe (caller drives puppets).
	NoWait bool
	Rec    *rec.Rec
	// Tweak adjusts source i before the pipeline is built (fault injection).
	Tweak func(i int, s *src.Source)
}

type Result struct {
	Rec      *rec.Rec
	Srcs     []*src.Source
	Sub      ro.Subscription
	Notes    []string
	Panic    any  // panic escaping Subscribe
	Settled  bool // quiescence reached (only meaningful when waited)
	Pipeline catalog.Pipeline
	B        *catalog.B
}

// Build creates sources and the pipeline without subscribing.
func Build(o Opts) *Result {
	res := &Result{Rec: o.Rec}
	if res.Rec == nil {
		res.Rec = rec.New(o.Entry.Name)
	}
	b := &catalog.B{Hit: o.Hit, Notes: &res.Notes}
	for i := 0; i < o.Entry.NSrc; i++ {
		var sc src.Script
		if i < len(o.Scripts) {
			sc = o.Scripts[i]
		}
		s := src.New(fmt.Sprintf("s%d", i), sc)
		s.Mode = o.Mode
		s.Async = o.Async
		if o.Tweak != nil {
			o.Tweak(i, s)
		}
		res.Srcs = append(res.Srcs, s)
		b.Srcs = append(b.Srcs, s.Observable())
	}
	res.B = b
	if len(o.Chain) > 0 {
		obs := o.Entry.Op(b)(b.S(0))
		for _, c := range o.Chain {
			obs = c.Op(b)(obs)
		}
		res.Pipeline = catalog.P(obs)
	} else {
		res.Pipeline = o.Entry.Pipeline(b)
	}
	return res
}

// Subscribe subscribes the recorder, catching a panic that escapes Subscribe.
func (r *Result) Subscribe(ctx context.Context, wrapped bool) {
	defer func() {
		if e := recover(); e != nil {
			r.Panic = e
		}
	}()
	r.Sub = r.Pipeline.Subscribe(ctx, r.Rec, wrapped)
}

// Seq builds, subscribes and (for asynchronous entries) waits for the outcome.
func Seq(o Opts) *Result {
	res := Build(o)
	res.Subscribe(o.Ctx, o.Wrapped)
	if o.NoWait {
		return res
	}
	if needsWait(o) {
		res.Settled = WaitOutcome(res.Rec, o.Settle, 5*time.Second)
	} else {
		res.Settled = true
	}
	return res
}

func needsWait(o Opts) bool {
	if o.Async || o.Settle {
		return true
	}
	fl := o.Entry.Flags
	for _, c := range o.Chain {
		fl |= c.Flags
	}
	return fl.Has(catalog.Async) || fl.Has(catalog.HandOff) || fl.Has(catalog.TimeDriven)
}

// WaitOutcome waits for the outcome of an asynchronous pipeline: until the
// recorder saw a terminal, or — when none is expected or none arrives — until the
// process is quiescent after a grace period that lets pending timers (≤ a few
// ms in the catalogue) fire. Returns whether quiescence was reached.
func WaitOutcome(r *rec.Rec, forceSettle bool, budget time.Duration) bool {
	deadline := time.Now().Add(budget)
	grace := time.Now().Add(40 * time.Millisecond)
	for time.Now().Before(deadline) {
		if r.Terminal() != rec.Next && !forceSettle {
			break
		}
		if _, ok := quiesce.Settle(2 * time.Millisecond); ok && time.Now().After(grace) {
			return true
		}
		time.Sleep(200 * time.Microsecond)
	}
	_, ok := quiesce.Settle(time.Until(deadline))
	return ok
}

// Cleanup unsubscribes (ignoring panics) so that goroutines parked on behalf of
// this case do not pile up in the worker.
func (r *Result) Cleanup() {
	defer func() { recover() }()
	if r.Sub != nil {
		r.Sub.Unsubscribe()
	}
}

const shortFloor = 120 * time.Millisecond

// WaitEvents waits until the recorder holds want callbacks (want < 0: a terminal one), or - the
// count not arriving - until the floor has passed and the process is quiescent, or the budget is spent.
// Unless the long mode is on (package patience) a floor above 120 ms is shortened to that, guarded by
// a sentinel timer, and the cut is noted for the driver.
func WaitEvents(r *rec.Rec, want int, floor, budget time.Duration) bool {
	start := time.Now()
	short := !patience.Long() && floor > shortFloor
	var fired atomic.Bool
	if short {
		floor = shortFloor
		t := time.AfterFunc(floor, func() { fired.Store(true) })
		defer t.Stop()
	} else {
		fired.Store(true)
	}
	reached := func() bool {
		if want < 0 {
			return r.Terminal() != rec.Next
		}
		return r.Len() >= want
	}
	for {
		if reached() {
			// a short settle lets surplus callbacks (a violation) show up too
			quiesce.Settle(20 * time.Millisecond)
			return true
		}
		el := time.Since(start)
		if el > floor && fired.Load() {
			if _, ok := quiesce.Settle(20 * time.Millisecond); ok {
				if short {
					patience.NoteCut()
				}
				return reached()
			}
		}
		if el > budget {
			return reached()
		}
		time.Sleep(300 * time.Microsecond)
	}
}
