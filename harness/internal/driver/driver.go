// Package driver is the process model shared by all property checks:
// a parent plans a deterministic case list from (tier, seed), shards it over
// worker child processes (same binary, --worker), collects one JSON result per
// case, matches violations against known_findings.json, writes the evidence
// file and prints VIOLATION / KNOWN-FINDING / INCONCLUSIVE lines.
package driver

import (
	"bufio"
	"bytes"
	"encoding/json"
	"flag"
	"fmt"
	"os"
	"os/exec"
	"path/filepath"
	"runtime"
	"sort"
	"strconv"
	"strings"
	"sync"
	"sync/atomic"
	"time"
	"verifharness/internal/patience"
)

// Case is one deterministic unit of work. P holds the property-specific
// descriptor (operator, scripts, schedule seed ...). It must round-trip
// through JSON.
type Case struct {
	ID   string            `json:"id"`
	Race bool              `json:"race,omitempty"` // run in the -race worker binary
	Solo bool              `json:"solo,omitempty"` // (timing) run with reduced parallelism
	P    map[string]string `json:"p,omitempty"`
}

func (c Case) Get(k string) string { return c.P[k] }
func (c Case) Int(k string) int {
	n, _ := strconv.Atoi(c.P[k])
	return n
}

const (
	Held         = "held"
	Violated     = "violated"
	Inconclusive = "inconclusive"
)

// Result of one case.
type Result struct {
	ID         string           `json:"id"`
	Verdict    string           `json:"verdict"`
	Key        string           `json:"key,omitempty"`     // finding key (property/site/anomaly)
	Msg        string           `json:"msg,omitempty"`     // human readable
	Witness    any              `json:"witness,omitempty"` // trace, history, dump
	Events     int64            `json:"events,omitempty"`  // callbacks / history events observed
	Nontrivial bool             `json:"nontrivial,omitempty"`
	Sig        string           `json:"sig,omitempty"` // signature for distinct counting (e.g. delivery order hash)
	Extra      map[string]int64 `json:"extra,omitempty"`
	Sample     any              `json:"sample,omitempty"`
	More       []Finding        `json:"more,omitempty"`  // additional violations found in the same case
	Ms         int64            `json:"ms,omitempty"`    // wall time of the case
	Dirty      bool             `json:"dirty,omitempty"` // the case left running goroutines behind: restart the worker
}

// Finding is an additional violation reported by a case.
type Finding struct {
	Key     string `json:"key"`
	Msg     string `json:"msg"`
	Witness any    `json:"witness,omitempty"`
}

// Property describes one check.
type Property struct {
	ID        string
	Level     string // exploration | fault_enumeration ...
	Rule      string // how cases are generated and what counts as non-trivial
	Assume    []string
	Plan      func(tier string, seed int64) []Case
	Run       func(c Case) Result
	CaseWatch time.Duration // per-case watchdog (inconclusive unless OnHang says otherwise)
	// OnHang is called inside the worker when a case exceeded CaseWatch; it
	// receives the full goroutine dump and may turn the hang into a verdict.
	OnHang func(c Case, dump string) Result
	// OnCrash is called in the parent when a worker died while running c.
	OnCrash func(c Case, output string) Result
	// Exhaustive describes the exhaustively enumerated scope, if any.
	Exhaustive func(tier string) string
	// Workers overrides the number of parallel workers (0 = NumCPU).
	Workers func(tier string) int
	// Setup runs once in each worker before the first case.
	Setup func()
	// PostProcess lets a property add to evidence coverage (parent side).
	PostProcess func(tier string, results []Result, cov map[string]any)
}

type knownFinding struct {
	Property string `json:"property"`
	Key      string `json:"key"`
	What     string `json:"what"`
	Status   string `json:"status"` // known | fixed
	Commit   string `json:"commit,omitempty"`
}

func verifRoot() string {
	if r := os.Getenv("VERIF_ROOT"); r != "" {
		return r
	}
	return "/verif"
}

func loadKnown(prop string) map[string]knownFinding {
	out := map[string]knownFinding{}
	b, err := os.ReadFile(filepath.Join(verifRoot(), "known_findings.json"))
	if err != nil {
		return out
	}
	var all []knownFinding
	if err := json.Unmarshal(b, &all); err != nil {
		fmt.Fprintf(os.Stderr, "known_findings.json: %v\n", err)
		return out
	}
	for _, k := range all {
		if k.Property == prop && k.Status == "known" {
			out[k.Key] = k
		}
	}
	return out
}

// Main is the entry point of every cmd/<prop> binary.
func Main(p Property) {
	var (
		tier    = flag.String("tier", envOr("VERIF_TIER", "quick"), "quick|thorough")
		seedS   = flag.String("seed", envOr("VERIF_SEED", "1"), "seed")
		worker  = flag.String("worker", "", "internal: shard file")
		out     = flag.String("out", "", "internal: result file")
		replay  = flag.String("replay", "", "replay file")
		raceBin = flag.String("race-bin", "", "path of the -race build of this binary")
		list    = flag.Bool("list", false, "list planned cases")
		only    = flag.String("only", "", "run only cases whose id contains this string (in-process, verbose)")
		seeds   = flag.Int("seeds", envInt("VERIF_SEEDS", 1), "number of consecutive seeds whose plans are united (deterministic cases that repeat are run once)")
	)
	flag.Parse()
	seed, _ := strconv.ParseInt(*seedS, 10, 64)
	if *seeds > 1 {
		// the seeded parts of the plan differ from seed to seed, the exhaustive parts do not
		inner, n := p.Plan, *seeds
		p.Plan = func(tier string, seed int64) []Case {
			seen := map[string]bool{}
			var out []Case
			for i := 0; i < n; i++ {
				for _, c := range inner(tier, seed+int64(i)) {
					kb, _ := json.Marshal(c.P)
					k := c.ID + "|" + string(kb)
					if seen[k] {
						continue
					}
					seen[k] = true
					if i > 0 {
						c.ID = fmt.Sprintf("%s@seed%d", c.ID, seed+int64(i))
					}
					out = append(out, c)
				}
			}
			return out
		}
	}
	if p.CaseWatch == 0 {
		p.CaseWatch = 30 * time.Second
	}
	switch {
	case *worker != "":
		os.Exit(runWorker(p, *worker, *out))
	case *replay != "":
		os.Exit(runReplay(p, *replay))
	case *list:
		for _, c := range p.Plan(*tier, seed) {
			b, _ := json.Marshal(c)
			fmt.Println(string(b))
		}
	case *only != "":
		if p.Setup != nil {
			p.Setup()
		}
		code := 0
		for _, c := range p.Plan(*tier, seed) {
			if strings.Contains(c.ID, *only) {
				r := runOneCatch(p, c)
				b, _ := json.MarshalIndent(r, "", " ")
				fmt.Println(string(b))
				if r.Verdict == Violated {
					code = 1
				}
			}
		}
		os.Exit(code)
	default:
		os.Exit(runParent(p, *tier, seed, *raceBin))
	}
}

func envInt(k string, d int) int {
	if v, err := strconv.Atoi(os.Getenv(k)); err == nil && v > 0 {
		return v
	}
	return d
}

func envOr(k, d string) string {
	if v := os.Getenv(k); v != "" {
		return v
	}
	return d
}

// ---------------------------------------------------------------- worker

type hangExit struct{ r Result }

func runOne(p Property, c Case) (res Result) {
	done := make(chan Result, 1)
	go func() {
		defer func() {
			if e := recover(); e != nil {
				buf := make([]byte, 1<<16)
				buf = buf[:runtime.Stack(buf, false)]
				done <- Result{ID: c.ID, Verdict: Inconclusive, Key: "harness-panic", Msg: fmt.Sprintf("panic in harness/case goroutine: %v\n%s", e, buf)}
			}
		}()
		t0 := time.Now()
		patience.ResetCut()
		r := p.Run(c)
		if r.Verdict != Held && patience.WasCut() && !patience.Long() {
			// a wait was cut short on the quick path: only the verdict of a run with long waits counts
			patience.SetLong(true)
			r = p.Run(c)
			patience.SetLong(false)
			if r.Extra == nil {
				r.Extra = map[string]int64{}
			}
			r.Extra["rerun_with_long_waits"] = 1
		}
		r.ID = c.ID
		r.Ms = time.Since(t0).Milliseconds()
		done <- r
	}()
	select {
	case r := <-done:
		return r
	case <-time.After(p.CaseWatch):
		buf := make([]byte, 8<<20)
		buf = buf[:runtime.Stack(buf, true)]
		if p.OnHang != nil {
			r := p.OnHang(c, string(buf))
			r.ID = c.ID
			panic(hangExit{r})
		}
		panic(hangExit{Result{ID: c.ID, Verdict: Inconclusive, Key: "watchdog", Msg: "case watchdog fired", Witness: trimDump(string(buf))}})
	}
}

func runOneCatch(p Property, c Case) (r Result) {
	defer func() {
		if e := recover(); e != nil {
			if h, ok := e.(hangExit); ok {
				r = h.r
				return
			}
			panic(e)
		}
	}()
	return runOne(p, c)
}

func trimDump(s string) string {
	if len(s) > 20000 {
		return s[:20000] + "\n...[truncated]"
	}
	return s
}

func runWorker(p Property, shardFile, outFile string) int {
	b, err := os.ReadFile(shardFile)
	if err != nil {
		fmt.Fprintln(os.Stderr, err)
		return 2
	}
	var cases []Case
	if err := json.Unmarshal(b, &cases); err != nil {
		fmt.Fprintln(os.Stderr, err)
		return 2
	}
	f, err := os.OpenFile(outFile, os.O_CREATE|os.O_WRONLY|os.O_APPEND, 0o644)
	if err != nil {
		fmt.Fprintln(os.Stderr, err)
		return 2
	}
	defer f.Close()
	w := bufio.NewWriter(f)
	emit := func(kind string, v any) {
		jb, _ := json.Marshal(v)
		w.WriteString(kind)
		w.WriteByte(' ')
		w.Write(jb)
		w.WriteByte('\n')
		w.Flush()
	}
	if p.Setup != nil {
		p.Setup()
	}
	for i, c := range cases {
		emit("START", i)
		var r Result
		hung := false
		func() {
			defer func() {
				if e := recover(); e != nil {
					if h, ok := e.(hangExit); ok {
						r = h.r
						hung = true
						return
					}
					panic(e)
				}
			}()
			r = runOne(p, c)
		}()
		emit("RESULT", r)
		if hung || r.Dirty {
			// goroutines of the hung case cannot be killed: ask for a fresh process
			return 3
		}
	}
	emit("DONE", len(cases))
	return 0
}

// ---------------------------------------------------------------- parent

func runParent(p Property, tier string, seed int64, raceBin string) int {
	t0 := time.Now()
	root := verifRoot()
	cases := p.Plan(tier, seed)
	if len(cases) == 0 {
		fmt.Printf("BROKEN-CHECK property=%s no cases planned\n", p.ID)
		return 2
	}
	work := filepath.Join(root, ".work", fmt.Sprintf("%s-%d", p.ID, os.Getpid()))
	os.MkdirAll(work, 0o755)
	if os.Getenv("VERIF_KEEP_WORK") == "" { // debugging aid: keep journals and race logs
		defer os.RemoveAll(work)
	}

	nw := runtime.NumCPU()
	if p.Workers != nil {
		if n := p.Workers(tier); n > 0 {
			nw = n
		}
	}
	self, _ := os.Executable()

	// split into small batches so that a crash loses little and load balances
	type batch struct {
		cases []Case
		race  bool
	}
	var batches []batch
	var plain, race []Case
	for _, c := range cases {
		if c.Race && raceBin != "" {
			race = append(race, c)
		} else {
			plain = append(plain, c)
		}
	}
	mk := func(cs []Case, r bool) {
		if len(cs) == 0 {
			return
		}
		bs := (len(cs) + nw*4 - 1) / (nw * 4)
		if bs < 1 {
			bs = 1
		}
		if bs > 400 {
			bs = 400
		}
		for i := 0; i < len(cs); i += bs {
			j := i + bs
			if j > len(cs) {
				j = len(cs)
			}
			batches = append(batches, batch{cs[i:j], r})
		}
	}
	mk(race, true) // race batches first: they are the slowest
	mk(plain, false)

	var mu sync.Mutex
	var results []Result
	var next int32 = -1
	var wg sync.WaitGroup
	var batchSeq int32
	for w := 0; w < nw; w++ {
		wg.Add(1)
		go func() {
			defer wg.Done()
			for {
				bi := int(atomic.AddInt32(&next, 1))
				if bi >= len(batches) {
					return
				}
				b := batches[bi]
				rem := b.cases
				for len(rem) > 0 {
					n := atomic.AddInt32(&batchSeq, 1)
					shard := filepath.Join(work, fmt.Sprintf("shard-%d.json", n))
					outf := filepath.Join(work, fmt.Sprintf("out-%d.jsonl", n))
					logf := filepath.Join(work, fmt.Sprintf("log-%d.txt", n))
					jb, _ := json.Marshal(rem)
					os.WriteFile(shard, jb, 0o644)
					bin := self
					if b.race {
						bin = raceBin
					}
					budget := time.Duration(len(rem))*p.CaseWatch + 60*time.Second
					if budget > 45*time.Minute {
						budget = 45 * time.Minute
					}
					cmd := exec.Command("timeout", "-s", "QUIT", fmt.Sprintf("%d", int(budget.Seconds())), bin, "--worker", shard, "--out", outf)
					lf, _ := os.Create(logf)
					cmd.Stdout = lf
					cmd.Stderr = lf
					cmd.Env = append(os.Environ(), "GORACE=halt_on_error=0 log_path="+filepath.Join(work, fmt.Sprintf("race-%d", n)), "VERIF_RACE_LOG="+filepath.Join(work, fmt.Sprintf("race-%d", n)))
					err := cmd.Run()
					lf.Close()
					rs, started, done := readOut(outf)
					mu.Lock()
					results = append(results, rs...)
					mu.Unlock()
					if done {
						rem = nil
						break
					}
					// worker died or asked for a restart
					if started >= len(rs) && started < len(rem) && len(rs) == started {
						// case `started` was in flight with no result
						c := rem[started]
						lb, _ := os.ReadFile(logf)
						var r Result
						if p.OnCrash != nil {
							r = p.OnCrash(c, string(lb))
						} else {
							r = Result{Verdict: Inconclusive, Key: "worker-died", Msg: fmt.Sprintf("worker died (%v)", err), Witness: trimDump(tail(string(lb), 6000))}
						}
						r.ID = c.ID
						mu.Lock()
						results = append(results, r)
						mu.Unlock()
						rem = rem[started+1:]
					} else {
						rem = rem[len(rs):]
					}
				}
			}
		}()
	}
	wg.Wait()

	return report(p, tier, seed, cases, results, time.Since(t0))
}

func tail(s string, n int) string {
	if len(s) > n {
		return s[len(s)-n:]
	}
	return s
}

func readOut(path string) (rs []Result, started int, done bool) {
	f, err := os.Open(path)
	if err != nil {
		return nil, 0, false
	}
	defer f.Close()
	sc := bufio.NewScanner(f)
	sc.Buffer(make([]byte, 1<<20), 64<<20)
	started = -1
	for sc.Scan() {
		line := sc.Bytes()
		sp := bytes.IndexByte(line, ' ')
		if sp < 0 {
			continue
		}
		switch string(line[:sp]) {
		case "START":
			started, _ = strconv.Atoi(string(line[sp+1:]))
		case "RESULT":
			var r Result
			if json.Unmarshal(line[sp+1:], &r) == nil {
				rs = append(rs, r)
			}
		case "DONE":
			done = true
		}
	}
	if started < 0 {
		started = 0
	}
	return
}

// ---------------------------------------------------------------- report

type replayFile struct {
	Property string `json:"property"`
	Tier     string `json:"tier"`
	Seed     int64  `json:"seed"`
	Case     Case   `json:"case"`
	Key      string `json:"key"`
	Msg      string `json:"msg"`
	Witness  any    `json:"witness,omitempty"`
}

func report(p Property, tier string, seed int64, cases []Case, results []Result, wall time.Duration) int {
	root := verifRoot()
	known := loadKnown(p.ID)
	byID := map[string]Case{}
	for _, c := range cases {
		byID[c.ID] = c
	}
	var events int64
	distinct := map[string]bool{}
	sigs := map[string]bool{}
	extra := map[string]int64{}
	inconclusive := 0
	knownHit := map[string]int{}
	type viol struct {
		r   Result
		key string
		msg string
		wit any
	}
	var viols []viol
	var samples []any
	inconclusiveWhy := map[string]int{}
	sort.Slice(results, func(i, j int) bool { return results[i].ID < results[j].ID })
	for _, r := range results {
		events += r.Events
		if r.Nontrivial {
			distinct[r.ID] = true
		}
		if r.Sig != "" {
			sigs[r.Sig] = true
		}
		for k, v := range r.Extra {
			if strings.HasPrefix(k, "max_") {
				if v > extra[k] {
					extra[k] = v
				}
			} else {
				extra[k] += v
			}
		}
		if r.Sample != nil && len(samples) < 6 {
			samples = append(samples, map[string]any{"case": r.ID, "observed": r.Sample})
		}
		switch r.Verdict {
		case Inconclusive:
			inconclusive++
			inconclusiveWhy[r.Key]++
			fmt.Printf("INCONCLUSIVE property=%s case=%s %s: %s\n", p.ID, r.ID, r.Key, firstLine(r.Msg))
		case Violated:
			viols = append(viols, viol{r, r.Key, r.Msg, r.Witness})
		}
		for _, f := range r.More {
			viols = append(viols, viol{r, f.Key, f.Msg, f.Witness})
		}
	}
	if os.Getenv("VERIF_SLOW") != "" {
		sl := append([]Result(nil), results...)
		sort.Slice(sl, func(i, j int) bool { return sl[i].Ms > sl[j].Ms })
		var tot int64
		for _, r := range sl {
			tot += r.Ms
		}
		fmt.Printf("SLOW total case-ms=%d\n", tot)
		for i := 0; i < 25 && i < len(sl); i++ {
			fmt.Printf("SLOW %6dms %s\n", sl[i].Ms, sl[i].ID)
		}
	}
	missing := len(cases) - len(results)
	exit := 0
	newViol := 0
	os.MkdirAll(filepath.Join(root, "evidence", "replays", p.ID), 0o755)
	printed := map[string]int{}
	for i, v := range viols {
		if k, ok := known[v.key]; ok {
			knownHit[v.key]++
			if knownHit[v.key] == 1 {
				fmt.Printf("KNOWN-FINDING: property=%s %s — %s\n", p.ID, v.key, k.What)
			}
			continue
		}
		newViol++
		exit = 1
		printed[v.key]++
		if printed[v.key] > 3 { // do not flood: 3 replays per key
			continue
		}
		rp := filepath.Join(root, "evidence", "replays", p.ID, fmt.Sprintf("%s-%d.json", sanitize(v.key), i))
		jb, _ := json.MarshalIndent(replayFile{p.ID, tier, seed, byID[v.r.ID], v.key, v.msg, v.wit}, "", " ")
		os.WriteFile(rp, jb, 0o644)
		fmt.Printf("VIOLATION property=%s replay=%s key=%s case=%s :: %s\n", p.ID, rp, v.key, v.r.ID, firstLine(v.msg))
	}
	for k, n := range printed {
		if n > 3 {
			fmt.Printf("  (%d further violations with key %s not printed)\n", n-3, k)
		}
	}
	cov := map[string]any{
		"evaluations":          len(results),
		"distinct_nontrivial":  len(distinct),
		"rule":                 p.Rule,
		"samples":              samples,
		"events_observed":      events,
		"distinct_signatures":  len(sigs),
		"inconclusive":         inconclusive,
		"inconclusive_reasons": inconclusiveWhy,
		"cases_planned":        len(cases),
		"cases_without_result": missing,
		"known_findings_hit":   knownHit,
		"measured":             extra,
	}
	if p.Exhaustive != nil {
		if s := p.Exhaustive(tier); s != "" {
			cov["exhaustive"] = true
			cov["exhaustive_scope"] = s
		}
	}
	if p.PostProcess != nil {
		p.PostProcess(tier, results, cov)
	}
	if len(samples) == 0 {
		cov["samples"] = []any{"no sample recorded"}
	}
	ev := map[string]any{
		"property_id": p.ID,
		"tier":        tier,
		"seed":        seed,
		"level":       p.Level,
		"coverage":    cov,
		"assumptions": p.Assume,
		"wall_s":      wall.Seconds(),
		"violations":  newViol,
	}
	jb, _ := json.MarshalIndent(ev, "", " ")
	os.WriteFile(filepath.Join(root, "evidence", p.ID+".json"), jb, 0o644)

	fmt.Printf("SUMMARY property=%s tier=%s seed=%d cases=%d results=%d nontrivial=%d events=%d signatures=%d inconclusive=%d known=%d new_violations=%d wall=%.1fs\n",
		p.ID, tier, seed, len(cases), len(results), len(distinct), events, len(sigs), inconclusive, len(knownHit), newViol, wall.Seconds())
	if exit == 0 {
		if events == 0 || len(distinct) < 2 {
			fmt.Printf("BROKEN-CHECK property=%s observed nothing (events=%d nontrivial=%d)\n", p.ID, events, len(distinct))
			return 2
		}
		if missing > 0 {
			fmt.Printf("BROKEN-CHECK property=%s %d cases produced no result\n", p.ID, missing)
			return 2
		}
		if inconclusive*20 > len(cases) {
			fmt.Printf("BROKEN-CHECK property=%s inconclusive share too high: %d of %d\n", p.ID, inconclusive, len(cases))
			return 2
		}
	}
	return exit
}

func firstLine(s string) string {
	if i := strings.IndexByte(s, '\n'); i >= 0 {
		s = s[:i]
	}
	if len(s) > 300 {
		s = s[:300] + "…"
	}
	return s
}

func sanitize(s string) string {
	var b strings.Builder
	for _, r := range s {
		switch {
		case r >= 'a' && r <= 'z', r >= 'A' && r <= 'Z', r >= '0' && r <= '9', r == '-', r == '_', r == '.':
			b.WriteRune(r)
		default:
			b.WriteByte('_')
		}
	}
	if b.Len() > 80 {
		return b.String()[:80]
	}
	return b.String()
}

func runReplay(p Property, path string) int {
	b, err := os.ReadFile(path)
	if err != nil {
		fmt.Fprintln(os.Stderr, err)
		return 2
	}
	var rf replayFile
	if err := json.Unmarshal(b, &rf); err != nil {
		fmt.Fprintln(os.Stderr, err)
		return 2
	}
	if p.Setup != nil {
		p.Setup()
	}
	hits := 0
	n := 1
	if rf.Case.P["concurrent"] == "1" {
		n = 20
	}
	for i := 0; i < n; i++ {
		r := runOneCatch(p, rf.Case)
		if r.Verdict == Violated || len(r.More) > 0 {
			hits++
			if hits == 1 {
				jb, _ := json.MarshalIndent(r, "", " ")
				fmt.Println(string(jb))
			}
		}
	}
	fmt.Printf("REPLAY property=%s case=%s violated %d of %d runs\n", p.ID, rf.Case.ID, hits, n)
	if hits > 0 {
		fmt.Printf("VIOLATION property=%s replay=%s\n", p.ID, path)
		return 1
	}
	return 0
}
