// Package patience holds the process-wide waiting mode shared by the driver and the waiting helpers.
//
// A pending runtime timer is invisible in a goroutine dump, so "every goroutine is blocked" does
// not prove that an asynchronous pipeline has nothing more to deliver: when the expected number of
// callbacks does not arrive, a wait has to sit out a floor before it believes a quiescent process.
// On a loaded machine that floor must be seconds; paying it in every case that legitimately
// delivers less than the estimate (SampleTime(1h) …) makes a quick check slow. So cases run with a
// short floor first - guarded by a sentinel timer armed after the pipeline's own timers - and note
// when a wait was cut short. The driver runs a case whose verdict is not "held" after a cut-short
// wait a second time with the long floor (Long() == true), and only that second verdict counts; a
// verdict reached without any cut-short wait is reported as it is.
package patience

import "sync/atomic"

var (
	long atomic.Bool
	cut  atomic.Int64
)

func SetLong(on bool) { long.Store(on) }
func Long() bool      { return long.Load() }
func ResetCut()       { cut.Store(0) }
func NoteCut()        { cut.Add(1) }
func WasCut() bool    { return cut.Load() > 0 }
