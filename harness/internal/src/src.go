// Package src holds the instrumented sources used by all scenarios:
// scripted (sync / async), puppet (harness-driven), attempts (n-th
// subscription plays the n-th script), never-ending.
package src

import (
	"context"
	"errors"
	"fmt"
	"math/rand"
	"runtime"
	"strconv"
	"strings"
	"sync"
	"sync/atomic"
	"time"

	"github.com/samber/ro"
	"verifharness/internal/rec"
)

// ErrSrc is the sentinel error emitted by scripted sources.
var ErrSrc = errors.New("src-error")

type Notif struct {
	K rec.Kind
	V int
}

func (n Notif) String() string {
	switch n.K {
	case rec.Next:
		return strconv.Itoa(n.V)
	case rec.Error:
		return "E"
	}
	return "C"
}

type Script []Notif

// Parse parses "1 2 E 3 C" (tokens separated by spaces or commas).
func Parse(s string) Script {
	var out Script
	s = strings.TrimSpace(s)
	if s == "" || s == "-" {
		return out
	}
	toks := strings.FieldsFunc(s, func(r rune) bool { return r == ' ' || r == ',' })
	for _, t := range toks {
		switch t {
		case "E":
			out = append(out, Notif{K: rec.Error})
		case "C":
			out = append(out, Notif{K: rec.Complete})
		default:
			v, err := strconv.Atoi(t)
			if err != nil {
				panic("bad script token " + t)
			}
			out = append(out, Notif{K: rec.Next, V: v})
		}
	}
	return out
}

func (s Script) String() string {
	if len(s) == 0 {
		return "-"
	}
	parts := make([]string, len(s))
	for i, n := range s {
		parts[i] = n.String()
	}
	return strings.Join(parts, " ")
}

// Legal returns the prefix up to and including the first terminal.
func (s Script) Legal() Script {
	for i, n := range s {
		if n.K != rec.Next {
			return s[:i+1]
		}
	}
	return s
}

// Values returns the values of the legal prefix and its terminal (Next = none).
func (s Script) Values() ([]int, rec.Kind) {
	var vs []int
	for _, n := range s {
		if n.K != rec.Next {
			return vs, n.K
		}
		vs = append(vs, n.V)
	}
	return vs, rec.Next
}

// AllScripts enumerates every script over alphabet values ∪ {E, C} with length ≤ maxLen
// (illegal suffixes included).
func AllScripts(values []int, maxLen int) []Script {
	syms := make([]Notif, 0, len(values)+2)
	for _, v := range values {
		syms = append(syms, Notif{K: rec.Next, V: v})
	}
	syms = append(syms, Notif{K: rec.Error}, Notif{K: rec.Complete})
	out := []Script{{}}
	prev := []Script{{}}
	for l := 1; l <= maxLen; l++ {
		var cur []Script
		for _, p := range prev {
			for _, s := range syms {
				n := make(Script, len(p)+1)
				copy(n, p)
				n[len(p)] = s
				cur = append(cur, n)
			}
		}
		out = append(out, cur...)
		prev = cur
	}
	return out
}

// LegalScripts enumerates scripts of ≤ maxVals values over the alphabet followed by
// each ending in {C, E, none}.
func LegalScripts(values []int, maxVals int) []Script {
	var out []Script
	var rec_ func(prefix Script)
	rec_ = func(prefix Script) {
		for _, end := range []int{0, 1, 2} {
			s := append(Script(nil), prefix...)
			switch end {
			case 0:
				s = append(s, Notif{K: rec.Complete})
			case 1:
				s = append(s, Notif{K: rec.Error})
			}
			out = append(out, s)
		}
		if len(prefix) >= maxVals {
			return
		}
		for _, v := range values {
			rec_(append(append(Script(nil), prefix...), Notif{K: rec.Next, V: v}))
		}
	}
	rec_(nil)
	return out
}

// Emission is the harness-side record of one emission.
type Emission struct {
	Tag    string
	N      Notif
	Begin  int64 // logical clock before the call
	End    int64 // logical clock after the call returned (0 = not returned)
	TBegin int64 // mono ns
	TEnd   int64
	GID    int64
	SubIdx int
}

// Source is an instrumented observable of int.
type Source struct {
	Name string
	Mode string // "safe" (default), "unsafe", "eventually"

	// Scripts[i] is played on the i-th subscription (last one repeats).
	Scripts []Script
	// Async plays the script from a goroutine instead of inside Subscribe.
	Async bool
	// Gap is a per-emission pause for async sources (ns); Jitter randomises it.
	Gap    time.Duration
	Jitter *rand.Rand
	// Start, when non-nil, must be closed before async sources begin emitting.
	Start chan struct{}
	// Yield makes the async goroutine call Gosched between emissions.
	Yield bool
	// Quiet disables all bookkeeping that synchronises (C13 silent mode).
	Quiet bool
	// OnSubscribe is called inside the subscribe function with the 0-based
	// subscription index and the number of other live subscriptions.
	OnSubscribe func(idx int, liveOthers int64, ctx context.Context)
	// PanicInSubscribe makes the subscribe function panic with this value after playing.
	PanicInSubscribe any
	// Foreign makes the source deliver every notification with a context that does NOT descend from
	// the context it was subscribed with (a fresh Background plus the per-item value), as a subject
	// fed by an unrelated producer does: whatever downstream operators promise to attach must then
	// really be attached by them, it cannot be inherited.
	Foreign bool
	// HoldSubscribe, when non-nil, makes the subscribe function of an Async source return only once
	// this channel is closed or the player goroutine has finished: the caller of Subscribe then comes
	// back to a subscription whose worker is already far ahead (e.g. parked inside its release).
	HoldSubscribe <-chan struct{}
	// PanicInTeardown makes every teardown of this source panic with this value (after its bookkeeping).
	PanicInTeardown any

	// Runaway is set once the source has been subscribed subscriptionBudget times.
	Runaway    atomic.Bool
	Subscribed atomic.Int64
	TornDown   atomic.Int64
	Live       atomic.Int64
	MaxLive    atomic.Int64
	ready      atomic.Int64 // subscriptions whose destination is registered
	LateAsk    atomic.Int64 // emissions attempted on a subscription whose teardown already ran

	mu        sync.Mutex
	dests     []ro.Observer[int]
	ctxs      []context.Context
	released  []*atomic.Bool
	tears     []*atomic.Int64
	over      []*atomic.Bool // the subscription issued its own terminal notification
	emissions []Emission
	seq       int
	SubCtxSub []string // subscription marker seen at each Subscribe
	CtxNil    int      // number of subscriptions with a nil ctx
	wg        sync.WaitGroup
}

// subscriptionBudget: see subscribe.
const subscriptionBudget = 2000

func New(name string, scripts ...Script) *Source {
	return &Source{Name: name, Scripts: scripts}
}

func (s *Source) script(idx int) Script {
	if len(s.Scripts) == 0 {
		return nil
	}
	if idx >= len(s.Scripts) {
		return s.Scripts[len(s.Scripts)-1]
	}
	return s.Scripts[idx]
}

// Observable builds the ro.Observable.
func (s *Source) Observable() ro.Observable[int] {
	mode := ro.ConcurrencyModeSafe
	switch s.Mode {
	case "unsafe":
		mode = ro.ConcurrencyModeUnsafe
	case "eventually":
		mode = ro.ConcurrencyModeEventuallySafe
	}
	return ro.NewObservableWithConcurrencyMode(s.subscribe, mode)
}

func (s *Source) subscribe(ctx context.Context, dest ro.Observer[int]) ro.Teardown {
	if s.Quiet {
		return s.subscribeQuiet(ctx, dest)
	}
	idx := int(s.Subscribed.Add(1) - 1)
	live := s.Live.Add(1)
	for {
		m := s.MaxLive.Load()
		if live <= m || s.MaxLive.CompareAndSwap(m, live) {
			break
		}
	}
	rel := &atomic.Bool{}
	tc := &atomic.Int64{}
	s.mu.Lock()
	for len(s.dests) <= idx {
		s.dests = append(s.dests, nil)
		s.ctxs = append(s.ctxs, nil)
		s.released = append(s.released, nil)
		s.tears = append(s.tears, nil)
		s.over = append(s.over, nil)
		s.SubCtxSub = append(s.SubCtxSub, "")
	}
	s.dests[idx] = dest
	s.ctxs[idx] = ctx
	s.released[idx] = rel
	s.tears[idx] = tc
	s.over[idx] = &atomic.Bool{}
	s.ready.Add(1)
	if ctx == nil {
		s.CtxNil++
	} else if v := ctx.Value(rec.SubKey); v != nil {
		s.SubCtxSub[idx] = fmt.Sprint(v)
	}
	s.mu.Unlock()
	if s.OnSubscribe != nil {
		s.OnSubscribe(idx, live-1, ctx)
	}
	var once atomic.Bool
	stop := make(chan struct{})
	teardown := func() {
		s.TornDown.Add(1)
		tc.Add(1)
		if once.CompareAndSwap(false, true) {
			rel.Store(true)
			s.Live.Add(-1)
			close(stop)
		}
		if s.PanicInTeardown != nil {
			panic(s.PanicInTeardown)
		}
	}
	sc := s.script(idx)
	if idx >= subscriptionBudget {
		// a runaway loop of re-subscriptions in the pipeline under test (no workload of the harness subscribes
		// one source that often): from here on the source only completes, which ends the re-subscribing
		// operators, so that the case comes to an end and its oracle can speak
		s.Runaway.Store(true)
		sc = Script{{K: rec.Complete}}
	}
	if s.Async {
		s.wg.Add(1)
		played := make(chan struct{})
		if s.HoldSubscribe != nil {
			defer func() {
				select {
				case <-s.HoldSubscribe:
				case <-played:
				}
			}()
		}
		go func() {
			defer close(played)
			defer s.wg.Done()
			if s.Start != nil {
				select {
				case <-s.Start:
				case <-stop:
					return
				}
			}
			for _, n := range sc {
				if s.Gap > 0 || s.Jitter != nil {
					d := s.Gap
					if s.Jitter != nil {
						s.mu.Lock()
						d += time.Duration(s.Jitter.Int63n(int64(200 * time.Microsecond)))
						s.mu.Unlock()
					}
					select {
					case <-time.After(d):
					case <-stop:
						return
					}
				} else if s.Yield {
					runtime.Gosched()
				}
				select {
				case <-stop:
					return
				default:
				}
				s.emit(idx, n)
			}
		}()
	} else {
		for _, n := range sc {
			s.emit(idx, n)
		}
	}
	if s.PanicInSubscribe != nil {
		panic(s.PanicInSubscribe)
	}
	return teardown
}

func (s *Source) subscribeQuiet(ctx context.Context, dest ro.Observer[int]) ro.Teardown {
	sc := s.script(0)
	if !s.Async {
		for _, n := range sc {
			deliver(dest, ctx, n)
		}
		return func() {}
	}
	stop := make(chan struct{})
	go func() {
		if s.Start != nil {
			<-s.Start
		}
		for _, n := range sc {
			select {
			case <-stop:
				return
			default:
			}
			deliver(dest, ctx, n)
			if s.Yield {
				runtime.Gosched()
			}
		}
	}()
	var once sync.Once
	return func() { once.Do(func() { close(stop) }) }
}

func deliver(dest ro.Observer[int], ctx context.Context, n Notif) {
	switch n.K {
	case rec.Next:
		dest.NextWithContext(ctx, n.V)
	case rec.Error:
		dest.ErrorWithContext(ctx, ErrSrc)
	default:
		dest.CompleteWithContext(ctx)
	}
}

// emit sends one notification to subscription idx, tagging its ctx.
func (s *Source) emit(idx int, n Notif) Emission {
	s.mu.Lock()
	dest, ctx, rel := s.dests[idx], s.ctxs[idx], s.released[idx]
	if n.K != rec.Next {
		s.over[idx].Store(true)
	}
	s.seq++
	tag := fmt.Sprintf("%s#%d", s.Name, s.seq)
	ei := len(s.emissions)
	s.emissions = append(s.emissions, Emission{Tag: tag, N: n, SubIdx: idx})
	s.mu.Unlock()
	if rel.Load() {
		s.LateAsk.Add(1)
	}
	if ctx == nil || s.Foreign {
		ctx = context.Background()
	}
	ictx := context.WithValue(ctx, rec.ItemKey, tag)
	em := Emission{Tag: tag, N: n, SubIdx: idx, GID: rec.GID(), TBegin: rec.Mono(), Begin: rec.Tick()}
	deliver(dest, ictx, n)
	em.End = rec.Tick()
	em.TEnd = rec.Mono()
	s.mu.Lock()
	s.emissions[ei] = em
	s.mu.Unlock()
	return em
}

// Puppet API: emit into the most recent subscription (or a given one).

func (s *Source) last() int { return int(s.ready.Load()) - 1 }

func (s *Source) Next(v int) Emission   { return s.emit(s.last(), Notif{K: rec.Next, V: v}) }
func (s *Source) Error() Emission       { return s.emit(s.last(), Notif{K: rec.Error}) }
func (s *Source) Complete() Emission    { return s.emit(s.last(), Notif{K: rec.Complete}) }
func (s *Source) Send(n Notif) Emission { return s.emit(s.last(), n) }
func (s *Source) SendTo(idx int, n Notif) Emission {
	return s.emit(idx, n)
}

// IsSubscribed reports whether at least one subscription happened.
func (s *Source) IsSubscribed() bool { return s.ready.Load() > 0 }

// Emissions returns a copy of the emission log.
func (s *Source) Emissions() []Emission {
	s.mu.Lock()
	defer s.mu.Unlock()
	return append([]Emission(nil), s.emissions...)
}

// Wait waits for async players to finish.
func (s *Source) Wait() { s.wg.Wait() }

// WaitTimeout waits for async players with a deadline; false = still running.
func (s *Source) WaitTimeout(d time.Duration) bool {
	ch := make(chan struct{})
	go func() { s.wg.Wait(); close(ch) }()
	select {
	case <-ch:
		return true
	case <-time.After(d):
		return false
	}
}

// Released reports Subscribed == TornDown-at-least-once for every subscription (Live == 0).
func (s *Source) Released() bool { return s.Live.Load() == 0 }

// Running returns the number of subscriptions that are neither released nor
// over (a subscription is over once it issued its terminal notification).
func (s *Source) Running() int {
	s.mu.Lock()
	defer s.mu.Unlock()
	n := 0
	for i := range s.released {
		if s.released[i] != nil && !s.released[i].Load() && !s.over[i].Load() {
			n++
		}
	}
	return n
}

// TeardownCounts returns how often the teardown of each subscription ran.
func (s *Source) TeardownCounts() []int64 {
	s.mu.Lock()
	defer s.mu.Unlock()
	out := make([]int64, len(s.tears))
	for i, t := range s.tears {
		if t != nil {
			out[i] = t.Load()
		}
	}
	return out
}

// Summary for witnesses.
func (s *Source) Summary() string {
	return fmt.Sprintf("%s{sub=%d torn=%d live=%d maxlive=%d}", s.Name, s.Subscribed.Load(), s.TornDown.Load(), s.Live.Load(), s.MaxLive.Load())
}

// Multi is a source whose single subscription is fed by several goroutines at
// once, each playing its own (possibly hostile) script. Only meaningful with
// the safe / eventually-safe constructors.
type Multi struct {
	Name    string
	Mode    string
	Scripts []Script
	Yield   bool

	mu        sync.Mutex
	emissions []Emission
	wg        sync.WaitGroup
	TornDown  atomic.Int64
}

func (m *Multi) Observable() ro.Observable[int] {
	mode := ro.ConcurrencyModeSafe
	switch m.Mode {
	case "unsafe":
		mode = ro.ConcurrencyModeUnsafe
	case "eventually":
		mode = ro.ConcurrencyModeEventuallySafe
	}
	return ro.NewObservableWithConcurrencyMode(func(ctx context.Context, dest ro.Observer[int]) ro.Teardown {
		start := make(chan struct{})
		for g, sc := range m.Scripts {
			g, sc := g, sc
			m.wg.Add(1)
			go func() {
				defer m.wg.Done()
				<-start
				for k, n := range sc {
					tag := fmt.Sprintf("%s.g%d#%d", m.Name, g, k)
					ictx := context.WithValue(ctx, rec.ItemKey, tag)
					em := Emission{Tag: tag, N: n, SubIdx: g, Begin: rec.Tick()}
					deliver(dest, ictx, n)
					em.End = rec.Tick()
					m.mu.Lock()
					m.emissions = append(m.emissions, em)
					m.mu.Unlock()
					if m.Yield {
						runtime.Gosched()
					}
				}
			}()
		}
		close(start)
		return func() { m.TornDown.Add(1) }
	}, mode)
}

func (m *Multi) Wait() { m.wg.Wait() }
func (m *Multi) Emissions() []Emission {
	m.mu.Lock()
	defer m.mu.Unlock()
	return append([]Emission(nil), m.emissions...)
}
